import GaeaVerif.Sexp
import GaeaVerif.Model.Merge
import GaeaVerif.Model.MergeClass
import GaeaVerif.Model.MergeUnion
import GaeaVerif.Model.MergeJoin
import GaeaVerif.Model.Route
import GaeaVerif.Drv.C01
import GaeaVerif.Drv.C05
/-
  Driver for C02.
    m (sel RULE META QUERY COND (rows (PLACE k o a s t d)…))   → (ok NCOLS SEG…) | err | panic | unsupported
    m (union RULE META ((QUERY COND)…) (ALL…) UORDER ULIMIT (rows …))   → the same
    m (join JRULE META (j KIND WSIDE ONO TQ) QUERY COND (rows …) (rrows …))  → the same (statement over a JOIN b,
      columns 0…5 of the left and 6…11 of the right table; PLACE -1: a row of a global table)
    s <request> <implementation output>                      → property oracle
  SEG: (run ROW…) the rows of a tie class of the ORDER BY key, sorted by their text;
       (cut N) N rows of a tie class that LIMIT cuts and whose rows differ;
       (badcut ROW…) such rows that are not rows of the class; (extra ROW…) rows beyond the reference.
  The tie classes are those of the reference answer: the statement evaluated
  on one database that holds the rows of every sub-table.
-/
namespace GaeaVerif.Drv.C02
open GaeaVerif GaeaVerif.Route GaeaVerif.Merge

def schema : List Ty := [.int, .int, .int, .str, .str, .dec 2]

def parseKind : Sexp → Option AggKind
  | .atom "count" => some .count | .atom "sum" => some .sum
  | .atom "max" => some .max | .atom "min" => some .min
  | _ => none

def parseArg : Sexp → Option (Option Nat)
  | .atom "star" => some none
  | e => e.asNat?.map some

def parseAlias : Sexp → Option (Option Nat)
  | .atom "-" => some none
  | e => e.asNat?.map some

def parseField : Sexp → Option Field
  | .list [.atom "star"] => some { expr := .star, asName := none }
  | .list [.atom "col", c, a] => do pure { expr := .col (← c.asNat?), asName := (← parseAlias a) }
  | .list [.atom "agg", k, arg, d, a] => do
      pure { expr := .agg (← parseKind k) (← parseArg arg) (← d.asBool?), asName := (← parseAlias a) }
  | _ => none

def parseBy : Sexp → Option By
  | .list [.atom "name", n] => do pure (.name (← n.asNat?))
  | .list [.atom "agg", k, arg, d] => do pure (.agg (← parseKind k) (← parseArg arg) (← d.asBool?))
  | .list [.atom "pos", n] => do pure (.pos (← n.asNat?))
  | _ => none

def parseLim : Sexp → Option Lim
  | .atom "none" => some .none
  | .list [.atom "lim", f, c, o] => do
      let form ← f.asNat?
      if form = 0 then pure (.count (← c.asNat?)) else pure (.offCount (← o.asNat?) (← c.asNat?))
  | _ => none

def parseQuery : Sexp → Option Query
  | .list [.atom "q", d, .list fs, g, .list os, l] => do
      let grp ← match g with
        | .atom "none" => some none
        | .list (.atom "group" :: bs) => (bs.mapM parseBy).map some
        | _ => none
      let order ← os.mapM fun o => match o with
        | .list [b, dsc] => do pure ((← parseBy b), (← dsc.asBool?))
        | _ => none
      pure { distinct := (← d.asBool?), fields := (← fs.mapM parseField), groupBy := grp,
             orderBy := order, limit := (← parseLim l) }
  | _ => none

structure InRow where
  place : Int
  k : Int
  o : Int
  row : Row

def parseRows : Sexp → Option (List InRow)
  | .list (.atom "rows" :: rs) => rs.mapM fun r =>
      match r with
      | .list [p, k, o, a, s, t, d] => do
        let kv ← k.asInt?
        let ov ← o.asInt?
        let av ← match a with | .atom "n" => some Val.null | e => e.asInt?.map Val.int
        let sv ← match s with | .atom "n" => some Val.null | e => e.asBytes?.map Val.str
        let tv ← match t with | .atom "n" => some Val.null | e => e.asBytes?.map Val.str
        let dv ← match d with | .atom "n" => some Val.null | e => e.asInt?.map fun u => Val.dec u 2
        pure { place := (← p.asInt?), k := kv, o := ov, row := [.int kv, .int ov, av, sv, tv, dv] }
      | _ => none
  | _ => none

def fmtVal : Val → String
  | .null => "n"
  | .int i => toString i
  | .dec u s => s!"(d {u} {s})"
  | .str b => s!"(s {bytesToHex b})"

def fmtRow (r : Row) : String := "(" ++ " ".intercalate (r.map fmtVal) ++ ")"

def sortStrings (l : List String) : List String := l.mergeSort fun a b => decide (a ≤ b)

/-- is `sub` a sub-multiset of `sup`? -/
def subMultiset : List String → List String → Bool
  | [], _ => true
  | a :: as, sup => if sup.contains a then subMultiset as (sup.erase a) else false

/-- the segments of `out` along the tie classes of the reference `ref` (sorted,
    without LIMIT) inside the window `[lo, hi)`; `pos`: rows of `out` consumed -/
partial def canonLoop (out : List Row) (ref : List OutRow) (s lo hi : Nat) (acc : List String) : List String :=
  match ref.drop s with
  | [] => if out.isEmpty then acc.reverse else (("(extra " ++ " ".intercalate (out.map fmtRow) ++ ")") :: acc).reverse
  | first :: rest =>
    let cls := first :: rest.takeWhile (fun r => r.key.map fmtVal == first.key.map fmtVal)
    let e := s + cls.length
    let a := max s lo
    let b := min e hi
    if a < b then
      let seg := out.take (b - a)
      let out' := out.drop (b - a)
      let segS := sortStrings (seg.map fmtRow)
      let clsS := cls.map fun r => fmtRow r.vis
      let same := clsS.all (· == clsS.headD "")
      let piece :=
        if (s ≥ lo && e ≤ hi) || same then "(run" ++ String.join (segS.map (" " ++ ·)) ++ ")"
        else if subMultiset segS clsS then s!"(cut {seg.length})"
        else "(badcut" ++ String.join (segS.map (" " ++ ·)) ++ ")"
      canonLoop out' ref e lo hi (piece :: acc)
    else canonLoop out ref e lo hi acc

def canon (out : List Row) (ref : List OutRow) (lim : Option (Nat × Nat)) : List String :=
  let n := ref.length
  let (lo, hi) := match lim with
    | none => (0, n)
    | some (o, c) => (min o n, min (o + c) n)
  canonLoop out ref 0 lo hi []

structure Case where
  schema : List Ty
  q : Query
  cq : CQ
  tables : List (List Row)     -- the routed sub-tables' rows that satisfy WHERE, in sub-table order
  routeErr : Bool
  all : List Row               -- all rows (of every sub-table) that satisfy WHERE
  ref : List OutRow            -- the reference: the statement on `all`, no LIMIT, sorted

def insertSorted (a : Int) : List Int → List Int
  | [] => [a]
  | b :: bs => if a < b then a :: b :: bs else if a = b then b :: bs else b :: insertSorted a bs

/-- one SELECT with its WHERE on the given rows: `none` malformed input, `some none` rejected by the server -/
def mkCase (r : Rule) (qs cond : Sexp) (rows : List InRow) : Option (Option Case) :=
  match parseQuery qs with
  | none => none
  | some q =>
    let condTab : Option (Option (Cond × C05.OtherTab)) :=
      match cond with
      | .atom "none" => some none
      | c => (C05.parseCondN c []).map some
    match condTab with
    | none => none
    | some ct =>
      let sat (x : InRow) : Bool :=
        match ct with
        | none => true
        | some (c, tab) => eval (C05.rowEnv tab x.k x.o) x.k c == some true
      let rows := rows.filter fun x => r.idxs.contains x.place
      let matching := rows.filter sat
      let routed := routeStmt r (ct.map (·.1))
      let places := (rows.map (·.place)).foldr insertSorted []
      let all := places.flatMap fun p => (matching.filter (·.place == p)).map (·.row)
      match compile schema q with
      | none => some none
      | some cq =>
        let tables := match routed with
          | none => []
          | some is => (is.foldr insertSorted []).map fun i => (matching.filter (·.place == i)).map (·.row)
        some (some { schema := schema, q := q, cq := cq, tables := tables, routeErr := routed.isNone, all := all,
                     ref := evalSorted cq all })

def schema2 : List Ty := schema ++ schema

def parseRRows : Sexp → Option (List InRow)
  | .list (.atom "rrows" :: rs) => parseRows (.list (.atom "rows" :: rs))
  | _ => none

/-- a statement over `a JOIN b`: sub-table `i` answers it on (rows of `a` in `i`) ⋈ (rows of `b` in `i`,
    or the global table); the reference is the statement on (all rows of `a`) ⋈ (all rows of `b`) -/
def mkJoinCase (r : Rule) (spec qs cond : Sexp) (lrows rrows : List InRow) : Option (Option Case) :=
  match spec, parseQuery qs with
  | .list [.atom "j", k, ws, ono, _], some q0 =>
    let kind? : Option JoinKind := match k with
      | .atom "inner" => some .inner
      | .atom "left" => some .left
      | _ => none
    let condTab : Option (Option (Cond × C05.OtherTab)) :=
      match cond with
      | .atom "none" => some none
      | c => (C05.parseCondN c []).map some
    match kind?, ws.asNat?, ono.asBool?, condTab with
    | some kind, some wside, some withO, some ct =>
      let q : Query := { q0 with qualified := true }
      let sat (x : InRow) : Bool :=
        match ct with
        | none => true
        | some (c, tab) => eval (C05.rowEnv tab x.k x.o) x.k c == some true
      let keep (rows : List InRow) := rows.filter fun x => x.place == -1 || r.idxs.contains x.place
      let Ls := if wside = 0 then (keep lrows).filter sat else keep lrows
      let Rs := if wside = 1 then (keep rrows).filter sat else keep rrows
      let rowsAt (rows : List InRow) (p : Int) : List Row :=
        (rows.filter fun x => x.place == p || x.place == -1).map (·.row)
      let inOrder (rows : List InRow) : List Row :=
        ((rows.map (·.place)).foldr insertSorted []).flatMap fun p => (rows.filter (·.place == p)).map (·.row)
      let on := joinOn withO
      let all := joinRows kind on schema.length (inOrder Ls) (inOrder Rs)
      match compile schema2 q with
      | none => some none
      | some cq =>
        let routed := routeStmt r (ct.map (·.1))
        let tables := match routed with
          | none => []
          | some is => (is.foldr insertSorted []).map fun i => joinRows kind on schema.length (rowsAt Ls i) (rowsAt Rs i)
        some (some { schema := schema2, q := q, cq := cq, tables := tables, routeErr := routed.isNone, all := all,
                     ref := evalSorted cq all })
    | _, _, _, _ => none
  | _, _ => none

def parseCase (req : Sexp) : Option (Option Case) :=
  match req with
  | .list [.atom "sel", _, mt, qs, cond, rows] =>
    match C01.parseRule mt, parseRows rows with
    | some r, some rows => mkCase r qs cond rows
    | _, _ => none
  | .list [.atom "join", _, mt, spec, qs, cond, rows, rrows] =>
    match C01.parseRule mt, parseRows rows, parseRRows rrows with
    | some r, some lrows, some rrows => mkJoinCase r spec qs cond lrows rrows
    | _, _, _ => none
  | _ => none

def model (c : Case) : String :=
  if c.routeErr then "err" else
  match executeIn c.schema c.q c.tables with
  | .ok r => "(ok " ++ toString r.nfields ++ String.join ((canon r.rows c.ref c.cq.limit).map (" " ++ ·)) ++ ")"
  | .fail => "err"
  | .panic => "panic"

/-- the canonical form of the reference answer itself -/
def expectedOf (ref : List OutRow) (lim : Option (Nat × Nat)) : List String :=
  canon ((window lim ref).map (·.vis)) ref lim

def isDec : Val → Bool
  | .dec _ _ => true
  | _ => false

/-- Property oracle: an error is allowed; a run-time panic is tolerated only
    where the proxy cannot compare the ORDER BY values (decimals; it is turned
    into an error higher up); otherwise the rows must be those of the
    reference, in ORDER BY order, ties in any order. -/
def oracleOf (ref : List OutRow) (lim : Option (Nat × Nat)) (out : Sexp) : String :=
  match out with
  | .atom "err" => "ok"
  -- a backend rejected a rewritten statement: the client gets an error
  | .list [.atom "executor-error", _] => "ok"
  -- the generated text is not a statement
  | .list [.atom "parse-error", _] => "ok"
  | .atom "panic" =>
    if ref.any (fun r => r.key.any isDec) then "ok" else "viol unexpected-panic"
  | .list (.atom "ok" :: _ :: segs) =>
    let got := segs.map toString
    let want := expectedOf ref lim
    if got == want then "ok"
    else
      -- the same rows in another order, or other rows?
      let flat (l : List String) := sortStrings (l.flatMap fun s =>
        match Sexp.parseLine s with
        | some [.list (.atom "run" :: rs)] => rs.map toString
        | _ => [s])
      if flat got == flat want then "viol order-by-not-respected" else "viol rows-differ-from-single-database"
  | _ => "viol unexpected-output"

def oracle (c : Case) (out : Sexp) : String := oracleOf c.ref c.cq.limit out

/-! ### UNION -/

structure UCase where
  sels : List Case
  distinct : List Bool          -- per SELECT after the first: UNION [DISTINCT]
  order : List (By × Bool)
  lim : Lim
  ref : List OutRow

def refNames (c : Case) : List (Option Nat) :=
  match compileFields schema c.q.fields with
  | none => []
  | some items => items.map fun it =>
      match it.2 with
      | some a => some a
      | none => match it.1 with
        | .col col => some col
        | _ => none

/-- the UNION on one database: the SELECTs evaluated on all rows, combined left to
    right (a DISTINCT union removes the duplicates gathered so far), sorted by the
    UNION's ORDER BY (stable) -/
def unionRef (sels : List Case) (distinct : List Bool) (order : List (By × Bool)) : Option (List OutRow) :=
  match sels with
  | [] => none
  | first :: rest =>
    let names := refNames first
    if rest.any (fun c => c.cq.items.length != first.cq.items.length) then none else
    let rowsOf (c : Case) : List Row := (evalCQ c.cq c.all).map (·.vis)
    let rec fold (acc : List Row) : List Case → List Bool → List Row
      | [], _ => acc
      | c :: cs, flags =>
        let acc' := acc ++ rowsOf c
        fold (if flags.headD false then dedupBy (fun r => r.map fmtVal) acc' else acc') cs flags.tail
    let rows := fold (rowsOf first) rest distinct
    let idx (b : By) : Option Nat :=
      match b with
      | .name n => names.findIdx? (· == some n)
      | .pos n => if 1 ≤ n ∧ n ≤ names.length then some (n - 1) else none
      | .agg _ _ _ => none
    match (order.map (·.1)).mapM idx with
    | none => none
    | some idxs =>
      let out := rows.map fun r => ({ vis := r, key := idxs.map fun i => r.getD i .null } : OutRow)
      some (if order.isEmpty then out else out.mergeSort (leOut (order.map (·.2))))

def parseUCase (req : Sexp) : Option (Option UCase) :=
  match req with
  | .list [.atom "union", _, mt, .list sels, .list alls, .list os, l, rows] =>
    match C01.parseRule mt, parseRows rows, parseLim l with
    | some r, some rows, some lim =>
      let cases := sels.mapM fun s => match s with
        | .list [qs, cond] => mkCase r qs cond rows
        | _ => none
      let order := os.mapM fun o => match o with
        | .list [b, dsc] => do pure ((← parseBy b), (← dsc.asBool?))
        | _ => none
      match cases, order, alls.mapM Sexp.asBool? with
      | some cs, some order, some alls =>
        match cs.mapM id with
        | none => some none
        | some cs =>
          let distinct := alls.map (!·)
          match unionRef cs distinct order with
          | none => some none
          | some ref => some (some { sels := cs, distinct := distinct, order := order, lim := lim, ref := ref })
      | _, _, _ => none
    | _, _, _ => none
  | _ => none

def umodel (u : UCase) : String :=
  if u.sels.any (·.routeErr) then "err" else
  match executeUnion schema (u.sels.map fun c => (c.q, c.tables)) u.distinct u.order u.lim with
  | .ok r => "(ok " ++ toString r.fields.length ++ String.join ((canon r.rows u.ref u.lim.toWindow).map (" " ++ ·)) ++ ")"
  | .fail => "err"
  | .panic => "panic"

/-- is the case inside the class of `C02_select_correct_partial`? (evidence only) -/
def classify (c : Case) : String :=
  let kind := if c.q.qualified then "join " else ""
  let shape := kind ++ (if c.tables.length = 1 then "one-table" else if c.tables.length = 0 then "no-table" else "several-tables")
  match rewrite c.q with
  | .ok p =>
    match compile c.schema p.shardQ with
    | some cq' =>
      if !planOK c.schema p c.cq cq' then "outside-plan-invariant " ++ shape
      else if !classOK p c.cq cq' then
        (if c.cq.distinct then (if c.cq.group.isSome then "outside-distinct-group-unselected-order " else "outside-distinct-unselected-order ")
         else if c.cq.group.isSome then "outside-group-limit-pushed " else "outside-shape ") ++ shape
      else "proved " ++ shape
    | none => "outside-shard-statement-rejected " ++ shape
  | _ => "proved-rejected-by-planner " ++ shape

/-- is the UNION inside the class of `union_correct`: every SELECT of the proved class, and
    without `*` when it is routed to no sub-table -/
def classifyU (u : UCase) : String :=
  if u.sels.all (fun c => Supported c.schema c.q &&
      (!c.tables.isEmpty || c.q.fields.all (fun f => f.expr != .star))) then "proved union"
  else "outside union"

def isUnion : Sexp → Bool
  | .list (.atom "union" :: _) => true
  | _ => false

def handle (args : List Sexp) : String :=
  match args with
  | [.atom "k", req] =>
    if isUnion req then
      match parseUCase req with
      | some (some u) => classifyU u
      | _ => "unsupported"
    else
    match parseCase req with
    | some (some c) => classify c
    | _ => "unsupported"
  | [.atom "m", req] =>
    if isUnion req then
      match parseUCase req with
      | none => "bad-input"
      | some none => "unsupported"
      | some (some u) =>
        let out := umodel u
        match Sexp.parseLine out with
        | some [o] => out ++ " | " ++ oracleOf u.ref u.lim.toWindow o
        | _ => out
    else
    match parseCase req with
    | none => "bad-input"
    | some none => "unsupported"
    | some (some c) =>
      let out := model c
      match Sexp.parseLine out with
      | some [o] => out ++ " | " ++ oracle c o
      | _ => out
  | [.atom "s", req, out] =>
    if isUnion req then
      match parseUCase req with
      | none => "bad-input"
      | some none => "ok"
      | some (some u) => oracleOf u.ref u.lim.toWindow out
    else
    match parseCase req with
    | none => "bad-input"
    | some none => "ok"
    | some (some c) => oracle c out
  | _ => "bad-request"

end GaeaVerif.Drv.C02
