import GaeaVerif.Drv.SessConnsCommon
/-
  Driver for C19: the shared session-connection driver with the oracle of C19
  (see Drv/SessConnsCommon.lean and harness/props/sessconns.go).
-/
namespace GaeaVerif.Drv.C19
open GaeaVerif

def handle (args : List Sexp) : String := GaeaVerif.Drv.SessConns.handle "C19" args

end GaeaVerif.Drv.C19
