import GaeaVerif.Sexp
import GaeaVerif.Model.NsStore
/-
  Driver for C33.  Requests (all strings as hex atoms, `-` = empty):
    m (pad DATA BS)                 pkcs5Padding                       → (ok HEX) | panic
    m (unpad DATA)                  pkcs5UnPadding                     → (ok HEX) | fail | panic
    m (enc KEY DATA TABLE)          EncryptECB, then DecryptECB of it  → (ok CIPHER PLAIN') | fail, PLAIN' = (ok HEX) | fail
    m (dec KEY DATA TABLE)          DecryptECB of arbitrary bytes      → (ok HEX) | fail | panic
    m (crypt KEY DATA TABLE)        models.encrypt, then decrypt       → (ok TEXT PLAIN') | fail
    m (decrypt KEY TEXT TABLE)      models.decrypt of arbitrary text   → (ok HEX) | fail | panic
    m (store KEY PFX NAME ENC VIA USERS SLICES)   Verify, Encrypt, UpdateNamespace, [copy to a second store,] LoadNamespace
                                    → (ok USERS SLICES ENC' REST) | (err verify|encrypt|update|load)
    m (clean P) (rel P) (join A B)  filepath.Clean / Rel("/",·) / Join
    m (safe PATH)                   LocalClient.safeJoinPath           → (ok HEX) | (err KIND)
    m (nspath STORAGE PATH) (dirpath STORAGE PATH)   FullNamespacePath / FullDirPath
    m (fs PATH)                     LocalClient.Update under <tmp>/root/store, then the files below <tmp>
                                    → (ok (FILE…)) | (err path) | (err io)
    s <request> <implementation output>   property oracle
  TABLE = ((PLAINBLOCK CIPHERBLOCK)…): the block cipher under KEY on the blocks that occur
  (computed by the Go side with crypto/aes; AES itself is a parameter of the model).
-/
namespace GaeaVerif.Drv.C33
open GaeaVerif GaeaVerif.NsStore

/-! ### parameters: block cipher from a table, base64, a toy cipher, a codec -/

def table? (e : Sexp) : Option (List (Bytes × Bytes)) :=
  match e with
  | .list xs => xs.mapM fun p =>
      match p with
      | .list [a, b] => do pure ((← a.asBytes?), (← b.asBytes?))
      | _ => none
  | _ => none

def missing : Bytes := List.replicate 16 0xee

/-- `aes.NewCipher`: keys of 16, 24 or 32 bytes; the block functions are read off the table. -/
def tableCipher (tbl : List (Bytes × Bytes)) (key : Bytes) : Option Block :=
  if key.length = 16 ∨ key.length = 24 ∨ key.length = 32 then
    some { blockSize := 16,
           encrypt := fun b => match tbl.find? (·.1 == b) with | some p => p.2 | none => missing,
           decrypt := fun b => match tbl.find? (·.2 == b) with | some p => p.1 | none => missing }
  else none

/-- A stand-in block cipher (an involution) for requests whose observed result
    does not depend on the cipher. -/
def toyCipher (key : Bytes) : Option Block :=
  if key.length = 16 ∨ key.length = 24 ∨ key.length = 32 then
    let k := key.foldl (· ^^^ ·) 0x5a
    some { blockSize := 16, encrypt := fun b => (b.map (· ^^^ k)).reverse, decrypt := fun b => b.reverse.map (· ^^^ k) }
  else none

def b64Alphabet : Bytes :=
  "ABCDEFGHIJKLMNOPQRSTUVWXYZabcdefghijklmnopqrstuvwxyz0123456789+/".toUTF8.toList

def b64Char (n : Nat) : UInt8 := b64Alphabet.getD n 0x3d

/-- `base64.StdEncoding.EncodeToString`. -/
def b64Enc : Bytes → Bytes
  | [] => []
  | [a] =>
    let v := a.toNat * 65536
    [b64Char (v / 262144), b64Char (v / 4096 % 64), 0x3d, 0x3d]
  | [a, b] =>
    let v := a.toNat * 65536 + b.toNat * 256
    [b64Char (v / 262144), b64Char (v / 4096 % 64), b64Char (v / 64 % 64), 0x3d]
  | a :: b :: c :: rest =>
    let v := a.toNat * 65536 + b.toNat * 256 + c.toNat
    b64Char (v / 262144) :: b64Char (v / 4096 % 64) :: b64Char (v / 64 % 64) :: b64Char (v % 64) :: b64Enc rest

def b64Val (c : UInt8) : Option Nat :=
  if 0x41 ≤ c ∧ c ≤ 0x5a then some (c.toNat - 0x41)
  else if 0x61 ≤ c ∧ c ≤ 0x7a then some (c.toNat - 0x61 + 26)
  else if 0x30 ≤ c ∧ c ≤ 0x39 then some (c.toNat - 0x30 + 52)
  else if c = 0x2b then some 62
  else if c = 0x2f then some 63
  else none

def skipNL (s : Bytes) : Bytes := s.dropWhile (fun c => c = 0x0a || c = 0x0d)

def emit (dbuf : List Nat) (nbytes : Nat) : Bytes :=
  let v := dbuf.getD 0 0 * 262144 + dbuf.getD 1 0 * 4096 + dbuf.getD 2 0 * 64 + dbuf.getD 3 0
  ([UInt8.ofNat (v / 65536), UInt8.ofNat (v / 256 % 256), UInt8.ofNat (v % 256)] : Bytes).take nbytes

/-- `decodeQuantum` of encoding/base64: bytes produced, rest of the input, error. -/
def b64Quantum : Nat → Bytes → List Nat → Bytes × Bytes × Bool
  | 0, s, _ => ([], s, true)
  | fuel + 1, s, dbuf =>
    if dbuf.length = 4 then (emit dbuf 3, s, false) else
    match s with
    | [] => if dbuf.isEmpty then ([], [], false) else ([], [], true)
    | c :: cs =>
      match b64Val c with
      | some v => b64Quantum fuel cs (dbuf ++ [v])
      | none =>
        if c = 0x0a || c = 0x0d then b64Quantum fuel cs dbuf
        else if c ≠ 0x3d then ([], cs, true)
        else if dbuf.length < 2 then ([], cs, true)
        else
          let after : Option Bytes :=
            if dbuf.length = 2 then
              match skipNL cs with
              | [] => none
              | d :: ds => if d ≠ 0x3d then none else some ds
            else some cs
          match after with
          | none => ([], [], true)
          | some s' =>
            let s' := skipNL s'
            (emit dbuf (dbuf.length - 1), s', !s'.isEmpty)

/-- The bytes `base64.StdEncoding.DecodeString` returns (those decoded before an error). -/
def b64DecFuel : Nat → Bytes → Bytes
  | 0, _ => []
  | fuel + 1, s =>
    if s.isEmpty then [] else
    let (out, rest, err) := b64Quantum (s.length + 5) s []
    if err then out else out ++ b64DecFuel fuel rest

def b64 : Base64 := { encodeToString := b64Enc, decodeString := fun s => b64DecFuel (s.length + 1) s }

/-! ### formatting -/

def fmtR : R Bytes → String
  | .ok b => "(ok " ++ bytesToHex b ++ ")"
  | .fail => "fail"
  | .panic => "panic"

def fmtPath : PathR → String
  | .ok p => "(ok " ++ bytesToHex p ++ ")"
  | .err .empty => "(err empty)"
  | .err .traversal => "(err traversal)"
  | .err .chars => "(err chars)"
  | .err .tooLong => "(err toolong)"
  | .err .noFile => "(err nofile)"

def creds? (e : Sexp) : Option (List Cred) :=
  match e with
  | .list xs => xs.mapM fun p =>
      match p with
      | .list [a, b] => do pure { userName := (← a.asBytes?), password := (← b.asBytes?) }
      | _ => none
  | _ => none

def fmtCreds (cs : List Cred) : String :=
  "(" ++ " ".intercalate (cs.map fun c => "(" ++ bytesToHex c.userName ++ " " ++ bytesToHex c.password ++ ")") ++ ")"

/-- A codec for the driver: the namespace as the text of an s-expression. -/
def encodeNs (n : Namespace Unit) : Bytes :=
  (s!"({if n.isEncrypt then "t" else "f"} {bytesToHex n.name} {fmtCreds n.users} {fmtCreds n.slices})").toUTF8.toList

def decodeNs (b : Bytes) : Option (Namespace Unit) :=
  match String.fromUTF8? (ByteArray.mk b.toArray) with
  | none => none
  | some s =>
    match Sexp.parseLine s with
    | some [.list [e, nm, us, ss]] => do
      pure { isEncrypt := (← e.asBool?), name := (← nm.asBytes?), users := (← creds? us), slices := (← creds? ss), rest := () }
    | _ => none

def codec : Codec Unit Bytes := { encode := encodeNs, decode := decodeNs }

def dotJson : Bytes := ".json".toUTF8.toList

/-- What the file system refuses: a component of more than 255 bytes or a NUL byte. -/
def fsAccepts (p : Bytes) : Bool :=
  (splitSlash p).all (fun c => c.length ≤ 255) && !p.contains 0

def storeRoot : Bytes := "/root/store".toUTF8.toList

/-- The `store` request on the model. -/
def runStore (key pfx name : Bytes) (enc via : Bool) (users slices : List Cred) : String :=
  let submitted : Namespace Unit := { isEncrypt := enc, name := name, users := users, slices := slices, rest := () }
  let vr : Bytes → Unit → Option Unit := fun _ r => some r
  match submitted.verify vr with
  | .ok n1 =>
    match n1.encrypt toyCipher b64 key with
    | .ok e =>
      let accepts := fun (p : Bytes) =>
        match fullNamespacePath storeRoot dotJson p with
        | .ok full => fsAccepts full
        | .err _ => false
      if !accepts (namespacePath pfx e.name) then "(err update)" else
      let remote := updateNamespace codec [] pfx e
      -- optionally: the proxy copies the origin (decoded, verified, not decrypted) to its local store
      let client : Option (Client Bytes) :=
        if via then
          match remote.read (namespacePath pfx name) with
          | some b =>
            match codec.decode b with
            | some p =>
              match p.verify vr with
              | .ok p' => some (updateNamespace codec [] pfx p')
              | _ => none
            | none => none
          | none => none
        else some remote
      match client with
      | none => "(err load)"
      | some c =>
        match loadNamespace codec vr toyCipher b64 c pfx key name with
        | .ok l => s!"(ok {fmtCreds l.users} {fmtCreds l.slices} {if l.isEncrypt then "t" else "f"} t)"
        | .fail => "(err load)"
        | .panic => "panic"
    | .fail => "(err encrypt)"
    | .panic => "panic"
  | .fail => "(err verify)"
  | .panic => "panic"

def relTo (root p : Bytes) : Bytes := if root.isPrefixOf p then p.drop (root.length + 1) else p

def model (req : Sexp) : String :=
  match req with
  | .list [.atom "pad", d, bs] =>
    match d.asBytes?, bs.asNat? with
    | some d, some bs => fmtR (pkcs5Padding d bs)
    | _, _ => "bad"
  | .list [.atom "unpad", d] =>
    match d.asBytes? with
    | some d => fmtR (pkcs5UnPadding d)
    | none => "bad"
  | .list [.atom "enc", k, d, t] =>
    match k.asBytes?, d.asBytes?, table? t with
    | some k, some d, some t =>
      match encryptECB (tableCipher t) k d with
      | .ok c => s!"(ok {bytesToHex c} {fmtR (decryptECB (tableCipher t) k c)})"
      | .fail => "fail"
      | .panic => "panic"
    | _, _, _ => "bad"
  | .list [.atom "dec", k, d, t] =>
    match k.asBytes?, d.asBytes?, table? t with
    | some k, some d, some t => fmtR (decryptECB (tableCipher t) k d)
    | _, _, _ => "bad"
  | .list [.atom "crypt", k, d, t] =>
    match k.asBytes?, d.asBytes?, table? t with
    | some k, some d, some t =>
      match encrypt (tableCipher t) b64 k d with
      | .ok c => s!"(ok {bytesToHex c} {fmtR (decrypt (tableCipher t) b64 k c)})"
      | .fail => "fail"
      | .panic => "panic"
    | _, _, _ => "bad"
  | .list [.atom "decrypt", k, d, t] =>
    match k.asBytes?, d.asBytes?, table? t with
    | some k, some d, some t => fmtR (decrypt (tableCipher t) b64 k d)
    | _, _, _ => "bad"
  | .list [.atom "store", k, pfx, nm, enc, via, us, ss] =>
    match k.asBytes?, pfx.asBytes?, nm.asBytes?, enc.asBool?, via.asBool?, creds? us, creds? ss with
    | some k, some pfx, some nm, some enc, some via, some us, some ss => runStore k pfx nm enc via us ss
    | _, _, _, _, _, _, _ => "bad"
  | .list [.atom "clean", p] =>
    match p.asBytes? with
    | some p => bytesToHex (filepathClean p)
    | none => "bad"
  | .list [.atom "rel", p] =>
    match p.asBytes? with
    | some p => bytesToHex (relRoot p)
    | none => "bad"
  | .list [.atom "join", a, b] =>
    match a.asBytes?, b.asBytes? with
    | some a, some b => bytesToHex (filepathJoin [a, b])
    | _, _ => "bad"
  | .list [.atom "safe", p] =>
    match p.asBytes? with
    | some p => fmtPath (safeJoinPath p)
    | none => "bad"
  | .list [.atom "nspath", st, p] =>
    match st.asBytes?, p.asBytes? with
    | some st, some p => fmtPath (fullNamespacePath st dotJson p)
    | _, _ => "bad"
  | .list [.atom "dirpath", st, p] =>
    match st.asBytes?, p.asBytes? with
    | some st, some p => fmtPath (fullDirPath st p)
    | _, _ => "bad"
  | .list [.atom "fs", p] =>
    match p.asBytes? with
    | some p =>
      match fullNamespacePath storeRoot dotJson p with
      | .ok full => if fsAccepts full then s!"(ok ({bytesToHex (full.drop 1)}))" else "(err io)"
      | .err _ => "(err path)"
    | none => "bad"
  | _ => "bad"

/-! ### the property on an observed output -/

def isReal (c : Bytes) : Bool := c ≠ [] && c ≠ dot && c ≠ dotdot

/-- Does `p` lie strictly below (`strict`) or at-or-below the directory `root`, with no `.`/`..`/empty component after it? -/
def below (root p : Bytes) (strict : Bool) : Bool :=
  let rc := (splitSlash root).filter (· ≠ [])
  let pc := splitSlash p
  match pc with
  | [] :: comps =>   -- absolute
    let comps' := if rc.isEmpty then comps.filter (· ≠ []) else comps
    rc.isPrefixOf comps' &&
      (let tail := comps'.drop rc.length
       tail.all isReal && (!strict || !tail.isEmpty))
  | _ => false

def oracle (req out : Sexp) : String :=
  match req with
  | .list [.atom "pad", d, bs] =>
    match d.asBytes?, bs.asNat?, out with
    | some d, some bs, .list [.atom "ok", o] =>
      -- the padding of every block size a cipher can have must come off again
      if bs = 0 || bs > 255 then "ok" else
      match o.asBytes? with
      | some o => if pkcs5UnPadding o == .ok d then "ok" else "viol padding-roundtrip"
      | none => "viol unparsable"
    | some _, some bs, .atom "panic" => if bs = 0 then "ok" else "viol padding-panic"
    | _, _, _ => "viol unparsable"
  | .list [.atom "unpad", d] =>
    match d.asBytes?, out with
    | some _, .atom "fail" => "ok"
    | some d, .list [.atom "ok", o] =>
      match o.asBytes? with
      | some o => if o.isPrefixOf d then "ok" else "viol unpadding-not-a-prefix"
      | none => "viol unparsable"
    | some _, .atom "panic" => "viol unpadding-panic"
    | _, _ => "viol unparsable"
  | .list [.atom op, k, d, _] =>
    if op == "enc" || op == "crypt" then
      match k.asBytes?, d.asBytes?, out with
      | some k, some d, .list [.atom "ok", _, back] =>
        if back == .list [.atom "ok", .atom (bytesToHex d)] then "ok"
        else if k.length = 16 || k.length = 24 || k.length = 32 then "viol encrypt-decrypt-roundtrip" else "viol unparsable"
      | some k, some _, .atom "fail" =>
        if k.length = 16 || k.length = 24 || k.length = 32 then "viol valid-key-refused" else "ok"
      | some _, some _, .atom "panic" => "viol encrypt-panic"
      | _, _, _ => "viol unparsable"
    else if op == "dec" || op == "decrypt" then
      match out with
      | .atom "panic" => "viol decrypt-panic"
      | .atom "fail" => "ok"
      | .list [.atom "ok", _] => "ok"
      | _ => "viol unparsable"
    else "bad"
  | .list [.atom "store", _, _, _, _, _, us, ss] =>
    match creds? us, creds? ss, out with
    | some us, some ss, .list [.atom "ok", lus, lss, _, rest] =>
      match creds? lus, creds? lss with
      | some lus, some lss =>
        if some lus != verifyUsers us then "viol roundtrip-user-credentials"
        else if lss != ss then "viol roundtrip-slice-credentials"
        else if rest != .atom "t" then "viol roundtrip-other-fields"
        else "ok"
      | _, _ => "viol unparsable"
    | some _, some _, .list [.atom "err", .atom "load"] => "viol saved-namespace-unloadable"
    | some _, some _, .list [.atom "err", _] => "ok"
    | some _, some _, .atom "panic" => "viol store-panic"
    | _, _, _ => "viol unparsable"
  | .list [.atom "clean", _] => "ok"
  | .list [.atom "rel", _] => "ok"
  | .list [.atom "join", _, _] => "ok"
  | .list [.atom "safe", _] =>
    match out with
    | .atom "panic" => "viol path-panic"
    | .list [.atom "ok", o] =>
      match o.asBytes? with
      | some o => if (splitSlash o).all (fun c => c ≠ dotdot) && o.head? != some slash then "ok" else "viol path-escapes-storage"
      | none => "viol unparsable"
    | _ => "ok"
  | .list [.atom op, st, _] =>
    if op == "nspath" || op == "dirpath" then
      match st.asBytes?, out with
      | some _, .atom "panic" => "viol path-panic"
      | some st, .list [.atom "ok", o] =>
        match o.asBytes? with
        | some o => if below st o (op == "nspath") then "ok" else "viol path-escapes-storage"
        | none => "viol unparsable"
      | some _, _ => "ok"
      | none, _ => "bad"
    else "bad"
  | .list [.atom "fs", _] =>
    match out with
    | .atom "panic" => "viol path-panic"
    | .list [.atom "ok", .list files] =>
      if files.all (fun f => match f.asBytes? with
          | some f => below storeRoot (slash :: f) true
          | none => false) then "ok" else "viol file-outside-storage"
    | _ => "ok"
  | _ => "bad"

def handle (args : List Sexp) : String :=
  match args with
  | [.atom "m", req] =>
    let out := model req
    match Sexp.parseLine out with
    | some [o] => out ++ " | " ++ oracle req o
    | _ => out
  | [.atom "s", req, out] => oracle req out
  | _ => "bad-request"

end GaeaVerif.Drv.C33
