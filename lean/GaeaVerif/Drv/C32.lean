import GaeaVerif.Sexp
import GaeaVerif.Model.MgrTwoPhase
/-
  Driver for C32.  Requests:
    m (w K ((name ver) …) op …)
        op = (modify name ver kind F0 … F(K-1)) | (del name L0 … L(K-1))
           | (modify2 (name ver) (name' ver') (x i p|c) …)
      → ((init STORE P0 …) (result STORE P0 …) …) | verdict
    s <request> <implementation output>    property oracle on an implementation output
  (format documented in harness/props/c32.go)
-/
namespace GaeaVerif.Drv.C32
open GaeaVerif GaeaVerif.MgrReload GaeaVerif.MgrTwoPhase

inductive Op where
  | modify (n : Name) (v : Ver) (kind : Kind) (fs : List PF)
  | del (n : Name) (fs : List Fault)
  | modify2 (na : Name) (va : Ver) (nb : Name) (vb : Ver) (sched : List Tok)

def parseFault : Char → Option Fault
  | 'o' => some .ok
  | 'f' => some .fail
  | 'd' => some .fail
  | 'l' => some .lost
  | 't' => some .lost
  | _ => none

def parsePF (e : Sexp) : Option PF := do
  let s ← e.asAtom?
  let fs ← s.toList.mapM parseFault
  pure { p := fs.take 3, c := (fs.drop 3).headD .ok }

def parseKind : Sexp → Option Kind
  | .atom "good" => some .good
  | .atom "invalid" => some .invalid
  | .atom "unbuildable" => some .unbuildable
  | _ => none

def parseTok : Sexp → Option Tok
  | .list [.atom x, i, .atom ph] => do
    let second ← (if x == "a" then some false else if x == "b" then some true else none)
    let commit ← (if ph == "p" then some false else if ph == "c" then some true else none)
    pure { second := second, proxy := ← i.asNat?, commit := commit }
  | _ => none

def parseOp : Sexp → Option Op
  | .list (.atom "modify" :: n :: v :: k :: fs) => do
    pure (.modify (← n.asNat?) (← v.asNat?) (← parseKind k) (← fs.mapM parsePF))
  | .list (.atom "del" :: n :: fs) => do
    let ls ← fs.mapM fun e => do
      let s ← e.asAtom?
      match s.toList with
      | [c] => parseFault c
      | _ => none
    pure (.del (← n.asNat?) ls)
  | .list (.atom "modify2" :: .list [na, va] :: .list [nb, vb] :: ts) => do
    pure (.modify2 (← na.asNat?) (← va.asNat?) (← nb.asNat?) (← vb.asNat?) (← ts.mapM parseTok))
  | _ => none

def parsePair : Sexp → Option (Name × Ver)
  | .list [n, v] => do pure (← n.asNat?, ← v.asNat?)
  | _ => none

structure Case where
  k : Nat
  init : List (Name × Ver)
  ops : List Op

def parseCase : Sexp → Option Case
  | .list (.atom "w" :: k :: .list init :: ops) => do
    let i ← init.mapM parsePair
    pure { k := ← k.asNat?, init := i.reverse, ops := ← ops.mapM parseOp }
  | _ => none

def insertSorted (x : Nat) : List Nat → List Nat
  | [] => [x]
  | y :: ys => if x < y then x :: y :: ys else if x = y then y :: ys else y :: insertSorted x ys

def opNames : Op → List Name
  | .modify n _ _ _ => [n]
  | .del n _ => [n]
  | .modify2 na _ nb _ _ => [na, nb]

def caseNames (c : Case) : List Name :=
  (c.init.map (·.1) ++ c.ops.flatMap opNames).foldl (fun acc x => insertSorted x acc) []

def fmtCell : Option Ver → String
  | some v => toString v
  | none => "-"

def fmtWorld (w : World) (names : List Name) : String :=
  "(" ++ " ".intercalate (names.map fun n => fmtCell (w.store n)) ++ ")" ++
  String.join (w.proxies.map fun m =>
    " ((" ++ " ".intercalate (names.map fun n =>
        match GetNamespace m n with
        | some c => fmtCell c
        | none => "nil") ++ ") " ++ (if m.reloadPrepared then "p" else "-") ++ ")")

def fmtRes : Res → String
  | .ok => "ok"
  | .errVerify => "(err verify)"
  | .errPrepare => "(err prepare)"
  | .errCommit => "(err commit)"
  | .errDelete => "(err delete)"

def initWorld (c : Case) : World :=
  { store := Table.ofList c.init, proxies := List.replicate c.k (CreateManager c.init) }

def applyOp (w : World) : Op → World × String
  | .modify n v kind fs => let r := ModifyNamespace w n v kind fs; (r.1, fmtRes r.2)
  | .del n fs => let r := DelNamespace w n fs; (r.1, fmtRes r.2)
  | .modify2 na va nb vb sched =>
    let r := ModifyPair w na va nb vb sched
    (r.1, "(" ++ fmtRes r.2.1 ++ " " ++ fmtRes r.2.2 ++ ")")

def runOps (names : List Name) : World → List Op → List String
  | _, [] => []
  | w, op :: rest =>
    let r := applyOp w op
    (" (" ++ r.2 ++ " " ++ fmtWorld r.1 names ++ ")") :: runOps names r.1 rest

def model (req : Sexp) : String :=
  match parseCase req with
  | none => "bad"
  | some c =>
    let names := caseNames c
    let w0 := initWorld c
    "((init " ++ fmtWorld w0 names ++ ")" ++ String.join (runOps names w0 c.ops) ++ ")"

/-! ### property oracle (judges an observed output on its own) -/

/-- Observed state: stored version per name, and per proxy the active version per name. -/
structure Obs where
  store : List (Option Ver)
  proxies : List (List (Option Ver))

def parseCell : Sexp → Option (Option Ver)
  | .atom "-" => some none
  | e => e.asNat?.map some

def parseProxy : Sexp → Option (List (Option Ver))
  | .list [.list cells, _] => cells.mapM parseCell
  | _ => none

def parseObs (k : Nat) (names : List Name) : List Sexp → Option Obs
  | .list st :: ps => do
    let store ← st.mapM parseCell
    let proxies ← ps.mapM parseProxy
    if store.length == names.length && proxies.length == k && proxies.all (·.length == names.length) then
      pure { store := store, proxies := proxies }
    else none
  | _ => none

def idxOf (names : List Name) (n : Name) : Nat := names.findIdx (· == n)

def cellAt (l : List (Option Ver)) (i : Nat) : Option Ver := (l[i]?).getD none

inductive ResO where
  | ok | err (kind : String)

def parseRes : Sexp → Option ResO
  | .atom "ok" => some .ok
  | .list [.atom "err", .atom k] => some (.err k)
  | _ => none

/-- One change of namespace `n` to `target` (`none` = deletion) reported with
    `res`, judged on the observed states before and after.  `whole`: compare
    whole states on failure (a single change at a time) or only the namespace
    itself (concurrent changes touch other namespaces legitimately). -/
def judgeChange (names : List Name) (pre post : Obs) (n : Name) (target : Option Ver) (res : ResO)
    (isDel : Bool) (whole : Bool) (tag : String) : Option String :=
  let i := idxOf names n
  match res with
  | .ok =>
    if cellAt post.store i != target then
      some (tag ++ (if isDel then "successful-delete-still-stored" else "successful-change-not-stored"))
    else if post.proxies.any (fun p => cellAt p i != target) then
      some (tag ++ (if isDel then "successful-delete-not-on-every-proxy" else "successful-change-not-on-every-proxy"))
    else none
  | .err kind =>
    let proxiesSame :=
      if whole then post.proxies == pre.proxies
      else (post.proxies.zip pre.proxies).all (fun (a, b) => cellAt a i == cellAt b i)
    let storeSame := if whole then post.store == pre.store else cellAt post.store i == cellAt pre.store i
    if !proxiesSame then
      some (tag ++ (if isDel then "failed-delete-applied-on-some-proxy"
                    else if kind == "commit" then "commit-failed-after-commit-applied"
                    else "failed-change-applied-on-some-proxy"))
    else if !storeSame then
      some (tag ++ (if isDel then "failed-delete-store-not-restored" else "failed-change-store-not-restored"))
    else none

def judgeOp (names : List Name) (pre post : Obs) (op : Op) (res : Sexp) : Option String :=
  match op with
  | .modify n v _ _ =>
    match parseRes res with
    | some r => judgeChange names pre post n (some v) r false true ""
    | none => some "unparsable"
  | .del n _ =>
    match parseRes res with
    | some r => judgeChange names pre post n none r true true ""
    | none => some "unparsable"
  | .modify2 na va nb vb _ =>
    match res with
    | .list [ra, rb] =>
      match parseRes ra, parseRes rb with
      | some ra, some rb =>
        match judgeChange names pre post na (some va) ra false false "concurrent-" with
        | some c => some c
        | none => judgeChange names pre post nb (some vb) rb false false "concurrent-"
      | _, _ => some "unparsable"
    | _ => some "unparsable"

def judgeSteps (k : Nat) (names : List Name) : Obs → List Op → List Sexp → String
  | _, [], [] => "ok"
  | pre, op :: ops, .list (res :: st) :: rest =>
    match parseObs k names st with
    | none => "viol unparsable"
    | some post =>
      match judgeOp names pre post op res with
      | some c => "viol " ++ c
      | none => judgeSteps k names post ops rest
  | _, _, _ => "viol unparsable"

def oracle (req out : Sexp) : String :=
  match parseCase req with
  | none => "bad"
  | some c =>
    let names := caseNames c
    match out with
    | .list (.list (.atom "init" :: st) :: rest) =>
      match parseObs c.k names st with
      | none => "viol unparsable"
      | some o0 =>
        let want := names.map fun n => (Table.ofList c.init) n
        if o0.store != want || o0.proxies.any (· != want) then "viol init-state-wrong"
        else judgeSteps c.k names o0 c.ops rest
    | _ => "viol unparsable"

def handle (args : List Sexp) : String :=
  match args with
  | [.atom "m", req] =>
    let out := model req
    match Sexp.parseLine out with
    | some [o] => out ++ " | " ++ oracle req o
    | _ => out
  | [.atom "s", req, out] => oracle req out
  | _ => "bad-request"

end GaeaVerif.Drv.C32
