import GaeaVerif.Sexp
import GaeaVerif.Model.BufOwn
import GaeaVerif.Gen.Consts
/-
  Driver for the `own` cases of C38 (ownership of the pooled packet buffers):

    m (own <plugin> ((<op> s …) …))

  runs Model/BufOwn.lean on the script and prints, per operation, the
  observations of the session and the census of the buffers (see
  harness/props/c38_own.go for the format).  The property oracle judges an
  observed output: no buffer may be held twice (by two connections, twice in
  the pool, or by a connection and the pool), and what every session observes
  must be what it observes when it runs alone (the model on the operations of
  that session only).  Core Lean only.
-/
namespace GaeaVerif.Drv.C38Own
open GaeaVerif GaeaVerif.BufOwn

def knownUser (u : Bytes) : Bool := u == "verif_plain".toUTF8.toList || u == "verif_hash".toUTF8.toList
def hashedUser (u : Bytes) : Bool := u == "verif_hash".toUTF8.toList
def allowedDBs : List Bytes := ["db1".toUTF8.toList, "information_schema".toUTF8.toList]

/-- the three decisions as the current source takes them (translator) -/
def treeVariant : Variant := ⟨Gen.c38CopySwitchResponse, Gen.c38CopyNullAuth, Gen.c38RecycleClears⟩

def cfg (plugin : Bytes) : Cfg :=
  { v := treeVariant
    cv := ⟨Gen.c38DateGuard, Gen.c38ResetEarly, Gen.c38HashLenGuard⟩
    plugin := plugin
    allowed := allowedDBs
    known := knownUser
    hashed := hashedUser
    versionLen := 11 }   -- "5.7.25-gaea" (proxy/server/verif_c38.go)

/-! ### parsing -/

def parseOp (e : Sexp) : Option (Nat × Op) :=
  match e with
  | .list [.atom "greet", s] => s.asNat?.map (·, Op.greet)
  | .list [.atom "resp", s] => s.asNat?.map (·, Op.resp)
  | .list [.atom "check", s] => s.asNat?.map (·, Op.check)
  | .list [.atom "hs", s] => s.asNat?.map (·, Op.hs)
  | .list [.atom "run", s] => s.asNat?.map (·, Op.run)
  | .list [.atom "rest", s] => s.asNat?.map (·, Op.rest)
  | .list [.atom "eof", s] => s.asNat?.map (·, Op.eof)
  | .list [.atom "pkt", s, p] =>
    match s.asNat?, p.asBytes? with
    | some s, some p => some (s, Op.pkt p)
    | _, _ => none
  | .list [.atom "part", s, p, k] =>
    match s.asNat?, p.asBytes?, k.asInt? with
    | some s, some p, some k => some (s, if k < 0 then Op.part p p.length else Op.part p k.toNat)
    | _, _, _ => none
  | _ => none

def insertSorted (x : Nat) : List Nat → List Nat
  | [] => [x]
  | y :: ys => if x < y then x :: y :: ys else if x = y then y :: ys else y :: insertSorted x ys

def indexOf (x : Nat) : List Nat → Nat
  | [] => 0
  | y :: ys => if x = y then 0 else indexOf x ys + 1

/-! ### printing -/

def hsErrName : Crash.HsErr → String
  | .flags => "flags" | .proto41 => "proto41" | .maxpkt => "maxpkt" | .charset => "charset" | .user => "user"
  | .authlen => "authlen" | .auth => "auth" | .db => "db" | .switch => "switch"

def fmtHs : HsView → String
  | .io => "(err io)"
  | .err e => s!"(err {hsErrName e})"
  | .info i =>
    s!"(info {i.capability} {i.collation} {bytesToHex i.user} {bytesToHex i.auth} {bytesToHex i.db} {bytesToHex i.plugin})"

def errCode : Crash.ErrTag → Nat
  | .nostmt => 1243
  | .wrongargs => 1210
  | .nodb => 1046
  | _ => 1105

def tagName : Crash.ErrTag → String
  | .malform => "malform" | .flag => "flag" | .ftype => "ftype" | .datelen => "datelen" | .dtlen => "dtlen"
  | .timelen => "timelen" | .lenenc => "lenenc" | .nodbname => "nodbname" | .unknowncmd => "unknowncmd"
  | .longtype => "longtype" | .nostmt => "nostmt" | .wrongargs => "wrongargs" | .nodb => "nodb"
  | .floatval => "floatval"

def fmtResp : Crash.Resp → String
  | .none => "none" | .ok => "ok" | .eof => "eof" | .q => "q" | .fl => "fl"
  | .prep id n => s!"(prep {id} {n})"
  | .err t => s!"(err {errCode t} {tagName t})"
  | .unmodelled => "unmodelled"
  | .panic => "panic"

def fmtObs : Obs → String
  | .skip => "skip" | .blocked => "blocked" | .gone => "gone" | .panic => "panic" | .stuck => "stuck"
  | .doneGreet => "(done greet)"
  | .doneResp r => s!"(done resp {fmtHs r})"
  | .doneHs r => s!"(done hs {fmtHs r})"
  | .doneCheck none => "(done check none)"
  | .doneCheck (some b) => s!"(done check {bytesToHex b})"
  | .doneRun => "(done run)"
  | .resp r => s!"(resp {fmtResp r})"
  | .sql t => s!"(sql {bytesToHex t})"

/-- buffers are numbered in the order of their first appearance in the output -/
def nameBuf (names : List Nat) (id : Nat) : List Nat × String :=
  if names.contains id then (names, toString (indexOf id names))
  else (names ++ [id], toString names.length)

def nameBufs (names : List Nat) : List Nat → List Nat × List String
  | [] => (names, [])
  | id :: rest =>
    let (names, s) := nameBuf names id
    let (names, ss) := nameBufs names rest
    (names, s :: ss)

def policyLetter : Policy → String
  | .unused => "u" | .write => "w" | .read => "r"

def joinSp (xs : List String) : String := if xs.isEmpty then "" else " " ++ " ".intercalate xs

/-- `sids`: the session numbers of the script in ascending order (session
    number ↦ index); `seen`: the indices that have appeared so far. -/
def census (w : Sys) (sids : List Nat) (seen : List Nat) (names : List Nat) : List Nat × String :=
  let rec conns (names : List Nat) : List Nat → List Nat × List String
    | [] => (names, [])
    | i :: rest =>
      let s := w.sess.getD i Sess.init
      let (names, b) := match s.conn.cur with
        | none => (names, "-")
        | some id => nameBuf names id
      let (names, more) := conns names rest
      (names, s!"({sids.getD i 0} {policyLetter s.conn.policy} {b})" :: more)
  let rec buckets (names : List Nat) (k : Nat) : List SyncPool → List Nat × List String
    | [] => (names, [])
    | p :: rest =>
      if p.ids.isEmpty then buckets names (k + 1) rest
      else
        let (names, ss) := nameBufs names p.ids
        let (names, more) := buckets names (k + 1) rest
        (names, s!"({k}{joinSp ss})" :: more)
  let (names, cs) := conns names seen
  let (names, fs) := buckets names 0 w.mem.pools
  (names, s!"(conns{joinSp cs}) (free{joinSp fs})")

def sessionIds (ops : List (Nat × Op)) : List Nat := ops.foldl (fun acc o => insertSorted o.1 acc) []

def toIndexed (sids : List Nat) (ops : List (Nat × Op)) : List (Nat × Op) := ops.map (fun o => (indexOf o.1 sids, o.2))

def fmtRun (sids : List Nat) : List Nat → List Nat → List (Nat × Op) → List (List Obs × Sys) → List String
  | seen, names, (i, _) :: ops, (obs, w) :: rest =>
    let seen := insertSorted i seen
    let (names, c) := census w sids seen names
    let item := "(" ++ " ".intercalate (obs.map fmtObs ++ [c]) ++ ")"
    item :: fmtRun sids seen names ops rest
  | _, _, _, _ => []

def modelOwn (plugin : Bytes) (ops : List (Nat × Op)) : String :=
  let sids := sessionIds ops
  let iops := toIndexed sids ops
  let res := runScript (cfg plugin) (Sys.init sids.length) (List.replicate sids.length none) iops
  "(" ++ " ".intercalate (fmtRun sids [] [] iops res) ++ ")"

def parseOps (e : Sexp) : Option (List (Nat × Op)) :=
  match e with
  | .list xs => xs.mapM parseOp
  | _ => none

def model (req : Sexp) : String :=
  match req with
  | .list [.atom "own", pl, ops] =>
    match pl.asBytes?, parseOps ops with
    | some plugin, some ops => modelOwn plugin ops
    | _, _ => "bad"
  | _ => "bad"

/-! ### property oracle -/

/-- buffer names of one census: `(conns (s p b) …)` and `(free (k b …) …)` -/
def censusBufs : List Sexp → List String
  | [] => []
  | .list (.atom "conns" :: cs) :: rest =>
    cs.filterMap (fun c => match c with
      | .list [_, _, .atom b] => if b == "-" then none else some b
      | _ => none) ++ censusBufs rest
  | .list (.atom "free" :: fs) :: rest =>
    fs.flatMap (fun f => match f with
      | .list (_ :: bs) => bs.filterMap Sexp.asAtom?
      | _ => []) ++ censusBufs rest
  | _ :: rest => censusBufs rest

def hasDup : List String → Bool
  | [] => false
  | x :: xs => xs.contains x || hasDup xs

def isCensus : Sexp → Bool
  | .list (.atom "conns" :: _) => true
  | .list (.atom "free" :: _) => true
  | _ => false

/-- a reported statement outside the alphabet the model follows (`select <digits>`): not judged -/
def isForeignSql : Sexp → Bool
  | .list [.atom "sql", t] =>
    match t.asBytes? with
    | some b => !simpleSelect b
    | none => true
  | _ => false

/-- what session `i` observes when it runs alone: the model on its own operations -/
def aloneObs (plugin : Bytes) (ops : List (Nat × Op)) (sid : Nat) : List (List String) :=
  let mine := (ops.filter (fun o => o.1 == sid)).map (fun o => (0, o.2))
  (runScript (cfg plugin) (Sys.init 1) [none] mine).map (fun r => r.1.map fmtObs)

/-- per session, the observations in the observed output -/
def observedOf (ops : List (Nat × Op)) (items : List Sexp) (sid : Nat) : List (List String) :=
  (ops.zip items).filterMap (fun (o, it) =>
    if o.1 == sid then
      match it with
      | .list xs => some ((xs.filter (fun x => !isCensus x && x != .atom "long-write" && !isForeignSql x)).map toString)
      | _ => some []
    else none)

/-- The session's observations agree with what it observes alone, up to the first
    answer the model does not predict (a prepare whose text is outside the modelled
    alphabet: its parameter count, and with it the later answers of that session,
    are not the model's to say). -/
def obsAgree : List (List String) → List (List String) → Bool
  | [], [] => true
  | o :: os, a :: as =>
    if a.contains "(resp unmodelled)" then true
    else o == a && obsAgree os as
  | _, _ => false

def oracle (req out : Sexp) : String :=
  match req, out with
  | .list [.atom "own", pl, opsE], .list items =>
    match pl.asBytes?, parseOps opsE with
    | some plugin, some ops =>
      if items.length ≠ ops.length then "viol unparsable"
      else if items.any (fun it => match it with
          | .list xs => hasDup (censusBufs xs)
          | _ => true) then "viol buffer-held-twice"
      else if items.any (fun it => match it with
          | .list xs => xs.contains (.atom "hang")
          | _ => false) then "viol session-hang"
      else if (sessionIds ops).any (fun sid => !obsAgree (observedOf ops items sid) (aloneObs plugin ops sid)) then
        "viol session-affected-by-other-session"
      else "ok"
    | _, _ => "viol unparsable"
  | _, _ => "viol unparsable"

end GaeaVerif.Drv.C38Own
