import GaeaVerif.Sexp
import GaeaVerif.Model.StmtSession
/-
  Driver for C16.  One request = one whole command history of a session:
    m (hist OP…)
        OP = (prepare HEX) | (exec HEX) | (long HEX) | (reset HEX) | (close HEX)
           | (setmode SQLHEX t|f)   a SET sql_mode statement that does (t) / does not (f)
                                    turn NO_BACKSLASH_ESCAPES on
      →  (OUT…)    OUT = (prepared ID N) | (exec SQLHEX) | ok | (err KIND) | panic
    s <request> <implementation outputs>     property oracle
-/
namespace GaeaVerif.Drv.C16
open GaeaVerif GaeaVerif.StmtBind GaeaVerif.StmtSession

def parseOp (x : Sexp) : Option Op :=
  match x with
  | .list [.atom "setmode", _, .atom f] => some (.setMode (f == "t"))
  | .list [.atom k, d] =>
    match d.asBytes? with
    | some b =>
      if k == "prepare" then some (.prepare b)
      else if k == "exec" then some (.execute b)
      else if k == "long" then some (.sendLongData b)
      else if k == "reset" then some (.reset b)
      else if k == "close" then some (.close b)
      else none
    | none => none
  | _ => none

def parseHist (req : Sexp) : Option (List Op) :=
  match req with
  | .list (.atom "hist" :: ops) => ops.mapM parseOp
  | _ => none

def fmtOut : Out → String
  | .prepared id n => s!"(prepared {id} {n})"
  | .exec sql => s!"(exec {bytesToHex sql})"
  | .done => "ok"
  | .err e => s!"(err {e.name})"
  | .panic => "panic"

def model (req : Sexp) : String :=
  match parseHist req with
  | some ops => "(" ++ " ".intercalate ((run State.init ops).2.map fmtOut) ++ ")"
  | none => "bad"

def parseOut (x : Sexp) : Option Out :=
  match x with
  | .atom "ok" => some .done
  | .atom "panic" => some .panic
  | .list [.atom "prepared", i, n] =>
    match i.asNat?, n.asNat? with
    | some i, some n => some (.prepared i n)
    | _, _ => none
  | .list [.atom "exec", s] => s.asBytes?.map .exec
  | .list [.atom "err", .atom k] =>
    [E.malformed, .unknownStmt, .unsupportedFlag, .badLenenc, .unknownType, .badTemporal,
     .wrongArguments, .longDataType, .unterminated, .badFloat].find? (fun e => e.name == k) |>.map .err
  | _ => none

/-- Did an earlier execution attempt of statement `id` fail, with no successful
    execution, reset or close of it in between (looking back from the end of
    `past`, most recent first)? -/
def failedAttemptPending (id : Nat) : List (Op × Out) → Bool
  | [] => false
  | (op, out) :: earlier =>
    match op with
    | .execute d =>
      if d.length ≥ 9 && stmtIdOf d == id then
        match out with
        | .exec _ => false
        | _ => true
      else failedAttemptPending id earlier
    | .reset d => if d.length ≥ 4 && stmtIdOf d == id then false else failedAttemptPending id earlier
    | .close d => if d.length ≥ 4 && stmtIdOf d == id then false else failedAttemptPending id earlier
    | _ => failedAttemptPending id earlier

def isFailure : Out → Bool
  | .err _ => true
  | .panic => true
  | _ => false

/-- The property on an observed list of outputs: replay the history on the
    reference semantics (each execution runs the template with the values of
    its own packet and the long data sent since the previous execution attempt
    of that statement; unknown and closed ids fail) and name the first
    deviation. -/
def judge (st : State) (past : List (Op × Out)) : List Op → List Out → String
  | [], [] => "ok"
  | [], _ :: _ => "viol unparsable"
  | _ :: _, [] => "viol unparsable"
  | op :: ops, got :: gots =>
    let r := step st op
    -- the property does not say *which* error a rejected command gives
    -- … nor that a well-formed execution must be accepted
    let rejected := match op, r.2 with
      | .execute _, .exec _ => isFailure got
      | _, _ => false
    let same := got == r.2 || (isFailure got && isFailure r.2) || rejected
    if same then judge r.1 ((op, got) :: past) ops gots
    else
      match op, got, r.2 with
      | .execute d, .exec _, .exec _ =>
        if failedAttemptPending (stmtIdOf d) past then "viol stale-values-after-failed-execute"
        else "viol executed-statement-differs"
      | .execute _, .exec _, .err .unknownStmt => "viol unknown-statement-executed"
      | .execute _, .exec _, _ => "viol malformed-execute-accepted"
      | .sendLongData _, .done, .err .unknownStmt => "viol unknown-statement-accepted"
      | .reset _, .done, .err .unknownStmt => "viol unknown-statement-accepted"
      | .prepare _, .prepared _ _, .prepared _ _ => "viol statement-id-or-parameter-count-differs"
      | _, _, _ => "viol outcome-differs"

def oracle (req out : Sexp) : String :=
  match parseHist req, out with
  | some ops, .list outs =>
    match outs.mapM parseOut with
    | some gots => judge State.init [] ops gots
    | none => "viol unparsable"
  | some _, _ => "viol unparsable"
  | none, _ => "bad"

def handle (args : List Sexp) : String :=
  match args with
  | [.atom "m", req] =>
    let out := model req
    match Sexp.parseLine out with
    | some [o] => out ++ " | " ++ oracle req o
    | _ => out
  | [.atom "s", req, out] => oracle req out
  | _ => "bad-request"

end GaeaVerif.Drv.C16
