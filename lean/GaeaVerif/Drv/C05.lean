import GaeaVerif.Sexp
import GaeaVerif.Model.Modify
import GaeaVerif.Model.ModifyStmt
import GaeaVerif.Drv.C01
/-
  Driver for C05.
    m (assign update|ondup ((QUAL NAMEHEX)…))             → accept | reject-key | reject-other
    m (merge ((STATUS AFFECTED INSERTID)…))               → (status affected insertid)
    m (exec RULE FORM STMT META COND (rows (k o place)…)) → (ok N) | err
    m (route …)                                           → as C01
    m (stmt RULE KIND META COND|nocond (rows (k o place)…) (refs single|multi N) (tgt NAME)
            (set (QUAL NAMEHEX VCLASS VIDX)…) (order (col QUAL k|o DESC)|(expr N)…) (limit N|n))
                                                          → err | (backend-error) | (ok N (t IDX (k o)…)…)
    s <request> <implementation output>                   → property oracle
-/
namespace GaeaVerif.Drv.C05
open GaeaVerif GaeaVerif.Route GaeaVerif.Modify

def parseQual : String → Option Qual
  | "none" => some .none | "table" => some .table | "alias" => some .alias
  | "unknown" => some .unknown | "baddb" => some .badDb
  -- spellings: db.t.col / T.col name the table, A.col the alias; DB.t.col names no database
  -- of the router (database names are compared as written)
  | "dbtable" => some .table | "uptable" => some .table | "upalias" => some .alias
  | "updb" => some .badDb | _ => none

/-- `ColumnName.Name.L` of a target as written: back-quotes removed, lower-cased -/
def nameL (s : String) : String :=
  String.ofList ((s.toList.filter (· != '`')).map Char.toLower)

def parseTargets (e : Sexp) : Option (List Target) :=
  match e with
  | .list ts => ts.mapM fun t =>
      match t with
      | .list [.atom q, n] => do pure { qual := (← parseQual q), name := nameL (← n.asText?) }
      -- the third element names the assigned value; the decision does not depend on it
      | .list [.atom q, n, _] => do pure { qual := (← parseQual q), name := nameL (← n.asText?) }
      -- … unless it is a value of class `sq`: it holds a sub-query that reads a table
      | .list [.atom q, n, .atom vc, _] => do
          pure { qual := (← parseQual q), name := nameL (← n.asText?), sub := vc == "sq" }
      | _ => none
  | _ => none

def fmtVerdict : Verdict → String
  | .accept => "accept" | .rejectKey => "reject-key" | .rejectOther => "reject-other"

/-! condition trees with the opaque atoms numbered, so that their truth value on
    an integer row can be looked up -/

abbrev OtherTab := List (Nat × Option Int)   -- position ↦ (kind, literal rank)

partial def parseCondN (e : Sexp) (tab : OtherTab) : Option (Cond × OtherTab) :=
  match e with
  | .list [.atom "and", a, b] => do
      let (ca, t1) ← parseCondN a tab
      let (cb, t2) ← parseCondN b t1
      pure (.and ca cb, t2)
  | .list [.atom "or", a, b] => do
      let (ca, t1) ← parseCondN a tab
      let (cb, t2) ← parseCondN b t1
      pure (.or ca cb, t2)
  | .list [.atom "par", a] => do
      let (ca, t1) ← parseCondN a tab
      pure (.paren ca, t1)
  | .list [.atom "other", k, l] => do
      let lit ← C01.parseLit l
      pure (.other tab.length, tab ++ [((← k.asNat?), lit.rank)])
  -- a predicate holding a sub-query: opaque for the router; kinds 100… in `evalOther`
  | .list [.atom "sub", _, k, l] => do
      let lit ← C01.parseLit l
      pure (.other tab.length, tab ++ [(100 + (← k.asNat?), lit.rank)])
  | other => do pure ((← C01.parseCond other), tab)

/-- truth value of the opaque predicate forms of harness/props/c01.go (`c01Other`)
    on an integer row; kinds outside `c05OtherKinds` are not generated for `exec` -/
def evalOther (kind : Nat) (l : Option Int) (k o : Int) : Option Bool :=
  match kind, l with
  | 1, some v => some (k != v)
  | 2, _ => some false
  | 3, some v => some (k + 1 == v)
  | 4, _ => some (k == o)
  | 5, some v => some ((if k < 0 then -k else k) == v)
  | 6, some v => some (k == v)
  | 7, _ => some (k == 0)
  | 8, some v => some (decide (-k < v))
  | 9, _ => some (k == -5)
  | 11, some v => some (decide (k ≥ v))
  | 12, some v => some (!(decide (v ≤ k) && decide (k ≤ v)))
  | 13, _ => some true
  | 14, _ => some false
  | 15, some v => some (k == v)
  -- sub-queries without FROM clause (harness/props/c05stmt.go `c05Subs`)
  | 100, some v => some (k == v)
  | 101, some v => some (decide (v ≤ k))
  | 102, some v => some (k == v)
  | _, _ => none

def rowEnv (tab : OtherTab) (k o : Int) : Cond → Option Bool
  | .other id => match tab[id]? with
                 | some (kind, l) => evalOther kind l k o
                 | none => none
  | .cmp false litLeft op l =>
      match l.rank with
      | some v => some (if litLeft then op.holds v o else op.holds o v)
      | none => none
  | .inList false neg ls =>
      match allRanks ls with
      | some vs => some (vs.contains o != neg)
      | none => none
  | .between false neg lo hi =>
      match lo.rank, hi.rank with
      | some a, some b => some ((decide (a ≤ o) && decide (o ≤ b)) != neg)
      | _, _ => none
  | _ => none

def parseRows (e : Sexp) : Option (List (Int × Int × Int)) :=
  match e with
  | .list (.atom "rows" :: rs) => rs.mapM fun r =>
      match r with
      | .list [k, o, p] => do pure ((← k.asInt?), (← o.asInt?), (← p.asInt?))
      | _ => none
  | _ => none

def mkTables (tab : OtherTab) (rows : List (Int × Int × Int)) : Int → List Row :=
  fun i => (rows.filter fun (_, _, p) => p == i).map fun (k, o, _) => { key := k, env := rowEnv tab k o }

/-! ### whole statements -/

partial def collectSubs (e : Sexp) : List SubKind :=
  match e with
  | .list [.atom "sub", .atom cls, _, _] =>
    [match cls with | "value" => .value | "insel" => .inSel | _ => .table]
  | .list (.atom "lit" :: _) => []
  | .list es => es.flatMap collectSubs
  | _ => []

structure OrdKey where
  onKey : Bool
  desc : Bool

def parseOrder (e : Sexp) : Option (List OrdItem × List OrdKey) :=
  match e with
  | .list (.atom "order" :: its) => do
      let ps ← its.mapM fun it =>
        match it with
        | .list [.atom "col", .atom q, .atom c, d] => do
            pure (OrdItem.col (← parseQual q), some ({ onKey := c == "k", desc := (← d.asBool?) } : OrdKey))
        | .list [.atom "expr", _] => pure (OrdItem.expr, none)
        | _ => none
      pure (ps.map (·.1), ps.filterMap (·.2))
  | _ => none

/-- `a` sorts strictly before `b` -/
def ordLess (ks : List OrdKey) (a b : Row) : Bool :=
  match ks with
  | [] => false
  | k :: ks =>
    let x := if k.onKey then a.key else a.o
    let y := if k.onKey then b.key else b.o
    if x != y then (decide (x < y)) != k.desc else ordLess ks a b

def ordLe (ks : List OrdKey) (a b : Row) : Bool := !ordLess ks b a

/-- the value assigned to `o` (harness/props/c05stmt.go `c05SetVals`) -/
def setVal (vc : String) (vi : Nat) (k o : Int) : Int :=
  match vc, vi % 4 with
  | "sv", _ => -9
  | _, 0 => -7
  | _, 1 => o + 1
  | _, 2 => -7 - k
  | _, _ => -o - 5

/-- the assignment to column `o` of a SET list, if any -/
def findSetO (e : Sexp) : Option (String × Nat) :=
  match e with
  | .list (.atom "set" :: as) =>
    as.findSome? fun a =>
      match a with
      | .list [_, n, .atom vc, vi] =>
        if (n.asText?.map nameL) == some "o" then vi.asNat?.map fun i => (vc, i) else none
      | _ => none
  | _ => none

structure StmtReq where
  rule : Rule
  st : Stmt
  tab : OtherTab
  rows : List (Int × Int × Int)
  keys : List OrdKey
  foreign : Bool
  setO : Option (String × Nat)

def parseStmt (req : Sexp) : Option StmtReq :=
  match req with
  | .list [.atom "stmt", _, .atom kind, mt, cond, rows, .list [.atom "refs", .atom shape, _],
           .list [.atom "tgt", .atom tgt], set, order, .list [.atom "limit", lim]] => do
    let r ← C01.parseRule mt
    let (c, tab) ← match cond with
      | .atom "nocond" => some (none, [])
      | e => (parseCondN e []).map fun (c, tab) => (some c, tab)
    let rows ← parseRows rows
    let ts ← match set with
      | .list (.atom "set" :: as) => parseTargets (.list as)
      | _ => none
    let (items, keys) ← parseOrder order
    let limit ← match lim with
      | .atom "n" => some none
      | e => e.asNat?.map some
    pure { rule := r
           st := { isUpdate := kind == "update", multi := shape == "multi", set := ts, cond := c,
                   subs := collectSubs cond, order := items, limit := limit }
           tab := tab, rows := rows, keys := keys, foreign := tgt.startsWith "foreign", setO := findSetO set }
  | _ => none

/-- rows with their position in the input as id -/
def mkTablesId (tab : OtherTab) (rows : List (Int × Int × Int)) : Int → List Row :=
  let numbered := rows.zipIdx
  fun i => (numbered.filter fun ((_, _, p), _) => p == i).map fun ((k, o, _), n) =>
    { key := k, env := rowEnv tab k o, id := n, o := o }

def StmtReq.upd (q : StmtReq) (row : Row) : Row :=
  match q.setO with
  | none => row
  | some (vc, vi) =>
    let o' := setVal vc vi row.key row.o
    { row with o := o', env := rowEnv q.tab row.key o' }

def fmtTable (i : Int) (rows : List Row) : String :=
  "(t " ++ toString i ++ String.join (rows.map fun row => s!" ({row.key} {row.o})") ++ ")"

def modelStmt (q : StmtReq) : String :=
  match planModify q.rule "k" q.st with
  | .error _ => "err"
  | .ok routed =>
    if backendRejects q.foreign routed then "(backend-error)" else
    let tbl := mkTablesId q.tab q.rows
    let le := ordLe q.keys
    let n := proxyCount q.st.cond le q.st.limit tbl routed
    let after := q.rule.idxs.map fun i =>
      fmtTable i (proxyAfter q.st.isUpdate q.upd q.st.cond le q.st.limit tbl routed i)
    s!"(ok {n}" ++ String.join (after.map (" " ++ ·)) ++ ")"

/-- rows of `orig` missing from its subsequence `after` -/
def diffDel : List Row → List (Int × Int) → Option (List Row)
  | [], [] => some []
  | [], _ :: _ => none
  | x :: xs, [] => (diffDel xs []).map (x :: ·)
  | x :: xs, (k, o) :: ys =>
    if x.key == k && x.o == o then diffDel xs ys
    else (diffDel xs ((k, o) :: ys)).map (x :: ·)

/-- rows of `orig` whose `o` differs in `after`; `none`: not the same rows -/
def diffUpd (val : Row → Int) : List Row → List (Int × Int) → Except String (List Row)
  | [], [] => .ok []
  | x :: xs, (k, o) :: ys =>
    if x.key != k then .error "shard-key-changed"
    else if x.o == o then diffUpd val xs ys
    else if val x != o then .error "unexpected-new-value"
    else (diffUpd val xs ys).map (x :: ·)
  | _, _ => .error "unexpected-table-contents"

def parseAfter (tabs : List Sexp) : Option (List (Int × List (Int × Int))) :=
  tabs.mapM fun t =>
    match t with
    | .list (.atom "t" :: i :: rs) => do
        let rs ← rs.mapM fun r => match r with
          | .list [k, o] => do pure ((← k.asInt?), (← o.asInt?))
          | _ => none
        pure ((← i.asInt?), rs)
    | _ => none

/-- The property on an observed result: what a single database holding every sub table may do
    with the client's statement.  LIMIT without ORDER BY leaves the choice of rows open, ORDER BY
    with LIMIT the choice among ties. -/
def oracleStmt (q : StmtReq) (out : Sexp) : String :=
  match out with
  | .atom "err" => "ok"
  | .atom "panic" => "viol planner-panic"
  | .list [.atom "not-a-shard-plan"] => "viol sharded-statement-not-planned-as-sharded"
  | .list [.atom "backend-error"] =>
    -- a single database rejects a target list naming no table of the FROM clause as well
    if q.foreign then "ok"
    else if q.st.subs.any (· == .table) || q.st.set.any (·.sub) then "viol table-subquery-sent-to-backends"
    else if q.st.multi then "viol multi-table-statement-sent-to-backends"
    else "viol backends-rejected-rewritten-statement"
  | .list (.atom "ok" :: n :: tabs) =>
    match parseAfter tabs with
    | none => "viol unexpected-output"
    | some after =>
      let tbl := mkTablesId q.tab q.rows
      let val := fun (row : Row) => (q.upd row).o
      -- the rows changed, sub table by sub table
      let diffs : Except String (List (List Row)) := q.rule.idxs.mapM fun i =>
        match after.lookup i with
        | none => .error "unexpected-table-contents"
        | some rs =>
          if q.st.isUpdate then diffUpd val (tbl i) rs
          else match diffDel (tbl i) rs with
            | some d => .ok d
            | none => .error "unexpected-table-contents"
      match diffs with
      | .error cls => "viol " ++ cls
      | .ok ds =>
        if q.st.multi then "viol multi-table-statement-sent-to-backends" else
        if (q.st.cond.isSome && q.st.subs.any (· == .table)) || (q.st.isUpdate && q.st.set.any (·.sub)) then
          "viol table-subquery-sent-to-backends" else
        if q.st.isUpdate && q.setO.isNone then
          (if n.asNat?.isSome then "ok" else "viol unexpected-output") else
        let s := ds.flatten
        -- a single database rejects a target list that names no table of the FROM clause
        if q.foreign && !s.isEmpty then "viol delete-with-foreign-target-list-executed" else
        let all := q.rule.idxs.flatMap tbl
        let m := all.filter (selects q.st.cond)
        let want := match q.st.limit with | none => m.length | some l => min l m.length
        if s.any (fun row => !selects q.st.cond row) then "viol non-matching-row-changed"
        else if s.length != want then
          if q.st.limit.isSome && q.st.order.isEmpty && s.length > want
              && (ds.filter (!·.isEmpty)).length > 1 then "viol limit-applied-per-sub-table"
          else if s.length < want then "viol matching-row-not-changed"
          else "viol more-rows-changed-than-limit"
        else
          let ids := s.map (·.id)
          let rest := m.filter fun row => !ids.contains row.id
          if q.st.limit.isSome && s.any (fun x => rest.any fun u => ordLess q.keys u x) then
            "viol order-by-limit-picked-wrong-rows"
          else if n.asNat? != some s.length then "viol affected-rows-differ-from-single-database"
          else "ok"
  | _ => "viol unexpected-output"

def model (req : Sexp) : String :=
  match req with
  | .list [.atom "assign", .atom kind, ts] =>
    match parseTargets ts with
    | some ts =>
      if kind == "ondup" then fmtVerdict (handleInsertOnDuplicate "k" ts)
      else fmtVerdict (handleUpdateAssignmentList "k" ts)
    | none => "bad-input"
  | .list [.atom "merge", .list rs] =>
    match rs.mapM (fun r => match r with
        | .list [s, a, i] => do pure ({ status := (← s.asNat?), affected := (← a.asNat?), insertId := (← i.asNat?) } : ExecResult)
        | _ => none) with
    | some rs =>
      let r := mergeExecResult rs
      s!"({r.status} {r.affected} {r.insertId})"
    | none => "bad-input"
  | .list [.atom "exec", _, _, _, mt, cond, rows] =>
    match C01.parseRule mt, parseCondN cond [], parseRows rows with
    | some r, some (c, tab), some rows =>
      match routeStmt r (some c) with
      | none => "err"
      | some routed => s!"(ok {proxyAffected c (mkTables tab rows) routed})"
    | _, _, _ => "bad-input"
  | .list (.atom "stmt" :: _) =>
    match parseStmt req with
    | some q => modelStmt q
    | none => "bad-input"
  | _ => "bad-request"

def oracle (req out : Sexp) : String :=
  match req with
  | .list [.atom "assign", _, ts] =>
    match parseTargets ts, out with
    | some ts, .atom "accept" =>
      -- accepted although some target names the sharding column: a row could move
      if ts.any (fun t => t.name == "k" && (t.qual == .none || t.qual == .table || t.qual == .alias))
      then "viol shard-key-assignment-accepted" else "ok"
    | some _, .atom "reject-key" => "ok"
    | some _, .atom "reject-other" => "ok"
    | _, .atom "panic" => "viol planner-panic"
    | _, _ => "viol unexpected-output"
  | .list [.atom "merge", .list rs] =>
    match rs.mapM (fun r => match r with | .list [_, a, _] => a.asNat? | _ => none), out with
    | some as, .list [_, a, _] =>
      if a.asNat? == some as.sum then "ok" else "viol affected-rows-not-summed"
    | _, _ => "viol unexpected-output"
  | .list [.atom "exec", _, _, _, mt, cond, rows] =>
    match C01.parseRule mt, parseCondN cond [], parseRows rows with
    | some r, some (c, tab), some rows =>
      match out with
      | .atom "err" => "ok"
      | .list [.atom "ok", n] =>
        -- one database holding every shard: rows of listed tables on which the WHERE is TRUE
        let all := (rows.filter fun (_, _, p) => r.idxs.contains p).map fun (k, o, _) => ({ key := k, env := rowEnv tab k o } : Row)
        if n.asNat? == some (matching c all) then "ok" else "viol affected-rows-differ-from-single-database"
      | .atom "panic" => "viol planner-panic"
      | .list [.atom "not-a-shard-plan"] => "viol sharded-statement-not-planned-as-sharded"
      | _ => "viol unexpected-output"
    | _, _, _ => "bad-input"
  | .list (.atom "stmt" :: _) =>
    match parseStmt req with
    | some q => oracleStmt q out
    | none => "bad-input"
  | _ => "bad-request"

def handle (args : List Sexp) : String :=
  match args with
  | [.atom "m", .list (.atom "route" :: rest)] => C01.handle [.atom "m", .list (.atom "route" :: rest)]
  | [.atom "s", .list (.atom "route" :: rest), out] => C01.handle [.atom "s", .list (.atom "route" :: rest), out]
  | [.atom "m", req] =>
    let out := model req
    match Sexp.parseLine out with
    | some [o] => out ++ " | " ++ oracle req o
    | _ => out
  | [.atom "s", req, out] => oracle req out
  | _ => "bad-request"

end GaeaVerif.Drv.C05
