import GaeaVerif.Sexp
import GaeaVerif.Model.Modify
import GaeaVerif.Drv.C01
/-
  Driver for C05.
    m (assign update|ondup ((QUAL NAMEHEX)…))             → accept | reject-key | reject-other
    m (merge ((STATUS AFFECTED INSERTID)…))               → (status affected insertid)
    m (exec RULE FORM STMT META COND (rows (k o place)…)) → (ok N) | err
    m (route …)                                           → as C01
    s <request> <implementation output>                   → property oracle
-/
namespace GaeaVerif.Drv.C05
open GaeaVerif GaeaVerif.Route GaeaVerif.Modify

def parseQual : String → Option Qual
  | "none" => some .none | "table" => some .table | "alias" => some .alias
  | "unknown" => some .unknown | "baddb" => some .badDb | _ => none

/-- `ColumnName.Name.L` of a target as written: back-quotes removed, lower-cased -/
def nameL (s : String) : String :=
  String.ofList ((s.toList.filter (· != '`')).map Char.toLower)

def parseTargets (e : Sexp) : Option (List Target) :=
  match e with
  | .list ts => ts.mapM fun t =>
      match t with
      | .list [.atom q, n] => do pure { qual := (← parseQual q), name := nameL (← n.asText?) }
      -- the third element names the assigned value; the decision does not depend on it
      | .list [.atom q, n, _] => do pure { qual := (← parseQual q), name := nameL (← n.asText?) }
      | _ => none
  | _ => none

def fmtVerdict : Verdict → String
  | .accept => "accept" | .rejectKey => "reject-key" | .rejectOther => "reject-other"

/-! condition trees with the opaque atoms numbered, so that their truth value on
    an integer row can be looked up -/

abbrev OtherTab := List (Nat × Option Int)   -- position ↦ (kind, literal rank)

partial def parseCondN (e : Sexp) (tab : OtherTab) : Option (Cond × OtherTab) :=
  match e with
  | .list [.atom "and", a, b] => do
      let (ca, t1) ← parseCondN a tab
      let (cb, t2) ← parseCondN b t1
      pure (.and ca cb, t2)
  | .list [.atom "or", a, b] => do
      let (ca, t1) ← parseCondN a tab
      let (cb, t2) ← parseCondN b t1
      pure (.or ca cb, t2)
  | .list [.atom "par", a] => do
      let (ca, t1) ← parseCondN a tab
      pure (.paren ca, t1)
  | .list [.atom "other", k, l] => do
      let lit ← C01.parseLit l
      pure (.other tab.length, tab ++ [((← k.asNat?), lit.rank)])
  | other => do pure ((← C01.parseCond other), tab)

/-- truth value of the opaque predicate forms of harness/props/c01.go (`c01Other`)
    on an integer row; kinds outside `c05OtherKinds` are not generated for `exec` -/
def evalOther (kind : Nat) (l : Option Int) (k o : Int) : Option Bool :=
  match kind, l with
  | 1, some v => some (k != v)
  | 2, _ => some false
  | 3, some v => some (k + 1 == v)
  | 4, _ => some (k == o)
  | 5, some v => some ((if k < 0 then -k else k) == v)
  | 6, some v => some (k == v)
  | 7, _ => some (k == 0)
  | 8, some v => some (decide (-k < v))
  | 9, _ => some (k == -5)
  | 11, some v => some (decide (k ≥ v))
  | 12, some v => some (!(decide (v ≤ k) && decide (k ≤ v)))
  | 13, _ => some true
  | 14, _ => some false
  | 15, some v => some (k == v)
  | _, _ => none

def rowEnv (tab : OtherTab) (k o : Int) : Cond → Option Bool
  | .other id => match tab[id]? with
                 | some (kind, l) => evalOther kind l k o
                 | none => none
  | .cmp false litLeft op l =>
      match l.rank with
      | some v => some (if litLeft then op.holds v o else op.holds o v)
      | none => none
  | .inList false neg ls =>
      match allRanks ls with
      | some vs => some (vs.contains o != neg)
      | none => none
  | .between false neg lo hi =>
      match lo.rank, hi.rank with
      | some a, some b => some ((decide (a ≤ o) && decide (o ≤ b)) != neg)
      | _, _ => none
  | _ => none

def parseRows (e : Sexp) : Option (List (Int × Int × Int)) :=
  match e with
  | .list (.atom "rows" :: rs) => rs.mapM fun r =>
      match r with
      | .list [k, o, p] => do pure ((← k.asInt?), (← o.asInt?), (← p.asInt?))
      | _ => none
  | _ => none

def mkTables (tab : OtherTab) (rows : List (Int × Int × Int)) : Int → List Row :=
  fun i => (rows.filter fun (_, _, p) => p == i).map fun (k, o, _) => { key := k, env := rowEnv tab k o }

def model (req : Sexp) : String :=
  match req with
  | .list [.atom "assign", .atom kind, ts] =>
    match parseTargets ts with
    | some ts =>
      if kind == "ondup" then fmtVerdict (handleInsertOnDuplicate "k" ts)
      else fmtVerdict (handleUpdateAssignmentList "k" ts)
    | none => "bad-input"
  | .list [.atom "merge", .list rs] =>
    match rs.mapM (fun r => match r with
        | .list [s, a, i] => do pure ({ status := (← s.asNat?), affected := (← a.asNat?), insertId := (← i.asNat?) } : ExecResult)
        | _ => none) with
    | some rs =>
      let r := mergeExecResult rs
      s!"({r.status} {r.affected} {r.insertId})"
    | none => "bad-input"
  | .list [.atom "exec", _, _, _, mt, cond, rows] =>
    match C01.parseRule mt, parseCondN cond [], parseRows rows with
    | some r, some (c, tab), some rows =>
      match routeStmt r (some c) with
      | none => "err"
      | some routed => s!"(ok {proxyAffected c (mkTables tab rows) routed})"
    | _, _, _ => "bad-input"
  | _ => "bad-request"

def oracle (req out : Sexp) : String :=
  match req with
  | .list [.atom "assign", _, ts] =>
    match parseTargets ts, out with
    | some ts, .atom "accept" =>
      -- accepted although some target names the sharding column: a row could move
      if ts.any (fun t => t.name == "k" && (t.qual == .none || t.qual == .table || t.qual == .alias))
      then "viol shard-key-assignment-accepted" else "ok"
    | some _, .atom "reject-key" => "ok"
    | some _, .atom "reject-other" => "ok"
    | _, .atom "panic" => "viol planner-panic"
    | _, _ => "viol unexpected-output"
  | .list [.atom "merge", .list rs] =>
    match rs.mapM (fun r => match r with | .list [_, a, _] => a.asNat? | _ => none), out with
    | some as, .list [_, a, _] =>
      if a.asNat? == some as.sum then "ok" else "viol affected-rows-not-summed"
    | _, _ => "viol unexpected-output"
  | .list [.atom "exec", _, _, _, mt, cond, rows] =>
    match C01.parseRule mt, parseCondN cond [], parseRows rows with
    | some r, some (c, tab), some rows =>
      match out with
      | .atom "err" => "ok"
      | .list [.atom "ok", n] =>
        -- one database holding every shard: rows of listed tables on which the WHERE is TRUE
        let all := (rows.filter fun (_, _, p) => r.idxs.contains p).map fun (k, o, _) => ({ key := k, env := rowEnv tab k o } : Row)
        if n.asNat? == some (matching c all) then "ok" else "viol affected-rows-differ-from-single-database"
      | .atom "panic" => "viol planner-panic"
      | .list [.atom "not-a-shard-plan"] => "viol sharded-statement-not-planned-as-sharded"
      | _ => "viol unexpected-output"
    | _, _, _ => "bad-input"
  | _ => "bad-request"

def handle (args : List Sexp) : String :=
  match args with
  | [.atom "m", .list (.atom "route" :: rest)] => C01.handle [.atom "m", .list (.atom "route" :: rest)]
  | [.atom "s", .list (.atom "route" :: rest), out] => C01.handle [.atom "s", .list (.atom "route" :: rest), out]
  | [.atom "m", req] =>
    let out := model req
    match Sexp.parseLine out with
    | some [o] => out ++ " | " ++ oracle req o
    | _ => out
  | [.atom "s", req, out] => oracle req out
  | _ => "bad-request"

end GaeaVerif.Drv.C05
