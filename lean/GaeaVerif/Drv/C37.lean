import GaeaVerif.Sexp
import GaeaVerif.Gen.Consts
import GaeaVerif.Model.TimeWheelC37
/-
  Driver for C37.  One request = one whole history of one wheel:

    (tw TICK_NS BUCKETS (OP…))
      OP = (a DELAY_NS KEY REG AT)   tw.Add(delay, key, callback#REG), AT ns after the previous tick
         | (r KEY AT)                tw.Remove(key)
         | (fill N DELAY_NS AT)      N Adds of fresh keys 1000000+i (callback# = key)
         | t                         the ticker wakes up: one iteration of start()

  Output: (ok (OUT…) (st CURRENTINDEX PENDING ((KEY BUCKET ROUND INDEXED)…)))
      OUT = a (Add returned nil) | i (Add returned an error) | r | b (Remove would block)
          | (f REG…)  callbacks started by this tick, ascending
    or (err new) when NewTimeWheel fails.

    m <request>                 model output | verdict
    s <request> <impl output>   property oracle on an implementation output
-/
namespace GaeaVerif.Drv.C37
open GaeaVerif GaeaVerif.TimeWheel

/-- One `Add`/`Remove`/tick with the time of the call (ns after the previous tick). -/
structure TOp where
  op : Op
  at_ : Int

structure Case where
  tick : Int
  buckets : Int
  ops : List TOp

def fillOps (n : Nat) (delay at_ : Int) (base : Nat) : List TOp :=
  (List.range n).map fun i => ⟨.add delay (1000000 + base + i) (1000000 + base + i), at_⟩

/-- Parses the operations, expanding `fill`; `base` counts the fresh keys used. -/
def parseOps : List Sexp → Nat → List TOp → Option (List TOp)
  | [], _, acc => some acc.reverse
  | .atom "t" :: rest, base, acc => parseOps rest base (⟨.tick, 0⟩ :: acc)
  | .list [.atom "a", d, k, r, a] :: rest, base, acc =>
    match d.asInt?, k.asNat?, r.asNat?, a.asInt? with
    | some d, some k, some r, some a => parseOps rest base (⟨.add d k r, a⟩ :: acc)
    | _, _, _, _ => none
  | .list [.atom "r", k, a] :: rest, base, acc =>
    match k.asNat?, a.asInt? with
    | some k, some a => parseOps rest base (⟨.remove k, a⟩ :: acc)
    | _, _ => none
  | .list [.atom "fill", n, d, a] :: rest, base, acc =>
    match n.asNat?, d.asInt?, a.asInt? with
    | some n, some d, some a => parseOps rest (base + n) ((fillOps n d a base).reverse ++ acc)
    | _, _, _ => none
  | _, _, _ => none

def parseCase : Sexp → Option Case
  | .list [.atom "tw", t, b, .list os] =>
    match t.asInt?, b.asInt?, parseOps os 0 [] with
    | some t, some b, some os => some ⟨t, b, os⟩
    | _, _, _ => none
  | _ => none

/-! ### model output -/

def insertSorted (x : Nat) : List Nat → List Nat
  | [] => [x]
  | y :: ys => if x ≤ y then x :: y :: ys else y :: insertSorted x ys

def sortNat (l : List Nat) : List Nat := l.foldr insertSorted []

def fmtOut : Out → String
  | .api .ok => "a"
  | .api .invalid => "i"
  | .api .blocked => "b"
  | .fired regs => "(f" ++ String.join ((sortNat regs).map fun r => s!" {r}") ++ ")"

/-- Add and Remove both answer `ok`; print which call it was. -/
def fmtStep (op : Op) (o : Out) : String :=
  match op, o with
  | .remove _, .api .ok => "r"
  | _, o => fmtOut o

def entryLe (a b : Nat × Int × Int × Int) : Bool :=
  a.1 < b.1 || (a.1 == b.1 && a.2.1 ≤ b.2.1)

def insertEntry (x : Nat × Int × Int × Int) : List (Nat × Int × Int × Int) → List (Nat × Int × Int × Int)
  | [] => [x]
  | y :: ys => if entryLe x y then x :: y :: ys else y :: insertEntry x ys

/-- The registered keys as the hook `VerifState` reports them. -/
def entries (tw : TimeWheel) : List (Nat × Int × Int × Int) :=
  let held := tw.buckets.map fun e =>
    (e.2.key, e.1, e.2.round, (mapLookup tw.bucketIndexes e.2.key).getD (-1))
  let stale := tw.bucketIndexes.filterMap fun e =>
    if tw.buckets.any (fun b => b.1 == e.2 && b.2.key == e.1) then none else some (e.1, (-1 : Int), (0 : Int), e.2)
  (held ++ stale).foldr insertEntry []

def fmtState (tw : TimeWheel) : String :=
  s!"(st {tw.currentIndex} {tw.pipelineC.length} (" ++
    " ".intercalate ((entries tw).map fun e => s!"({e.1} {e.2.1} {e.2.2.1} {e.2.2.2})") ++ "))"

def runPrint (tw : TimeWheel) : List TOp → List String → R (TimeWheel × List String)
  | [], acc => .ok (tw, acc.reverse)
  | o :: os, acc =>
    match step Gen.c37DrainLimit tw o.op with
    | .ok (tw', out) => runPrint tw' os (fmtStep o.op out :: acc)
    | .fail => .fail
    | .panic => .panic

/-- `fill` answers one `a` for the whole burst: drop the extra ones. -/
def compressFill : List Sexp → List String → List String
  | [], outs => outs
  | .list (.atom "fill" :: n :: _) :: rest, outs =>
    let k := (n.asNat?).getD 0
    "a" :: compressFill rest (outs.drop k)
  | _ :: rest, o :: outs => o :: compressFill rest outs
  | _ :: _, [] => []

def model (req : Sexp) (c : Case) : String :=
  match newTimeWheel Gen.c37PipelineCap c.tick c.buckets with
  | none => "(err new)"
  | some tw =>
    match runPrint tw c.ops [] with
    | .ok (tw', outs) =>
      let raw := match req with
        | .list [_, _, _, .list os] => os
        | _ => []
      "(ok (" ++ " ".intercalate (compressFill raw outs) ++ ") " ++ fmtState tw' ++ ")"
    | .fail => "fail"
    | .panic => "panic"

/-! ### the property oracle

  Reference semantics of the property, written against the history and the
  observed callbacks only.  Tick `j` (0-based) happens at time `(j+1)·T`; a
  call made `AT` after tick `j-1` happened at `j·T + AT` and is seen by the
  ticker at tick `j`.  For every accepted `Add` (registration) of a key, with
  `next` = the tick at which the next call on the same key is seen (∞ if none):

  * its callback never starts at a tick ≥ `next` (it was removed, or activity
    was recorded since) and never before it was made;
  * it starts at most once; when it starts, the time since the call is
    ≥ the timeout and ≤ timeout + one tick;
  * if the history reaches the last tick inside [call + timeout, call +
    timeout + T] while the registration is still the key's latest, it did start.

  Timing is judged for ticks of whole seconds (the proxy's is
  `Gen.c37TickSeconds`); for other ticks only the first group is judged.
-/

structure Reg where
  key : Nat
  reg : Nat
  delay : Int
  time : Int         -- when Add was called
  seen : Nat         -- tick at which the ticker sees it
  crowded : Bool     -- ≥ cap calls were already queued since the previous tick
  next : Option Nat  -- tick at which the next call on the key is seen
  nextIsRemove : Bool
  nextCrowded : Bool

structure Walk where
  now : Nat := 0           -- ticks so far
  queued : Nat := 0        -- calls queued since the previous tick
  regs : List Reg := []    -- newest first

/-- Close the open registration of `key` (if any): the next call on it is seen at `now`. -/
def closeKey (regs : List Reg) (key now : Nat) (isRemove crowded : Bool) : List Reg :=
  regs.map fun r =>
    if r.key == key && r.next.isNone then { r with next := some now, nextIsRemove := isRemove, nextCrowded := crowded } else r

def walk (T : Int) (cap : Nat) : List TOp → Walk → Walk
  | [], w => w
  | o :: os, w =>
    match o.op with
    | .tick => walk T cap os { w with now := w.now + 1, queued := 0 }
    | .add delay key reg =>
      if delay ≤ 0 then walk T cap os w
      else
        let crowded := decide (w.queued ≥ cap)
        let at_ := if o.at_ < 1 then 1 else if o.at_ ≥ T then T - 1 else o.at_
        let r : Reg := { key := key, reg := reg, delay := delay, time := (w.now : Int) * T + at_, seen := w.now,
                         crowded := crowded, next := none, nextIsRemove := false, nextCrowded := false }
        walk T cap os { w with queued := if crowded then w.queued else w.queued + 1,
                               regs := r :: closeKey w.regs key w.now false crowded }
    | .remove key =>
      if w.queued ≥ cap then walk T cap os w   -- the caller is blocked: nothing happens
      else walk T cap os { w with queued := w.queued + 1, regs := closeKey w.regs key w.now true false }

/-- The ticks (0-based) at which callback `reg` started. -/
def firesOf (fired : List (List Nat)) (reg : Nat) : List Nat :=
  (fired.zipIdx).filterMap fun (regs, j) => if regs.contains reg then some j else none

def classRank : String → Nat
  | "closed-early-timeout-not-multiple-of-tick" => 1
  | "stale-fired-refresh-dropped-pipeline-full" => 2
  | "not-closed-registration-dropped-pipeline-full" => 3
  | _ => 10

def judgeReg (T : Int) (nTicks : Nat) (fired : List (List Nat)) (r : Reg) : List String :=
  let fs := firesOf fired r.reg
  let whole := T % 1000000000 == 0
  let stale := fs.filterMap fun j =>
    match r.next with
    | some n =>
      if j ≥ n then
        some (if r.nextCrowded then "stale-fired-refresh-dropped-pipeline-full"
              else if r.nextIsRemove then "stale-fired-after-remove" else "stale-fired-after-refresh")
      else none
    | none => none
  let early := fs.filterMap fun j => if j < r.seen then some "fired-before-registration" else none
  let twice := if fs.length > 1 then ["closed-twice"] else []
  let timing := if !whole then [] else fs.filterMap fun (j : Nat) =>
    let elapsed := ((j : Int) + 1) * T - r.time
    if elapsed < r.delay then
      some (if r.delay % T != 0 then "closed-early-timeout-not-multiple-of-tick" else "closed-early")
    else if elapsed > r.delay + T then some "closed-late" else none
  -- the last tick at or before call + timeout + T
  let jd : Int := (r.time + r.delay + T) / T - 1
  let missing :=
    if !whole || !fs.isEmpty || jd < 0 then []
    else if (jd.toNat < nTicks) && (match r.next with | some n => decide (jd.toNat < n) | none => true) then
      [if r.crowded then "not-closed-registration-dropped-pipeline-full" else "not-closed-in-time"]
    else []
  stale ++ early ++ twice ++ timing ++ missing

def pickWorst (cs : List String) : Option String :=
  cs.foldl (fun best c =>
    match best with
    | none => some c
    | some b => if classRank c > classRank b then some c else some b) none

def parseFired (outs : List Sexp) : Option (List (List Nat)) :=
  (outs.filterMap fun o =>
    match o with
    | .list (.atom "f" :: regs) => some (regs.mapM Sexp.asNat?)
    | _ => none).mapM id

def oracle (c : Case) (out : Sexp) : String :=
  match out with
  | .list [.atom "ok", .list outs, _] =>
    match parseFired outs with
    | none => "viol unparsable"
    | some fired =>
      let nTicks := (c.ops.filter fun o => o.op == .tick).length
      if fired.length ≠ nTicks then "viol unparsable" else
      let w := walk c.tick Gen.c37PipelineCap c.ops {}
      -- callbacks nobody registered
      let known := w.regs.map (·.reg)
      if fired.any (fun regs => regs.any fun r => !known.contains r) then "viol unknown-callback" else
      match pickWorst (w.regs.flatMap (judgeReg c.tick nTicks fired)) with
      | some cls => "viol " ++ cls
      | none => "ok"
  | .list [.atom "err", .atom "new"] =>
    -- a wheel that cannot be built closes nothing; the property is about a running timer
    "ok"
  | .atom "panic" => "viol panic"
  | _ => "viol unparsable"

def handle (args : List Sexp) : String :=
  match args with
  | [.atom "m", req] =>
    match parseCase req with
    | none => "bad"
    | some c =>
      let out := model req c
      match Sexp.parseLine out with
      | some [o] => out ++ " | " ++ oracle c o
      | _ => out
  | [.atom "s", req, out] =>
    match parseCase req with
    | none => "bad"
    | some c => oracle c out
  | _ => "bad-request"

end GaeaVerif.Drv.C37
