import GaeaVerif.Sexp
import GaeaVerif.Model.Route
/-
  Driver for C01 (and the routing part of C05).
  Request: m (route RULE COLTYPE FORM STMT (meta RANGE GLOBAL FIRST LAST (idxs…)) COND (univ (rank place)…))
           s <same> <implementation output>
  Output:  (ok i j …) | err
  Oracle:  every universe row value on which the condition may be TRUE must
           have its table among the routed ones.
-/
namespace GaeaVerif.Drv.C01
open GaeaVerif GaeaVerif.Route

def parseLit : Sexp → Option Lit
  | .list [.atom "lit", _, rk, pl, eq] =>
    let rank := match rk with | .atom "n" => none | e => e.asInt?
    let place := match pl with | .atom "e" => none | e => e.asInt?
    match eq.asBool? with
    | some b => some { rank := rank, place := place, eqStart := b }
    | none => none
  | _ => none

def parseOp : String → Option Cmp
  | "eq" => some .eq | "ne" => some .ne | "lt" => some .lt
  | "le" => some .le | "gt" => some .gt | "ge" => some .ge
  | _ => none

def parseCol : Sexp → Option Bool
  | .atom "sk" => some true
  | .atom "oc" => some false
  | _ => none

partial def parseCond : Sexp → Option Cond
  | .list [.atom "and", a, b] => do pure (.and (← parseCond a) (← parseCond b))
  | .list [.atom "or", a, b] => do pure (.or (← parseCond a) (← parseCond b))
  | .list [.atom "par", a] => do pure (.paren (← parseCond a))
  | .list [.atom "other", k, _] => do pure (.other (← k.asNat?))
  | .list [.atom "cmp", c, .atom side, .atom op, l] => do
      pure (.cmp (← parseCol c) (side == "lc") (← parseOp op) (← parseLit l))
  | .list [.atom "in", c, neg, .list ls] => do
      pure (.inList (← parseCol c) (← neg.asBool?) (← ls.mapM parseLit))
  | .list [.atom "btw", c, neg, lo, hi] => do
      pure (.between (← parseCol c) (← neg.asBool?) (← parseLit lo) (← parseLit hi))
  | _ => none

def parseRule : Sexp → Option Rule
  | .list [.atom "meta", rg, gl, f, l, .list is] => do
      pure { idxs := (← is.mapM Sexp.asInt?), first := (← f.asInt?), last := (← l.asInt?),
             isRange := (← rg.asBool?), isGlobal := (← gl.asBool?) }
  | _ => none

def parseUniv : Sexp → Option (List (Int × Int))
  | .list (.atom "univ" :: us) => us.mapM fun u =>
      match u with
      | .list [a, b] => do pure ((← a.asInt?), (← b.asInt?))
      | _ => none
  | _ => none

/-- can the condition be TRUE on a row with sharding value `x`, for some truth
    values of the predicates that do not depend on `x` alone? (No negation
    occurs above opaque atoms, so "may be true" is compositional.) -/
def mayTrue (x : Int) : Cond → Bool
  | .paren a => mayTrue x a
  | .other _ => true
  | .and a b => mayTrue x a && mayTrue x b
  | .or a b => mayTrue x a || mayTrue x b
  | c => match eval (fun _ => some true) x c with
         | some true => true
         | _ => false

def fmtOut : Option (List Int) → String
  | none => "err"
  | some is => "(ok" ++ String.join (is.map fun i => " " ++ toString i) ++ ")"

def oracle (r : Rule) (c : Cond) (univ0 : List (Int × Int)) (out : Sexp) : String :=
  -- rows only live in listed sub tables (`RowOK.inIdxs`)
  let univ := univ0.filter fun (_, p) => r.idxs.contains p
  match out with
  | .atom "err" => "ok"
  | .list (.atom "ok" :: is) =>
    match is.mapM Sexp.asInt? with
    | none => "viol unparsable"
    | some routed =>
      match univ.find? (fun (x, p) => mayTrue x c && !routed.contains p) with
      | none => "ok"
      | some _ => "viol unsound-route"
  | .atom "panic" => "viol planner-panic"
  | .list [.atom "not-a-shard-plan"] => "viol sharded-statement-not-planned-as-sharded"
  | _ => "viol unexpected-output"

def handle (args : List Sexp) : String :=
  match args with
  | [.atom mode, .list [.atom "route", _, _, _, _, mt, cond, univ]] =>
    match parseRule mt, parseCond cond, parseUniv univ with
    | some r, some c, some u =>
      if mode == "m" then
        let out := fmtOut (routeStmt r (some c))
        match Sexp.parseLine out with
        | some [o] => out ++ " | " ++ oracle r c u o
        | _ => out
      else "bad-request"
    | _, _, _ => "bad-input"
  | [.atom "s", .list [.atom "route", _, _, _, _, mt, cond, univ], out] =>
    match parseRule mt, parseCond cond, parseUniv univ with
    | some r, some c, some u => oracle r c u out
    | _, _, _ => "bad-input"
  | _ => "bad-request"

end GaeaVerif.Drv.C01
