import GaeaVerif.Sexp
import GaeaVerif.Model.Route
import GaeaVerif.Model.RouteLit
import GaeaVerif.Model.ShardStart
import GaeaVerif.Spec.ShardCalendar
import GaeaVerif.Drv.ShardIO
/-
  Driver for C01 (and the routing part of C05).
  Request: m (route RULE COLTYPE FORM STMT (meta RANGE GLOBAL FIRST LAST (idxs…)) COND (univ (rank place)…))
           s <same> <implementation output>
  Output:  (ok i j …) | err
  Oracle:  every universe row value on which the condition may be TRUE must
           have its table among the routed ones.
  Literals: (lit SQLHEX RANK|n PLACE|e EQSTART)   the harness states the denoted value (legacy form), or
            (lit SQLHEX KIND PLACE|e EQSTART)     KIND = (i N) | (u N) | (s HEX) | (x HEX) | (b HEX) | (d DIGITS SCALE)
                                                  | (f BITS) | (n): the literal as the parser delivers it; what it
            denotes for the column type COLTYPE and whether the planner routes by it at all on a rule of type
            TYPE (7th element of meta) is computed by Model/RouteLit.lean.
  Rows:     (RANK place) or ((s HEX) place): a string / DATETIME value.

  Request: m (join RULE COLTYPE (tables (T ALIAS)…) (steps (KW USING ON|-)…) WHERE|- (meta …) (univ (rank place)…))
           steps in FROM order; KW join|inner|cross|straight|comma|left|leftouter|right|rightouter,
           USING none|using|usingq; conditions as above with columns
           (k T) | (ku T) | (amb) | (o T) | (ou) and the atom (eqcol T T')
  Output:  (ok i j …) | err
  Oracle:  every combined row of universe values (NULL extensions included)
           stored in the sub tables number i that may be a row of the joined
           table (SQL semantics of inner/LEFT/RIGHT joins) with WHERE possibly
           TRUE must have i among the routed tables.

  Request: m (eqstart CFG ((KEY INDEX)…))     CFG, KEY as in Drv/ShardIO.lean
  Output:  (r t|f|panic|(err key-panic) …) | cfgerr | cfgpanic | norange
  Oracle:  EqualStart answers true only for a key that is the first value of
           table INDEX (range rule) / the first instant of period INDEX
           (calendar rules; the accepted spellings and timestamps).
-/
namespace GaeaVerif.Drv.C01
open GaeaVerif GaeaVerif.Route

open GaeaVerif.RouteLit in
def parseKind : Sexp → Option SqlLit
  | .list [.atom "i", v] => v.asInt?.map .int
  | .list [.atom "u", v] => v.asNat?.map .uint
  | .list [.atom "s", b] => (Drv.ShardIO.asGoStr? b).map .str
  | .list [.atom "x", b] => (Drv.ShardIO.asGoStr? b).map .hex
  | .list [.atom "b", b] => (Drv.ShardIO.asGoStr? b).map .bit
  | .list [.atom "d", d, sc] => do pure (.dec (← d.asNat?) (← sc.asNat?))
  | .list [.atom "f", b] => b.asNat?.map .float
  | .list [.atom "n"] => some .null
  | _ => none

/-- the rule family and column type the literals of a line are read under -/
structure LitCx where
  fam : RouteLit.Fam := .other
  ct : RouteLit.ColType := .int
  /-- read the string literals of a mycat_string / mycat_murmur table that are not the decimal
      spelling of an integer as on a string column: equal to no integer (used to recognise the
      known finding `mycat-numeric-string-routed-as-text`) -/
  textAsString : Bool := false

/-- `s` is the decimal spelling of the integer MySQL reads from it -/
def canonicalInt (s : ShardGo.GoStr) : Bool :=
  match InsertStored.mysqlInt s with
  | some n => ShardGo.fmtInt n == s
  | none => false

def parseLitCx (cx : LitCx) : Sexp → Option Lit
  | .list [.atom "lit", _, .list k, pl, eq] => do
    let q ← parseKind (.list k)
    let place := match pl with | .atom "e" => none | e => e.asInt?
    let l := RouteLit.mkLit cx.fam cx.ct q place (← eq.asBool?)
    match q with
    | .str s =>
      if cx.textAsString && cx.fam == .text && cx.ct == .int && !canonicalInt s then
        pure { l with rank := some (-(2 : Int) ^ 200), sem := .exact }
      else pure l
    | _ => pure l
  | .list [.atom "lit", _, rk, pl, eq] =>
    let rank := match rk with | .atom "n" => none | e => e.asInt?
    let place := match pl with | .atom "e" => none | e => e.asInt?
    match eq.asBool? with
    | some b => some { rank := rank, place := place, eqStart := b }
    | none => none
  | _ => none

def parseLit : Sexp → Option Lit := parseLitCx {}

def parseOp : String → Option Cmp
  | "eq" => some .eq | "ne" => some .ne | "lt" => some .lt
  | "le" => some .le | "gt" => some .gt | "ge" => some .ge
  | _ => none

def parseCol : Sexp → Option Bool
  | .atom "sk" => some true
  | .atom "oc" => some false
  | _ => none

partial def parseCondCx (cx : LitCx) : Sexp → Option Cond
  | .list [.atom "and", a, b] => do pure (.and (← parseCondCx cx a) (← parseCondCx cx b))
  | .list [.atom "or", a, b] => do pure (.or (← parseCondCx cx a) (← parseCondCx cx b))
  | .list [.atom "par", a] => do pure (.paren (← parseCondCx cx a))
  | .list [.atom "other", k, _] => do pure (.other (← k.asNat?))
  | .list [.atom "cmp", c, .atom side, .atom op, l] => do
      pure (.cmp (← parseCol c) (side == "lc") (← parseOp op) (← parseLitCx cx l))
  | .list [.atom "in", c, neg, .list ls] => do
      pure (.inList (← parseCol c) (← neg.asBool?) (← ls.mapM (parseLitCx cx)))
  | .list [.atom "btw", c, neg, lo, hi] => do
      pure (.between (← parseCol c) (← neg.asBool?) (← parseLitCx cx lo) (← parseLitCx cx hi))
  | _ => none

def parseCond : Sexp → Option Cond := parseCondCx {}

def parseRule : Sexp → Option Rule
  | .list [.atom "meta", rg, gl, f, l, .list is] => do
      pure { idxs := (← is.mapM Sexp.asInt?), first := (← f.asInt?), last := (← l.asInt?),
             isRange := (← rg.asBool?), isGlobal := (← gl.asBool?) }
  | .list [.atom "meta", rg, gl, f, l, .list is, _] => do
      pure { idxs := (← is.mapM Sexp.asInt?), first := (← f.asInt?), last := (← l.asInt?),
             isRange := (← rg.asBool?), isGlobal := (← gl.asBool?) }
  | _ => none

/-- `rule.GetType()` (7th element of meta; lines in the legacy form have none) and the column type -/
def parseCx (mt colType : Sexp) : LitCx :=
  let fam := match mt with
    | .list [.atom "meta", _, _, _, _, _, .atom tp] => RouteLit.Fam.ofType tp
    | _ => .other
  let ct : RouteLit.ColType :=
    match colType.asNat? with
    | some 3 => .str
    | some 2 => .int
    | _ => if fam == .date then .datetime else .int
  { fam := fam, ct := ct }

/-- the value a row holds, in the domain of the column type -/
def parseRowVal (cx : LitCx) : Sexp → Option Int
  | .list [.atom "s", b] => do
    let s ← Drv.ShardIO.asGoStr? b
    match cx.ct with
    | .datetime => (CalendarSpec.parseSpelling s).map RouteLit.packDT
    | _ => pure (RouteLit.encodeStr s : Nat)
  | e => e.asInt?

def parseUnivCx (cx : LitCx) : Sexp → Option (List (Int × Int))
  | .list (.atom "univ" :: us) => us.mapM fun u =>
      match u with
      | .list [a, b] => do pure ((← parseRowVal cx a), (← b.asInt?))
      | _ => none
  | _ => none

def parseUniv : Sexp → Option (List (Int × Int)) := parseUnivCx {}

/-- can the condition be TRUE on a row with sharding value `x`, for some truth
    values of the predicates that do not depend on `x` alone? (No negation
    occurs above opaque atoms, so "may be true" is compositional.) -/
def mayTrue (x : Int) : Cond → Bool
  | .paren a => mayTrue x a
  | .other _ => true
  | .and a b => mayTrue x a && mayTrue x b
  | .or a b => mayTrue x a || mayTrue x b
  | c => match eval (fun _ => some true) x c with
         | some true => true
         | _ => false

def fmtOut : Option (List Int) → String
  | none => "err"
  | some is => "(ok" ++ String.join (is.map fun i => " " ++ toString i) ++ ")"

def oracleWith (r : Rule) (c : Cond) (alt : Option Cond) (univ0 : List (Int × Int)) (out : Sexp) : String :=
  -- rows only live in listed sub tables (`RowOK.inIdxs`)
  let univ := univ0.filter fun (_, p) => r.idxs.contains p
  match out with
  | .atom "err" => "ok"
  | .list (.atom "ok" :: is) =>
    match is.mapM Sexp.asInt? with
    | none => "viol unparsable"
    | some routed =>
      match univ.find? (fun (x, p) => mayTrue x c && !routed.contains p) with
      | none => "ok"
      | some _ =>
        match alt with
        | some c' =>
          if (univ.find? (fun (x, p) => mayTrue x c' && !routed.contains p)).isNone then
            "viol mycat-numeric-string-routed-as-text"
          else "viol unsound-route"
        | none => "viol unsound-route"
  | .atom "panic" => "viol planner-panic"
  | .list [.atom "not-a-shard-plan"] => "viol sharded-statement-not-planned-as-sharded"
  | _ => "viol unexpected-output"

def oracle (r : Rule) (c : Cond) (univ0 : List (Int × Int)) (out : Sexp) : String :=
  oracleWith r c none univ0 out

/-- the condition under the reading of the known finding, where it applies -/
def altCond (cx : LitCx) (cond : Sexp) : Option Cond :=
  if cx.fam == .text && cx.ct == .int then parseCondCx { cx with textAsString := true } cond else none

/-! ### joined tables -/

def parseJCol : Sexp → Option JCol
  | .list [.atom "k", t] => do pure (.key (← t.asNat?))
  | .list [.atom "ku", t] => do pure (.key (← t.asNat?))
  | .list [.atom "amb", _] => some .ambiguous
  | .list [.atom "o", t] => do pure (.col (← t.asNat?))
  | .list [.atom "ou"] => some .free
  | _ => none

partial def parseJCondCx (cx : LitCx) : Sexp → Option JCond
  | .list [.atom "and", a, b] => do pure (.and (← parseJCondCx cx a) (← parseJCondCx cx b))
  | .list [.atom "or", a, b] => do pure (.or (← parseJCondCx cx a) (← parseJCondCx cx b))
  | .list [.atom "par", a] => do pure (.paren (← parseJCondCx cx a))
  | .list [.atom "other", k, _, _] => do pure (.other (← k.asNat?))
  | .list [.atom "eqcol", _, _] => some (.other 1000)
  | .list [.atom "cmp", c, .atom side, .atom op, l] => do
      pure (.cmp (← parseJCol c) (side == "lc") (← parseOp op) (← parseLitCx cx l))
  | .list [.atom "in", c, neg, .list ls] => do
      pure (.inList (← parseJCol c) (← neg.asBool?) (← ls.mapM (parseLitCx cx)))
  | .list [.atom "btw", c, neg, lo, hi] => do
      pure (.between (← parseJCol c) (← neg.asBool?) (← parseLitCx cx lo) (← parseLitCx cx hi))
  | _ => none

def parseOptJCondCx (cx : LitCx) : Sexp → Option (Option JCond)
  | .atom "-" => some none
  | e => (parseJCondCx cx e).map some

def parseJCond : Sexp → Option JCond := parseJCondCx {}

def parseOptJCond : Sexp → Option (Option JCond) := parseOptJCondCx {}

def parseTp : String → Option JoinTp
  | "join" | "inner" | "cross" | "straight" | "comma" => some .inner
  | "left" | "leftouter" => some .left
  | "right" | "rightouter" => some .right
  | _ => none

def parseStepCx (cx : LitCx) : Sexp → Option JoinStep
  | .list [.atom kw, .atom us, on] => do
      pure { tp := (← parseTp kw), usingQualified := us == "usingq", on := (← parseOptJCondCx cx on) }
  | _ => none

/-- the join nodes outermost first, as `routeJoins` and `inJoin` take them -/
def parseStepsCx (cx : LitCx) : Sexp → Option (List JoinStep)
  | .list (.atom "steps" :: ss) => (ss.mapM (parseStepCx cx)).map List.reverse
  | _ => none

def parseSteps : Sexp → Option (List JoinStep) := parseStepsCx {}

def mayTrueJ (vals : Nat → Option Int) (c : JCond) : Bool :=
  evalJ (fun _ => some true) vals c == some true

def mayOn (vals : Nat → Option Int) (j : JoinStep) : Bool :=
  match j.on with
  | none => true
  | some c => mayTrueJ vals c

/-- `inJoin` with "may be TRUE" for the ON conditions -/
def mayInJoin (vals : Nat → Option Int) : List JoinStep → Bool
  | [] => (vals 0).isSome
  | j :: rest =>
    match j.tp with
    | .inner => mayInJoin vals rest && (vals (rest.length + 1)).isSome && mayOn vals j
    | .left => mayInJoin vals rest && ((vals (rest.length + 1)).isNone || mayOn vals j)
    | .right => (vals (rest.length + 1)).isSome &&
        ((mayInJoin vals rest && mayOn vals j) || (List.range (rest.length + 1)).all fun t => (vals t).isNone)

/-- all combined rows over `n` tables whose present values come from `cands` -/
def tuples (cands : List (Option Int)) : Nat → List (List (Option Int))
  | 0 => [[]]
  | n + 1 => (tuples cands n).flatMap fun t => cands.map fun c => c :: t

def oracleJoin (r : Rule) (joins : List JoinStep) (wh : Option JCond) (univ0 : List (Int × Int)) (out : Sexp) :
    String :=
  match out with
  | .atom "err" => "ok"
  | .list (.atom "ok" :: is) =>
    match is.mapM Sexp.asInt? with
    | none => "viol unparsable"
    | some routed =>
      let nTables := joins.length + 1
      let bad := r.idxs.any fun i =>
        if routed.contains i then false else
        let here := (univ0.filter fun (_, p) => p == i).map fun (x, _) => x
        let cands : List (Option Int) := none :: (here.take 12).map some
        (tuples cands nTables).any fun t =>
          let vals : Nat → Option Int := fun k => (t.getD k none)
          mayInJoin vals joins && (match wh with | none => true | some c => mayTrueJ vals c)
      if bad then "viol unsound-join-route" else "ok"
  | .atom "panic" => "viol planner-panic"
  | .list [.atom "not-a-shard-plan"] => "viol sharded-statement-not-planned-as-sharded"
  | _ => "viol unexpected-output"

/-! ### EqualStart -/

open GaeaVerif.ShardPlace GaeaVerif.Drv.ShardIO in
def fmtStart : Out Bool → String
  | .ok true => "t"
  | .ok false => "f"
  | .err k => s!"(err {errName k})"
  | .panic => "panic"

def parseKeyIdx : Sexp → Option (ShardPlace.Key × Int)
  | .list [k, i] => do pure ((← Drv.ShardIO.parseKey k), (← i.asInt?))
  | _ => none

def modelStart (cfg : Sexp) (kis : List Sexp) : String :=
  match Drv.ShardIO.parseCfg cfg, kis.mapM parseKeyIdx with
  | some (cfg, tz), some kis =>
    match ShardPlace.parseRuleSliceInfos cfg with
    | .ok rule =>
      if !rule.shard.isRange then "norange" else
      "(r" ++ String.join (kis.map fun (k, i) =>
        " " ++ fmtStart (rule.shard.EqualStart (ShardPlace.civilOfUnix tz) (ShardPlace.clockOfUnix tz) k i)) ++ ")"
    | .err _ => "cfgerr"
    | .panic => "cfgpanic"
  | _, _ => "bad-input"

open GaeaVerif.CalendarSpec in
/-- is `c` the first instant of its period under the rule? -/
def isFirstInstant (rule : String) (c : DateTime) : Bool :=
  c.hour == 0 && c.minute == 0 && c.second == 0 &&
    (rule == "date_day" || (c.day == 1 && (rule == "date_month" || c.month == 1)))

open GaeaVerif.CalendarSpec in
/-- the date-time a key denotes, for the keys the property speaks about, and
    whether it lies strictly inside that second ('…hh:mm:ss.fff' with a
    non-zero fraction) -/
def keyDateTime (tz : Int) : ShardPlace.Key → Option (DateTime × Bool)
  | .int v => (dateTimeOfUnix tz v).map (·, false)
  | .int64 v => (dateTimeOfUnix tz v).map (·, false)
  | .uint64 v => if v < 2 ^ 63 then (dateTimeOfUnix tz v).map (·, false) else none
  | .str s =>
    if s.length > 20 ∧ s.getD 19 0 = 46 ∧ (s.drop 20).all (fun b => 48 ≤ b ∧ b ≤ 57) then
      (parseSpelling (s.take 19)).map (·, (s.drop 20).any (· != 48))
    else (parseSpelling s).map (·, false)
  | _ => none

/-- What the property demands of one `EqualStart(key, index) = true` answer; `none` = nothing / satisfied. -/
def judgeStart (cfgS : Sexp) (key : ShardPlace.Key) (idx : Int) : Option String :=
  match cfgS with
  | .list [.atom "range", locs, limit] =>
    match Drv.ShardIO.asInts? locs, limit.asInt? with
    | some ls, some lim =>
      let n := (ls.foldl (· + ·) 0).toNat
      let num : Option Int := match key with
        | .int v => some v | .int64 v => some v | .uint64 v => some v | _ => none
      match num with
      | some v =>
        if CalendarSpec.rangeTable n lim v != some idx.toNat ∨ idx < 0 then some "equalstart-wrong-table"
        else if v != idx * lim then some "equalstart-not-first-value" else none
      | none => none
    | _, _ => none
  | .list [.atom rule, tz, _] =>
    match tz.asInt? with
    | some tz =>
      match keyDateTime tz key with
      | some (c, inside) =>
        if CalendarSpec.periodNumber rule c != idx then some "equalstart-wrong-table"
        else if inside || !isFirstInstant rule c then some "equalstart-not-first-instant" else none
      | none => none
    | none => none
  | _ => none

def oracleStart (cfg : Sexp) (kis : List Sexp) (out : Sexp) : String :=
  match out with
  | .list (.atom "r" :: outs) =>
    match kis.mapM parseKeyIdx with
    | none => "bad-input"
    | some kis =>
      if outs.length != kis.length then "viol unexpected-output" else
      let isDate := match cfg with | .list [.atom "range", _, _] => false | _ => true
      match (kis.zip outs).findSome? fun ((k, i), o) =>
          match o with
          | .atom "t" => judgeStart cfg k i
          | .atom "panic" => if isDate then some "equalstart-panic" else none
          | _ => none with
      | some cls => "viol " ++ cls
      | none => "ok"
  | _ => "ok"

def handle (args : List Sexp) : String :=
  match args with
  | [.atom mode, .list [.atom "join", _, colType, _, steps, wh, mt, univ]] =>
    let cx := parseCx mt colType
    match parseRule mt, parseStepsCx cx steps, parseOptJCondCx cx wh, parseUnivCx cx univ with
    | some r, some js, some w, some u =>
      if mode == "m" then
        let out := fmtOut (routeJoinStmt r js w)
        match Sexp.parseLine out with
        | some [o] => out ++ " | " ++ oracleJoin r js w u o
        | _ => out
      else "bad-request"
    | _, _, _, _ => "bad-input"
  | [.atom "s", .list [.atom "join", _, colType, _, steps, wh, mt, univ], out] =>
    let cx := parseCx mt colType
    match parseRule mt, parseStepsCx cx steps, parseOptJCondCx cx wh, parseUnivCx cx univ with
    | some r, some js, some w, some u => oracleJoin r js w u out
    | _, _, _, _ => "bad-input"
  | [.atom "m", .list [.atom "eqstart", cfg, .list kis]] =>
    let out := modelStart cfg kis
    match Sexp.parseLine out with
    | some [o] => out ++ " | " ++ oracleStart cfg kis o
    | _ => out
  | [.atom "s", .list [.atom "eqstart", cfg, .list kis], out] => oracleStart cfg kis out
  | [.atom mode, .list [.atom "route", _, colType, _, _, mt, cond, univ]] =>
    let cx := parseCx mt colType
    match parseRule mt, parseCondCx cx cond, parseUnivCx cx univ with
    | some r, some c, some u =>
      if mode == "m" then
        let out := fmtOut (routeStmt r (some c))
        match Sexp.parseLine out with
        | some [o] => out ++ " | " ++ oracleWith r c (altCond cx cond) u o
        | _ => out
      else "bad-request"
    | _, _, _ => "bad-input"
  | [.atom "s", .list [.atom "route", _, colType, _, _, mt, cond, univ], out] =>
    let cx := parseCx mt colType
    match parseRule mt, parseCondCx cx cond, parseUnivCx cx univ with
    | some r, some c, some u => oracleWith r c (altCond cx cond) u out
    | _, _, _ => "bad-input"
  | _ => "bad-request"

end GaeaVerif.Drv.C01
