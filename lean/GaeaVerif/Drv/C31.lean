import GaeaVerif.Sexp
import GaeaVerif.Model.MgrReload
/-
  Driver for C31.  Requests:
    m (h ((name ver) …) op …)        op = (prepare name ver) | (prepare name ver bad) | (commit name) | (delete name)
      → ((init NS US) (outcome NS US) …) | verdict
    s <request> <implementation output>   property oracle on an implementation output
  NS / US: what GetNamespace / GetNamespaceByUser answer for every name of the
  case in ascending order (a version, or `-`).
-/
namespace GaeaVerif.Drv.C31
open GaeaVerif GaeaVerif.MgrReload

def parseOp : Sexp → Option Op
  | .list [.atom "prepare", n, v] => do pure (.prepare (← n.asNat?) (← v.asNat?) true)
  | .list [.atom "prepare", n, v, .atom "bad"] => do pure (.prepare (← n.asNat?) (← v.asNat?) false)
  | .list [.atom "commit", n] => do pure (.commit (← n.asNat?))
  | .list [.atom "delete", n] => do pure (.delete (← n.asNat?))
  | _ => none

def parsePair : Sexp → Option (Name × Ver)
  | .list [n, v] => do pure (← n.asNat?, ← v.asNat?)
  | _ => none

def parseCase : Sexp → Option (List (Name × Ver) × List Op)
  | .list (.atom "h" :: .list init :: ops) => do
    let i ← init.mapM parsePair
    let o ← ops.mapM parseOp
    -- Go builds a map from the list: a later entry for the same name wins
    pure (i.reverse, o)
  | _ => none

def insertSorted (x : Nat) : List Nat → List Nat
  | [] => [x]
  | y :: ys => if x < y then x :: y :: ys else if x = y then y :: ys else y :: insertSorted x ys

/-- The names of a case, ascending, without duplicates. -/
def caseNames (init : List (Name × Ver)) (ops : List Op) : List Name :=
  (init.map (·.1) ++ ops.map Op.name).foldl (fun acc x => insertSorted x acc) []

def fmtOut : Out → String
  | .ok => "ok"
  | .errNotPrepared => "(err not-prepared)"
  | .errBuild => "(err build)"
  | .panic => "panic"

def fmtCell : Option (Option Ver) → String
  | some (some v) => toString v
  | some none => "-"
  | none => "nil"

def fmtView (m : Manager) (names : List Name) : String :=
  "(" ++ " ".intercalate (names.map fun n => fmtCell (GetNamespace m n)) ++ ") (" ++
    " ".intercalate (names.map fun n => fmtCell (GetNamespaceByUser m n)) ++ ")"

def model (req : Sexp) : String :=
  match parseCase req with
  | none => "bad"
  | some (init, ops) =>
    let names := caseNames init ops
    let m0 := CreateManager init
    let steps := run m0 ops
    "((init " ++ fmtView m0 names ++ ")" ++
      String.join (steps.map fun e => " (" ++ fmtOut e.1 ++ " " ++ fmtView e.2 names ++ ")") ++ ")"

/-! ### property oracle -/

def parseCell : Sexp → Option (Option Ver)
  | .atom "-" => some none
  | e => e.asNat?.map some

def parseOutcome : Sexp → Option Out
  | .atom "ok" => some .ok
  | .atom "panic" => some .panic
  | .list [.atom "err", .atom "not-prepared"] => some .errNotPrepared
  | .list [.atom "err", _] => some .errBuild
  | _ => none

def optEq (a b : Option Ver) : Bool := a == b

/-- Compare an observed view with the reference state; `none` = it agrees. -/
def classify (s : Spec) (committed : Option Name) (names : List Name) (ns us : List (Option Ver)) : Option String :=
  let bad := (names.zip ns).filter fun (k, x) => !(optEq x (s.active k))
  if bad.isEmpty then
    (if ns == us then none else some "users-from-other-generation")
  else if bad.any (fun (k, x) => x.isSome && (s.active k).isNone && !(optEq x (s.prepared k))) then
    some "deleted-namespace-resurrected"
  else if bad.any (fun (k, x) => x.isSome && optEq x (s.prepared k) && committed != some k) then
    some "uncommitted-config-activated"
  else if bad.any (fun (_, x) => x.isNone) then
    some "namespace-lost"
  else if bad.any (fun (k, _) => committed == some k) then
    some "commit-did-not-activate-prepared"
  else
    some "stale-config-served"

def hasNil (cells : List Sexp) : Bool := cells.any fun c => match c with | .atom "nil" => true | _ => false

def judgeSteps (names : List Name) : Spec → List Op → List Sexp → String
  | _, [], [] => "ok"
  | s, op :: ops, .list [o, .list ns, .list us] :: rest =>
    if hasNil ns || hasNil us then "viol lookup-panics" else
    match parseOutcome o, ns.mapM parseCell, us.mapM parseCell with
    | some out, some nsv, some usv =>
      if nsv.length != names.length || usv.length != names.length then "viol unparsable" else
      match op, out with
      | .commit n, .ok =>
        match s.prepared n with
        | none => "viol commit-succeeded-without-prepare"
        | some _ =>
          let s' := s.step op out
          match classify s' (some n) names nsv usv with
          | some c => "viol " ++ c
          | none => judgeSteps names s' ops rest
      | _, _ =>
        let s' := s.step op out
        match classify s' none names nsv usv with
        | some c => "viol " ++ c
        | none => judgeSteps names s' ops rest
    | _, _, _ => "viol unparsable"
  | _, _, _ => "viol unparsable"

def oracle (req out : Sexp) : String :=
  match parseCase req with
  | none => "bad"
  | some (init, ops) =>
    let names := caseNames init ops
    match out with
    | .list (.list [.atom "init", .list ns, .list us] :: rest) =>
      match ns.mapM parseCell, us.mapM parseCell with
      | some nsv, some usv =>
        if nsv.length != names.length || usv.length != names.length then "viol unparsable" else
        let s0 := Spec.init init
        match classify s0 none names nsv usv with
        | some c => "viol init-" ++ c
        | none => judgeSteps names s0 ops rest
      | _, _ => "viol unparsable"
    | _ => "viol unparsable"

def handle (args : List Sexp) : String :=
  match args with
  | [.atom "m", req] =>
    let out := model req
    match Sexp.parseLine out with
    | some [o] => out ++ " | " ++ oracle req o
    | _ => out
  | [.atom "s", req, out] => oracle req out
  | _ => "bad-request"

end GaeaVerif.Drv.C31
