import GaeaVerif.Sexp
import GaeaVerif.Model.SessionConns
/-
  Shared driver of C18 / C19 / C23 (harness/props/sessconns.go describes the
  line format).

    m (sess (cfg KS USER FB) OP…)            → <model output> | <verdict>
    s (sess …) <implementation output>       → <verdict>

  The verdict is the property oracle: a monitor that replays the observed
  backend events of the session, command by command, and checks what the
  property states about them (it never looks at the model).  Core Lean only.
-/
namespace GaeaVerif.Drv.SessConns
open GaeaVerif GaeaVerif.SessionConns

/-! ## Parsing the request -/

def parseUser : Sexp → Option User
  | .atom "rw" => some .rw
  | .atom "w" => some .w
  | .atom "r" => some .r
  | _ => none

def parseFK : String → Option FK
  | "gm" => some .gm | "gs" => some .gs | "u" => some .u | "x" => some .x | "s" => some .s
  | "b" => some .b | "c" => some .c | "r" => some .r | "a" => some .a | "y" => some .y
  | "p" => some .p | "f" => some .f | "m" => some .m | "n" => some .n
  | _ => none

def parseMode : String → Option Mode
  | "e" => some .e | "t" => some .t | "more" => some .more | "mres" => some .mres | "z" => some .z
  | _ => none

def parseQK : String → Option QK
  | "r" => some .r | "h" => some .h | "l" => some .l | "w" => some .w
  | _ => none

def parseFault : Sexp → Option Fault
  | .list [.atom k, sl, .atom m] => do
    pure { k := (← parseFK k), slice := (← sl.asNat?), mode := (← parseMode m) }
  | _ => none

def parseBody : Sexp → Option Body
  | .list [.atom "q", .atom "u", .atom k] => do pure (.qu (← parseQK k))
  | .list (.atom "q" :: .atom "s" :: .atom k :: ss) => do pure (.qs (← parseQK k) (← ss.mapM Sexp.asNat?))
  | .list [.atom "show"] => some .show
  | .list [.atom "fl"] => some .fl
  | .list [.atom "begin"] => some .begin
  | .list [.atom "commit"] => some .commit
  | .list [.atom "rollback"] => some .rollback
  | .list [.atom "ac", .atom "0"] => some (.ac false)
  | .list [.atom "ac", .atom "1"] => some (.ac true)
  | .list [.atom "sp", n] => do pure (.sp (← n.asNat?))
  | .list [.atom "rel", n] => do pure (.rel (← n.asNat?))
  | .list [.atom "rbt", n] => do pure (.rbt (← n.asNat?))
  | .list [.atom "ping"] => some .ping
  | .list [.atom "quit"] => some .quit
  | .list [.atom "disc"] => some .disc
  | .list [.atom "nsc"] => some .nsc
  | _ => none

def parseOp : Sexp → Option Op
  | .list [b, .list ord, .list fs] => do
    pure { body := (← parseBody b), ord := (← ord.mapM Sexp.asNat?), faults := (← fs.mapM parseFault) }
  | _ => none

def parseSess : Sexp → Option (Cfg × List Op)
  | .list (.atom "sess" :: .list [.atom "cfg", ks, u, fb] :: ops) => do
    pure ({ ks := (← ks.asBool?), user := (← parseUser u), fb := (← fb.asBool?) }, (← ops.mapM parseOp))
  | _ => none

/-! ## Formatting the model's output -/

def tf (b : Bool) : String := if b then "t" else "f"

def ckName : CK → String
  | .U => "U" | .X => "X" | .S => "S" | .B => "B" | .C => "C" | .R => "R"
  | .A0 => "A0" | .A1 => "A1" | .Y => "Y" | .P => "P" | .F => "F" | .M => "M" | .N => "N"

def resName : Res → String
  | .ok => "ok" | .e => "e" | .t => "t" | .more => "more" | .mres => "mres" | .z => "z"

def fmtEvent : Event → String
  | .get m sl none => s!"(G {if m then "m" else "s"} {sl} e)"
  | .get m sl (some c) => s!"(G {if m then "m" else "s"} {sl} {c})"
  | .call k c r => s!"({ckName k} {c} {resName r})"
  | .close c => s!"(Z {c})"
  | .recycle c => s!"(K {c})"

def fmtMap (tag : String) (m : CMap) : String :=
  "(" ++ tag ++ String.join ((bySlice m).map fun e => s!" ({e.1} {e.2})") ++ ")"

def fmtState (s : St) : String :=
  s!"(s {tf s.autocommit} {tf s.inTrans} {fmtMap "tx" s.txConns} {fmtMap "ks" s.ksConns} {tf s.closed})"

def respName : Resp → String
  | .ok => "ok" | .err => "err" | .res => "res" | .none => "none" | .badconn => "none"

def fmtConn (id : Nat) (c : Conn) : String :=
  s!"(c {id} {if c.master then "m" else "s"} {c.slice} {tf c.closed} {c.returns} {tf c.uar} {tf c.rif} {tf c.dup})"

def fmtLedger (cs : List Conn) : String :=
  "(end" ++ String.join ((List.range cs.length).zip cs |>.map fun p => " " ++ fmtConn p.1 p.2) ++ ")"

def runModel (cfg : Cfg) (ops : List Op) : String :=
  let rec go (s : St) : List Op → List String → St × List String
    | [], acc => (s, acc.reverse)
    | op :: rest, acc =>
      if s.closed then go s rest ("(dead)" :: acc) else
      let (s', r) := step cfg s op
      let evs := String.join (s'.w.trace.reverse.map fun e => " " ++ fmtEvent e)
      go s' rest (s!"({respName r} {fmtState s'}{evs})" :: acc)
  let (s, outs) := go {} ops []
  "(" ++ String.join (outs.map fun o => o ++ " ") ++ fmtLedger s.w.conns ++ ")"

/-! ## Parsing an observed output -/

structure ObsOp where
  dead : Bool := false
  resp : String := ""
  ac : Bool := true
  intx : Bool := false
  closed : Bool := false
  events : List Event := []

def parseCK : String → Option CK
  | "U" => some .U | "X" => some .X | "S" => some .S | "B" => some .B | "C" => some .C | "R" => some .R
  | "A0" => some .A0 | "A1" => some .A1 | "Y" => some .Y | "P" => some .P | "F" => some .F | "M" => some .M
  | "N" => some .N
  | _ => none

def parseRes : String → Option Res
  | "ok" => some .ok | "e" => some .e | "t" => some .t | "more" => some .more | "mres" => some .mres | "z" => some .z
  | _ => none

def parseEvent : Sexp → Option Event
  | .list [.atom "G", .atom role, sl, .atom "e"] => do pure (.get (role == "m") (← sl.asNat?) none)
  | .list [.atom "G", .atom role, sl, c] => do pure (.get (role == "m") (← sl.asNat?) (some (← c.asNat?)))
  | .list [.atom "Z", c] => do pure (.close (← c.asNat?))
  | .list [.atom "K", c] => do pure (.recycle (← c.asNat?))
  | .list [.atom k, c, .atom r] => do pure (.call (← parseCK k) (← c.asNat?) (← parseRes r))
  | _ => none

def parseObsOp : Sexp → Option ObsOp
  | .list [.atom "dead"] => some { dead := true }
  | .list (.atom resp :: .list [.atom "s", ac, intx, _, _, closed] :: evs) => do
    pure { resp := resp, ac := (← ac.asBool?), intx := (← intx.asBool?), closed := (← closed.asBool?),
           events := (← evs.mapM parseEvent) }
  | _ => none

/-- the per-command elements of an output (the final `(end …)` ledger is implied by the events) -/
def parseObs : Sexp → Option (List ObsOp)
  | .list xs =>
    match xs.reverse with
    | .list (.atom "end" :: _) :: revOps => revOps.reverse.mapM parseObsOp
    | _ => none
  | _ => none

/-! ## The monitor -/

structure MConn where
  id : Nat
  slice : Nat
  master : Bool
  returned : Nat := 0
  closed : Bool := false
  inflight : Bool := false
  /-- the statement in flight was sent by a sharded statement (executeMultipleSQLInSlice) -/
  inflightShard : Bool := false
  /-- the session talked to it during the current transaction window -/
  touched : Bool := false

structure Mon where
  conns : List MConn := []
  /-- `isInTransaction` when the current command started -/
  inTx : Bool := false
  /-- connection that ran the statements of the current transaction, per slice -/
  txPin : List (Nat × Nat) := []
  /-- a connection of the current transaction window was lost (closed) -/
  winLost : Bool := false
  /-- keep-session: the namespace was reloaded since the last command; the connections pinned then -/
  nscPending : Bool := false
  stale : List Nat := []
  /-- violations found so far, oldest first: (properties it belongs to, class) -/
  viols : List (String × String) := []

def Mon.viol (props cls : String) (m : Mon) : Mon := { m with viols := m.viols ++ [(props, cls)] }

def Mon.find (m : Mon) (id : Nat) : Option MConn := m.conns.find? (·.id == id)

def Mon.upd (m : Mon) (id : Nat) (f : MConn → MConn) : Mon :=
  { m with conns := m.conns.map fun c => if c.id == id then f c else c }

def Mon.outstanding (m : Mon) : List MConn := m.conns.filter (·.returned == 0)

def lookupPin (l : List (Nat × Nat)) (k : Nat) : Option Nat := (l.find? (·.1 == k)).map (·.2)

/-- is there, among the events of this command, a backend failure on connection `id`
    that justifies giving the connection up? -/
def lossReason (evs : List Event) (id : Nat) : Bool :=
  evs.any fun e =>
    match e with
    | .call .X c .t => c == id
    | .call .P c .e => c == id
    | .call .A0 c .e => c == id
    | .call .B c .e => c == id
    | .call .Y c .e => c == id
    -- the fetch of the pending rows / further results of a streamed answer failed: the stream is
    -- given up and its connection closed (fix 7cb439b), or its unread packets would be taken
    -- for the answer to the next statement
    | .call .M c .e => c == id
    | .call .N c .e => c == id
    | .call _ c .z => c == id
    | _ => false

def monEvent (cfg : Cfg) (shard : Bool) (o : ObsOp) (m : Mon) (e : Event) : Mon :=
  match e with
  | .get _ _ none => m
  | .get master sl (some id) =>
    let m := if cfg.ks && (m.outstanding.any (·.slice == sl)) then m.viol "C23" "ks-second-conn-on-slice" else m
    { m with conns := m.conns ++ [{ id := id, slice := sl, master := master }] }
  | .call k id r =>
    match m.find id with
    | none => m.viol "C18 C19 C23" "event-on-unknown-connection"
    | some c =>
      let m := if c.returned > 0 then m.viol "C18 C19 C23" "use-after-recycle" else m
      let m := if cfg.ks && m.nscPending && !m.inTx && m.stale.contains id then m.viol "C23" "ks-stale-after-nschange" else m
      let m :=
        if k == .X && m.inTx then
          let m :=
            if !c.master then
              (if cfg.ks && cfg.user == .r then m.viol "C18" "ks-readonly-tx-on-replica" else m.viol "C18" "tx-on-replica")
            else m
          let m :=
            match lookupPin m.txPin c.slice with
            | some c0 =>
              if c0 != id then
                (if m.winLost then m.viol "C18" "tx-continues-after-conn-loss" else m.viol "C18" "tx-conn-switch")
              else m
            | none => m
          { m with txPin := (m.txPin.filter (·.1 != c.slice)) ++ [(c.slice, id)] }
        else m
      let m := if r == .z && m.inTx then { m with winLost := true } else m
      m.upd id fun c => { c with touched := true, inflight := c.inflight || (k == .X && r == .t),
                                 inflightShard := if k == .X && r == .t then shard else c.inflightShard,
                                 closed := c.closed || r == .z }
  | .close id =>
    match m.find id with
    | none => m.viol "C18 C19 C23" "event-on-unknown-connection"
    | some c =>
      let m := if c.returned > 0 then m.viol "C19 C23" "use-after-recycle" else m
      let legit := o.closed || (m.nscPending && !m.inTx && m.stale.contains id) || lossReason o.events id
      let m := if cfg.ks && !legit then m.viol "C23" "ks-pin-dropped" else m
      let m := if m.inTx && c.touched then { m with winLost := true } else m
      m.upd id fun c => { c with closed := true, inflight := false }
  | .recycle id =>
    match m.find id with
    | none => m.viol "C18 C19 C23" "event-on-unknown-connection"
    | some c =>
      let m := if c.returned > 0 then m.viol "C19 C23" "double-recycle" else m
      let m := if c.inflight then
          m.viol "C18 C19" (if c.inflightShard then "shard-timeout-conn-returned-in-flight" else "conn-returned-in-flight")
        else m
      let m := if cfg.ks && !c.closed && !o.closed then m.viol "C23" "ks-pin-dropped" else m
      m.upd id fun c => { c with returned := c.returned + 1 }

def hasDupSlice : List MConn → Bool
  | [] => false
  | c :: cs => cs.any (·.slice == c.slice) || hasDupSlice cs

def monOp (cfg : Cfg) (m : Mon) (op : Op) (o : ObsOp) : Mon :=
  if o.dead then m else
  if op.body == .nsc then
    { m with nscPending := true, stale := m.outstanding.map (·.id) }
  else
  let nscInTx := cfg.ks && m.nscPending && m.inTx
  let shard := match op.body with | .qs _ _ => true | _ => false
  let m := o.events.foldl (monEvent cfg shard o) m
  -- C18: commit / rollback reach the connections of the transaction, which are then released
  let m :=
    if (op.body == .commit || op.body == .rollback) && m.inTx && !nscInTx then
      let targets := o.events.filterMap fun e =>
        match e with
        | .call .C c _ => if op.body == .commit then some c else none
        | .call .R c _ => if op.body == .rollback then some c else none
        | _ => none
      let m :=
        if m.txPin.any (fun p => match m.find p.2 with
            | some c => !c.closed && c.returned == 0 && !targets.contains p.2
            | none => false) then m.viol "C18" "commit-missed-conn" else m
      let m :=
        if targets.any (fun t => match m.find t with
            | some c => !c.touched
            | none => true) then m.viol "C18" "commit-foreign-conn" else m
      if !cfg.ks && targets.any (fun t => match m.find t with
            | some c => c.returned == 0
            | none => false) then m.viol "C18" "tx-conn-not-released" else m
    else m
  -- C23: the first command after a reload of the namespace
  let m :=
    if cfg.ks && m.nscPending then
      if m.inTx then
        let m := if !o.closed then m.viol "C23" "ks-tx-nschange-not-closed" else m
        if o.events.any (fun e => match e with | .call .X _ _ => true | _ => false) then
          m.viol "C23" "ks-tx-nschange-statement-ran" else m
      else
        if m.stale.any (fun id => match m.find id with
            | some c => c.returned == 0
            | none => false) then m.viol "C23" "ks-stale-after-nschange" else m
    else m
  let m := { m with nscPending := false, stale := [] }
  -- C19: what may still be out when the session is idle again
  let out := m.outstanding
  let inTxAfter := o.intx || !o.ac
  let m :=
    if o.closed then
      (if !out.isEmpty then m.viol "C19 C23" "leak-at-close" else m)
    else if cfg.ks then m
    else if !inTxAfter then
      (if !out.isEmpty then m.viol "C19" "leak-outside-transaction" else m)
    else if op.body == .commit || op.body == .rollback || op.body == .ac true then
      (if !out.isEmpty then m.viol "C19" "leak-after-transaction-end" else m)
    else if hasDupSlice out then m.viol "C19" "tx-extra-conn-on-slice"
    else m
  -- a transaction window ends with commit / rollback / autocommit=1 (or the session)
  let ends := op.body == .commit || op.body == .rollback || op.body == .ac true || o.closed || !inTxAfter
  let m := if ends then
      { m with txPin := [], winLost := false, conns := m.conns.map fun c => { c with touched := false } }
    else m
  { m with inTx := inTxAfter }

def monAll (cfg : Cfg) : Mon → List Op → List ObsOp → Mon
  | m, op :: ops, o :: os => monAll cfg (monOp cfg m op o) ops os
  | m, _, _ => m

/-- classes reported only when no other violation was seen in the same session
    (none today: the three classes that were listed here as known findings of
    the pinned tree - tx-continues-after-conn-loss, ks-readonly-tx-on-replica,
    shard-timeout-conn-returned-in-flight - are repaired and are ordinary
    violations now) -/
def lowPriority : List String := []

def hasWord (s w : String) : Bool := (s.splitOn " ").contains w

def verdict (prop : String) (cfg : Cfg) (ops : List Op) (out : Sexp) : String :=
  match out with
  | .atom "panic" => "viol session-panic"
  | _ =>
  match parseObs out with
  | none => "viol unparsable-output"
  | some obs =>
    if obs.length != ops.length then "viol unparsable-output" else
    let m := monAll cfg {} ops obs
    let mine := (m.viols.filter fun v => hasWord v.1 prop).map (·.2)
    match mine.find? (fun c => !lowPriority.contains c) with
    | some c => "viol " ++ c
    | none =>
      match mine with
      | c :: _ => "viol " ++ c
      | [] => "ok"

def handle (prop : String) (args : List Sexp) : String :=
  match args with
  | [.atom "m", req] =>
    match parseSess req with
    | none => "bad-input"
    | some (cfg, ops) =>
      let out := runModel cfg ops
      match Sexp.parseLine out with
      | some [o] => out ++ " | " ++ verdict prop cfg ops o
      | _ => out
  | [.atom "s", req, out] =>
    match parseSess req with
    | none => "bad-input"
    | some (cfg, ops) => verdict prop cfg ops out
  | _ => "bad-request"

end GaeaVerif.Drv.SessConns
