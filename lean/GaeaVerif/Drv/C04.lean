import GaeaVerif.Drv.InsSexp
import GaeaVerif.Model.GlobalStmt
/-
  Driver for C04 (statements over global tables only).
  Request: m (g04 (ns SLICE…) (valid DB…) (cfgs GCFG…) STMT)     s <same> <implementation output>
    GCFG  (gcfg DB (locations…) (slices…) (databases expanded…) (databases as configured…))   one per table reference
    STMT  (stmt select|update|delete|insert SQLHEX (NAME…) (NAME…) (NAME…))     fields / from / tail
    NAME  (POS SCHEMA TABLE NAME ALIAS WHOLE)
  Output: writes  (ok (SLICE DB (CHAIN…))…)            sorted entries, one per produced statement
          reads   (read N (SLICE DB (CHAIN…))…)        N = most statements produced by one planning,
                                                       entries = the distinct statements over all picks
          err | panic
  Oracle: a write reaches exactly the configured copies; a read is one
          statement on a configured copy; no name in a statement still carries a
          database name other than the database the statement is sent to.
-/
namespace GaeaVerif.Drv.C04
open GaeaVerif GaeaVerif.Layout GaeaVerif.Global GaeaVerif.Drv.Ins

def pos? : String → Option Pos
  | "table" => some .tableRef
  | "select-field" => some .selField
  | "wildcard-field" => some .selWildcard
  | "condition-operand" => some .condOperand
  | "condition-other" => some .condOther
  | "nested-condition-column" => some .condNested
  | "by-item" => some .byItem
  | "set-column" => some .setColumn
  | "update-set-value" => some .setValue
  | "insert-column" => some .insColumn
  | "appended-by-field" => some .byAppended
  | _ => none

def posName : Pos → String
  | .tableRef => "table"
  | .selField => "select-field"
  | .selWildcard => "wildcard-field"
  | .condOperand => "condition-operand"
  | .condOther => "condition-other"
  | .condNested => "nested-condition-column"
  | .byItem => "by-item"
  | .setColumn => "set-column"
  | .setValue => "update-set-value"
  | .insColumn => "insert-column"
  | .byAppended => "appended-by-field"

/-- positions at which the planner installs a decorator (or strips the qualifiers) -/
def rewritten : Pos → Bool
  | .tableRef | .selField | .condOperand | .condOther | .byItem | .setColumn | .insColumn => true
  | _ => false

def name? : Sexp → Option Name
  | .list [.atom p, sc, tb, nm, al, wh] => do
      pure { pos := (← pos? p), schema := (← ident? sc), table := (← ident? tb), name := (← ident? nm),
             alias := (← ident? al), whole := (← wh.asBool?) }
  | _ => none

def names? : Sexp → Option (List Name)
  | .list xs => xs.mapM name?
  | _ => none

def kind? : Sexp → Option StmtKind
  | .atom "select" => some .select
  | .atom "update" => some .update
  | .atom "delete" => some .delete
  | .atom "insert" => some .insert
  | _ => none

structure Input where
  ns : List String
  valid : List String
  cfgs : List GlobalCfg
  stmt : Stmt

def input? : Sexp → Option Input
  | .list [.atom "g04", .list (.atom "ns" :: ns), .list (.atom "valid" :: vs), .list (.atom "cfgs" :: cs),
           .list [.atom "stmt", k, _, f, fr, tl]] => do
      pure { ns := (← ns.mapM ident?), valid := (← vs.mapM ident?), cfgs := (← cs.mapM gcfg?),
             stmt := { kind := (← kind? k), fields := (← names? f), «from» := (← names? fr), tail := (← names? tl) } }
  | _ => none

def showEntry (t : Target (List Chain)) : String :=
  "(" ++ showIdent t.slice ++ " " ++ showIdent t.db ++ " (" ++ " ".intercalate (t.sql.map showChain) ++ "))"

def dedup (xs : List String) : List String :=
  xs.foldr (fun x acc => if acc.contains x then acc else x :: acc) []

/-- the model's answer: writes are planned once, reads for every value of
    `rand.Intn(tableLen)` -/
def model (inp : Input) : String :=
  match inp.cfgs.mapM (parseGlobalRule false inp.ns) with
  | none => "err"
  | some rules =>
    if inp.stmt.kind = .select then
      let n := match rules with
        | r :: _ => r.idxs.length
        | [] => 0
      let runs := (List.range (max n 1)).map fun pick => planGlobal false inp.valid rules inp.stmt 0 pick
      if runs.any (fun r => r.isPanic) then "panic"
      else if runs.any (fun r => match r with | .fail => true | _ => false) then "err"
      else
        let outs := runs.filterMap fun r => match r with | .ok ts => some ts | _ => none
        let most := outs.foldl (fun m ts => max m ts.length) 0
        let entries := sortStrings (dedup (outs.flatMap fun ts => ts.map showEntry))
        "(read " ++ toString most ++ String.join (entries.map (" " ++ ·)) ++ ")"
    else
      match planGlobal false inp.valid rules inp.stmt 0 0 with
      | .ok ts => "(ok" ++ String.join ((sortStrings (ts.map showEntry)).map (" " ++ ·)) ++ ")"
      | .fail => "err"
      | .panic => "panic"

/-! ### The property oracle -/

structure Obs where
  slice : String
  db : String
  chains : List (List String)

def obs? : Sexp → Option Obs
  | .list [sl, db, .list cs] => do
      pure { slice := (← ident? sl), db := (← ident? db), chains := (← cs.mapM idents?) }
  | _ => none

/-- how many chains a name is printed as -/
def chainCount (n : Name) : Nat := if n.pos = .tableRef ∧ n.alias ≠ "" then 2 else 1

/-- the position of the name the k-th chain of a statement belongs to -/
def posOfChain : List Name → Nat → Option Pos
  | [], _ => none
  | n :: ns, k => if k < chainCount n then some n.pos else posOfChain ns (k - chainCount n)

/-- database names of the layouts: logical and physical -/
def dbNames (inp : Input) : List String :=
  inp.cfgs.flatMap fun c => c.db :: c.databases

/-- the first chain that still starts with a database name other than `db`;
    chains at positions the planner rewrites are reported first -/
def foreignDb (inp : Input) (o : Obs) : Option String :=
  let names := textNames inp.stmt
  let total := (names.map chainCount).foldl (· + ·) 0
  let bad := (List.range o.chains.length).filter fun k =>
    match o.chains[k]? with
    | some (h :: _ :: _) => (dbNames inp).contains h && h != o.db
    | _ => false
  if bad.isEmpty then none
  else if total != o.chains.length then some "database-name-not-rewritten"
  else
    let ps := bad.filterMap (posOfChain names)
    match ps.find? rewritten, ps with
    | some p, _ => some ("database-name-not-rewritten-in-" ++ posName p)
    | none, p :: _ => some ("database-name-not-rewritten-in-" ++ posName p)
    | none, [] => some "database-name-not-rewritten"

def oracle (inp : Input) (out : Sexp) : String :=
  let want := match inp.cfgs with
    | c :: _ => copies c
    | [] => []
  let judge (obs : List Obs) (isRead : Bool) (most : Nat) : String :=
    let got := obs.map fun o => (o.slice, o.db)
    let placement :=
      if isRead then
        if most > 1 then some "read-on-several-copies"
        else if got.any (fun g => !want.contains g) then some "read-target-not-a-copy"
        else none
      else if sameMultiset got want then none
      else if want.any (fun w => count w got < count w want) then some "write-misses-copy"
      else some "write-extra-target"
    match placement with
    | some v => "viol " ++ v
    | none =>
      match obs.filterMap (foreignDb inp) with
      | v :: _ => "viol " ++ v
      | [] => "ok"
  match out with
  | .atom "err" => "ok"
  | .atom "panic" => "ok"      -- recovered by the session: the statement is rejected
  | .list (.atom "ok" :: es) =>
    match es.mapM obs? with
    | some obs => judge obs false 0
    | none => "viol unparsable"
  | .list (.atom "read" :: n :: es) =>
    match es.mapM obs?, n.asNat? with
    | some obs, some most => judge obs true most
    | _, _ => "viol unparsable"
  | _ => "viol unexpected-output"

def handle (args : List Sexp) : String :=
  match args with
  | [.atom "m", req] =>
    match input? req with
    | none => "bad-input"
    | some inp =>
      let out := model inp
      match Sexp.parseLine out with
      | some [o] => out ++ " | " ++ oracle inp o
      | _ => out
  | [.atom "s", req, out] =>
    match input? req with
    | none => "bad-input"
    | some inp => oracle inp out
  | _ => "bad-request"

end GaeaVerif.Drv.C04
