import GaeaVerif.Drv.InsSexp
import GaeaVerif.Model.GlobalTree
/-
  Driver for C04 (statements over global tables only).
  Request: m (g04 (ns SLICE…) (valid DB…) (sess DB) (rules (rule DB TABLE GCFG)…) STMT)     s <same> <implementation output>
    GCFG  (gcfg DB (locations…) (slices…) (databases expanded…) (databases as configured…))
    STMT  (stmt select|update|delete|insert SQLHEX (fields F…) (from TREF…) (cols COL…) (rows (row E…)…)
                (sets (set COL E)…) (ondup (set COL E)…) (where E|-) (group BY…) (having E|-) (order BY…))
    F     star | (wild SCHEMA TABLE) | (fx E)
    TREF  (tref SCHEMA TABLE ALIAS E|-)              the ON condition of a joined table
    COL   (c SCHEMA TABLE NAME)
    BY    (bcol SCHEMA TABLE NAME) | (bagg E) | blit | bother
    E     (col SCHEMA TABLE NAME) | v | (node E E) | (cmp E E) | (logic E E) | (binop E E) | (in E E) | (between E E E) | (paren E)
  The statement is the tree the repository's parser produced for SQLHEX, reduced
  to the node kinds of Model/GlobalTree.lean by the harness.
  Output: writes  (ok (SLICE DB (CHAIN…))…)            sorted entries, one per produced statement
          reads   (read N (SLICE DB (CHAIN…))…)        N = most statements produced by one planning,
                                                       entries = the distinct statements over all picks
          (unshard)                                    BuildPlan answered with an unshard plan
          (router-state-changed …)                     planning changed the router's rules (implementation only)
          err | panic
  Oracle: a statement that names a global table (schema qualifier first, session
          database otherwise) is planned on the copies; a write reaches exactly
          the configured copies; a read is one statement on a configured copy;
          no name in a statement still carries a database name other than the
          database the statement is sent to; planning leaves the router's rules
          unchanged.
-/
namespace GaeaVerif.Drv.C04
open GaeaVerif GaeaVerif.Layout GaeaVerif.Global GaeaVerif.GlobalTree GaeaVerif.Drv.Ins

def posName : Pos → String
  | .tableRef => "table"
  | .selField => "select-field"
  | .selWildcard => "wildcard-field"
  | .condOperand => "condition-operand"
  | .condOther => "condition-other"
  | .condRoot => "condition-root-column"
  | .condNested => "nested-condition-column"
  | .condBinopNested => "other-operator-operand"
  | .condInItem => "in-list-value"
  | .condInNested => "in-expression"
  | .condBetweenBound => "between-bound"
  | .condBetweenNested => "between-expression"
  | .having => "having"
  | .byItem => "by-item"
  | .setColumn => "set-column"
  | .setValue => "update-set-value"
  | .insColumn => "insert-column"
  | .byAppended => "appended-by-field"
  | .byExpr => "by-item-aggregate"
  | .byExprAppended => "appended-by-aggregate"
  | .insValue => "insert-value"

def col? : Sexp → Option ColRef
  | .list [_, sc, tb, nm] => do pure { schema := (← ident? sc), table := (← ident? tb), name := (← ident? nm) }
  | _ => none

def expr? : Sexp → Option Expr
  | .atom "v" => some .val
  | .list [.atom "col", sc, tb, nm] => do
      pure (.col { schema := (← ident? sc), table := (← ident? tb), name := (← ident? nm) })
  | .list [.atom "node", l, r] => do pure (.node (← expr? l) (← expr? r))
  | .list [.atom "cmp", l, r] => do pure (.cmp (← expr? l) (← expr? r))
  | .list [.atom "logic", l, r] => do pure (.logic (← expr? l) (← expr? r))
  | .list [.atom "binop", l, r] => do pure (.binop (← expr? l) (← expr? r))
  | .list [.atom "in", e, items] => do pure (.inList (← expr? e) (← expr? items))
  | .list [.atom "between", e, lo, hi] => do pure (.between (← expr? e) (← expr? lo) (← expr? hi))
  | .list [.atom "paren", e] => do pure (.paren (← expr? e))
  | _ => none

def optExpr? : Sexp → Option (Option Expr)
  | .atom "-" => some none
  | e => do pure (some (← expr? e))

def field? : Sexp → Option Field
  | .atom "star" => some .star
  | .list [.atom "wild", sc, tb] => do pure (.wild (← ident? sc) (← ident? tb))
  | .list [.atom "fx", e] => do pure (.expr (← expr? e))
  | _ => none

def tref? : Sexp → Option TableRef
  | .list [.atom "tref", sc, tb, al, on] => do
      pure { schema := (← ident? sc), table := (← ident? tb), alias := (← ident? al), on := (← optExpr? on) }
  | _ => none

def byItem? : Sexp → Option ByItem
  | .atom "blit" => some .lit
  | .atom "bother" => some .other
  | .list [.atom "bcol", sc, tb, nm] => do
      pure (.col { schema := (← ident? sc), table := (← ident? tb), name := (← ident? nm) })
  | .list [.atom "bagg", e] => do pure (.agg (← expr? e))
  | _ => none

def assign? : Sexp → Option Assign
  | .list [.atom "set", c, e] => do pure { col := (← col? c), value := (← expr? e) }
  | _ => none

def row? : Sexp → Option (List Expr)
  | .list (.atom "row" :: es) => es.mapM expr?
  | _ => none

def kind? : Sexp → Option StmtKind
  | .atom "select" => some .select
  | .atom "update" => some .update
  | .atom "delete" => some .delete
  | .atom "insert" => some .insert
  | _ => none

def stmt? : Sexp → Option TStmt
  | .list [.atom "stmt", k, _, .list (.atom "fields" :: fs), .list (.atom "from" :: ts), .list (.atom "cols" :: cs),
           .list (.atom "rows" :: rs), .list (.atom "sets" :: ss), .list (.atom "ondup" :: ds), .list [.atom "where", w],
           .list (.atom "group" :: gs), .list [.atom "having", h], .list (.atom "order" :: os)] => do
      pure { kind := (← kind? k), fields := (← fs.mapM field?), tables := (← ts.mapM tref?), cols := (← cs.mapM col?),
             rows := (← rs.mapM row?), sets := (← ss.mapM assign?), ondup := (← ds.mapM assign?), «where» := (← optExpr? w),
             groupBy := (← gs.mapM byItem?), having := (← optExpr? h), orderBy := (← os.mapM byItem?) }
  | _ => none

structure Input where
  ns : List String
  valid : List String
  sess : String
  rules : List (String × String × GlobalCfg)
  stmt : TStmt

def ruleCfg? : Sexp → Option (String × String × GlobalCfg)
  | .list [.atom "rule", db, tb, cfg] => do pure ((← ident? db), (← ident? tb), (← gcfg? cfg))
  | _ => none

def input? : Sexp → Option Input
  | .list [.atom "g04", .list (.atom "ns" :: ns), .list (.atom "valid" :: _), .list [.atom "sess", ss],
           .list (.atom "rules" :: rs), st] => do
      -- `Router.ValidDBInRules`: the databases that have a rule (the `valid` form of the line is informative only)
      let rules ← rs.mapM ruleCfg?
      pure { ns := (← ns.mapM ident?), valid := rules.map (·.1), sess := (← ident? ss), rules := rules,
             stmt := (← stmt? st) }
  | _ => none

/-- `NewRouter`: every rule of the namespace must parse -/
def router? (inp : Input) : Option (List RouterRule) :=
  inp.rules.mapM fun (db, tb, cfg) => (parseGlobalRule false inp.ns cfg).map fun r => { db := db, table := tb, rule := r }

def showEntry (t : Target (List Chain)) : String :=
  "(" ++ showIdent t.slice ++ " " ++ showIdent t.db ++ " (" ++ " ".intercalate (t.sql.map showChain) ++ "))"

def dedup (xs : List String) : List String :=
  xs.foldr (fun x acc => if acc.contains x then acc else x :: acc) []

/-- the model's answer: writes are planned once, reads for every value of
    `rand.Intn(tableLen)` -/
def model (inp : Input) : String :=
  match router? inp with
  | none => "err"
  | some router =>
    let plan := fun pick => planStmt router inp.valid inp.sess inp.stmt 0 pick
    if inp.stmt.kind = .select then
      let n := match resolveRefs router inp.valid inp.sess inp.stmt.tables with
        | some (r :: _) => r.idxs.length
        | _ => 0
      let runs := (List.range (max n 1)).map plan
      if runs.any (fun r => r.isPanic) then "panic"
      else if runs.any (fun r => match r with | .fail => true | _ => false) then "err"
      else if runs.any (fun r => match r with | .ok .unshard => true | _ => false) then "(unshard)"
      else
        let outs := runs.filterMap fun r => match r with | .ok (.shard ts) => some ts | _ => none
        let most := outs.foldl (fun m ts => max m ts.length) 0
        let entries := sortStrings (dedup (outs.flatMap fun ts => ts.map showEntry))
        "(read " ++ toString most ++ String.join (entries.map (" " ++ ·)) ++ ")"
    else
      match plan 0 with
      | .ok (.shard ts) => "(ok" ++ String.join ((sortStrings (ts.map showEntry)).map (" " ++ ·)) ++ ")"
      | .ok .unshard => "(unshard)"
      | .fail => "err"
      | .panic => "panic"

/-! ### The property oracle -/

structure Obs where
  slice : String
  db : String
  chains : List (List String)

def obs? : Sexp → Option Obs
  | .list [sl, db, .list cs] => do
      pure { slice := (← ident? sl), db := (← ident? db), chains := (← cs.mapM idents?) }
  | _ => none

/-- how many chains a name is printed as -/
def chainCount (n : Name) : Nat := if n.pos = .tableRef ∧ n.alias ≠ "" then 2 else 1

/-- the position of the name the k-th chain of a statement belongs to -/
def posOfChain : List Name → Nat → Option Pos
  | [], _ => none
  | n :: ns, k => if k < chainCount n then some n.pos else posOfChain ns (k - chainCount n)

/-- database names of the layouts: logical and physical -/
def dbNames (inp : Input) : List String :=
  inp.rules.flatMap fun (db, _, c) => db :: c.db :: c.databases

/-- the configuration of the first table of the statement that is a global
    table: in the database of its schema qualifier, else in the session's -/
def firstCfg (inp : Input) : Option GlobalCfg :=
  inp.stmt.tables.findSome? fun t =>
    (inp.rules.find? fun (db, tb, _) => db == effectiveDB inp.sess t && tb == t.table).map fun (_, _, c) => c

/-- the first chain that still starts with a database name other than `db`,
    reported with the syntactic position of the name it belongs to -/
def foreignDb (inp : Input) (o : Obs) : Option String :=
  let names := textNames (skeleton inp.stmt)
  let total := (names.map chainCount).foldl (· + ·) 0
  let bad := (List.range o.chains.length).filter fun k =>
    match o.chains[k]? with
    | some (h :: _ :: _) => (dbNames inp).contains h && h != o.db
    | _ => false
  if bad.isEmpty then none
  else if total != o.chains.length then some "database-name-not-rewritten"
  else
    match bad.filterMap (posOfChain names) with
    | p :: _ => some ("database-name-not-rewritten-in-" ++ posName p)
    | [] => some "database-name-not-rewritten"

def oracle (inp : Input) (out : Sexp) : String :=
  let want := match firstCfg inp with
    | some c => copies c
    | none => []
  let judge (obs : List Obs) (isRead : Bool) (most : Nat) : String :=
    let got := obs.map fun o => (o.slice, o.db)
    let placement :=
      if isRead then
        if most > 1 then some "read-on-several-copies"
        else if got.any (fun g => !want.contains g) then some "read-target-not-a-copy"
        else none
      else if sameMultiset got want then none
      else if want.any (fun w => count w got < count w want) then some "write-misses-copy"
      else some "write-extra-target"
    match placement with
    | some v => "viol " ++ v
    | none =>
      match obs.filterMap (foreignDb inp) with
      | v :: _ => "viol " ++ v
      | [] => "ok"
  match out with
  | .atom "err" => "ok"
  | .atom "panic" => "ok"      -- recovered by the session: the statement is rejected
  | .list [.atom "unshard"] =>
    -- sent once, to the default slice, as it is: fine unless the statement names a global table
    if (firstCfg inp).isSome then "viol global-statement-not-planned-on-copies" else "ok"
  | .list (.atom "router-state-changed" :: _) => "viol router-state-changed-by-planning"
  | .list (.atom "ok" :: es) =>
    match es.mapM obs? with
    | some obs => judge obs false 0
    | none => "viol unparsable"
  | .list (.atom "read" :: n :: es) =>
    match es.mapM obs?, n.asNat? with
    | some obs, some most => judge obs true most
    | _, _ => "viol unparsable"
  | _ => "viol unexpected-output"

def handle (args : List Sexp) : String :=
  match args with
  | [.atom "m", req] =>
    match input? req with
    | none => "bad-input"
    | some inp =>
      let out := model inp
      match Sexp.parseLine out with
      | some [o] => out ++ " | " ++ oracle inp o
      | _ => out
  | [.atom "s", req, out] =>
    match input? req with
    | none => "bad-input"
    | some inp => oracle inp out
  | _ => "bad-request"

end GaeaVerif.Drv.C04
