import GaeaVerif.Drv.InsSexp
import GaeaVerif.Model.InsertPlan
import GaeaVerif.Model.InsertStored
/-
  Driver for C03 (INSERT / REPLACE on sharded and global tables).
  Request: m (ins RULE SHARDCOL SEQ STMT TYPE (fti (KEY PLACE)…))        s <same> <implementation output>
    RULE  (rule ks|mycat|global DB (slices…) (idxs…) (t2s (k v)…) (dbs…))
    SEQ   n | (seq PK START FAILAT|n (PLACE…))
    STMT  (stmt (x RULE SQLHEX FLAGS) HASSELECT SETMODE (cols…) (rows (CELL…)…) (ondup…) SCHEMA TABLE)
    CELL  (l TXTHEX PLACE VAL) | n | nv | (x TXTHEX)       PLACE  <int> | e | p
    VAL   (i N) | (u N) | (s HEX) | (o KIND)               KEY  (i N) | (u N) | (s HEX)
    TYPE  the rule's GetType()
    fti   FindTableIndex of the real rule on other spellings of the sharding values
  Output: (ok (SLICE DB (TABLE-CHAIN) (cols…) (rows (CELLHEX…)…) FLAGS)…) sorted | err | panic
  Oracle: an accepted statement stores every row exactly once in the physical
          table its sharding value is placed in (every copy for a global
          table); a statement with an unroutable row, with an assignment to the
          sharding column in ON DUPLICATE KEY UPDATE or with a SELECT as its
          source must not be accepted; the sharding value is an integer or a
          string literal, and the table it is placed in is the one
          FindTableIndex gives for the value a column of the other type holds
          for it (`InsertStored.storedKeys`, looked up in `fti`).  For hash and
          mod rules the placements the harness reports are compared with the
          Lean model of HashShard / ModShard (the theorems of Props/C03.lean
          about these two are about that model).
-/
namespace GaeaVerif.Drv.C03
open GaeaVerif GaeaVerif.Layout GaeaVerif.Insert GaeaVerif.Drv.Ins GaeaVerif.InsertStored
open GaeaVerif.ShardPlace (Key)

def place? : Sexp → Option Place
  | .atom "e" => some .err
  | .atom "p" => some .panic
  | e => e.asInt?.map .ok

def bytes? (e : Sexp) : Option ShardGo.GoStr := e.asBytes?.map fun b => b.map (·.toNat)

def litVal? : Sexp → Option LitVal
  | .list [.atom "i", n] => n.asInt?.map .int
  | .list [.atom "u", n] => n.asNat?.map .uint
  | .list [.atom "s", h] => (bytes? h).map .str
  | .list [.atom "o", _] => some .other
  | _ => none

def key? : Sexp → Option Key
  | .list [.atom "i", n] => n.asInt?.map .int64
  | .list [.atom "u", n] => n.asNat?.map .uint64
  | .list [.atom "s", h] => (bytes? h).map .str
  | _ => none

def fti? : Sexp → Option (List (Key × Place))
  | .list (.atom "fti" :: es) => es.mapM fun e =>
      match e with
      | .list [k, p] => do pure ((← key? k), (← place? p))
      | _ => none
  | _ => none

def cell? : Sexp → Option Cell
  | .atom "n" => some .null
  | .atom "nv" => some .nextval
  | .list [.atom "l", t, p, v] => do pure (.lit (← t.asText?) (← litVal? v) (← place? p))
  | .list [.atom "x", t] => do pure (.expr (← t.asText?))
  | _ => none

def seq? : Sexp → Option (Option Seq)
  | .atom "n" => some none
  | .list [.atom "seq", pk, st, fa, .list ps] => do
      let failAt ← match fa with
        | .atom "n" => some none
        | e => e.asNat?.map some
      pure (some { pk := (← ident? pk), start := (← st.asInt?), failAt := failAt, places := (← ps.mapM place?) })
  | _ => none

def stmt? : Sexp → Option Stmt
  | .list [.atom "stmt", x, sel, set, cols, .list rows, ondup, schema, table] => do
      let rs ← rows.mapM fun r =>
        match r with
        | .list cs => cs.mapM cell?
        | _ => none
      let flags ← match x with
        | .list [_, _, _, .atom f] => some f
        | _ => none
      pure { hasSelect := (← sel.asBool?), setMode := (← set.asBool?), cols := (← idents? cols), rows := rs,
             onDup := (← idents? ondup), schema := (← ident? schema), table := (← ident? table), flags := flags }
  | _ => none

structure Input where
  rule : TableRule
  seq : Option Seq
  stmt : Stmt
  /-- `FindTableIndex` of the real rule on other spellings of the sharding values -/
  fti : List (Key × Place)

def input? : Sexp → Option Input
  | .list [.atom "ins", r, sc, sq, st, ty, ft] => do
      pure { rule := { layout := (← rule? r), shardCol := (← ident? sc), ruleType := (← ident? ty) },
             seq := (← seq? sq), stmt := (← stmt? st), fti := (← fti? ft) }
  | _ => none

def cellText : Cell → String
  | .lit t _ _ => t
  | .null => "NULL"
  | .nextval => "NEXTVAL()"
  | .expr t => t

def showRow (r : Row) : String := "(" ++ " ".intercalate (r.map fun c => textToHex (cellText c)) ++ ")"

def showEntry (t : Target Out) : String :=
  "(" ++ showIdent t.slice ++ " " ++ showIdent t.db ++ " " ++ showChain t.sql.table ++
  " (" ++ " ".intercalate (t.sql.cols.map showIdent) ++ ") (" ++ " ".intercalate (t.sql.rows.map showRow) ++ ") " ++
  t.sql.flags ++ ")"

def showOut : R (List (Target Out)) → String
  | .ok ts => "(ok" ++ String.join ((sortStrings (ts.map showEntry)).map (" " ++ ·)) ++ ")"
  | .fail => "err"
  | .panic => "panic"

/-! ### The property oracle -/

/-- an observed entry: slice, database, table chain, columns, rows as cell texts -/
structure Obs where
  slice : String
  db : String
  table : List String
  cols : List String
  rows : List (List String)
  flags : String
  deriving BEq

def obs? : Sexp → Option Obs
  | .list [sl, db, tb, cols, .list rows, .atom flags] => do
      let rs ← rows.mapM fun r =>
        match r with
        | .list cs => cs.mapM Sexp.asText?
        | _ => none
      pure { slice := (← ident? sl), db := (← ident? db), table := (← idents? tb), cols := (← idents? cols), rows := rs,
             flags := flags }
  | _ => none

def routable : Option Cell → Option Int
  | some (.lit _ _ (.ok i)) => some i
  | _ => none

def litOf : Option Cell → Option (LitVal × Place)
  | some (.lit _ v p) => some (v, p)
  | _ => none

def toPlace : ShardPlace.Out Int → Place
  | .ok i => .ok i
  | .err _ => .err
  | .panic => .panic

/-- the Lean model of the `hash` and `mod` rules, where the rule is one of them
    (`KeyError` panics of `NumValue` reach the harness as panics) -/
def ksModel (inp : Input) : Option (Key → Place) :=
  let n := inp.rule.layout.t2s.length
  if inp.rule.ruleType == "hash" then
    some fun k => match HashShard.FindForKey n k with
      | .ok i => .ok i
      | _ => .panic
  else if inp.rule.ruleType == "mod" then
    some fun k => match ModShard.FindForKey n k with
      | .ok i => .ok i
      | _ => .panic
  else none

/-- does the reported placement differ from the Lean model of the rule? -/
def ksDiffers (inp : Input) (s : Stmt) (sci : Nat) : Bool :=
  match ksModel inp with
  | none => false
  | some f =>
    inp.fti.any (fun kp => f kp.1 != kp.2) ||
    s.rows.any fun r =>
      match litOf r[sci]? with
      | some (.other, _) => false
      | some (v, p) => f (keyOf v) != p
      | none => false

/-- the class of a row stored in table `i` although `FindTableIndex` sends a
    value the backend holds for its sharding literal to another table -/
def storedElsewhere (inp : Input) (v : LitVal) (i : Int) : Option String :=
  (storedKeys inp.rule.ruleType v).firstM fun k =>
    match inp.fti.lookup k with
    | none => some "fti-missing"
    | some (.ok j) =>
      if j = i then none
      else match v with
        | .str _ =>
          if inp.rule.ruleType == "mycat_murmur" || inp.rule.ruleType == "mycat_string" then
            some "mycat-numeric-string-hashed-as-text"
          else some "numeric-string-not-placed-as-number"
        | _ => some "integer-not-placed-as-its-digits"
    | some _ => none

/-- the physical table of index `i`: slice, database and table chain, as the
    layout functions of the rule name them -/
def physical (inp : Input) (i : Int) : Option (String × String × List String) :=
  match targetOf inp.rule.layout i (), restoreTableName inp.rule.layout inp.stmt.schema inp.stmt.table "" i with
  | .ok t, .ok (c :: _) => some (t.slice, t.db, c)
  | _, _ => none

def rowTexts (r : Row) : List String := r.map cellText

def oracle (inp : Input) (out : Sexp) : String :=
  match out with
  | .atom "err" => "ok"
  | .atom "panic" => "ok"     -- recovered by the session (handleQuery): the statement is rejected
  | .list (.atom "ok" :: es) =>
    match es.mapM obs? with
    | none => "viol unparsable"
    | some obs =>
      -- the rows of the statement, with the global-sequence values filled in
      match handleInsertGlobalSequenceValue inp.seq inp.stmt with
      | .fail => "ok"
      | .panic => "ok"
      | .ok s =>
        if inp.stmt.hasSelect then "viol insert-select-accepted"
        else if inp.rule.layout.kind = .global then
          -- every copy receives the whole statement, once
          let want := inp.rule.layout.idxs.filterMap fun i =>
            (physical inp i).map fun (sl, db, tb) =>
              ({ slice := sl, db := db, table := tb, cols := s.cols, rows := s.rows.map rowTexts, flags := s.flags } : Obs)
          if want.length != inp.rule.layout.idxs.length then "ok"
          else if sameMultiset want obs then "ok"
          else if want.any (fun w => !obs.contains w) then "viol global-copy-missed"
          else "viol global-copy-extra"
        else
          match lastIndex inp.rule.shardCol s.cols with
          | none => "viol accepted-without-sharding-column"
          | some sci =>
            -- a row with another number of values than columns cannot be stored by any backend (MySQL error 1136)
            if !s.setMode && s.rows.any (fun r => r.length != s.cols.length) then "viol ragged-row-accepted"
            else if s.rows.any (fun r => (routable r[sci]?).isNone) then "viol unroutable-sharding-value-accepted"
            else if s.onDup.contains inp.rule.shardCol then "viol ondup-assigns-sharding-column"
            else if s.rows.any (fun r => match litOf r[sci]? with | some (.other, _) => true | _ => false) then
              "viol literal-placed-by-its-sql-text"
            else if ksDiffers inp s sci then "viol hash-or-mod-placement-differs-from-model"
            else if obs.any (fun o => o.cols != s.cols) then "viol column-list-changed"
            else if obs.any (fun o => o.flags != s.flags) then "viol statement-kind-changed"
            else
              let allOut := obs.flatMap (·.rows)
              let allIn := s.rows.map rowTexts
              if allIn.any (fun r => count r allOut < count r allIn) then "viol row-lost"
              else if allOut.any (fun r => count r allOut > count r allIn) then "viol row-stored-twice"
              else
                -- per physical table: the rows placed there, no more, no less
                let bad := s.rows.any fun r =>
                  match routable r[sci]? with
                  | none => true
                  | some i =>
                    match physical inp i with
                    | none => true    -- a row placed outside the rule's tables cannot be accepted
                    | some (sl, db, tb) =>
                      let here := (obs.filter fun o => o.slice == sl && o.db == db && o.table == tb).flatMap (·.rows)
                      let want := (s.rows.filter fun r' => routable r'[sci]? == some i).map rowTexts
                      !sameMultiset here want
                if bad then "viol row-in-wrong-table"
                else
                  -- the table is the one of the value the backend holds for the literal
                  let elsewhere := s.rows.filterMap fun r =>
                    match litOf r[sci]? with
                    | some (v, .ok i) => storedElsewhere inp v i
                    | _ => none
                  match elsewhere.find? (· != "mycat-numeric-string-hashed-as-text"), elsewhere with
                  | some c, _ => "viol " ++ c
                  | none, c :: _ => "viol " ++ c
                  | none, [] => "ok"
  | _ => "viol unexpected-output"

def handle (args : List Sexp) : String :=
  match args with
  | [.atom "m", req] =>
    match input? req with
    | none => "bad-input"
    | some inp =>
      let out := showOut (handleInsertStmt head inp.rule inp.seq inp.stmt)
      match Sexp.parseLine out with
      | some [o] => out ++ " | " ++ oracle inp o
      | _ => out
  | [.atom "s", req, out] =>
    match input? req with
    | none => "bad-input"
    | some inp => oracle inp out
  | _ => "bad-request"

end GaeaVerif.Drv.C03
