import GaeaVerif.Drv.InsSexp
import GaeaVerif.Model.InsertPlan
/-
  Driver for C03 (INSERT / REPLACE on sharded and global tables).
  Request: m (ins RULE SHARDCOL SEQ STMT)        s <same> <implementation output>
    RULE  (rule ks|mycat|global DB (slices…) (idxs…) (t2s (k v)…) (dbs…))
    SEQ   n | (seq PK START FAILAT|n (PLACE…))
    STMT  (stmt VERB HASSELECT SETMODE (cols…) (rows (CELL…)…) (ondup…) SCHEMA TABLE)
    CELL  (l TXTHEX PLACE) | n | nv | (x TXTHEX)       PLACE  <int> | e | p
  Output: (ok (SLICE DB (TABLE-CHAIN) (cols…) (rows (CELLHEX…)…))…) sorted | err | panic
  Oracle: an accepted statement stores every row exactly once in the physical
          table its sharding value is placed in (every copy for a global
          table); a statement with an unroutable row must not be accepted.
-/
namespace GaeaVerif.Drv.C03
open GaeaVerif GaeaVerif.Layout GaeaVerif.Insert GaeaVerif.Drv.Ins

def place? : Sexp → Option Place
  | .atom "e" => some .err
  | .atom "p" => some .panic
  | e => e.asInt?.map .ok

def cell? : Sexp → Option Cell
  | .atom "n" => some .null
  | .atom "nv" => some .nextval
  | .list [.atom "l", t, p] => do pure (.lit (← t.asText?) (← place? p))
  | .list [.atom "x", t] => do pure (.expr (← t.asText?))
  | _ => none

def seq? : Sexp → Option (Option Seq)
  | .atom "n" => some none
  | .list [.atom "seq", pk, st, fa, .list ps] => do
      let failAt ← match fa with
        | .atom "n" => some none
        | e => e.asNat?.map some
      pure (some { pk := (← ident? pk), start := (← st.asInt?), failAt := failAt, places := (← ps.mapM place?) })
  | _ => none

def stmt? : Sexp → Option Stmt
  | .list [.atom "stmt", _, sel, set, cols, .list rows, ondup, schema, table] => do
      let rs ← rows.mapM fun r =>
        match r with
        | .list cs => cs.mapM cell?
        | _ => none
      pure { hasSelect := (← sel.asBool?), setMode := (← set.asBool?), cols := (← idents? cols), rows := rs,
             onDup := (← idents? ondup), schema := (← ident? schema), table := (← ident? table) }
  | _ => none

structure Input where
  rule : TableRule
  seq : Option Seq
  stmt : Stmt

def input? : Sexp → Option Input
  | .list [.atom "ins", r, sc, sq, st] => do
      pure { rule := { layout := (← rule? r), shardCol := (← ident? sc) }, seq := (← seq? sq), stmt := (← stmt? st) }
  | _ => none

def cellText : Cell → String
  | .lit t _ => t
  | .null => "NULL"
  | .nextval => "NEXTVAL()"
  | .expr t => t

def showRow (r : Row) : String := "(" ++ " ".intercalate (r.map fun c => textToHex (cellText c)) ++ ")"

def showEntry (t : Target Out) : String :=
  "(" ++ showIdent t.slice ++ " " ++ showIdent t.db ++ " " ++ showChain t.sql.table ++
  " (" ++ " ".intercalate (t.sql.cols.map showIdent) ++ ") (" ++ " ".intercalate (t.sql.rows.map showRow) ++ "))"

def showOut : R (List (Target Out)) → String
  | .ok ts => "(ok" ++ String.join ((sortStrings (ts.map showEntry)).map (" " ++ ·)) ++ ")"
  | .fail => "err"
  | .panic => "panic"

/-! ### The property oracle -/

/-- an observed entry: slice, database, table chain, columns, rows as cell texts -/
structure Obs where
  slice : String
  db : String
  table : List String
  cols : List String
  rows : List (List String)
  deriving BEq

def obs? : Sexp → Option Obs
  | .list [sl, db, tb, cols, .list rows] => do
      let rs ← rows.mapM fun r =>
        match r with
        | .list cs => cs.mapM Sexp.asText?
        | _ => none
      pure { slice := (← ident? sl), db := (← ident? db), table := (← idents? tb), cols := (← idents? cols), rows := rs }
  | _ => none

def routable : Option Cell → Option Int
  | some (.lit _ (.ok i)) => some i
  | _ => none

/-- the physical table of index `i`: slice, database and table chain, as the
    layout functions of the rule name them -/
def physical (inp : Input) (i : Int) : Option (String × String × List String) :=
  match targetOf inp.rule.layout i (), restoreTableName inp.rule.layout inp.stmt.schema inp.stmt.table "" i with
  | .ok t, .ok (c :: _) => some (t.slice, t.db, c)
  | _, _ => none

def rowTexts (r : Row) : List String := r.map cellText

def oracle (inp : Input) (out : Sexp) : String :=
  match out with
  | .atom "err" => "ok"
  | .atom "panic" => "ok"     -- recovered by the session (handleQuery): the statement is rejected
  | .list (.atom "ok" :: es) =>
    match es.mapM obs? with
    | none => "viol unparsable"
    | some obs =>
      -- the rows of the statement, with the global-sequence values filled in
      match handleInsertGlobalSequenceValue inp.seq inp.stmt with
      | .fail => "ok"
      | .panic => "ok"
      | .ok s =>
        if inp.rule.layout.kind = .global then
          -- every copy receives the whole statement, once
          let want := inp.rule.layout.idxs.filterMap fun i =>
            (physical inp i).map fun (sl, db, tb) =>
              ({ slice := sl, db := db, table := tb, cols := s.cols, rows := s.rows.map rowTexts } : Obs)
          if want.length != inp.rule.layout.idxs.length then "ok"
          else if sameMultiset want obs then "ok"
          else if want.any (fun w => !obs.contains w) then "viol global-copy-missed"
          else "viol global-copy-extra"
        else
          match lastIndex inp.rule.shardCol s.cols with
          | none => "viol accepted-without-sharding-column"
          | some sci =>
            -- a row with another number of values than columns cannot be stored by any backend (MySQL error 1136)
            if !s.setMode && s.rows.any (fun r => r.length != s.cols.length) then "viol ragged-row-accepted"
            else if s.rows.any (fun r => (routable r[sci]?).isNone) then "viol unroutable-sharding-value-accepted"
            else if obs.any (fun o => o.cols != s.cols) then "viol column-list-changed"
            else
              let allOut := obs.flatMap (·.rows)
              let allIn := s.rows.map rowTexts
              if allIn.any (fun r => count r allOut < count r allIn) then "viol row-lost"
              else if allOut.any (fun r => count r allOut > count r allIn) then "viol row-stored-twice"
              else
                -- per physical table: the rows placed there, no more, no less
                let bad := s.rows.any fun r =>
                  match routable r[sci]? with
                  | none => true
                  | some i =>
                    match physical inp i with
                    | none => true    -- a row placed outside the rule's tables cannot be accepted
                    | some (sl, db, tb) =>
                      let here := (obs.filter fun o => o.slice == sl && o.db == db && o.table == tb).flatMap (·.rows)
                      let want := (s.rows.filter fun r' => routable r'[sci]? == some i).map rowTexts
                      !sameMultiset here want
                if bad then "viol row-in-wrong-table" else "ok"
  | _ => "viol unexpected-output"

def handle (args : List Sexp) : String :=
  match args with
  | [.atom "m", req] =>
    match input? req with
    | none => "bad-input"
    | some inp =>
      let out := showOut (handleInsertStmt false inp.rule inp.seq inp.stmt)
      match Sexp.parseLine out with
      | some [o] => out ++ " | " ++ oracle inp o
      | _ => out
  | [.atom "s", req, out] =>
    match input? req with
    | none => "bad-input"
    | some inp => oracle inp out
  | _ => "bad-request"

end GaeaVerif.Drv.C03
