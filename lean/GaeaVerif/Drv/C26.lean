import GaeaVerif.Sexp
import GaeaVerif.Model.Slide
/-
  Driver for C26.  Requests (K = error kind: nil conn timeout connptr wrapped other sqlerr):
    m (slide W M (t1 t2 …))
        Trigger history on NewSlidingWindow(W, M)       → (ok r1 r2 …) | panic
    m (node FUSE REC UP (a1 a2 …) (OP …))
        FUSE = (W M) | none      FuseStrategy = NewSlidingWindow(W, M) or nil
        REC  = hard | gradual | none                    RecoveryStrategy
        UP   = t | f                                    initial status
        a_i  = ages (seconds before "now") of errors fed to the window directly
               through Trigger(now - a_i) before the operations
        OP   = (e K)  Slice.TryFuse(node, error of kind K)
               (g K)  a read through GetSlaveConn whose pool answers K
               (up)   node.SetStatusUp()
        → (ok (r1 r2 …) (s1 s2 …))   results of the preloading calls, status
                                     (u/d) after every operation
    s <request> <implementation output>                 property oracle
  The harness runs the operations at the real clock second T; the model runs
  them at `baseNow` (the results only depend on differences: `trigger_iff`).
-/
namespace GaeaVerif.Drv.C26
open GaeaVerif GaeaVerif.Slide

def baseNow : Int := 2000000000

def fmtBools (t f : String) (bs : List Bool) : String :=
  " ".intercalate (bs.map fun b => if b then t else f)

def parseInts (e : Sexp) : Option (List Int) :=
  match e with
  | .list xs => xs.mapM Sexp.asInt?
  | _ => none

def parseKind : Sexp → Option ErrKind
  | .atom "nil" => some .nil
  | .atom "conn" => some .conn
  | .atom "timeout" => some .conn        -- util.ErrTimeout is a ConnTypeError value
  | .atom "sqlerr" => some .other        -- *mysql.SQLError
  | .atom "connptr" => some .connPtr
  | .atom "wrapped" => some .wrapped
  | .atom "other" => some .other
  | .atom "poolclosed" => some .other    -- ErrConnectionPoolClosed of a real, unopened pool (Get ops only)
  | _ => none

def parseOp (now : Int) : Sexp → Option Op
  | .list [.atom "e", k] => (parseKind k).map fun k => .tryFuse k now
  | .list [.atom "g", k] => (parseKind k).map fun k => .getConn k now
  | .list [.atom "up"] => some .setUp
  | _ => none

structure NodeCase where
  fuse : Option (Int × Int)
  hasRec : Bool
  up : Bool
  ages : List Int
  ops : List Op

def parseNode (req : Sexp) : Option NodeCase :=
  match req with
  | .list [.atom "node", f, .atom r, u, a, .list ops] => do
    let fuse ← match f with
      | .atom "none" => some none
      | .list [w, m] => do some (some (← w.asInt?, ← m.asInt?))
      | _ => none
    let hasRec ← match r with
      | "hard" => some true | "gradual" => some true | "none" => some false | _ => none
    let up ← u.asBool?
    let ages ← parseInts a
    let ops ← ops.mapM (parseOp baseNow)
    some { fuse, hasRec, up, ages, ops }
  | _ => none

def model (req : Sexp) : String :=
  match req with
  | .list [.atom "slide", w, m, ts] =>
    match w.asInt?, m.asInt?, parseInts ts with
    | some w, some m, some ts =>
      match runTriggers (NewSlidingWindow w m) ts with
      | .ok (_, rs) => if rs.isEmpty then "(ok)" else "(ok " ++ fmtBools "t" "f" rs ++ ")"
      | .fail => "fail"
      | .panic => "panic"
    | _, _, _ => "bad"
  | .list (.atom "node" :: _) =>
    match parseNode req with
    | some c =>
      let sw0 := c.fuse.map fun (w, m) => NewSlidingWindow w m
      -- preload the window directly (no-op without a window)
      let pre : R (Option SlidingWindow × List Bool) :=
        match sw0 with
        | none => .ok (none, [])
        | some sw =>
          match runTriggers sw (c.ages.map fun a => baseNow - a) with
          | .ok (sw1, rs) => .ok (some sw1, rs)
          | .fail => .fail
          | .panic => .panic
      match pre with
      | .ok (sw1, rs) =>
        match runOps { up := c.up, fuse := sw1, hasRecovery := c.hasRec } c.ops with
        | .ok (_, st) => "(ok (" ++ fmtBools "t" "f" rs ++ ") (" ++ fmtBools "u" "d" st ++ "))"
        | .fail => "fail"
        | .panic => "panic"
      | .fail => "fail"
      | .panic => "panic"
    | none => "bad"
  | _ => "bad"

/-! ### property oracle (executable reference semantics) -/

def nonDecrFrom : Int → List Int → Bool
  | _, [] => true
  | last, t :: ts => decide (last ≤ t) && nonDecrFrom t ts

def parseBools (t f : String) (e : Sexp) : Option (List Bool) :=
  match e with
  | .list xs => xs.mapM fun x =>
      match x with
      | .atom a => if a == t then some true else if a == f then some false else none
      | _ => none
  | _ => none

/-- first difference between observed and expected `Trigger` results -/
def judgeTriggers : List Bool → List Bool → String
  | [], [] => "ok"
  | o :: os, e :: es =>
    if o == e then judgeTriggers os es
    else if o then "viol fired-below-threshold" else "viol not-fired-at-threshold"
  | _, _ => "viol result-count"

/-- Expected statuses; `active` = breaker installed and enabled. Returns the
    verdict at the first difference with the observed statuses. -/
def judgeOps (active : Bool) (W m : Int) : List Int → Bool → List Op → List Bool → String
  | _, _, [], [] => "ok"
  | rec, up, op :: ops, o :: os =>
    let (isConn, now, routed) : Bool × Int × Bool :=
      match op with
      | .tryFuse e now => (e == .conn, now, true)
      | .getConn e now => (e == .conn, now, up)
      | .setUp => (false, 0, false)
    let records := active && isConn && routed
    let rec' := if records then rec ++ [now] else rec
    let fires := records && decide ((refCount W rec' now : Int) ≥ m)
    let up' := match op with
      | .setUp => true
      | _ => up && !fires
    if o == up' then judgeOps active W m rec' up' ops os
    else if o then
      (match op with
       | .setUp => "viol status-changed-without-cause"
       | _ => "viol not-fused-at-threshold")
    else
      (match op with
       | .setUp => "viol status-changed-without-cause"
       | _ =>
         if !active then "viol disabled-fired"
         else if !(isConn && routed) then "viol non-conn-error-counted"
         else "viol fused-below-threshold")
  | _, _, _, _ => "viol result-count"

def oracle (req out : Sexp) : String :=
  match req with
  | .list [.atom "slide", w, m, ts] =>
    match w.asInt?, m.asInt?, parseInts ts with
    | some w, some m, some ts =>
      if w ≤ 0 || m ≤ 0 then
        match out with
        | .atom "panic" => "viol trigger-panic"
        | .list (.atom "ok" :: rs) =>
          if rs.any (fun r => r == .atom "t") then "viol disabled-fired" else "ok"
        | _ => "viol unparsable"
      else if !nonDecrFrom 0 ts then "ok"      -- outside the quantified histories
      else
        match out with
        | .atom "panic" => "viol trigger-panic"
        | .list (.atom "ok" :: rs) =>
          match parseBools "t" "f" (.list rs) with
          | some obs => judgeTriggers obs (specRun w m [] ts)
          | none => "viol unparsable"
        | _ => "viol unparsable"
    | _, _, _ => "bad"
  | .list (.atom "node" :: _) =>
    match parseNode req with
    | some c =>
      let times := c.ages.map fun a => baseNow - a
      if !nonDecrFrom 0 (times ++ [baseNow]) then "ok" else
      match out with
      | .atom "panic" => "viol trigger-panic"
      | .list [.atom "ok", pre, st] =>
        match parseBools "t" "f" pre, parseBools "u" "d" st with
        | some pre, some st =>
          match c.fuse with
          | none =>
            if !pre.isEmpty then "viol result-count" else judgeOps false 0 0 [] c.up c.ops st
          | some (w, m) =>
            let enabled := decide (w ≥ 1) && decide (m ≥ 1)
            let v := if enabled then judgeTriggers pre (specRun w m [] times)
                     else if pre.any id then "viol disabled-fired" else "ok"
            if v != "ok" then v
            else if enabled && c.hasRec then
              -- the reference semantics the theorem `runOps_preloaded_eq_spec` is stated against
              if st == specOps w m times c.up c.ops then "ok"
              else
                let j := judgeOps true w m times c.up c.ops st
                if j == "ok" then "viol status-mismatch" else j
            else judgeOps false w m [] c.up c.ops st
        | _, _ => "viol unparsable"
      | _ => "viol unparsable"
    | none => "bad"
  | _ => "bad"

def handle (args : List Sexp) : String :=
  match args with
  | [.atom "m", req] =>
    let out := model req
    match Sexp.parseLine out with
    | some [o] => out ++ " | " ++ oracle req o
    | _ => out
  | [.atom "s", req, out] => oracle req out
  | _ => "bad-request"

end GaeaVerif.Drv.C26
