import GaeaVerif.Sexp
import GaeaVerif.Model.ResultStream
import GaeaVerif.Model.LenEnc
import GaeaVerif.Gen.Consts
import GaeaVerif.Drv.C39Ses
/-
  Driver for C39.  Requests:

    m (dc MAXROWS (ITEM…))            Execute + FetchMoreRows chunks of a DirectConnection
    m (un MAXROWS BIN (ITEM…))        unsharded statement: ExecuteSQL + writeResponse, seen from the client
    m (sh MAXROWS ((ITEM…) …))        ExecuteSQLs over the listed shards
    s <request> <implementation output>   property oracle

  ITEM: (r N L) N rows whose padding column has L bytes (row packet of
        9 + LenEncIntSize(L) + L bytes), ids running from 0 | (eof) | (err);
        after the last item the backend connection is lost.
  BIN (binary protocol towards the client) does not exist in the model.
-/
namespace GaeaVerif.Drv.C39
open GaeaVerif GaeaVerif.ResultStream GaeaVerif.Drv.C39Ses

def fmtFate : Fate → String
  | .closed => "closed"
  | .pooled p => s!"(pooled {p.length})"

def fmtKind : ErrKind → String
  | .limit => "limit"
  | .backend => "backend"

def fmtFin : Fin → String
  | .eof => "eof"
  | .err k => s!"(err {fmtKind k})"
  | .closed => "closed"
  | .stalled => "stalled"
  | .hang => "hang"
  | .fuel => "fuel"

/-- The harness's chunk loop over a DirectConnection: `Execute`, then
    `FetchMoreRows` into a fresh result while rows are pending. -/
def dcChunks : Nat → Int → List Pkt → List String → String
  | 0, _, _, _ => "fuel"
  | fuel + 1, maxRows, s, acc =>
    let fin (e : String) := s!"((chunks {" ".intercalate acc.reverse}) (end {e}))"
    match readRows T maxRows s [] 0 0 with
    | .ok rowsRev more rest =>
      let c := s!"(c {fmtRanges rowsRev.reverse} {if more then "t" else "f"})"
      if more then dcChunks fuel maxRows rest (c :: acc)
      else s!"((chunks {" ".intercalate (c :: acc).reverse}) (end ok))"
    | .errConn => fin "conn"
    | .errBackend _ => fin "backend"
    | .errLimit _ => fin "limit"
    | .errLimitDrain => fin "limit"
    | .stalled => fin "stalled"

def shardKinds (rs : List Shard) : List String :=
  let has (p : Shard → Bool) := rs.any p
  (if has (fun | .errBackend _ => true | _ => false) then ["backend"] else []) ++
  (if has (fun | .errConn => true | _ => false) then ["conn"] else []) ++
  (if has (fun | .errLimit _ => true | _ => false) then ["limit"] else [])

def shardFate : Shard → String
  | .ok _ f => fmtFate f
  | .errLimit f => fmtFate f
  | .errBackend f => fmtFate f
  | .errConn => "closed"
  | .stalled => "closed"
  | .fuel => "fuel"

def model (req : Sexp) : String :=
  match req with
  | .list (.atom "ses" :: cfg :: stmts) => sesModel cfg stmts
  | .list [.atom "dc", m, it] =>
    match m.asInt?, items? it with
    | some m, some s => dcChunks (s.length + 1) m s []
    | _, _ => "bad"
  | .list [.atom "un", m, _, it] =>
    match m.asInt?, items? it with
    | some m, some s =>
      let c := unshard T m s
      s!"((client {fmtRanges c.rows} {fmtFin c.fin} ok) (fate {fmtFate c.fate}))"
    | _, _ => "bad"
  | .list [.atom "sh", m, .list shards] =>
    match m.asInt?, shards.mapM items? with
    | some m, some ss =>
      let rs := ss.map (execShard T m)
      let fates := " ".intercalate (rs.map shardFate)
      match executeSQLs T m ss with
      | some rows => s!"((ok {" ".intercalate (rows.map fmtRanges)}) (fates {fates}))"
      | none => s!"((err {" ".intercalate (shardKinds rs)}) (fates {fates}))"
    | _, _ => "bad"
  | _ => "bad"

/-! ### The property oracle

  Reference reading of the property on one backend stream: the backend's
  result is the run of rows before the first EOF / ERR / loss of connection;
  it is *complete* iff that first terminal is the EOF. -/

structure Spec where
  n : Nat            -- rows the backend produced
  complete : Bool    -- …and then closed the result with EOF
  after : Nat        -- packets the script holds after that terminal

/-- Number of packets a list of items stands for. -/
def packetsOf : List Sexp → Nat
  | [] => 0
  | .list [.atom "r", k, _] :: rest => (k.asNat?.getD 0) + packetsOf rest
  | _ :: rest => 1 + packetsOf rest

def specOf : List Sexp → Nat → Option Spec
  | [], n => some ⟨n, false, 0⟩
  | .list [.atom "r", k, _] :: rest, n => k.asNat?.bind fun k => specOf rest (n + k)
  | .list [.atom "eof"] :: rest, n => some ⟨n, true, packetsOf rest⟩
  | .list [.atom "err"] :: rest, n => some ⟨n, false, packetsOf rest⟩
  | _, _ => none

def specOf? (e : Sexp) : Option Spec :=
  match e with
  | .list xs => specOf xs 0
  | _ => none

/-- Rows `0 … k-1` as printed ranges: `()` or `((0 k-1))`. -/
def prefixLen? (r : Sexp) : Option Nat :=
  match r with
  | .list [] => some 0
  | .list [.list [lo, hi]] =>
    match lo.asNat?, hi.asNat? with
    | some 0, some hi => some (hi + 1)
    | _, _ => none
  | _ => none

def withinLimit (m : Int) (n : Nat) : Bool := m ≤ 0 || (n : Int) ≤ m

def judgeFate (sp : Spec) (f : Sexp) : String :=
  match f with
  | .atom "closed" => "ok"
  | .atom "unused" => "ok"
  | .atom "leaked" => "viol backend-connection-not-recycled"
  | .atom "starved" => "viol proxy-read-past-end-of-result"
  | .list [.atom "pooled", k] =>
    match k.asNat? with
    | some k => if k ≤ sp.after then "ok" else "viol connection-pooled-with-rows-pending"
    | none => "viol unparsable"
  | _ => "viol unparsable"

/-- Judge what was delivered for one backend stream: `k` rows (a prefix), and
    whether it was presented as complete (`asComplete`) or as an error. -/
def judgeDelivery (m : Int) (sp : Spec) (k : Nat) (asComplete : Bool) (chunked : Bool) : String :=
  if k > sp.n then "viol more-rows-than-the-backend-produced"
  else if asComplete then
    if k < sp.n then "viol truncated-result-delivered-as-complete"
    else if !sp.complete then "viol unfinished-result-delivered-as-complete"
    else if !withinLimit m sp.n then
      (if chunked then "viol row-limit-not-enforced-on-chunked-result" else "viol row-limit-not-enforced")
    else "ok"
  else
    if sp.complete && withinLimit m sp.n then
      (if (sp.n : Int) = m then "viol result-of-exactly-limit-rows-rejected"
       else "viol complete-result-within-limit-not-delivered")
    else "ok"

def oracle (req out : Sexp) : String :=
  match req with
  | .list (.atom "ses" :: cfg :: stmts) => sesOracle cfg stmts out
  | .list [.atom "un", m, _, it] =>
    match m.asInt?, specOf? it with
    | some m, some sp =>
      match out with
      | .list [.list [.atom "client", rows, fin, flags], .list [.atom "fate", f]] =>
        if flags != .atom "ok" then
          (if flags == .atom "row-bytes-differ" then "viol client-row-bytes-differ" else "viol client-sequence-ids")
        else
          match prefixLen? rows with
          | none => "viol client-rows-not-a-prefix-of-the-backend-rows"
          | some k =>
            if fin == .atom "cut" then "viol client-left-without-eof-or-error"
            else
              let v := judgeDelivery m sp k (fin == .atom "eof") (decide (sp.n > 0) && true)
              if v != "ok" then v else judgeFate sp f
      | _ => "viol unparsable"
    | _, _ => "bad"
  | .list [.atom "sh", m, .list shards] =>
    match m.asInt?, shards.mapM specOf? with
    | some m, some sps =>
      match out with
      | .list [res, .list (.atom "fates" :: fs)] =>
        let fv := (sps.zip fs).map fun (sp, f) => judgeFate sp f
        let firstBad (vs : List String) := (vs.find? (· != "ok")).getD "ok"
        if fs.length ≠ sps.length then "viol unparsable" else
        match res with
        | .list (.atom "ok" :: rs) =>
          if rs.length ≠ sps.length then "viol shard-result-missing"
          else
            let vs := (sps.zip rs).map fun (sp, r) =>
              match prefixLen? r with
              | none => "viol shard-rows-not-a-prefix-of-the-backend-rows"
              | some k => judgeDelivery m sp k true true
            let v := firstBad vs
            if v != "ok" then v else firstBad fv
        | .list (.atom "err" :: _) =>
          -- an error is wrong only if every shard's result was complete and within the limit
          if sps.all fun sp => sp.complete && withinLimit m sp.n then
            (if sps.any fun sp => (sp.n : Int) = m then "viol result-of-exactly-limit-rows-rejected"
             else "viol complete-result-within-limit-not-delivered")
          else firstBad fv
        | _ => "viol unparsable"
      | _ => "viol unparsable"
    | _, _ => "bad"
  | .list [.atom "dc", m, it] =>
    match m.asInt?, specOf? it with
    | some m, some sp =>
      match out with
      | .list [.list (.atom "chunks" :: cs), .list [.atom "end", e]] =>
        -- the chunks must line up to a prefix 0 … k-1; this request drives
        -- readResultRows chunk by chunk with a fresh result (the harness's own
        -- loop), so the row limit is judged per chunk only
        let step (acc : Option Nat) (c : Sexp) : Option Nat :=
          match acc, c with
          | some k, .list [.atom "c", .list [], _] => some k
          | some k, .list [.atom "c", .list [.list [lo, hi]], _] =>
            if lo.asNat? == some k then hi.asNat?.map (· + 1) else none
          | _, _ => none
        let chunkLen (c : Sexp) : Nat :=
          match c with
          | .list [.atom "c", .list [.list [lo, hi]], _] => (hi.asNat?.getD 0) + 1 - (lo.asNat?.getD 0)
          | _ => 0
        match cs.foldl step (some 0) with
        | none => "viol chunks-not-a-prefix-of-the-backend-rows"
        | some k =>
          if k > sp.n then "viol more-rows-than-the-backend-produced"
          else if m > 0 && cs.any (fun c => (chunkLen c : Int) > m) then "viol chunk-larger-than-row-limit"
          else if e == .atom "ok" then
            (if k < sp.n then "viol truncated-result-delivered-as-complete"
             else if !sp.complete then "viol unfinished-result-delivered-as-complete" else "ok")
          else if sp.complete && withinLimit m sp.n then
            (if (sp.n : Int) = m then "viol result-of-exactly-limit-rows-rejected"
             else "viol complete-result-within-limit-not-delivered")
          else "ok"
      | _ => "viol unparsable"
    | _, _ => "bad"
  | _ => "bad"

def handle (args : List Sexp) : String :=
  match args with
  | [.atom "m", req] =>
    let out := model req
    match Sexp.parseLine out with
    | some [o] => out ++ " | " ++ oracle req o
    | _ => out
  | [.atom "s", req, out] => oracle req out
  | _ => "bad-request"

end GaeaVerif.Drv.C39
