import GaeaVerif.Drv.ShardIO
import GaeaVerif.Spec.ShardCalendar
/-
  Driver for C09.  `m <request>` runs the model (Drv/ShardIO.lean);
  `s <request> <implementation output>` is the property oracle
  (Spec/ShardCalendar.lean):

  * range rule, valid layout (locations ≥ 0, limit > 0, n·limit < 2^63): a key
    with a numeric value is placed in the table whose interval contains it and
    rejected (an error, not a run-time panic) if no interval does; a string
    that is not a number is rejected;
  * year / month / day rule: a string spelling a real date(-time) and a unix
    timestamp whose local civil year is 0…9999 are placed at their period
    number; a string too short for the fields the rule reads, or with a
    non-digit in them, is rejected, and so is, under the month and day rules, a
    timestamp whose civil year is outside 0…9999 (it has no `YYYY-MM-DD`
    spelling); nothing raises a run-time panic;
  * sub-table list: for a well-formed, ascending `date_range` it is exactly the
    list of period numbers, each under the slice of its entry.
  Nothing is demanded for other inputs.
-/
namespace GaeaVerif.Drv.C09
open GaeaVerif GaeaVerif.ShardPlace GaeaVerif.Drv.ShardIO GaeaVerif.CalendarSpec

def isDateRule (t : String) : Bool := t == "date_year" || t == "date_month" || t == "date_day"

/-- A number written in decimal with an optional sign. -/
def numeral? (s : List Nat) : Option Int :=
  match s with
  | 43 :: r => if r = [] then none else (number? r).map fun n => (n : Int)
  | 45 :: r => if r = [] then none else (number? r).map fun n => -(n : Int)
  | _ => if s = [] then none else (number? s).map fun n => (n : Int)

inductive Demand where
  | place (i : Int) (tag : String)      -- must be (ok i)
  | reject (tag : String)               -- must be an error
  | noPanic

def rangeDemand (n : Nat) (limit : Int) (key : Key) : Demand :=
  let num (k : Int) : Demand :=
    match rangeTable n limit k with
    | some i => .place i "range-key"
    | none => .reject "range-outside-key"
  match key with
  | .int v => num v
  | .int64 v => num v
  | .uint64 v => num v
  | .str s => match numeral? s with
    | some k => num k
    | none => .reject "range-malformed-key"
  | .bytes s => match numeral? s with
    | some k => num k
    | none => .reject "range-malformed-key"
  | .other => .noPanic

def dateDemand (rule : String) (tz : Int) (key : Key) : Demand :=
  let stamp (v : Int) : Demand :=
    match dateTimeOfUnix tz v with
    | some c => .place (periodNumber rule c) "date-timestamp"
    | none => if rule == "date_year" then .noPanic else .reject "timestamp-outside-years-0-9999"
  match key with
  | .int v => stamp v
  | .int64 v => stamp v
  | .uint64 v => if v < 2 ^ 63 then stamp v else .noPanic
  | .str s =>
    match parseSpelling s with
    | some c => .place (periodNumber rule c) "date-string"
    | none => if malformedFor rule s then .reject "malformed-date" else .noPanic
  | _ => .noPanic

def judge (d : Demand) (out : Sexp) : Option String :=
  match out with
  | .atom "panic" => some "key-runtime-panic"
  | .list [.atom "ok", v] =>
    match d with
    | .place i tag => if v.asInt? == some i then none else some s!"{tag}-misplaced"
    | .reject tag => some s!"{tag}-accepted"
    | .noPanic => none
  | .list [.atom "err", _] =>
    match d with
    | .place _ tag => some s!"{tag}-rejected"
    | _ => none
  | _ => some "unparsable"

/-- The classes of known/C09.json (reported last, see `oracle`): none is open. -/
def listedClasses : List String := []

def validRange (cfg : ShardCfg) : Option Nat :=
  if cfg.locations.all (0 ≤ ·) ∧ 0 < cfg.tableRowLimit ∧
      sumInts cfg.locations * cfg.tableRowLimit < 2 ^ 63 then some (sumInts cfg.locations).toNat else none

def oracle (req out : Sexp) : String :=
  match req with
  | .list [.atom "place", cfg, .list keys] =>
    match parseCfg cfg, keys.mapM parseKey with
    | some (cfg, tz), some keys =>
      match out with
      | .list (.atom "r" :: outs) =>
        if outs.length ≠ keys.length then "viol unparsable" else
        let demand : Option (Key → Demand) :=
          if cfg.type == "range" then (validRange cfg).map fun n => rangeDemand n cfg.tableRowLimit
          else if isDateRule cfg.type then some (dateDemand cfg.type tz) else none
        match demand with
        | none => "ok"
        | some dm =>
          -- a class listed in known/C09.json must not hide another violation of the same case
          let vs := (keys.zip outs).filterMap fun ko => judge (dm ko.1) ko.2
          match vs.filter (fun v => !listedClasses.contains v) ++ vs with
          | [] => "ok"
          | v :: _ => "viol " ++ v
      | .atom "cfgerr" => "ok"
      | .atom "cfgpanic" => "ok"
      | _ => "viol unparsable"
    | _, _ => "bad"
  | .list [.atom "subtables", cfg] =>
    match parseCfg cfg with
    | some (cfg, _) =>
      let expected : Option (List Int × List Int) :=
        if cfg.type == "range" then
          (validRange cfg).map fun n =>
            ((List.range n).map fun (i : Nat) => (i : Int),
             ((List.range cfg.locations.length).zip cfg.locations).flatMap fun il =>
               List.replicate il.2.toNat (il.1 : Int))
        else if isDateRule cfg.type then
          (configPeriods cfg.type cfg.dateRange).bind fun all =>
            (cfg.dateRange.mapM (entryPeriods cfg.type)).map fun per =>
              (all, ((List.range per.length).zip per).flatMap fun ip => List.replicate ip.2.length (ip.1 : Int))
        else none
      match expected with
      | none => "ok"
      | some (subs, slices) =>
        match out with
        | .list [.atom "ok", s, t] =>
          if asInts? s == some subs then
            if asInts? t == some slices then "ok" else "viol subtable-slices-wrong"
          else "viol subtable-list-wrong"
        | .atom "cfgerr" => "viol valid-config-rejected"
        | .atom "cfgpanic" => "viol valid-config-panics"
        | _ => "viol unparsable"
    | none => "bad"
  | _ => "bad"

def handle (args : List Sexp) : String :=
  match args with
  | [.atom "m", req] =>
    let out := model req
    match Sexp.parseLine out with
    | some [o] => out ++ " | " ++ oracle req o
    | _ => out
  | [.atom "s", req, out] => oracle req out
  | _ => "bad-request"

end GaeaVerif.Drv.C09
