import GaeaVerif.Sexp
import GaeaVerif.Model.ResultStream
import GaeaVerif.Model.ResultSession
import GaeaVerif.Model.LenEnc
import GaeaVerif.Gen.Consts
/-
  Driver for C39, whole sessions (and the helpers shared with Drv/C39.lean).

    m (ses (cfg MAXROWS EXECMS KS [MULTI]) STMT…)
        | (mq CUT ((RESULT) …))      one COM_QUERY text of several statements split by the proxy (only with
                                      MULTI = t), one result per statement
    STMT: (begin) | (commit) | (rollback)
        | (un BIN CUT (RESULT…))      unsharded statement; CUT = -1, or the number of packets of the
                                      answer the client takes before its connection breaks
        | (sq CUT (TBL TBL TBL TBL))  sharded statement over the sub-tables with a script
                                      (tables 0,1 on slice-0, tables 2,3 on slice-1; TBL = - | RESULT)
    RESULT: okp | (ITEM…); ITEM as in Drv/C39.lean, plus (stall); a first ITEM (errp) / (stall0)
            stands for an ERR packet / silence in place of the result.
  Row ids run through all results of a statement.  BIN does not exist in the model.
-/
namespace GaeaVerif.Drv.C39Ses
open GaeaVerif GaeaVerif.ResultStream GaeaVerif.ResultSession

def T : Nat := Gen.maxPayloadLen

def rowSize (l : Nat) : Nat := 9 + LenEnc.lenEncIntSize l + l

def addRows (size : Nat) : Nat → Nat → List Pkt → List Pkt
  | 0, _, acc => acc
  | n + 1, id, acc => addRows size n (id + 1) (.row ⟨id, size⟩ :: acc)

/-- Packets of a script, reversed accumulator. -/
def itemsRev : List Sexp → Nat → List Pkt → Option (List Pkt)
  | [], _, acc => some acc
  | .list [.atom "r", n, l] :: rest, id, acc =>
    match n.asNat?, l.asNat? with
    | some n, some l => itemsRev rest (id + n) (addRows (rowSize l) n id acc)
    | _, _ => none
  | .list [.atom "eof"] :: rest, id, acc => itemsRev rest id (.eof :: acc)
  | .list [.atom "err"] :: rest, id, acc => itemsRev rest id (.err :: acc)
  | .list [.atom "stall"] :: rest, id, acc => itemsRev rest id (.stall :: acc)
  | _, _, _ => none

def items? (e : Sexp) : Option (List Pkt) :=
  match e with
  | .list xs => (itemsRev xs 0 []).map List.reverse
  | _ => none

/-- `((lo hi) …)` of a list of rows: maximal runs of consecutive ids. -/
def rangesRev : List Row → List (Nat × Nat) → List (Nat × Nat)
  | [], acc => acc
  | r :: rs, [] => rangesRev rs [(r.id, r.id)]
  | r :: rs, (lo, hi) :: acc =>
    if hi + 1 = r.id then rangesRev rs ((lo, r.id) :: acc) else rangesRev rs ((r.id, r.id) :: (lo, hi) :: acc)

def fmtRanges (rows : List Row) : String :=
  "(" ++ " ".intercalate ((rangesRev rows []).reverse.map fun (a, b) => s!"({a} {b})") ++ ")"

/-! ### parsing a session -/

def rowsIn : List Sexp → Nat
  | [] => 0
  | .list [.atom "r", k, _] :: rest => (k.asNat?.getD 0) + rowsIn rest
  | _ :: rest => rowsIn rest

/-- A result set's script (or the ERR packet / the silence in its place). -/
inductive Scr where
  | okp
  | errp
  | stall0
  | set (body : List Pkt)

def scr? (e : Sexp) (base : Nat) : Option (Scr × Nat) :=
  match e with
  | .atom "okp" => some (.okp, 0)
  | .list (.list [.atom "errp"] :: _) => some (.errp, 0)
  | .list (.list [.atom "stall0"] :: _) => some (.stall0, 0)
  | .list xs => (itemsRev xs base []).map fun b => (.set b.reverse, rowsIn xs)
  | _ => none

def answer? : List Sexp → Nat → Option (List Res)
  | [], _ => some []
  | e :: rest, base =>
    match scr? e base with
    | none => none
    | some (sc, n) =>
      let more := !rest.isEmpty
      (answer? rest (base + n)).map fun rs =>
        (match sc with
          | .okp => Res.okp more
          | .errp => Res.errp
          | .stall0 => Res.stall0
          | .set b => Res.set more b) :: rs

def budget? (e : Sexp) : Option (Option Nat) :=
  e.asInt?.map fun c => if c < 0 then none else some c.toNat

/-- The scripts of the sub-tables of a sharded statement: slice-0's, slice-1's. -/
def tables? : List Sexp → Nat → Nat → Option (List TRes × List TRes)
  | [], _, _ => some ([], [])
  | .atom "-" :: rest, t, base => tables? rest (t + 1) base
  | e :: rest, t, base =>
    match scr? e base with
    | some (.set b, n) =>
      (tables? rest (t + 1) (base + n)).map fun (a, c) => if t < 2 then (TRes.set b :: a, c) else (a, TRes.set b :: c)
    | some (.errp, _) =>
      (tables? rest (t + 1) base).map fun (a, c) => if t < 2 then (TRes.errp :: a, c) else (a, TRes.errp :: c)
    | some (.stall0, _) =>
      (tables? rest (t + 1) base).map fun (a, c) => if t < 2 then (TRes.stall0 :: a, c) else (a, TRes.stall0 :: c)
    | _ => none

def stmt? (e : Sexp) : Option Stmt :=
  match e with
  | .list [.atom "begin"] => some .begin
  | .list [.atom "commit"] => some .commit
  | .list [.atom "rollback"] => some .rollback
  | .list [.atom "un", _, cut, .list results] =>
    match budget? cut, answer? results 0 with
    | some b, some a => some (.un a b)
    | _, _ => none
  | .list [.atom "mq", cut, .list answers] =>
    -- one result per statement; ids run through the statements
    let results := answers.filterMap fun a => match a with
      | .list [r] => some r
      | _ => none
    if results.length != answers.length then none else
    match budget? cut, answer? results 0 with
    | some b, some a =>
      -- the backend answers every statement on its own: no result announces another
      some (.mq (a.map fun r => match r with
        | .okp _ => Res.okp false
        | .set _ body => Res.set false body
        | r => r) b)
    | _, _ => none
  | .list [.atom "sq", cut, .list tbls] =>
    match budget? cut, tables? tbls 0 0 with
    | some b, some (t0, t1) => some (.sq t0 t1 b)
    | _, _ => none
  | _ => none

/-! ### printing -/

def fmtSErr : SErr → String
  | .limit => "limit"
  | .backend => "backend"
  | .timeout => "timeout"
  | .conn => "conn"

def fmtView : RView → String
  | .okp more => if more then "(okpm)" else "(okp)"
  | .rs rows ended =>
    let e := match ended with
      | some true => "eofm"
      | some false => "eof"
      | none => "-"
    s!"(rs {fmtRanges rows} {e})"

def fmtAnswer (a : Answer) : String :=
  let fin := match a.fin with
    | .done => "done"
    | .err k => s!"(err {fmtSErr k})"
    | .closed => "cut"
    | .hang => "hang"
  let views := "(" ++ " ".intercalate (a.views.map fmtView) ++ ")"
  s!"(st {views} {fin} ok {if a.open_ then "open" else "closed"})"

def fmtSl (s : Sl) (ks : Bool) : String :=
  let (c, p) := s.final ks
  let cs := List.replicate c "closed"
  let ps := match p with
    | some k => [s!"(pooled {k})"]
    | none => []
  "(" ++ " ".intercalate (cs ++ ps) ++ ")"

def sesModel (cfg : Sexp) (stmts : List Sexp) : String :=
  match cfg with
  | .list (.atom "cfg" :: m :: e :: ks :: _) =>
    match m.asInt?, e.asNat?, ks.asBool?, stmts.mapM stmt? with
    | some m, some e, some ks, some sts =>
      let (ss, answers) := run T m (decide (e > 0)) (Sess.init ks) sts []
      let desync := ss.desync || !ss.closeFit
      let parts := answers.map fmtAnswer ++
        [s!"(conns {fmtSl ss.s0 ks} {fmtSl ss.s1 ks})", s!"(desync {if desync then 1 else 0})"]
      "(" ++ " ".intercalate parts ++ ")"
    | _, _, _, _ => "bad"
  | _ => "bad"

/-! ### the property oracle for a session

  Reference reading of the property, statement by statement, on what the
  client received and on where the backend connections ended up.  A result of
  the backend is *complete* iff its rows are followed by the EOF. -/

structure RSpec where
  isSet : Bool        -- a result set (else an OK packet)
  base : Nat          -- id of its first row
  n : Nat             -- rows the backend produced
  complete : Bool     -- … and closed with EOF (an OK packet is complete)
  more : Bool         -- further results announced

def firstTerminal : List Sexp → String
  | [] => "cut"
  | .list [.atom "r", _, _] :: rest => firstTerminal rest
  | .list [.atom a] :: _ => a
  | _ :: _ => "bad"

def rowsBefore : List Sexp → Nat
  | [] => 0
  | .list [.atom "r", k, _] :: rest => (k.asNat?.getD 0) + rowsBefore rest
  | _ :: _ => 0

def rspecs : List Sexp → Nat → List RSpec
  | [], _ => []
  | e :: rest, base =>
    let more := !rest.isEmpty
    match e with
    | .atom _ => ⟨false, base, 0, true, more⟩ :: rspecs rest base
    | .list xs =>
      let n := rowsBefore xs
      ⟨true, base, n, firstTerminal xs == "eof", more⟩ :: rspecs rest (base + rowsIn xs)

def withinLimit (m : Int) (n : Nat) : Bool := m ≤ 0 || (n : Int) ≤ m

/-- Rows `base … base+k-1` as printed ranges: `()` or `((base base+k-1))`. -/
def prefixLen? (r : Sexp) (base : Nat) : Option Nat :=
  match r with
  | .list [] => some 0
  | .list [.list [lo, hi]] =>
    match lo.asNat?, hi.asNat? with
    | some lo, some hi => if lo == base && hi ≥ lo then some (hi + 1 - lo) else none
    | _, _ => none
  | _ => none

/-- Judge the results a client saw against the results the backend sent. -/
def judgeViews (m : Int) : List Sexp → List RSpec → String
  | [], _ => "ok"
  | _ :: _, [] => "viol more-results-than-the-backend-sent"
  | v :: vs, sp :: sps =>
    match v with
    | .list [.atom "okp"] | .list [.atom "okpm"] =>
      if sp.isSet then "viol result-kind-differs"
      else if (v == .list [.atom "okpm"]) != sp.more then "viol more-results-flag-wrong"
      else judgeViews m vs sps
    | .list [.atom "rs", rows, e] =>
      if !sp.isSet then "viol result-kind-differs" else
      match prefixLen? rows sp.base with
      | none => "viol client-rows-not-a-prefix-of-the-backend-rows"
      | some k =>
        if k > sp.n then "viol more-rows-than-the-backend-produced"
        else if e == .atom "-" then (if vs.isEmpty then "ok" else "viol result-without-end-followed-by-another")
        else if k < sp.n then "viol truncated-result-delivered-as-complete"
        else if !sp.complete then "viol unfinished-result-delivered-as-complete"
        else if !withinLimit m sp.n then "viol row-limit-not-enforced"
        else if (e == .atom "eofm") != sp.more then "viol more-results-flag-wrong"
        else judgeViews m vs sps
    | _ => "viol unparsable"

def lastEnded : List Sexp → Bool
  | [] => false
  | [.list [.atom "rs", _, e]] => e != .atom "-"
  | [_] => true
  | _ :: rest => lastEnded rest

/-- One statement: its script and the `(st …)` the client saw. -/
def judgeStmt (m : Int) (st out : Sexp) : String :=
  match out with
  | .list [.atom "st", .atom "hang"] => "viol session-blocked"
  | .list [.atom "st", .list [.atom a], _] => s!"viol {a}"
  | .list [.atom "st", .list views, fin, flags, state] =>
    if flags != .atom "ok" then
      (if flags == .atom "row-bytes-differ" then "viol client-row-bytes-differ" else "viol client-sequence-ids")
    else if fin == .atom "cut" && state == .atom "open" then "viol client-left-without-eof-or-error"
    else
      match st with
      | .list [.atom "un", _, cut, .list results] =>
        let sps := rspecs results 0
        let v := judgeViews m views sps
        if v != "ok" then v
        else if fin == .atom "done" then
          (if views.length < sps.length || !lastEnded views then "viol answer-ended-before-its-last-result" else "ok")
        else
          -- an error is wrong only if every result was complete and within the limit and the client kept reading
          if cut.asInt? == some (-1) && !sps.isEmpty && sps.all (fun sp => sp.complete && withinLimit m sp.n) then
            (if sps.any fun sp => sp.isSet && (sp.n : Int) = m then "viol result-of-exactly-limit-rows-rejected"
             else "viol complete-answer-not-delivered")
          else "ok"
      | .list [.atom "mq", cut, .list answers] =>
        -- the statements of the packet: every one answered on its own, the flag on all but the last
        let results := answers.filterMap fun a => match a with
          | .list [r] => some r
          | _ => none
        let sps := rspecs results 0
        let v := judgeViews m views sps
        if v != "ok" then v
        else if fin == .atom "done" then
          (if views.length < sps.length || !lastEnded views then "viol answer-ended-before-its-last-result" else "ok")
        else
          if cut.asInt? == some (-1) && !sps.isEmpty && sps.all (fun sp => sp.complete && withinLimit m sp.n) then
            (if sps.any fun sp => sp.isSet && (sp.n : Int) = m then "viol result-of-exactly-limit-rows-rejected"
             else "viol complete-answer-not-delivered")
          else "ok"
      | .list [.atom "sq", cut, .list tbls] =>
        let scripts := tbls.filter fun t => t != .atom "-"
        let sps := rspecs scripts 0
        let total := (sps.map (·.n)).sum
        let fine := !sps.isEmpty && sps.all fun sp => sp.isSet && sp.complete && withinLimit m sp.n
        match views with
        | [] =>
          if fin == .atom "done" then "viol answer-ended-before-its-last-result"
          else if cut.asInt? == some (-1) && fine then
            (if sps.any fun sp => (sp.n : Int) = m then "viol result-of-exactly-limit-rows-rejected"
             else "viol complete-answer-not-delivered")
          else "ok"
        | [.list [.atom "rs", rows, e]] =>
          match prefixLen? rows 0 with
          | none => "viol client-rows-not-the-rows-of-the-sub-tables-in-order"
          | some k =>
            if k > total then "viol more-rows-than-the-backend-produced"
            else if e == .atom "-" then (if fin == .atom "done" then "viol answer-ended-before-its-last-result" else "ok")
            else if e != .atom "eof" then "viol more-results-flag-wrong"
            else if k < total then "viol truncated-result-delivered-as-complete"
            else if !(sps.all fun sp => sp.isSet && sp.complete) then "viol unfinished-result-delivered-as-complete"
            else if !fine then "viol row-limit-not-enforced"
            else "ok"
        | _ => "viol more-results-than-the-backend-sent"
      | _ => "ok"
  | _ => "viol unparsable"

def judgeConn (f : Sexp) : String :=
  match f with
  | .atom "closed" => "ok"
  | .atom "leaked" => "viol backend-connection-not-recycled"
  | .atom "starved" => "viol proxy-read-past-end-of-result"
  | .list [.atom "pooled", k] =>
    if k.asNat? == some 0 then "ok" else "viol connection-pooled-with-packets-unread"
  | _ => "viol unparsable"

def firstBad (vs : List String) : String := (vs.find? (· != "ok")).getD "ok"

def sesOracle (cfg : Sexp) (stmts : List Sexp) (out : Sexp) : String :=
  match cfg, out with
  | .list (.atom "cfg" :: m :: _), .list parts =>
    match m.asInt? with
    | none => "bad"
    | some m =>
      if parts.contains (.list [.atom "hang"]) then "viol session-blocked" else
      let sts := parts.filter fun p => match p with
        | .list (.atom "st" :: _) => true
        | _ => false
      let tail := parts.drop sts.length
      match tail with
      | [.list [.atom "conns", .list c0, .list c1], .list [.atom "desync", d]] =>
        let v := firstBad ((stmts.zip sts).map fun (s, o) => judgeStmt m s o)
        if v != "ok" then v
        else if d.asNat? != some 0 then "viol statement-sent-on-connection-with-unread-packets"
        else firstBad ((c0 ++ c1).map judgeConn)
      | _ => "viol unparsable"
  | _, _ => "bad"

end GaeaVerif.Drv.C39Ses
