import GaeaVerif.Sexp
import GaeaVerif.Model.AuthSha
import GaeaVerif.Model.AuthCheck
/-
  Driver for C30 (hash functions instantiated with AuthSha.sha1 / AuthSha.sha256).
  Requests (byte strings as hex atoms):
    (sha1 DATA) (sha256 DATA)             → digest
    (hexdec S)                            → hex.DecodeString(S), error dropped
    (storedhash S)                        → t | f     isStoredHashPassword(S)
    (native SALT PW) (sha2 SALT PW)       → (ok SCRAMBLE) | panic
    (hashchk RESP SALT ENC)               → (t RESP') | (f RESP')   RESP' = caller's buffer afterwards
    (um clear|hash|sha2 (PW…) SALT AUTH)  → (t PW AUTH') | (f AUTH') | panic
    (hs ((NS PW)…) USER SALT PLUGIN AUTH) → (accept NS AUTH') | (deny AUTH') | panic
        the user `u` (hex 75) has the passwords PW…, each added for namespace NS in
        that order; USER is the name the client presents
  `s <request> <implementation output>`: the property oracle.
-/
namespace GaeaVerif.Drv.C30
open GaeaVerif GaeaVerif.UserMgr GaeaVerif.AuthCheck GaeaVerif.AuthSha

def hx (b : Bytes) : String := bytesToHex b

def theUser : Bytes := [0x75]

def parseEntries (xs : List Sexp) : Option (List (Bytes × Bytes)) :=
  xs.mapM fun x =>
    match x with
    | .list [n, p] => do let n ← n.asBytes?; let p ← p.asBytes?; pure (n, p)
    | _ => none

def buildUM (entries : List (Bytes × Bytes)) : UserManager Bytes :=
  entries.foldl (fun u e => addNamespaceUsers u { name := e.1, users := [(theUser, e.2)] }) newUserManager

def fmtOpt (auth : Bytes) : R (Option Bytes) → String
  | .ok (some p) => s!"(t {hx p} {hx auth})"
  | .ok none => s!"(f {hx auth})"
  | .fail => "fail"
  | .panic => "panic"

def model (req : Sexp) : String :=
  match req with
  | .list [.atom "sha1", d] => match d.asBytes? with | some d => hx (sha1 d) | none => "bad"
  | .list [.atom "sha256", d] => match d.asBytes? with | some d => hx (sha256 d) | none => "bad"
  | .list [.atom "hexdec", d] => match d.asBytes? with | some d => hx (hexDecodeString d) | none => "bad"
  | .list [.atom "storedhash", d] =>
    match d.asBytes? with | some d => (if isStoredHashPassword d then "t" else "f") | none => "bad"
  | .list [.atom "native", s, p] =>
    match s.asBytes?, p.asBytes? with
    | some s, some p => match calcPassword sha1 s p with | .ok r => s!"(ok {hx r})" | _ => "panic"
    | _, _ => "bad"
  | .list [.atom "sha2", s, p] =>
    match s.asBytes?, p.asBytes? with
    | some s, some p => match calcCachingSha2Password sha256 s p with | .ok r => s!"(ok {hx r})" | _ => "panic"
    | _, _ => "bad"
  | .list [.atom "hashchk", r, s, e] =>
    match r.asBytes?, s.asBytes?, e.asBytes? with
    | some r, some s, some e => s!"({if checkHashPassword sha1 r s e then "t" else "f"} {hx r})"
    | _, _, _ => "bad"
  | .list [.atom "um", .atom kind, .list pws, s, a] =>
    match pws.mapM Sexp.asBytes?, s.asBytes?, a.asBytes? with
    | some pws, some s, some a =>
      match kind with
      | "clear" => fmtOpt a (umCheckPassword sha1 s a pws)
      | "hash" => fmtOpt a (.ok (umCheckHashPassword sha1 s a pws))
      | "sha2" => fmtOpt a (umCheckSha2Password sha256 s a pws)
      | _ => "bad"
    | _, _, _ => "bad"
  | .list [.atom "hs", .list es, usr, s, pl, a] =>
    match parseEntries es, usr.asBytes?, s.asBytes?, pl.asBytes?, a.asBytes? with
    | some es, some usr, some s, some pl, some a =>
      match handleHandshakeResponse sha1 sha256 (buildUM es) usr s a pl with
      | .ok (.accept _ ns) => s!"(accept {hx ns} {hx a})"
      | .ok .deny => s!"(deny {hx a})"
      | _ => "panic"
    | _, _, _, _, _ => "bad"
  | _ => "bad"

/-- The namespace `GetNamespaceByUser` yields for a configured password: that of
    the last entry with this password. -/
def nsOf (es : List (Bytes × Bytes)) (pw : Bytes) : Option Bytes :=
  (es.reverse.find? fun e => e.2 == pw).map (·.1)

def nativePlugin (pl : Bytes) : Bool := pl.length != 0 && pl != cachingSHA2Password

/-- Verdict for a handshake case. -/
def judgeHs (es : List (Bytes × Bytes)) (usr salt pl auth : Bytes) (out : Sexp) : String :=
  let known := usr == theUser && !es.isEmpty
  let acc := if known then es.filter fun e => specAccepts sha1 sha256 pl e.2 salt auth else []
  match out with
  | .list (.atom "accept" :: ns :: _) =>
    match ns.asBytes? with
    | none => "viol unparsable"
    | some ns =>
      if !known then "viol unknown-user-accepted"
      else if !acc.isEmpty then
        if acc.any fun e => nsOf es e.2 == some ns then "ok" else "viol accepted-into-wrong-namespace"
      else if es.any fun e => literalAccepts sha1 sha256 pl e.2 salt auth then "viol hash-literal-accepted-as-password"
      else if auth.length != 20 && auth.length != 32 && auth.length != 0 then "viol wrong-length-response-accepted"
      else if auth.length == 0 then "viol empty-response-accepted"
      else "viol wrong-proof-accepted"
  | .list (.atom "deny" :: _) | .atom "panic" =>
    if acc.isEmpty then "ok"
    else if nativePlugin pl && acc.all fun e => isHashedEntry e.2 then "viol hashed-password-rejected-after-native-auth-switch"
    else if es.any fun e => looksHashed e.2 && !(acc.any fun a => a.2 == e.2) then "viol correct-proof-rejected-next-to-hashed-candidate"
    else "viol correct-proof-rejected"
  | _ => "viol unparsable"

def oracle (req out : Sexp) : String :=
  match req with
  | .list [.atom "sha1", d] =>
    match d.asBytes?, out with
    | some d, .atom o => if o == hx (sha1 d) then "ok" else "viol sha1-differs"
    | _, _ => "viol unparsable"
  | .list [.atom "sha256", d] =>
    match d.asBytes?, out with
    | some d, .atom o => if o == hx (sha256 d) then "ok" else "viol sha256-differs"
    | _, _ => "viol unparsable"
  | .list [.atom "hexdec", _] => "ok"      -- standard library, correspondence only
  | .list [.atom "storedhash", d] =>
    -- the predicate must single out exactly the entries the reference semantics
    -- treats as stored hashes ('*' + 40 hex digits)
    match d.asBytes?, out with
    | some d, .atom "t" => if isHashedEntry d then "ok" else "viol clear-text-entry-taken-for-stored-hash"
    | some d, .atom "f" => if isHashedEntry d then "viol stored-hash-entry-taken-for-clear-text" else "ok"
    | _, _ => "viol unparsable"
  | .list [.atom "native", s, p] =>
    match s.asBytes?, p.asBytes?, out with
    | some s, some p, .list [.atom "ok", r] =>
      if r.asBytes? == some (nativeScramble sha1 s p) then "ok" else "viol native-scramble-wrong"
    | some _, some _, .atom "panic" => "viol scramble-panics"
    | _, _, _ => "viol unparsable"
  | .list [.atom "sha2", s, p] =>
    match s.asBytes?, p.asBytes?, out with
    | some s, some p, .list [.atom "ok", r] =>
      if r.asBytes? == some (sha2Scramble sha256 s p) then "ok" else "viol sha2-scramble-wrong"
    | some _, some _, .atom "panic" => "viol scramble-panics"
    | _, _, _ => "viol unparsable"
  | .list [.atom "hashchk", r, s, e] =>
    match r.asBytes?, s.asBytes?, e.asBytes? with
    | some r, some s, some e =>
      let exp := e.length != 0 && mysqlNativeVerify sha1 (hexDecodeString e) s r
      match out with
      | .list (.atom "t" :: _) =>
        if exp then "ok" else if r.length != 20 then "viol wrong-length-response-accepted" else "viol wrong-proof-accepted"
      | .list (.atom "f" :: _) | .atom "panic" => if exp then "viol correct-proof-rejected" else "ok"
      | _ => "viol unparsable"
    | _, _, _ => "bad"
  | .list [.atom "um", .atom kind, .list pws, s, a] =>
    -- one loop of UserManager in isolation: an accepted password must be one of the
    -- list and the response a proof for it by that loop's method; a refusal must
    -- not miss a proof
    match pws.mapM Sexp.asBytes?, s.asBytes?, a.asBytes? with
    | some pws, some s, some a =>
      let good (p : Bytes) : Bool :=
        match kind with
        | "clear" => !isHashedEntry p && a == nativeScramble sha1 s p
        | "hash" => isHashedEntry p && mysqlNativeVerify sha1 (hexDecodeString (p.drop 1)) s a
        | _ => !isHashedEntry p && a == sha2Scramble sha256 s p
      let lit (p : Bytes) : Bool :=
        isHashedEntry p && (if kind == "clear" then a == nativeScramble sha1 s p else kind == "sha2" && a == sha2Scramble sha256 s p)
      match out with
      | .list (.atom "t" :: p :: _) =>
        match p.asBytes? with
        | some p =>
          if !pws.contains p then "viol unconfigured-password-reported"
          else if good p then "ok"
          else if lit p then "viol hash-literal-accepted-as-password"
          else if a.length != 20 && a.length != 32 && a.length != 0 then "viol wrong-length-response-accepted"
          else "viol wrong-proof-accepted"
        | none => "viol unparsable"
      | .list (.atom "f" :: _) | .atom "panic" =>
        if pws.any good then
          (if pws.any looksHashed then "viol correct-proof-rejected-next-to-hashed-candidate" else "viol correct-proof-rejected")
        else "ok"
      | _ => "viol unparsable"
    | _, _, _ => "bad"
  | .list [.atom "hs", .list es, usr, s, pl, a] =>
    match parseEntries es, usr.asBytes?, s.asBytes?, pl.asBytes?, a.asBytes? with
    | some es, some usr, some s, some pl, some a => judgeHs es usr s pl a out
    | _, _, _, _, _ => "bad"
  | _ => "bad"

def handle (args : List Sexp) : String :=
  match args with
  | [.atom "m", req] =>
    let out := model req
    match Sexp.parseLine out with
    | some [o] => out ++ " | " ++ oracle req o
    | _ => out
  | [.atom "s", req, out] => oracle req out
  | _ => "bad-request"

end GaeaVerif.Drv.C30
