import GaeaVerif.Sexp
import GaeaVerif.Model.SpecC22
/-
  Driver for C22.  Request:
    m (rw (user RWFLAG RWSPLIT) (csl CONFIGURED FORCE) (sess KEEP INTRANS AUTOCOMMIT)
          (slice NSLAVES FALLBACK) (stmt TYPE SQL))
      CONFIGURED t|f   check_select_lock of the namespace configuration
      FORCE none|on|off   Namespace.CheckSelectLock overwritten after NewNamespace
      NSLAVES number of replicas of the slice, FALLBACK fallback_to_master_on_slave_fail (hex text)
      TYPE parser.Preview(SQL), SQL hex text
    answer ((st TYPE) (tok TOKEN…) (flag F) (e2e …))
      flag = checkExecuteFromSlave, e2e = route of doQuery:
      (conn master|slave FLAG) | (local FLAG) | (failed FLAG) | unmodelled
    s <request> <implementation output>   property oracle

  Multi-statement packets (the real handleQuery -> doMultiStmts path):
    m (rwm (user …) (csl …) (sess …) (slice …) (pieces (TYPE SQL) (TYPE SQL) …))
    answer (multi (p TYPE WHERE) …)   WHERE master|slave|local|failed|unmodelled, ending with the
    first failed / unmodelled piece.  Oracle: every piece served by a replica must be allowed
    there (outside a transaction; a plain read of a read/write-split user: no write, no locking
    read, no master hint, no read_only probe).
-/
namespace GaeaVerif.Drv.C22
open GaeaVerif GaeaVerif.Tok GaeaVerif.FastPath GaeaVerif.RwSplit

structure Input where
  cfg : RwSplit.Cfg
  configured : Bool
  force : String
  sess : Sess
  slice : Slice
  stmtType : Nat
  sql : Str

def parseInput (req : Sexp) : Option Input :=
  match req with
  | .list [.atom "rw", .list [.atom "user", rf, rs], .list [.atom "csl", cf, .atom force],
           .list [.atom "sess", ks, it, ac], .list [.atom "slice", nsl, fb], .list [.atom "stmt", st, sql]] =>
    match rf.asNat?, rs.asNat?, cf.asBool?, ks.asBool?, it.asBool?, ac.asBool?, nsl.asNat?, fb.asText?, st.asNat?, sql.asText? with
    | some rf, some rs, some cf, some ks, some it, some ac, some nsl, some fb, some st, some sql =>
      let csl := if force == "on" then true else if force == "off" then false else newNamespaceCheckSelectLock cf
      some { cfg := { rwFlag := rf, rwSplit := rs, checkSelectLock := csl }, configured := cf, force := force,
             sess := { keepSession := ks, inTrans := it, autocommit := ac },
             slice := { slaveUp := nsl > 0, fallback := shouldFallback fb.toList },
             stmtType := st, sql := sql.toList }
    | _, _, _, _, _, _, _, _, _, _ => none
  | _ => none

def b2s (b : Bool) : String := if b then "t" else "f"

def strHex (s : Str) : String := textToHex (String.ofList s)

def nodeStr : Node → String
  | .master => "master"
  | .slave => "slave"
  | .none => "none"

def routeStr : Route → String
  | .conn .none f => s!"(e2e failed {b2s f})"
  | .conn n f => s!"(e2e conn {nodeStr n} {b2s f})"
  | .local f => s!"(e2e local {b2s f})"
  | .failed f => s!"(e2e failed {b2s f})"
  | .unmodelled => "(e2e unmodelled)"

def model (req : Sexp) : String :=
  match parseInput req with
  | none => "bad"
  | some i =>
    match tokenize i.sql, doQuery i.cfg i.sess i.slice "db_a".toList i.stmtType i.sql with
    | .ok tokens, .ok route =>
      let flag := checkExecuteFromSlave i.cfg i.stmtType tokens i.sql
      let toks := " ".intercalate ("tok" :: tokens.map strHex)
      s!"((st {i.stmtType}) ({toks}) (flag {b2s flag}) {routeStr route})"
    | _, _ => "panic"

/-- The property on an observed output. -/
def oracle (req out : Sexp) : String :=
  match parseInput req with
  | none => "bad"
  | some i =>
    match out with
    | .atom "panic" => "viol tokenize-panic"
    | .list [.list [.atom "st", st], .list (.atom "tok" :: _), .list [.atom "flag", fl], .list (.atom "e2e" :: e2e)] =>
      match st.asNat?, fl.asBool? with
      | some st, some flag =>
        let lockDemanded := i.force != "off"
        let unit : Option String :=
          if flag then Spec.replicaVerdict i.cfg lockDemanded st i.sql else none
        match unit with
        | some cls => "viol " ++ cls
        | none =>
          match e2e with
          | [.atom "conn", .atom "slave", _] =>
            if i.sess.isInTransaction then
              if !i.cfg.allowWrite && i.sess.keepSession then "viol readonly-keepsession-tx-on-replica"
              else "viol in-transaction-on-replica"
            else
              match Spec.replicaVerdict i.cfg lockDemanded st i.sql with
              | some cls => "viol " ++ cls
              | none => "ok"
          | _ => "ok"
      | _, _ => "viol unparsable"
    | _ => "viol unparsable"

/-! ### multi-statement packets -/

structure MultiInput where
  base : Input
  pieces : List (Nat × Str)

def parsePiece : Sexp → Option (Nat × Str)
  | .list [st, sql] =>
    match st.asNat?, sql.asText? with
    | some st, some sql => some (st, sql.toList)
    | _, _ => none
  | _ => none

def parseMulti (req : Sexp) : Option MultiInput :=
  match req with
  | .list [.atom "rwm", u, csl, ss, sl, .list (.atom "pieces" :: ps)] =>
    match parseInput (.list [.atom "rw", u, csl, ss, sl, .list [.atom "stmt", .atom "0", .atom "-"]]), ps.mapM parsePiece with
    | some i, some ps => some { base := i, pieces := ps }
    | _, _ => none
  | _ => none

def whereStr : Where → String
  | .master => "master" | .slave => "slave" | .local => "local" | .failed => "failed" | .unmodelled => "unmodelled"

def modelMulti (req : Sexp) : String :=
  match parseMulti req with
  | none => "bad"
  | some m =>
    let ws := doMulti m.base.cfg m.base.sess m.base.slice "db_a".toList false m.pieces
    let parts := (ws.zip m.pieces).map fun (w, p) => s!" (p {p.1} {whereStr w})"
    "(multi" ++ String.join parts ++ ")"

/-- The property on an observed multi-statement outcome: a piece served by a replica must be allowed there. -/
def oracleMulti (req out : Sexp) : String :=
  match parseMulti req with
  | none => "bad"
  | some m =>
    match out with
    | .atom "panic" => "viol tokenize-panic"
    | .list (.atom "multi" :: ps) =>
      let lockDemanded := m.base.force != "off"
      let rec go : List Sexp → List (Nat × Str) → String
        | .list [.atom "p", st, .atom node] :: rest, (_, sql) :: pieces =>
          match st.asNat? with
          | none => "viol unparsable"
          | some st =>
            if node == "slave" then
              if m.base.sess.isInTransaction then "viol in-transaction-on-replica"
              else
                match Spec.replicaVerdict m.base.cfg lockDemanded st sql with
                | some cls => "viol multi-statement-" ++ cls
                | none => go rest pieces
            else if node == "master" || node == "local" || node == "failed" || node == "unmodelled" then go rest pieces
            else "viol unparsable"
        | [], _ => "ok"
        | _, _ => "viol unparsable"
      go ps m.pieces
    | _ => "viol unparsable"

def isMulti : Sexp → Bool
  | .list (.atom "rwm" :: _) => true
  | _ => false

def handle (args : List Sexp) : String :=
  match args with
  | [.atom "m", req] =>
    if isMulti req then
      let out := modelMulti req
      match Sexp.parseLine out with
      | some [o] => out ++ " | " ++ oracleMulti req o
      | _ => out
    else
    let out := model req
    match Sexp.parseLine out with
    | some [o] => out ++ " | " ++ oracle req o
    | _ => out
  | [.atom "s", req, out] => if isMulti req then oracleMulti req out else oracle req out
  | _ => "bad-request"

end GaeaVerif.Drv.C22
