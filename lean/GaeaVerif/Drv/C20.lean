import GaeaVerif.Sexp
import GaeaVerif.Gen.Consts
import GaeaVerif.Model.SessionVars
/-
  Driver for C20.  One request is a whole history (see harness/props/c20.go):
    m (c20 (cfg …) (clients …) (conns …) (ops …))   → outputs of the model | verdict
    s <input> <implementation output>                → verdict of the property oracle
  The charset tables and the verify-function table are the ones `gvh extract`
  read from the source (GaeaVerif.Gen.Consts).
-/
namespace GaeaVerif.Drv.C20
open GaeaVerif GaeaVerif.SessVars

def tables : Tables :=
  { charsetIds := Gen.c20CharsetIds
    charsets := Gen.c20Charsets
    collations := Gen.c20Collations
    collationNames := Gen.c20CollationNames
    collationNameToCharset := Gen.c20CollationNameToCharset }

def verifyOfName : String → Verify
  | "verifySQLMode" => .sqlMode
  | "verifyOnOffInteger" => .onOff
  | "verifyTimeZone" => .timeZone
  | "verifyInteger" => .integer
  | "verifyString" => .string
  | _ => .dflt

def verifyMap : VerifyMap := Gen.c20VerifyFuncMap.map fun p => (p.1, verifyOfName p.2)

/-! ### reading the input -/

def litOf : Sexp → Option Lit
  | .list [.atom "i", n] => n.asInt?.map Lit.int
  | .list [.atom "w", w] => w.asText?.map Lit.word
  | .list [.atom "s", s] => s.asText?.map Lit.str
  | _ => none

def assignOf : Sexp → Option Assign
  | .list (.atom "a" :: .atom kind :: name :: l :: rest) => do
    let name ← name.asText?
    let l ← litOf l
    -- `COLLATE DEFAULT` is parsed like no COLLATE clause at all
    let ext ← match rest with
      | [] => some none
      | [e] => (litOf e).map fun l => match l with
        | .word w => if w.toLower == "default" then none else some l
        | _ => some l
      | _ => none
    match kind with
    | "sys" => some { name := name, value := l }
    | "ses" => some { name := name, value := l }
    | "glob" => some { name := name, isGlobal := true, value := l }
    | "user" => some { name := name, isSystem := false, value := l }
    | "names" => some { name := "SetNAMES", value := l, extend := ext }
    | _ => none
  | _ => none

def faultOf : Sexp → Option Fault
  | .atom "ok" => some .none
  | .atom "sqlmode" => some .rejSqlMode
  | .atom "other" => some .rejOther
  | _ => none

def opOf : Sexp → Option Op
  | .list (.atom "set" :: c :: as) => do
    let c ← c.asInt?
    let as ← as.mapM assignOf
    -- a negative index names no client
    some (.set (if c < 0 then 1000000 else c.toNat) as)
  | .list [.atom "run", c, k, f] => do
    let c ← c.asNat?; let k ← k.asNat?; let f ← faultOf f
    some (.run c k f)
  | .list [.atom "sync", c, k, f] => do
    let c ← c.asNat?; let k ← k.asNat?; let f ← faultOf f
    some (.sync c k f)
  | _ => none

structure Input where
  cfg : Cfg
  clients : List Client
  slots : List Slot
  ops : List Op

def freshSlot (cs : String) (coll : Nat) (coll247 v803 : Bool) : Slot :=
  { conn := Conn.new cs coll coll247 v803
    be := { charset := cs, collation := (tables.collationName coll).getD "" } }

def inputOf : Sexp → Option Input
  | .list [.atom "c20",
      .list [.atom "cfg", dcs, dcoll, _pver, p803, .list (.atom "allowed" :: al)],
      .list (.atom "clients" :: cls), .list (.atom "conns" :: cns), .list (.atom "ops" :: ops)] => do
    let dcs ← dcs.asText?
    let dcoll ← dcoll.asNat?
    let p803 ← p803.asBool?
    let al ← al.mapM fun
      | .list [n, t] => do some ((← n.asText?), (← t.asText?))
      | _ => none
    let cls ← cls.mapM fun
      | .list [cs, coll] => do some ({ charset := (← cs.asText?), collation := (← coll.asNat?) } : Client)
      | _ => none
    let cns ← cns.mapM fun
      | .list [cs, coll, _ver, c247, v803] => do
        some (freshSlot (← cs.asText?) (← coll.asNat?) (← c247.asBool?) (← v803.asBool?))
      | _ => none
    let ops ← ops.mapM opOf
    some { cfg := { tables := tables, verifyMap := verifyMap, defaultCharset := dcs, defaultCollation := dcoll,
                    allowed := al, proxy803 := p803 },
           clients := cls, slots := cns, ops := ops }
  | _ => none

/-! ### writing the output -/

def sortByKey {β : Type} (l : List (String × β)) : List (String × β) :=
  l.mergeSort (fun a b => !(b.1 < a.1))

def fmtVal : Val → String
  | .str s => "s " ++ textToHex s
  | .int i => "i " ++ textToHex (toString i)
  | .user s => "u " ++ textToHex s

def fmtVars (m : AMap Val) : String :=
  " ".intercalate ((sortByKey m).map fun p => "(" ++ textToHex p.1 ++ " " ++ fmtVal p.2 ++ ")")

def paren (xs : List String) : String := "(" ++ " ".intercalate (xs.filter (· != "")) ++ ")"

def fmtClient (c : Client) : String :=
  paren ["cli", textToHex c.charset, toString c.collation, fmtVars c.vars.variables]

def fmtBackend (b : Backend) : String :=
  paren ["be", textToHex b.charset, textToHex b.collation,
    " ".intercalate ((sortByKey b.vars).map fun p => "(" ++ textToHex p.1 ++ " " ++ textToHex p.2 ++ ")")]

def fmtConn (c : Conn) : String :=
  paren ["conn", if c.closed then "closed" else "open", textToHex c.charset, toString c.collation,
    "(" ++ fmtVars c.sv.variables ++ ")",
    "(" ++ " ".intercalate ((sortByKey c.sv.unused).map fun p => textToHex p.1) ++ ")"]

/-- Split at commas outside single quotes. -/
def splitTop (cs : List Char) : List String :=
  let rec go (cs : List Char) (inq : Bool) (cur : List Char) (acc : List String) : List String :=
    match cs with
    | [] => (String.ofList cur.reverse :: acc).reverse
    | c :: rest =>
      if c == '\'' then go rest (!inq) (c :: cur) acc
      else if c == ',' && !inq then go rest inq [] (String.ofList cur.reverse :: acc)
      else go rest inq (c :: cur) acc
  go cs false [] []

/-- The statement with its assignments (all elements after the first) sorted. -/
def canonicalStmt (s : String) : String :=
  if s.startsWith "SET " then
    match splitTop (s.toList.drop 4) with
    | [] => s
    | first :: rest => "SET " ++ ",".intercalate (first :: rest.mergeSort (fun a b => !(b < a)))
  else s

def fmtStmt : Option String → String
  | none => "none"
  | some s => textToHex (canonicalStmt s)

def initStmt : InitRes → Option String
  | .ok s => s
  | .errCharset => none
  | .errSet s => s

def fmtInitRes : InitRes → String
  | .ok _ => "ok"
  | .errCharset => "err-charset"
  | .errSet _ => "err-set"

def fmtRes : Res Unit → String
  | .ok _ => "ok"
  | .err _ => "err"
  | .panic => "panic"

/-- One step with the states the harness prints: the client record after the
    operation, the backend session and the belief before `Recycle`. -/
def stepOut (cfg : Cfg) (fresh : Fresh) (s : Sys) (op : Op) : Sys × String :=
  let r := step cfg fresh s op
  match op, r.2 with
  | .set c _, .set res => (r.1, paren ["set", fmtRes res, fmtClient (r.1.clients.getD c default)])
  | .run c k f, .run res _ =>
    match s.clients[c]?, s.slots[k]? with
    | some cl, some sl =>
      let i := initializeSessionVariables cfg.tables cfg.verifyMap sl cl f
      (r.1, paren ["run", fmtInitRes res, fmtStmt (initStmt res), fmtBackend i.1.be, fmtClient i.2.1, fmtConn i.1.conn])
    | _, _ => (r.1, "bad")
  | .sync c k f, .sync res =>
    match s.clients[c]?, s.slots[k]? with
    | some cl, some sl =>
      let i := syncSessionVariables cfg.tables sl cl f
      (r.1, paren ["sync", fmtInitRes res, fmtStmt (initStmt res), fmtBackend i.1.be, fmtConn i.1.conn])
    | _, _ => (r.1, "bad")
  | _, _ => (r.1, "bad")

def model (inp : Input) : String :=
  let fresh : Fresh := fun k => inp.slots.getD k default
  let rec go (s : Sys) (ops : List Op) (acc : List String) : List String :=
    match ops with
    | [] => acc.reverse
    | op :: rest =>
      let r := stepOut inp.cfg fresh s op
      go r.1 rest (r.2 :: acc)
  "(" ++ " ".intercalate (go { clients := inp.clients, slots := inp.slots } inp.ops []) ++ ")"

/-! ### the property oracle, on an observed output -/

def valOf (t v : Sexp) : Option Val :=
  match t with
  | .atom "s" => v.asText?.map Val.str
  | .atom "i" => (v.asText?.bind String.toInt?).map Val.int
  | .atom "u" => v.asText?.map Val.user
  | _ => none

/-- `(cli CS COLL (NAME T VALUE)…)`. -/
def clientOf : Sexp → Option Client
  | .list (.atom "cli" :: cs :: coll :: vars) => do
    let vars ← vars.mapM fun
      | .list [n, t, v] => do some ((← n.asText?), (← valOf t v))
      | _ => none
    some { charset := (← cs.asText?), collation := (← coll.asNat?), vars := { variables := vars } }
  | _ => none

/-- `(be CS COLLNAME (NAME TEXT)…)`. -/
def backendOf : Sexp → Option Backend
  | .list (.atom "be" :: cs :: coll :: vars) => do
    let vars ← vars.mapM fun
      | .list [n, v] => do some ((← n.asText?), (← v.asText?))
      | _ => none
    some { charset := (← cs.asText?), collation := (← coll.asText?), vars := vars }
  | _ => none

/-- The variables a backend session of a server with flag `v803` must hold for
    the settings `vars`, sorted (absent = default). -/
def expectedVars (v803 : Bool) (vars : AMap Val) : AMap String :=
  sortByKey ((sortByKey vars).foldl
    (fun m p => if isReset p.1 (valueText p.1 p.2) then m else AMap.put m (wireKey v803 p.1) (valueText p.1 p.2)) [])

/-- First difference between what the backend holds and what it must hold. -/
def compareBackend (c : Conn) (b : Backend) (cl : Client) : Option String :=
  let cs := trimSet ['"', '\'', '`'] cl.charset
  if b.charset != cs then some "charset-mismatch"
  else if tables.collationName (effectiveCollation tables c.coll247 cs cl.collation) != some b.collation then some "collation-mismatch"
  else
    let vars := cl.vars.variables
    -- the two spellings of one server variable in one statement: order unspecified
    let vars := if c.v803 && AMap.has vars "tx_read_only" && AMap.has vars "transaction_read_only" then
      AMap.del (AMap.del vars "tx_read_only") "transaction_read_only" else vars
    let bvars := if c.v803 && AMap.has cl.vars.variables "tx_read_only" && AMap.has cl.vars.variables "transaction_read_only" then
      AMap.del b.vars "transaction_read_only" else b.vars
    let want := expectedVars c.v803 vars
    let have_ := sortByKey bvars
    if have_ == want then none
    else if have_.any (fun p => !(AMap.has want p.1)) then some "leaked-variable"
    else some "stale-variable"

/-- Apply to `acked` what a SET statement changed in the proxy's record. -/
def applyDelta (acked before after : Client) : Client :=
  let keys := (before.vars.variables.map (·.1)) ++ (after.vars.variables.map (·.1))
  let vars := keys.foldl (fun m k =>
    if AMap.get before.vars.variables k == AMap.get after.vars.variables k then m
    else match AMap.get after.vars.variables k with
      | some v => AMap.put m k v
      | none => AMap.del m k) acked.vars.variables
  { charset := if before.charset == after.charset then acked.charset else after.charset
    collation := if before.collation == after.collation then acked.collation else after.collation
    vars := { variables := vars } }

/-- Is the difference between the acknowledged settings and the proxy's record
    exactly what `Reset` forgets after a failed SET statement (variables
    without a verify function, `sql_mode`)? -/
def explainedByReset (acked actual : Client) : Bool :=
  acked.charset == actual.charset && acked.collation == actual.collation &&
  (sortByKey actual.vars.variables).all (fun p => AMap.get acked.vars.variables p.1 == some p.2) &&
  (sortByKey acked.vars.variables).all (fun p =>
    AMap.get actual.vars.variables p.1 == some p.2 ||
    (!(AMap.has actual.vars.variables p.1) && (!(AMap.has verifyMap p.1) || p.1 == "sql_mode")))

def sameSettings (a b : Client) : Bool :=
  a.charset == b.charset && a.collation == b.collation && sortByKey a.vars.variables == sortByKey b.vars.variables

structure OState where
  actual : List Client
  acked : List Client

/-- The property on an observed history: every statement that executed did so
    on a backend session that carries exactly the executing client's settings —
    the proxy's record of them, and what the client was told it had set. -/
def oracle (inp : Input) (out : Sexp) : String :=
  match out with
  | .atom "panic" => "ok"
  | .list outs =>
    if outs.length != inp.ops.length then "viol unparsable-output" else
    -- `forgot`: a statement ran without variables `Reset` had dropped (the listed finding);
    -- the walk goes on, so that any other violation later in the history is what gets reported
    let rec go (st : OState) (forgot : Bool) (ops : List Op) (outs : List Sexp) : String :=
      let done := if forgot then "viol failed-set-forgets-variables" else "ok"
      match ops, outs with
      | [], _ => done
      | _, [] => done
      | op :: ops', o :: outs' =>
        match op, o with
        | .set c _, .list [.atom "set", _, cli] =>
          match clientOf cli, st.actual[c]?, st.acked[c]? with
          | some new, some before, some acked =>
            go { actual := st.actual.set c new, acked := st.acked.set c (applyDelta acked before new) } forgot ops' outs'
          | _, _, _ => "viol unparsable-output"
        | .run c k _, .list [.atom "run", .atom res, _, be, cli, _] =>
          match clientOf cli, backendOf be, st.acked[c]?, inp.slots[k]? with
          | some new, some b, some acked, some sl =>
            let st' := { st with actual := st.actual.set c new }
            if res == "ok" then
              match compareBackend sl.conn b new with
              | some cls => "viol " ++ cls
              | none =>
                if sameSettings acked new then go st' forgot ops' outs'
                else if explainedByReset acked new then
                  -- from here on the client is taken to know what it lost
                  go { st' with acked := st'.acked.set c new } true ops' outs'
                else "viol client-record-changed"
            else go st' forgot ops' outs'
          | _, _, _, _ => "viol unparsable-output"
        | .sync _ _ _, .list (.atom "sync" :: _) => go st forgot ops' outs'
        | _, .atom "bad" => go st forgot ops' outs'
        | _, _ => "viol unparsable-output"
    go { actual := inp.clients, acked := inp.clients } false inp.ops outs
  | _ => "viol unparsable-output"

def handle (args : List Sexp) : String :=
  match args with
  | [.atom "m", req] =>
    match inputOf req with
    | none => "bad"
    | some inp =>
      let out := model inp
      match Sexp.parseLine out with
      | some [o] => out ++ " | " ++ oracle inp o
      | _ => out
  | [.atom "s", req, out] =>
    match inputOf req with
    | none => "bad"
    | some inp => oracle inp out
  | _ => "bad-request"

end GaeaVerif.Drv.C20
