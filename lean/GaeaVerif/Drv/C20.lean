import GaeaVerif.Sexp
import GaeaVerif.Gen.Consts
import GaeaVerif.Model.SessionVars
/-
  Driver for C20.  One request is a whole history (see harness/props/c20.go):
    m (c20 (cfg …) (clients …) (conns …) (ops …))   → outputs of the model | verdict
    s <input> <implementation output>                → verdict of the property oracle
  The charset tables and the verify-function table are the ones `gvh extract`
  read from the source (GaeaVerif.Gen.Consts).
-/
namespace GaeaVerif.Drv.C20
open GaeaVerif GaeaVerif.SessVars

def tables : Tables :=
  { charsetIds := Gen.c20CharsetIds
    charsets := Gen.c20Charsets
    collations := Gen.c20Collations
    collationNames := Gen.c20CollationNames
    collationNameToCharset := Gen.c20CollationNameToCharset }

def verifyOfName : String → Verify
  | "verifySQLMode" => .sqlMode
  | "verifyOnOffInteger" => .onOff
  | "verifyTimeZone" => .timeZone
  | "verifyInteger" => .integer
  | "verifyString" => .string
  | _ => .dflt

def verifyMap : VerifyMap := Gen.c20VerifyFuncMap.map fun p => (p.1, verifyOfName p.2)

/-! ### reading the input -/

/-- `(i N)`, `(s TEXT)`, `null`, `(uv NAME)` @NAME, `(sv NAME)` @@NAME, `(ssv NAME)` @@SESSION.NAME,
    `(gv NAME)` @@GLOBAL.NAME, `(cat E E)` CONCAT(E, E), `(add E E)` E + E. -/
partial def exprOf : Sexp → Option Expr
  | .list [.atom "i", n] => n.asInt?.map Expr.int
  | .list [.atom "s", s] => s.asText?.map Expr.str
  | .atom "null" => some .null
  | .list [.atom "uv", n] => n.asText?.map Expr.uvar
  | .list [.atom "sv", n] => n.asText?.map (Expr.svar false)
  | .list [.atom "ssv", n] => n.asText?.map (Expr.svar true)
  | .list [.atom "gv", n] => n.asText?.map Expr.gvar
  | .list [.atom "cat", a, b] => do some (.cat (← exprOf a) (← exprOf b))
  | .list [.atom "add", a, b] => do some (.add (← exprOf a) (← exprOf b))
  | _ => none

/-- `(e EXPR)` is a value with a function call, a variable or an operator on
    top; an `EXPR` that is a plain literal is the literal. -/
def litOf : Sexp → Option Lit
  | .list [.atom "i", n] => n.asInt?.map Lit.int
  | .list [.atom "w", w] => w.asText?.map Lit.word
  | .list [.atom "s", s] => s.asText?.map Lit.str
  | .list [.atom "e", e] =>
    match exprOf e with
    | some (.int i) => some (.int i)
    | some (.str t) => some (.str t)
    | some .null => some (.word "NULL")
    | some x => some (.expr x)
    | none => none
  | _ => none

def assignOf : Sexp → Option Assign
  | .list (.atom "a" :: .atom kind :: name :: l :: rest) => do
    let name ← name.asText?
    let l ← litOf l
    -- `COLLATE DEFAULT` is parsed like no COLLATE clause at all
    let ext ← match rest with
      | [] => some none
      | [e] => (litOf e).map fun l => match l with
        | .word w => if w.toLower == "default" then none else some l
        | _ => some l
      | _ => none
    match kind with
    | "sys" => some { name := name, value := l }
    | "ses" => some { name := name, value := l }
    | "glob" => some { name := name, isGlobal := true, value := l }
    | "user" => some { name := name, isSystem := false, value := l }
    | "names" => some { name := "SetNAMES", value := l, extend := ext }
    | _ => none
  | _ => none

def faultOf : Sexp → Option Fault
  | .atom "ok" => some .none
  | .atom "sqlmode" => some .rejSqlMode
  | .atom "other" => some .rejOther
  | _ => none

def opOf : Sexp → Option Op
  | .list (.atom "set" :: c :: as) => do
    let c ← c.asInt?
    let as ← as.mapM assignOf
    -- a negative index names no client
    some (.set (if c < 0 then 1000000 else c.toNat) as)
  | .list [.atom "run", c, k, f] => do
    let c ← c.asNat?; let k ← k.asNat?; let f ← faultOf f
    some (.run c k f)
  | .list [.atom "sync", c, k, f] => do
    let c ← c.asNat?; let k ← k.asNat?; let f ← faultOf f
    some (.sync c k f)
  | _ => none

structure Input where
  cfg : Cfg
  clients : List Client
  slots : List Slot
  ops : List Op

/-- The global variables of every scripted backend (harness/props/c20.go: c20Globals). -/
def serverGlobals : AMap String :=
  [("sql_mode", "'ONLY_FULL_GROUP_BY'"), ("max_connections", "151"), ("foo_str", "'gdef'"), ("foo_int", "3"), ("foo_ref", "9")]

def freshSlot (cs : String) (coll : Nat) (coll247 v803 : Bool) : Slot :=
  { conn := Conn.new cs coll coll247 v803
    be := { charset := cs, collation := (tables.collationName coll).getD "", globals := serverGlobals } }

def inputOf : Sexp → Option Input
  | .list [.atom "c20",
      .list [.atom "cfg", dcs, dcoll, _pver, p803, .list (.atom "allowed" :: al)],
      .list (.atom "clients" :: cls), .list (.atom "conns" :: cns), .list (.atom "ops" :: ops)] => do
    let dcs ← dcs.asText?
    let dcoll ← dcoll.asNat?
    let p803 ← p803.asBool?
    let al ← al.mapM fun
      | .list [n, t] => do some ((← n.asText?), (← t.asText?))
      | _ => none
    let cls ← cls.mapM fun
      | .list [cs, coll] => do some ({ charset := (← cs.asText?), collation := (← coll.asNat?) } : Client)
      | _ => none
    let cns ← cns.mapM fun
      | .list [cs, coll, _ver, c247, v803] => do
        some (freshSlot (← cs.asText?) (← coll.asNat?) (← c247.asBool?) (← v803.asBool?))
      | _ => none
    let ops ← ops.mapM opOf
    some { cfg := { tables := tables, verifyMap := verifyMap, defaultCharset := dcs, defaultCollation := dcoll,
                    allowed := al, proxy803 := p803 },
           clients := cls, slots := cns, ops := ops }
  | _ => none

/-! ### writing the output -/

def sortByKey {β : Type} (l : List (String × β)) : List (String × β) :=
  l.mergeSort (fun a b => !(b.1 < a.1))

def fmtVal : Val → String
  | .str s => "s " ++ textToHex s
  | .int i => "i " ++ textToHex (toString i)
  | .user s => "u " ++ textToHex s

def fmtVars (m : AMap Val) : String :=
  " ".intercalate ((sortByKey m).map fun p => "(" ++ textToHex p.1 ++ " " ++ fmtVal p.2 ++ ")")

def paren (xs : List String) : String := "(" ++ " ".intercalate (xs.filter (· != "")) ++ ")"

def fmtClient (c : Client) : String :=
  paren ["cli", textToHex c.charset, toString c.collation, fmtVars c.vars.variables]

def fmtBackend (b : Backend) : String :=
  paren ["be", textToHex b.charset, textToHex b.collation,
    " ".intercalate ((sortByKey b.vars).map fun p => "(" ++ textToHex p.1 ++ " " ++ textToHex p.2 ++ ")")]

def fmtConn (c : Conn) : String :=
  paren ["conn", if c.closed then "closed" else "open", textToHex c.charset, toString c.collation,
    "(" ++ fmtVars c.sv.variables ++ ")",
    "(" ++ " ".intercalate ((sortByKey c.sv.unused).map fun p => textToHex p.1) ++ ")"]

/-- Split at commas outside single quotes and parentheses. -/
def splitTop (cs : List Char) : List String :=
  let rec go (cs : List Char) (inq : Bool) (depth : Nat) (cur : List Char) (acc : List String) : List String :=
    match cs with
    | [] => (String.ofList cur.reverse :: acc).reverse
    | c :: rest =>
      if c == '\'' then go rest (!inq) depth (c :: cur) acc
      else if inq then go rest inq depth (c :: cur) acc
      else if c == '(' then go rest inq (depth + 1) (c :: cur) acc
      else if c == ')' then go rest inq (depth - 1) (c :: cur) acc
      else if c == ',' && depth == 0 then go rest inq depth [] (String.ofList cur.reverse :: acc)
      else go rest inq depth (c :: cur) acc
  go cs false 0 [] []

/-- The statement with its assignments (all elements after the first) sorted. -/
def canonicalStmt (s : String) : String :=
  if s.startsWith "SET " then
    match splitTop (s.toList.drop 4) with
    | [] => s
    | first :: rest => "SET " ++ ",".intercalate (first :: rest.mergeSort (fun a b => !(b < a)))
  else s

def fmtStmt : Option String → String
  | none => "none"
  | some s => textToHex (canonicalStmt s)

def initStmt : InitRes → Option String
  | .ok s => s
  | .errCharset => none
  | .errSet s => s

def fmtInitRes : InitRes → String
  | .ok _ => "ok"
  | .errCharset => "err-charset"
  | .errSet _ => "err-set"

def fmtRes : Res Unit → String
  | .ok _ => "ok"
  | .err _ => "err"
  | .panic => "panic"

/-- One step with the states the harness prints: the client record after the
    operation, the backend session and the belief before `Recycle`. -/
def stepOut (cfg : Cfg) (fresh : Fresh) (s : Sys) (op : Op) : Sys × String :=
  let r := step cfg fresh s op
  match op, r.2 with
  | .set c _, .set res => (r.1, paren ["set", fmtRes res, fmtClient (r.1.clients.getD c default)])
  | .run c k f, .run res _ =>
    match s.clients[c]?, s.slots[k]? with
    | some cl, some sl =>
      let i := initializeSessionVariables cfg.tables sl cl f
      (r.1, paren ["run", fmtInitRes res, fmtStmt (initStmt res), fmtBackend i.1.be, fmtClient i.2.1, fmtConn i.1.conn])
    | _, _ => (r.1, "bad")
  | .sync c k f, .sync res =>
    match s.clients[c]?, s.slots[k]? with
    | some cl, some sl =>
      let i := syncSessionVariables cfg.tables sl cl f
      (r.1, paren ["sync", fmtInitRes res, fmtStmt (initStmt res), fmtBackend i.1.be, fmtConn i.1.conn])
    | _, _ => (r.1, "bad")
  | _, _ => (r.1, "bad")

def model (inp : Input) : String :=
  let fresh : Fresh := fun k => inp.slots.getD k default
  let rec go (s : Sys) (ops : List Op) (acc : List String) : List String :=
    match ops with
    | [] => acc.reverse
    | op :: rest =>
      let r := stepOut inp.cfg fresh s op
      go r.1 rest (r.2 :: acc)
  "(" ++ " ".intercalate (go { clients := inp.clients, slots := inp.slots } inp.ops []) ++ ")"

/-! ### the property oracle, on an observed output -/

def valOf (t v : Sexp) : Option Val :=
  match t with
  | .atom "s" => v.asText?.map Val.str
  | .atom "i" => (v.asText?.bind String.toInt?).map Val.int
  | .atom "u" => v.asText?.map Val.user
  | _ => none

/-- `(cli CS COLL (NAME T VALUE)…)`. -/
def clientOf : Sexp → Option Client
  | .list (.atom "cli" :: cs :: coll :: vars) => do
    let vars ← vars.mapM fun
      | .list [n, t, v] => do some ((← n.asText?), (← valOf t v))
      | _ => none
    some { charset := (← cs.asText?), collation := (← coll.asNat?), vars := { variables := vars } }
  | _ => none

/-- `(be CS COLLNAME (NAME TEXT)…)`. -/
def backendOf : Sexp → Option Backend
  | .list (.atom "be" :: cs :: coll :: vars) => do
    let vars ← vars.mapM fun
      | .list [n, v] => do some ((← n.asText?), (← v.asText?))
      | _ => none
    some { charset := (← cs.asText?), collation := (← coll.asText?), vars := vars }
  | _ => none

/-- The text a backend is sent for the recorded value `v` of `k`. -/
def sentText (k : String) (v : Val) : String := valueText k v

/-- A client's own session as MySQL would keep it if the client were connected
    to it alone: the recorded variable `k` ↦ the value its assignment had when the
    client sent the SET statement. -/
abbrev Virt := AMap String

/-- Follow a SET statement of the client: every variable whose record changed
    gets the value of its new text, evaluated in the client's own session as it
    was before the statement. -/
def virtAfterSet (virt : Virt) (before after : Client) : Virt :=
  let keys := (sortByKey (before.vars.variables ++ after.vars.variables)).map (·.1)
  keys.foldl (fun m k =>
    if AMap.get before.vars.variables k == AMap.get after.vars.variables k then m
    else match AMap.get after.vars.variables k with
      | some v =>
        let val := evalText serverGlobals virt (sentText k v)
        if isReset k val then AMap.del m k else AMap.put m k val
      | none => AMap.del m k) virt

/-- What a backend session (flag `v803`) must hold for the record `vars` of a
    client whose own session is `virt`, sorted; when both spellings of
    `transaction_read_only` are recorded the one of the backend's name counts. -/
def expectedVars (v803 : Bool) (vars : AMap Val) (virt : Virt) : AMap String :=
  sortByKey ((sortByKey (sentVars v803 vars)).foldl
    (fun m p => match AMap.get virt p.1 with
      | some val => AMap.put m (wireKey v803 p.1) val
      | none => m) [])

/-- The backend names whose recorded value reads the session. -/
def sessionDependent (v803 : Bool) (vars : AMap Val) : List String :=
  ((sentVars v803 vars).filter (fun p => !(sessionFreeB (sentText (wireKey v803 p.1) p.2)))).map (fun p => wireKey v803 p.1)

inductive Cmp where
  | same
  | onlySessionDependent      -- differs only in variables whose value reads the session (listed finding)
  | viol (cls : String)

/-- The variables only (`SyncSessionVariables` at the start of a transaction
    does not touch charset and collation). -/
def compareVars (c : Conn) (b : Backend) (cl : Client) (virt : Virt) : Cmp :=
    let want := expectedVars c.v803 cl.vars.variables virt
    let have_ := sortByKey b.vars
    if have_ == want then .same
    else
      let dep := sessionDependent c.v803 cl.vars.variables
      let differs := fun (k : String) => AMap.get have_ k != AMap.get want k
      let keys := (have_ ++ want).map (·.1)
      if keys.all (fun k => !(differs k) || dep.contains k) then .onlySessionDependent
      else if have_.any (fun p => !(AMap.has want p.1) && !(dep.contains p.1)) then .viol "leaked-variable"
      else .viol "stale-variable"

def compareBackend (c : Conn) (b : Backend) (cl : Client) (virt : Virt) : Cmp :=
  let cs := trimSet ['"', '\'', '`'] cl.charset
  if b.charset != cs then .viol "charset-mismatch"
  else if tables.collationName (effectiveCollation tables c.coll247 cs cl.collation) != some b.collation then .viol "collation-mismatch"
  else compareVars c b cl virt

def sameSettings (a b : Client) : Bool :=
  a.charset == b.charset && a.collation == b.collation && sortByKey a.vars.variables == sortByKey b.vars.variables

structure OClient where
  cur : Client          -- the proxy's record as last shown
  virt : Virt           -- the client's own session
  ackRec : Client       -- record and own session when its last statement executed
  ackVirt : Virt

/-- The property on an observed history: every statement that executed did so
    on a backend session that carries exactly the executing client's settings
    (charset, collation, each variable with the value it had when the client
    set it, nothing else), and every transaction that started did so on a
    backend session with the client's variables; a successful preparation leaves the client's record
    alone; after a rejected SET statement the record is back to the variables
    of the client's last executed statement. -/
def oracle (inp : Input) (out : Sexp) : String :=
  match out with
  | .atom "panic" => "ok"
  | .list outs =>
    if outs.length != inp.ops.length then "viol unparsable-output" else
    -- `dep`: a statement ran with a variable whose value reads the session and is not what it was in the
    -- client's own session (the listed finding); the walk goes on, so that any other violation later in the
    -- history is what gets reported
    let rec go (st : List OClient) (dep : Bool) (ops : List Op) (outs : List Sexp) : String :=
      let done := if dep then "viol set-expression-reads-session-state" else "ok"
      match ops, outs with
      | [], _ => done
      | _, [] => done
      | op :: ops', o :: outs' =>
        match op, o with
        | .set c _, .list [.atom "set", _, cli] =>
          match clientOf cli, st[c]? with
          | some new, some oc =>
            go (st.set c { oc with cur := new, virt := virtAfterSet oc.virt oc.cur new }) dep ops' outs'
          | _, _ => "viol unparsable-output"
        | .run c k _, .list [.atom "run", .atom res, _, be, cli, _] =>
          match clientOf cli, backendOf be, st[c]?, inp.slots[k]? with
          | some new, some b, some oc, some sl =>
            if res == "ok" then
              if !(sameSettings oc.cur new) then "viol client-record-changed"
              else
                let st' := st.set c { oc with cur := new, ackRec := new, ackVirt := oc.virt }
                match compareBackend sl.conn b new oc.virt with
                | .viol cls => "viol " ++ cls
                | .same => go st' dep ops' outs'
                | .onlySessionDependent => go st' true ops' outs'
            else if res == "err-set" then
              if new.charset == oc.cur.charset && new.collation == oc.cur.collation &&
                  sortByKey new.vars.variables == sortByKey oc.ackRec.vars.variables then
                go (st.set c { oc with cur := new, virt := oc.ackVirt }) dep ops' outs'
              else "viol failed-set-record-not-restored"
            else if res == "err-charset" then
              if sameSettings oc.cur new then go st dep ops' outs' else "viol client-record-changed"
            else go (st.set c { oc with cur := new }) dep ops' outs'
          | _, _, _, _ => "viol unparsable-output"
        | .sync c k _, .list [.atom "sync", .atom res, _, be, _] =>
          -- a transaction that starts does so on a backend session with the client's variables
          if res == "ok" then
            match backendOf be, st[c]?, inp.slots[k]? with
            | some b, some oc, some sl =>
              match compareVars sl.conn b oc.cur oc.virt with
              | .viol cls => "viol " ++ cls
              | .same => go st dep ops' outs'
              | .onlySessionDependent => go st true ops' outs'
            | _, _, _ => "viol unparsable-output"
          else go st dep ops' outs'
        | _, .atom "bad" => go st dep ops' outs'
        | _, _ => "viol unparsable-output"
    go (inp.clients.map fun cl => { cur := cl, virt := [], ackRec := cl, ackVirt := [] }) false inp.ops outs
  | _ => "viol unparsable-output"

def handle (args : List Sexp) : String :=
  match args with
  | [.atom "m", req] =>
    match inputOf req with
    | none => "bad"
    | some inp =>
      let out := model inp
      match Sexp.parseLine out with
      | some [o] => out ++ " | " ++ oracle inp o
      | _ => out
  | [.atom "s", req, out] =>
    match inputOf req with
    | none => "bad"
    | some inp => oracle inp out
  | _ => "bad-request"

end GaeaVerif.Drv.C20
