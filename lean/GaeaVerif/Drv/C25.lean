import GaeaVerif.Sexp
import GaeaVerif.Model.Balancer
/-
  Driver for C25.  Requests:
    m (bal (i…) (w…) (k…) CTR N)
        newBalancer(indices, weights); the queue is put into the order "sorted
        ascending, then stably sorted by the keys k" (the real shuffle is
        replaced by this permutation on both sides); cursor preset to CTR
        (`-` = left alone); N calls of next
        → (err mismatch) | (nil) | panic | (ok (sorted queue) (p1 p2 … [err]))
    m (conc (i…) (w…) (k…) CTR G K)
        the same balancer, G goroutines × K·len(queue) calls of next
        → … | (ok (sorted queue) ((v count) …))
    m (gsc DC ((w dc up pool) …) ((kl…) (kr…) (kg…)) (cl cr cg) (OP …))
        DBInfo with those nodes, InitBalancers(DC); OP = (sel P) | (up i B) | (pool i B)
        → (ok (QL QR QG) (outcome …) (gets …))   Q = nil | (sorted queue);
          gets = per selection the list of nodes whose pool was asked, in order
    s <request> <implementation output>    property oracle
-/
namespace GaeaVerif.Drv.C25
open GaeaVerif GaeaVerif.Balancer

def parseInts (e : Sexp) : Option (List Int) :=
  match e with
  | .list xs => xs.mapM Sexp.asInt?
  | _ => none

def fmtInts (l : List Int) : String := "(" ++ " ".intercalate (l.map toString) ++ ")"

def sortInts (l : List Int) : List Int := l.mergeSort (fun a b => decide (a ≤ b))

/-- "sorted ascending, then stably sorted by the keys" -/
def keyShuffle (keys : List Int) (q : List Int) : List Int :=
  let base := sortInts q
  let tagged := (List.range base.length).zipWith (fun j v => (keys.getD j 0, v)) base
  (tagged.mergeSort (fun a b => decide (a.1 ≤ b.1))).map Prod.snd

def presetCursor (c : Sexp) (b : Balancer) : Option Balancer :=
  match c with
  | .atom "-" => some b
  | _ => c.asNat?.map fun n => { b with nextIndex := n % 4294967296 }

/-- picks until the first error -/
def picksOut : Nat → Balancer → List String → Option (List String)   -- none = panic
  | 0, _, acc => some acc.reverse
  | n + 1, b, acc =>
    match b.next with
    | (b1, .ok v) => picksOut n b1 (toString v :: acc)
    | (_, .fail) => some ("err" :: acc).reverse
    | (_, .panic) => none

def countsOf (l : List Int) : List (Int × Nat) :=
  (sortInts l).eraseDups.map fun v => (v, l.count v)

def selOut : Sel → String
  | .conn i => s!"(conn {i})"
  | .noSlave => "no-slave"
  | .noLocalBalancer => "no-local-balancer"
  | .noGlobalBalancer => "no-global-balancer"
  | .noHealthy => "no-healthy"
  | .nextErr => "next-err"
  | .pool i => s!"(pool {i})"
  | .noLocalOrRemote => "no-local-or-remote"
  | .panic => "panic"

def parseNode : Sexp → Option Node
  | .list [w, dc, up, pool] => do
    some { weight := ← w.asInt?, dc := ← dc.asNat?, up := ← up.asBool?, poolOk := ← pool.asBool? }
  | _ => none

def parseOp : Sexp → Option Op
  | .list [.atom "sel", p] => p.asInt?.map .sel
  | .list [.atom "up", i, b] => do some (.setUp (← i.asNat?) (← b.asBool?))
  | .list [.atom "pool", i, b] => do some (.setPool (← i.asNat?) (← b.asBool?))
  | _ => none

structure GscCase where
  proxy : Nat
  nodes : List Node
  kl : List Int
  kr : List Int
  kg : List Int
  cl : Sexp
  cr : Sexp
  cg : Sexp
  ops : List Op

def parseGsc (req : Sexp) : Option GscCase :=
  match req with
  | .list [.atom "gsc", dc, .list nodes, .list [kl, kr, kg], .list [cl, cr, cg], .list ops] => do
    some { proxy := ← dc.asNat?, nodes := ← nodes.mapM parseNode,
           kl := ← parseInts kl, kr := ← parseInts kr, kg := ← parseInts kg,
           cl, cr, cg, ops := ← ops.mapM parseOp }
  | _ => none

def queueOut : Option Balancer → String
  | none => "nil"
  | some b => fmtInts (sortInts b.roundRobinQ)

def presetOpt (c : Sexp) : Option Balancer → Option (Option Balancer)
  | none => some none
  | some b => (presetCursor c b).map some

def model (req : Sexp) : String :=
  match req with
  | .list [.atom "bal", is, ws, ks, ctr, n] =>
    match parseInts is, parseInts ws, parseInts ks, n.asNat? with
    | some is, some ws, some ks, some n =>
      match newBalancer is ws (keyShuffle ks) with
      | .fail => "(err mismatch)"
      | .panic => "panic"
      | .ok none => "(nil)"
      | .ok (some b) =>
        match presetCursor ctr b with
        | none => "bad"
        | some b =>
          match picksOut n b [] with
          | none => "panic"
          | some ps => "(ok " ++ fmtInts (sortInts b.roundRobinQ) ++ " (" ++ " ".intercalate ps ++ "))"
    | _, _, _, _ => "bad"
  | .list [.atom "conc", is, ws, ks, ctr, g, k] =>
    match parseInts is, parseInts ws, parseInts ks, g.asNat?, k.asNat? with
    | some is, some ws, some ks, some g, some k =>
      match newBalancer is ws (keyShuffle ks) with
      | .fail => "(err mismatch)"
      | .panic => "panic"
      | .ok none => "(nil)"
      | .ok (some b) =>
        match presetCursor ctr b with
        | none => "bad"
        | some b =>
          match nextN (g * k * b.roundRobinQ.length) b with
          | .ok (_, ps) =>
            "(ok " ++ fmtInts (sortInts b.roundRobinQ) ++ " (" ++
              " ".intercalate ((countsOf ps).map fun (v, c) => s!"({v} {c})") ++ "))"
          | .fail => "(err next)"
          | .panic => "panic"
    | _, _, _, _, _ => "bad"
  | .list (.atom "gsc" :: _) =>
    match parseGsc req with
    | none => "bad"
    | some c =>
      let d0 : DBInfo := { nodes := c.nodes, localB := none, remoteB := none, globalB := none }
      match InitBalancers d0 c.proxy (keyShuffle c.kg) (keyShuffle c.kl) (keyShuffle c.kr) with
      | .fail => "(err init)"
      | .panic => "panic"
      | .ok d =>
        match presetOpt c.cl d.localB, presetOpt c.cr d.remoteB, presetOpt c.cg d.globalB with
        | some lb, some rb, some gb =>
          let d := { d with localB := lb, remoteB := rb, globalB := gb }
          let tr := run d c.ops
          let outs := tr.map fun (_, _, o) => o
          let gets := tr.map fun (dk, p, _) => fmtInts (GetSlaveConnGets dk p)
          if outs.any (· == .panic) then "panic" else
          "(ok (" ++ queueOut d.localB ++ " " ++ queueOut d.remoteB ++ " " ++ queueOut d.globalB ++ ") (" ++
            " ".intercalate (outs.map selOut) ++ ") (" ++ " ".intercalate gets ++ "))"
        | _, _, _ => "bad"
  | _ => "bad"

/-! ### property oracle: an independent executable reading of the property -/

def natGcdList (ws : List Int) : Nat := ws.foldl (fun g w => Nat.gcd g w.natAbs) 0

/-- every window of `L` consecutive elements of `ps` holds `v` exactly `n` times, for all `(v, n)` -/
def windowsExact (L : Nat) (want : List (Int × Nat)) (ps : List Int) : Bool :=
  if L = 0 then true else
  (List.range (ps.length + 1 - L)).all fun s =>
    let w := (ps.drop s).take L
    want.all (fun (v, n) => w.count v == n) && w.all (fun v => want.any (fun (x, _) => x == v))

def parsePicks (e : Sexp) : Option (List Int × Bool) :=   -- picks, ended by err?
  match e with
  | .list xs =>
    let ints := xs.filterMap Sexp.asInt?
    let hasErr := xs.any (· == .atom "err")
    if ints.length + (if hasErr then 1 else 0) == xs.length then some (ints, hasErr) else none
  | _ => none

/-- Is `(indices, weights)` a configuration the property speaks about: distinct
    nodes, no negative weight, some positive weight. -/
def validConfig (is ws : List Int) : Bool :=
  is.length == ws.length && !is.isEmpty && is.eraseDups.length == is.length &&
    ws.all (· ≥ 0) && ws.any (· > 0)

def wantOf (is ws : List Int) : List (Int × Nat) :=
  let g := natGcdList ws
  (is.zip ws).map fun (i, w) => (i, w.natAbs / g)

def oracleBal (is ws : List Int) (out : Sexp) : String :=
  if !validConfig is ws then "ok" else
  let want := wantOf is ws
  let L := (want.map Prod.snd).foldl (· + ·) 0
  match out with
  | .list [.atom "ok", q, ps] =>
    match parseInts q, parsePicks ps with
    | some q, some (ps, hasErr) =>
      if ps.any (fun v => want.any fun (x, n) => x == v && n == 0) then "viol zero-weight-picked"
      else if !(want.all fun (v, n) => q.count v == n) || q.length != L then "viol queue-not-normalized-weights"
      else if hasErr then "viol selection-error-with-all-up"
      else if !windowsExact L (want.filter fun (_, n) => n > 0) ps then "viol window-not-exact"
      else "ok"
    | _, _ => "viol unparsable"
  | .atom "panic" => "viol balancer-panic"
  | _ => "viol balancer-construction-failed"

def oracleConc (is ws : List Int) (g k : Nat) (out : Sexp) : String :=
  if !validConfig is ws then "ok" else
  let want := (wantOf is ws).filter fun (_, n) => n > 0
  match out with
  | .list [.atom "ok", _, .list cs] =>
    let got := cs.filterMap fun c =>
      match c with
      | .list [v, n] => (do some ((← v.asInt?), (← n.asNat?)) : Option (Int × Nat))
      | _ => none
    if got.length != cs.length then "viol unparsable"
    else if got.length == want.length && want.all (fun (v, n) => got.any fun (x, c) => x == v && c == g * k * n) then "ok"
    else "viol concurrent-counts-not-exact"
  | .atom "panic" => "viol balancer-panic"
  | _ => "viol balancer-construction-failed"

def parseSel : Sexp → Option Sel
  | .list [.atom "conn", i] => i.asInt?.map .conn
  | .list [.atom "pool", i] => i.asInt?.map .pool
  | .atom "no-slave" => some .noSlave
  | .atom "no-local-balancer" => some .noLocalBalancer
  | .atom "no-global-balancer" => some .noGlobalBalancer
  | .atom "no-healthy" => some .noHealthy
  | .atom "next-err" => some .nextErr
  | .atom "no-local-or-remote" => some .noLocalOrRemote
  | .atom "panic" => some .panic
  | _ => none

def nodeAt (nodes : List Node) (i : Int) : Option Node :=
  if i < 0 then none else nodes[i.toNat]?

/-- judge one selection against the node states it ran in -/
def judgeSel (proxy : Nat) (nodes : List Node) (policy : Int) (o : Sel) : String :=
  let eligible (nd : Node) : Bool := nd.weight > 0
  let isLocal (nd : Node) : Bool := nd.dc == proxy
  let candidate (nd : Node) : Bool :=
    eligible nd && (if policy == LocalSlaveReadForce then isLocal nd else true)
  let picked (i : Int) (isConn : Bool) : String :=
    match nodeAt nodes i with
    | none => "viol unknown-node-picked"
    | some nd =>
      if !eligible nd then "viol zero-weight-picked"
      else if !nd.up then "viol down-node-picked"
      else if policy == LocalSlaveReadForce && !isLocal nd then "viol force-local-remote-picked"
      else if isConn && !nd.poolOk then "viol conn-from-failed-pool"
      else if policy == LocalSlaveReadPrefer && !isLocal nd &&
          nodes.any (fun x => eligible x && isLocal x && x.up && x.poolOk) then
        "viol prefer-remote-while-local-can-serve"
      else "ok"
  match o with
  | .conn i => picked i true
  | .pool i => picked i false
  | .panic => "viol selection-panic"
  | .noLocalOrRemote =>
    -- preferred-local must not give up while a local replica can serve (the same
    -- defect as prefer-remote-while-local-can-serve when no remote replica is up);
    -- that it also tries every remote replica is proved of the model
    -- (`prefer_gives_up_only_if_none_serves`) and compared, not demanded here
    if nodes.any (fun x => eligible x && isLocal x && x.up && x.poolOk) then "viol prefer-gave-up-while-local-can-serve"
    else if nodes.any (fun x => eligible x && x.up && x.poolOk) && !nodes.any (fun x => eligible x && x.up && !x.poolOk)
    then "viol no-replica-found-while-eligible-up" else "ok"
  | _ =>
    if nodes.any (fun x => candidate x && x.up) then "viol no-replica-found-while-eligible-up" else "ok"

def judgeRun (proxy : Nat) : List Node → List Op → List Sel → String
  | _, [], [] => "ok"
  | nodes, .sel p :: ops, o :: os =>
    let v := judgeSel proxy nodes p o
    if v != "ok" then v else judgeRun proxy nodes ops os
  | nodes, .setUp i u :: ops, os =>
    judgeRun proxy (setNode nodes i fun nd => { nd with up := u }) ops os
  | nodes, .setPool i k :: ops, os =>
    judgeRun proxy (setNode nodes i fun nd => { nd with poolOk := k }) ops os
  | _, _, _ => "viol result-count"

/-- With all replicas up and serving and one policy throughout: every window of
    consecutive selections is exact. -/
def judgeWindows (c : GscCase) (outs : List Sel) : String :=
  let allUp := c.nodes.all fun nd => nd.up && nd.poolOk
  let pols := c.ops.filterMap fun op => match op with | .sel p => some p | _ => none
  if !allUp || pols.length != c.ops.length then "ok" else
  match pols with
  | [] => "ok"
  | p :: rest =>
    if !rest.all (· == p) then "ok" else
    let idx := (List.range c.nodes.length).zip c.nodes
    let elig := idx.filter fun (_, nd) => nd.weight > 0
    let loc := elig.filter fun (_, nd) => nd.dc == c.proxy
    let rem := elig.filter fun (_, nd) => nd.dc != c.proxy
    let serving :=
      if p == LocalSlaveReadForce then loc
      else if p == LocalSlaveReadPrefer then (if loc.isEmpty then rem else loc)
      else elig
    if serving.isEmpty then "ok" else
    let is := serving.map fun (i, _) => (i : Int)
    let ws := serving.map fun (_, nd) => nd.weight
    let want := wantOf is ws
    let L := (want.map Prod.snd).foldl (· + ·) 0
    let picks := outs.filterMap fun o => match o with | .conn i => some i | _ => none
    if picks.length != outs.length then "viol selection-error-with-all-up"
    else if !windowsExact L want picks then "viol window-not-exact"
    else "ok"

def oracle (req out : Sexp) : String :=
  match req with
  | .list [.atom "bal", is, ws, _, _, _] =>
    match parseInts is, parseInts ws with
    | some is, some ws => oracleBal is ws out
    | _, _ => "bad"
  | .list [.atom "conc", is, ws, _, _, g, k] =>
    match parseInts is, parseInts ws, g.asNat?, k.asNat? with
    | some is, some ws, some g, some k => oracleConc is ws g k out
    | _, _, _, _ => "bad"
  | .list (.atom "gsc" :: _) =>
    match parseGsc req with
    | none => "bad"
    | some c =>
      match out with
      | .atom "panic" => "viol selection-panic"
      | .list [.atom "ok", _, .list os, _] =>
        match os.mapM parseSel with
        | none => "viol unparsable"
        | some outs =>
          let v := judgeRun c.proxy c.nodes c.ops outs
          if v != "ok" then v else judgeWindows c outs
      | _ => "viol unparsable"
  | _ => "bad"

def handle (args : List Sexp) : String :=
  match args with
  | [.atom "m", req] =>
    let out := model req
    match Sexp.parseLine out with
    | some [o] => out ++ " | " ++ oracle req o
    | _ => out
  | [.atom "s", req, out] => oracle req out
  | _ => "bad-request"

end GaeaVerif.Drv.C25
