import GaeaVerif.Sexp
import GaeaVerif.Model.ShardPlace
/-
  Wire format shared by the drivers of C08 and C09 (`harness/props/shardplace.go`
  is the Go side).

    (place <cfg> (<key> …))      → (r <out> …) | cfgerr | cfgpanic
    (expect <cfg> (<key> …) (N …))  same as place; the oracle also compares with the recorded placements N
    (subtables <cfg>)            → (ok (<index> …) (<slice> …)) | cfgerr | cfgpanic

  <cfg>:  (mycat_mod (<loc>…) NDB) | (mycat_long (<loc>…) NDB COUNT LEN)
        | (mycat_string (<loc>…) NDB COUNT LEN SLICE) | (mycat_murmur (<loc>…) NDB SEED VBT)
        | (range (<loc>…) LIMIT) | (date_year TZ (RANGE…)) | (date_month TZ (RANGE…)) | (date_day TZ (RANGE…))
          (strings are hex atoms; TZ = offset of the process time zone in seconds;
           there are as many slices as locations / ranges)
  <key>:  (i N) int | (l N) int64 | (u N) uint64 | (s HEX) string | (b HEX) []byte | (f) float64
  <out>:  (ok N) | (err KIND) | panic
-/
namespace GaeaVerif.Drv.ShardIO
open GaeaVerif GaeaVerif.ShardGo GaeaVerif.ShardPlace

def asGoStr? (e : Sexp) : Option GoStr := e.asBytes?.map fun bs => bs.map UInt8.toNat

def asInts? (e : Sexp) : Option (List Int) :=
  match e with
  | .list xs => xs.mapM Sexp.asInt?
  | _ => none

def asStrs? (e : Sexp) : Option (List GoStr) :=
  match e with
  | .list xs => xs.mapM asGoStr?
  | _ => none

/-- The configuration and the time-zone offset (0 where it does not matter). -/
def parseCfg (e : Sexp) : Option (ShardCfg × Int) :=
  match e with
  | .list [.atom "mycat_mod", locs, ndb] => do
    let l ← asInts? locs; let n ← ndb.asNat?
    some ({ type := "mycat_mod", locations := l, nSlices := l.length, nDatabases := n }, 0)
  | .list [.atom "mycat_long", locs, ndb, c, len] => do
    let l ← asInts? locs; let n ← ndb.asNat?; let c ← asGoStr? c; let len ← asGoStr? len
    some ({ type := "mycat_long", locations := l, nSlices := l.length, nDatabases := n,
            partitionCount := c, partitionLength := len }, 0)
  | .list [.atom "mycat_string", locs, ndb, c, len, hs] => do
    let l ← asInts? locs; let n ← ndb.asNat?; let c ← asGoStr? c; let len ← asGoStr? len
    let hs ← asGoStr? hs
    some ({ type := "mycat_string", locations := l, nSlices := l.length, nDatabases := n,
            partitionCount := c, partitionLength := len, hashSlice := hs }, 0)
  | .list [.atom "mycat_murmur", locs, ndb, seed, vbt] => do
    let l ← asInts? locs; let n ← ndb.asNat?; let seed ← asGoStr? seed; let vbt ← asGoStr? vbt
    some ({ type := "mycat_murmur", locations := l, nSlices := l.length, nDatabases := n,
            seed := seed, virtualBucketTimes := vbt }, 0)
  | .list [.atom "range", locs, limit] => do
    let l ← asInts? locs; let lim ← limit.asInt?
    some ({ type := "range", locations := l, nSlices := l.length, tableRowLimit := lim }, 0)
  | .list [.atom ty, tz, ranges] =>
    if ty == "date_year" || ty == "date_month" || ty == "date_day" then do
      let tz ← tz.asInt?; let rs ← asStrs? ranges
      some ({ type := ty, dateRange := rs, nSlices := rs.length }, tz)
    else none
  | _ => none

def parseKey (e : Sexp) : Option Key :=
  match e with
  | .list [.atom "i", n] => n.asInt?.map Key.int
  | .list [.atom "l", n] => n.asInt?.map Key.int64
  | .list [.atom "u", n] => n.asNat?.map Key.uint64
  | .list [.atom "s", h] => (asGoStr? h).map Key.str
  | .list [.atom "b", h] => (asGoStr? h).map Key.bytes
  | .list [.atom "f"] => some Key.other
  | _ => none

def errName : ErrKind → String
  | .keyOutOfRange => "key-out-of-range"
  | .invalidDate => "invalid-date"
  | .keyType => "key-type"
  | .emptyRing => "empty-ring"
  | .keyPanic => "key-panic"
  | .config => "config"

def fmtOut : Out Int → String
  | .ok i => s!"(ok {i})"
  | .err k => s!"(err {errName k})"
  | .panic => "panic"

def fmtInts (l : List Int) : String := "(" ++ " ".intercalate (l.map toString) ++ ")"

/-- `GetSliceIndexFromTableIndex`: the last value stored under the key, -1 if none. -/
def sliceOf (tts : TableToSlice) (t : Int) : Int :=
  match tts.reverse.find? (·.1 = t) with
  | some (_, s) => s
  | none => -1

/-- Run the model on a request. -/
def model (req : Sexp) : String :=
  let req := match req with
    | .list [.atom "expect", cfg, keys, _] => Sexp.list [.atom "place", cfg, keys]
    | r => r
  match req with
  | .list [.atom "place", cfg, .list keys] =>
    match parseCfg cfg, keys.mapM parseKey with
    | some (cfg, tz), some keys =>
      match parseRuleSliceInfos cfg with
      | .ok rule =>
        "(r" ++ String.join (keys.map fun k => " " ++ fmtOut (rule.FindTableIndex (civilOfUnix tz) k)) ++ ")"
      | .err _ => "cfgerr"
      | .panic => "cfgpanic"
    | _, _ => "bad"
  | .list [.atom "subtables", cfg] =>
    match parseCfg cfg with
    | some (cfg, _) =>
      match parseRuleSliceInfos cfg with
      | .ok rule =>
        s!"(ok {fmtInts rule.subTableIndexes} {fmtInts (rule.subTableIndexes.map (sliceOf rule.tableToSlice))})"
      | .err _ => "cfgerr"
      | .panic => "cfgpanic"
    | none => "bad"
  | _ => "bad"

end GaeaVerif.Drv.ShardIO
