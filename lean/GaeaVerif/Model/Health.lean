/-
  Model of the backend health-check and fuse-recovery code of Gaea
  (properties C27 and C28):

    backend/slice.go      checkBackendMasterStatus (one ticker round), TryRecover,
                          checkWithNoRecovery / checkWithHardRecovery /
                          checkWithGradualRecovery, checkInstanceStatus,
                          checkSlaveSyncStatus, GetSlaveStatus, TryFuse,
                          DBInfo.InitFuseRecoveryPolicy (which strategy a node gets)
    backend/node.go       NodeInfo.ShouldDownAfterNoAlive, SetStatusUp/Down
    backend/node_fuse.go  HardCoolDownStrategy, GradualRecoveryStrategy

  One slice with one master node and one replica node.  The wall clock is an
  explicit argument `now` (unix seconds) of every step; the outcome of the
  calls made on the check connection (GetCheck, health SQL, ping, `select 1`,
  `show slave status`) is an explicit script.  Whether the fuse strategy's
  `Trigger` fires is an input of `tryFuse` (the sliding window itself is C26).
  Core Lean only.
-/
namespace GaeaVerif.Health

/-! ### constants of the source (tied to /repo by `Gen/Consts.lean`, see Props) -/

/-- `PingPeriod` (backend/slice.go). -/
def pingPeriod : Int := 4
/-- `maxPenalty` (backend/node_fuse.go). -/
def maxPenalty : Int := 120
/-- `initErrorRecoveryCount` (backend/node_fuse.go). -/
def initErrorRecoveryCount : Int := 3
/-- `CheckRepeat` (backend/slice.go): the probe loop runs `CheckRepeat + 1` times. -/
def checkRepeat : Nat := 3

/-! ### configuration -/

inductive Policy where
  | none | hard | gradual
  deriving DecidableEq, Repr

structure Cfg where
  /-- `Slice.IsFuseEnabled()`: strategies are installed only then (namespace.go parseSlices). -/
  fuseEnabled : Bool
  /-- `FuseCooldownPeriod`. -/
  cooling : Int
  /-- `downAfterNoAlive`. -/
  downAfter : Int
  /-- `secondBehindMaster`. -/
  sbm : Int
  /-- `len(HealthCheckSql) > 0`. -/
  healthSql : Bool
  /-- `len(Master.Nodes) > 0`. -/
  hasMaster : Bool
  deriving Repr

/-- DBInfo.InitFuseRecoveryPolicy: hard cool-down iff `fuseCooldownPeriod > 0`,
    gradual otherwise; no strategy at all when the fuse switch is off. -/
def Cfg.policy (c : Cfg) : Policy :=
  if !c.fuseEnabled then .none else if c.cooling > 0 then .hard else .gradual

/-! ### scripts: what the check connection answers in one round -/

/-- Result of `ConnectionPool.GetCheck`. -/
inductive GetCheck where
  | conn      -- (pc, nil)
  | err       -- (nil, err)
  | errConn   -- (pc, err): the connection is closed, error returned
  | nilConn   -- (nil, nil)
  deriving DecidableEq, Repr

/-- Result of executing the configured health-check SQL. -/
inductive HsOut where
  | ok
  | soft        -- any other error: fall through to ping + `select 1`
  | shutdown    -- mysql.IsServerShutdownErr
  | tsMissing   -- mysql.IsTableSpaceMissingErr
  | tsDiscarded -- mysql.IsTableSpaceDiscardeErr
  | timeout     -- err == ErrExecuteTimeout
  deriving DecidableEq, Repr

def HsOut.isFatal : HsOut → Bool
  | .shutdown | .tsMissing | .tsDiscarded | .timeout => true
  | _ => false

/-- One iteration of the probe loop: health SQL, ping, `select 1`. -/
structure Attempt where
  hs : HsOut
  ping : Bool
  sel : Bool
  deriving DecidableEq, Repr

def Attempt.allOk : Attempt := ⟨.ok, true, true⟩

structure Probe where
  getCheck : GetCheck
  attempts : List Attempt
  deriving Repr

/-- The loop of checkInstanceStatus (`for i := 0; i <= CheckRepeat; i++`), `n`
    iterations left; an exhausted script answers "ok".  Result: `pc != nil`. -/
def checkLoop (healthSql : Bool) : Nat → List Attempt → Bool
  | 0, _ => true
  | n + 1, as =>
    let a := as.headD Attempt.allOk
    if healthSql && a.hs == .ok then true
    else if healthSql && a.hs.isFatal then false
    else if !a.ping then false
    else if !a.sel then false
    else checkLoop healthSql n as.tail

/-- checkInstanceStatus: `true` iff a connection is returned, which is also
    exactly when `cp.SetLastChecked()` is called. -/
def checkInstanceStatus (healthSql : Bool) (p : Probe) : Bool :=
  match p.getCheck with
  | .conn => checkLoop healthSql (checkRepeat + 1) p.attempts
  | _ => false

/-- A column value of the `show slave status` row as `Resultset.GetValueByName`
    hands it out. -/
inductive RawVal where
  | u64 (n : Nat)
  | i64 (n : Int)
  | str (s : String)
  | null
  | absent      -- the column is not in the result
  deriving DecidableEq, Repr

/-- Outcome of `conn.Execute("show slave status;")`. -/
inductive SlaveQ where
  | noPriv      -- mysql.IsSQLNoPrivilegeErr
  | err         -- any other error
  | nilRes      -- (nil, nil): dereferenced, the panic is recovered by checkSlaveSyncStatus
  | empty       -- no row
  | row (lag io sql : RawVal)
  deriving Repr

structure SlaveStatus where
  secondsBehindMaster : Nat
  ioRunning : Bool     -- SlaveIORunning == "Yes"
  sqlRunning : Bool    -- SlaveSQLRunning == "Yes"
  deriving Repr

/-- The type switch on `seconds_behind_master`: only `uint64` is taken. -/
def rawLag : RawVal → Nat
  | .u64 n => n
  | _ => 0

/-- The type switch on `slave_io_running` / `slave_sql_running`, then `== "Yes"`. -/
def rawRunning : RawVal → Bool
  | .str s => s == "Yes"
  | _ => false

inductive SlaveRes where
  | skip
  | status (s : SlaveStatus)
  | err
  | panic
  deriving Repr

/-- GetSlaveStatus. -/
def getSlaveStatus : SlaveQ → SlaveRes
  | .noPriv => .skip
  | .err => .err
  | .nilRes => .panic
  | .empty => .skip
  | .row lag io sql => .status ⟨rawLag lag, rawRunning io, rawRunning sql⟩

/-- `uint64(secondsBehindMaster)`. -/
def toUint64 (i : Int) : Nat := (i % 18446744073709551616).toNat

/-- checkSlaveSyncStatus: the `alive` result (`conn` = `pc != nil`). A recovered
    panic returns the zero values `(false, nil)`. -/
def checkSlaveSyncStatus (conn : Bool) (sbm : Int) (q : SlaveQ) : Bool :=
  if sbm == 0 then true
  else if !conn then true
  else match getSlaveStatus q with
    | .panic => false
    | .err => false
    | .skip => true
    | .status s =>
      if s.secondsBehindMaster > toUint64 sbm then false
      else if !s.ioRunning then false
      else if !s.sqlRunning then false
      else true

/-! ### state -/

structure Node where
  up : Bool            -- Status == StatusUp
  lastChecked : Int    -- ConnPool.GetLastChecked()
  deriving DecidableEq, Repr

structure St where
  master : Node
  rep : Node
  /-- `lastFuseTime` of the replica's recovery strategy (hard or gradual). -/
  lastFuse : Int
  /-- GradualRecoveryStrategy.errorRecoveryCount -/
  erc : Int
  /-- GradualRecoveryStrategy.consecutiveSuccessCheckCount -/
  cscc : Int
  /-- GradualRecoveryStrategy.lastRecoveryTime -/
  lastRec : Int
  deriving DecidableEq, Repr

/-- Pools and strategies created at time `t0` (NewConnectionPool, NewGradualRecovery),
    nodes `StatusUp` (parseDBInfo). -/
def St.init (t0 : Int) : St :=
  { master := ⟨true, t0⟩, rep := ⟨true, t0⟩, lastFuse := 0,
    erc := initErrorRecoveryCount, cscc := 0, lastRec := t0 }

/-! ### strategies (backend/node_fuse.go) -/

/-- `(1 + n) * n / 2` capped at `maxPenalty`. -/
def penalty (n : Int) : Int := min ((1 + n) * n / 2) maxPenalty

/-- HardCoolDownStrategy.AllowRecovery -/
def hardAllowRecovery (c : Cfg) (s : St) (now : Int) : Bool :=
  now ≥ s.lastFuse + c.cooling

/-- GradualRecoveryStrategy.UpdateCoolDownCount -/
def updateCoolDownCount (s : St) : St :=
  let n := s.erc + 1
  { s with erc := n, cscc := penalty n }

/-- GradualRecoveryStrategy.RefreshCoolDownCount -/
def refreshCoolDownCount (s : St) : St :=
  { s with cscc := penalty s.erc }

/-- GradualRecoveryStrategy.ResetBadRecovery -/
def resetBadRecovery (s : St) : St :=
  { s with erc := initErrorRecoveryCount }

/-- GradualRecoveryStrategy.IsBadRecovery -/
def isBadRecovery (s : St) (fuseTime : Int) : Bool :=
  fuseTime - s.lastRec ≤ pingPeriod * 2

/-- GradualRecoveryStrategy.AllowRecovery: state after the call and its result. -/
def gradualAllowRecovery (s : St) : St × Bool :=
  if s.cscc > 0 then ({ s with cscc := s.cscc - 1 }, false) else (s, true)

/-! ### rounds (backend/slice.go) -/

def setRep (s : St) (up : Bool) : St := { s with rep := { s.rep with up := up } }
def setMaster (s : St) (up : Bool) : St := { s with master := { s.master with up := up } }

/-- NodeInfo.ShouldDownAfterNoAlive -/
def shouldDownAfterNoAlive (now : Int) (n : Node) (downAfter : Int) : Bool :=
  now - n.lastChecked ≥ downAfter

/-- GetPooledConnectWithHealthCheck on a node: the node with its pool's
    `lastChecked` refreshed on success, and `conn != nil`. -/
def probeNode (c : Cfg) (now : Int) (n : Node) (p : Probe) : Node × Bool :=
  if checkInstanceStatus c.healthSql p then ({ n with lastChecked := now }, true) else (n, false)

/-- One ticker round of checkBackendMasterStatus. -/
def checkBackendMasterStatus (c : Cfg) (s : St) (now : Int) (p : Probe) : St :=
  if !c.hasMaster then s else
  let (m, conn) := probeNode c now s.master p
  let s := { s with master := m }
  if shouldDownAfterNoAlive now m c.downAfter then setMaster s false
  else if conn && !m.up then setMaster s true
  else s

/-- `masterStatus, err := s.GetMasterStatus(); err != nil || masterStatus == StatusDown` -/
def masterDown (c : Cfg) (s : St) : Bool := !c.hasMaster || !s.master.up

/-- checkWithNoRecovery.  While the master is down only the replication check is
    skipped (fix 4cba6eb: a replica whose probe failed in this round keeps its status). -/
def checkWithNoRecovery (c : Cfg) (s : St) (now : Int) (p : Probe) (q : SlaveQ) : St :=
  let (r, conn) := probeNode c now s.rep p
  let s := { s with rep := r }
  if shouldDownAfterNoAlive now r c.downAfter then setRep s false
  else if masterDown c s then (if conn && !s.rep.up then setRep s true else s)
  else if !checkSlaveSyncStatus conn c.sbm q then setRep s false
  else if conn && !s.rep.up then setRep s true
  else s

/-- checkWithHardRecovery.  While the master is down only the replication check is
    skipped (fixes 4cba6eb, 5e8b660: own probe passed, `AllowRecovery` consulted). -/
def checkWithHardRecovery (c : Cfg) (s : St) (now : Int) (p : Probe) (q : SlaveQ) : St :=
  let (r, conn) := probeNode c now s.rep p
  let s := { s with rep := r }
  if shouldDownAfterNoAlive now r c.downAfter then setRep s false
  else if masterDown c s then
    (if conn && !s.rep.up then
      (if !hardAllowRecovery c s now then s else setRep s true)
     else s)
  else if !checkSlaveSyncStatus conn c.sbm q then setRep s false
  else if conn && !s.rep.up then
    (if !hardAllowRecovery c s now then s else setRep s true)
  else s

/-- checkWithGradualRecovery.  While the master is down only the replication check
    is skipped (fix 87be324: a replica whose probe passed goes through `AllowRecovery`). -/
def checkWithGradualRecovery (c : Cfg) (s : St) (now : Int) (p : Probe) (q : SlaveQ) : St :=
  let (r, conn) := probeNode c now s.rep p
  let s := { s with rep := r }
  let s := if !conn && !s.rep.up then refreshCoolDownCount s else s
  if shouldDownAfterNoAlive now r c.downAfter then setRep s false
  else if masterDown c s then
    (if conn && !s.rep.up then
      let (s', allow) := gradualAllowRecovery s
      if allow then setRep { s' with lastRec := now } true else s'
     else s)
  else if !checkSlaveSyncStatus conn c.sbm q then setRep s false
  else if conn && !s.rep.up then
    let (s', allow) := gradualAllowRecovery s
    if allow then setRep { s' with lastRec := now } true else s'
  else s

/-- TryRecover: dispatch on the node's recovery strategy. -/
def tryRecover (c : Cfg) (s : St) (now : Int) (p : Probe) (q : SlaveQ) : St :=
  match c.policy with
  | .none => checkWithNoRecovery c s now p q
  | .hard => checkWithHardRecovery c s now p q
  | .gradual => checkWithGradualRecovery c s now p q

/-- TryFuse on the replica: `connErr` = `mysql.AsConnError(err)`, `trig` = what
    `node.FuseStrategy.Trigger(now)` answers (only consulted for a connection error). -/
def tryFuse (c : Cfg) (s : St) (now : Int) (connErr trig : Bool) : St :=
  match c.policy with
  | .none => s
  | .hard =>
    if !connErr then s else if !trig then s else
    { setRep s false with lastFuse := now }
  | .gradual =>
    if !connErr then s else if !trig then s else
    let changed := s.rep.up
    let s := setRep s false
    if !changed then s else
    let s := { s with lastFuse := now }
    if isBadRecovery s now then updateCoolDownCount s else resetBadRecovery s

/-! ### histories -/

inductive Ev where
  | master (now : Int) (p : Probe)
  | replica (now : Int) (p : Probe) (q : SlaveQ)
  | fuse (now : Int) (connErr trig : Bool)
  | tick (now : Int)        -- time passes, nothing runs
  deriving Repr

def Ev.now : Ev → Int
  | .master n _ => n
  | .replica n _ _ => n
  | .fuse n _ _ => n
  | .tick n => n

def step (c : Cfg) (s : St) : Ev → St
  | .master now p => checkBackendMasterStatus c s now p
  | .replica now p q => tryRecover c s now p q
  | .fuse now ce tr => tryFuse c s now ce tr
  | .tick _ => s

/-- The states after each event of a history. -/
def trace (c : Cfg) (s : St) : List Ev → List St
  | [] => []
  | e :: es => let s' := step c s e; s' :: trace c s' es

/-- The state after a whole history. -/
def run (c : Cfg) (s : St) : List Ev → St
  | [] => s
  | e :: es => run c (step c s e) es

end GaeaVerif.Health
