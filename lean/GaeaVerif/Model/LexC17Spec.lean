import GaeaVerif.Model.LexC17
/-
  Reference semantics for C17 ("multi-statement text is split exactly at
  statement boundaries"): MySQL text as a sequence of *lexical items*
  (statements' words, numbers, punctuation, quoted strings, back-quoted
  identifiers, the three comment syntaxes, white space, `;`), the statement
  pieces such a sequence denotes, and a parser from bytes to items used by the
  property oracle.  Independent of the scanner model in `LexC17.lean`.
  Core Lean only.
-/
namespace GaeaVerif.LexC17
open GaeaVerif

/-- One lexical item of a multi-statement text. -/
inductive Item where
  | ws (bs : Bytes)                    -- white space (space, \t, \n, \v, \f, \r), non-empty
  | semi                               -- `;` outside every quoted or commented context
  | word (bs : Bytes)                  -- keyword / identifier: [A-Za-z_$][A-Za-z0-9_$]*
  | num (bs : Bytes)                   -- [0-9]+
  | sym (c : UInt8)                    -- one punctuation / operator character
  | str (q : UInt8) (body : Bytes)     -- 'body' or "body" (backslash escapes, doubled quotes)
  | bq (body : Bytes)                  -- `body` (doubled back quotes)
  | cblock (body : Bytes)              -- /* body */  (not /*! … */ or /*+ … */)
  | cdash (body : Bytes) (nl : Bool)   -- "--" body, up to and including the newline if `nl`
  | chash (body : Bytes) (nl : Bool)   -- "#" body, likewise
  | xcomment (body : Bytes)            -- /*! body */ or /*+ body */ (body starts with ! or +)
  deriving DecidableEq, Repr

def Item.render : Item → Bytes
  | .ws bs => bs
  | .semi => [0x3B]
  | .word bs => bs
  | .num bs => bs
  | .sym c => [c]
  | .str q body => q :: body ++ [q]
  | .bq body => 0x60 :: body ++ [0x60]
  | .cblock body => 0x2F :: 0x2A :: body ++ [0x2A, 0x2F]
  | .cdash body nl => 0x2D :: 0x2D :: body ++ (if nl then [0x0A] else [])
  | .chash body nl => 0x23 :: body ++ (if nl then [0x0A] else [])
  | .xcomment body => 0x2F :: 0x2A :: body ++ [0x2A, 0x2F]

def render (items : List Item) : Bytes := (items.map Item.render).flatten

/-- Items that are tokens of a statement (as opposed to white space and comments). -/
def Item.isToken : Item → Bool
  | .word _ | .num _ | .sym _ | .str _ _ | .bq _ => true
  | _ => false

def isWsB (b : UInt8) : Bool := b.toNat = 0x20 || (0x09 ≤ b.toNat && b.toNat ≤ 0x0D)
def isWordStartB (b : UInt8) : Bool := isLetter b.toNat || b.toNat = 0x5F || b.toNat = 0x24
def isWordB (b : UInt8) : Bool := isWordStartB b || isDigit b.toNat

/-- The punctuation characters an item `sym` may hold. -/
def isSymB (b : UInt8) : Bool :=
  let c := b.toNat
  c = 0x2A || c = 0x2B || c = 0x28 || c = 0x29 || c = 0x2C || c = 0x25 || c = 0x5E || c = 0x7E ||
  c = 0x3F || c = 0x3D || c = 0x7B || c = 0x7D || c = 0x3C || c = 0x3E || c = 0x21 || c = 0x7C ||
  c = 0x26 || c = 0x3A || c = 0x2D || c = 0x2F || c = 0x2E

/-- Bytes that, right after the punctuation character `c`, would make the
    scanner read a longer token (`<=`, `->`, `--`, `/*`, `.5` …). -/
def symExt (c : UInt8) (next : UInt8) : Bool :=
  let n := next.toNat
  match c.toNat with
  | 0x2D => n = 0x2D || n = 0x3E
  | 0x2F => n = 0x2A
  | 0x3C => n = 0x3D || n = 0x3C || n = 0x3E
  | 0x3E => n = 0x3D || n = 0x3E
  | 0x21 => n = 0x3D
  | 0x7C => n = 0x7C
  | 0x26 => n = 0x26 || n = 0x5E
  | 0x3A => n = 0x3D
  | 0x2E => isDigit n
  | _ => false

/-- Body of a quoted string with quote `q`: plain bytes, a backslash followed
    by any byte, or a doubled quote. -/
def strBodyOK (q : UInt8) : Bytes → Bool
  | [] => true
  | b :: t =>
    if b = q then
      match t with
      | b' :: t' => b' = q && strBodyOK q t'
      | [] => false
    else if b.toNat = 0x5C then
      match t with
      | _ :: t' => strBodyOK q t'
      | [] => false
    else strBodyOK q t

/-- Body of a back-quoted identifier: plain bytes or a doubled back quote. -/
def bqBodyOK : Bytes → Bool
  | [] => true
  | b :: t =>
    if b.toNat = 0x60 then
      match t with
      | b' :: t' => b'.toNat = 0x60 && bqBodyOK t'
      | [] => false
    else bqBodyOK t

/-- Does `*/` occur in `l`? -/
def hasStarSlash : Bytes → Bool
  | a :: b :: t => (a.toNat = 0x2A && b.toNat = 0x2F) || hasStarSlash (b :: t)
  | _ => false

/-- A block-comment body: the comment `/* body */` ends exactly at its last two
    bytes (`*/` does not occur earlier, also not overlapping the opening). -/
def blockBodyOK (body : Bytes) : Bool := !hasStarSlash (body ++ [0x2A])

/-- Well-formedness of a single item. -/
def Item.ok : Item → Bool
  | .ws bs => bs ≠ [] && bs.all isWsB
  | .semi => true
  | .word bs => (match bs with | b :: _ => isWordStartB b | [] => false) && bs.all isWordB
  | .num bs => bs ≠ [] && bs.all isDigitB
  | .sym c => isSymB c
  | .str q body => (q.toNat = 0x27 || q.toNat = 0x22) && strBodyOK q body
  | .bq body => bqBodyOK body
  | .cblock body =>
    blockBodyOK body && (match body with | b :: _ => b.toNat ≠ 0x21 && b.toNat ≠ 0x2B | [] => true)
  | .cdash body _ =>
    (match body with | b :: _ => isSpaceB b && b.toNat ≠ 0x0A | [] => true) && body.all (·.toNat ≠ 0x0A)
  | .chash body _ => body.all (·.toNat ≠ 0x0A)
  | .xcomment body =>
    blockBodyOK body && (match body with | b :: _ => b.toNat = 0x21 || b.toNat = 0x2B | [] => false)

/-- May `nxt` (the first byte of what follows, if any) come right after item `it`
    without changing how `it` is read? -/
def Item.safeBefore (it : Item) (nxt : Option UInt8) : Bool :=
  match it, nxt with
  | .word bs, some n =>
    !(isWordB n || n.toNat ≥ 0x80) &&
    !((bs.map UInt8.toNat = [0x78] || bs.map UInt8.toNat = [0x58] || bs.map UInt8.toNat = [0x62] ||
       bs.map UInt8.toNat = [0x42]) && n.toNat = 0x27)
  | .num _, some n => !(isWordB n || n.toNat ≥ 0x80 || n.toNat = 0x2E)
  | .sym c, some n => !symExt c n
  | .str q _, some n => n ≠ q
  | .bq _, some n => n.toNat ≠ 0x60
  | .cdash _ nl, some _ => nl
  | .chash _ nl, some _ => nl
  | _, _ => true

/-- `-` directly followed by `-` is still two minus signs when the byte after
    them is not white space (`a--b`): MySQL and the scanner start a `-- `
    comment only before white space or the end of the text. -/
def Item.dashOK : Item → Bytes → Bool
  | .sym c, n :: t => c.toNat = 0x2D && n.toNat = 0x2D && (match t with | s :: _ => !isSpaceB s | [] => false)
  | _, _ => false

/-- Every item is well formed and each is followed by something that does not
    merge with it.  This is the language of texts the C17 theorem covers. -/
def Safe : List Item → Bool
  | [] => true
  | it :: rest => it.ok && (it.safeBefore (render rest).head? || it.dashOK (render rest)) && Safe rest

/-- The pieces an item sequence denotes: the rendered groups between `;` items
    that hold at least one token. -/
def specLoop : List Item → Bytes → Bool → List Bytes → List Bytes
  | [], cur, empty, pieces => if empty || cur = [] then pieces else pieces ++ [cur]
  | .semi :: rest, cur, empty, pieces => specLoop rest [] true (if empty then pieces else pieces ++ [cur])
  | it :: rest, cur, empty, pieces => specLoop rest (cur ++ it.render) (empty && !it.isToken) pieces

/-- Pieces of a whole text, with the two pass-through cases of
    `SplitStatementToPieces`: a text without any `;` byte, or whose only `;`
    byte is the last one, is a single piece even when it is blank. -/
def specPieces (items : List Item) : List Bytes :=
  let blob := render items
  if blob = [] then []
  else
    match blob.findIdx? (·.toNat = 0x3B) with
    | none => [blob]
    | some i =>
      if i = blob.length - 1 then [blob.take (blob.length - 1)]
      else specLoop items [] true []

/-! ### From bytes to items (used by the oracle) -/

/-- Index just after the closing quote of a string body starting at `l`
    (`l` is what follows the opening quote): length of the body. -/
def strBodyLen (q : UInt8) : Nat → Bytes → Option Nat
  | 0, _ => none
  | fuel + 1, l =>
    match l with
    | [] => none
    | b :: t =>
      if b = q then
        match t with
        | b' :: t' => if b' = q then (strBodyLen q fuel t').map (· + 2) else some 0
        | [] => some 0
      else if b.toNat = 0x5C then
        match t with
        | _ :: t' => (strBodyLen q fuel t').map (· + 2)
        | [] => none
      else (strBodyLen q fuel t).map (· + 1)

def bqBodyLen : Nat → Bytes → Option Nat
  | 0, _ => none
  | fuel + 1, l =>
    match l with
    | [] => none
    | b :: t =>
      if b.toNat = 0x60 then
        match t with
        | b' :: t' => if b'.toNat = 0x60 then (bqBodyLen fuel t').map (· + 2) else some 0
        | [] => some 0
      else (bqBodyLen fuel t).map (· + 1)

/-- Length of a block-comment body (`l` follows `/*`): up to the first `*/`. -/
def blockBodyLen : Bytes → Option Nat
  | a :: b :: t => if a.toNat = 0x2A ∧ b.toNat = 0x2F then some 0 else (blockBodyLen (b :: t)).map (· + 1)
  | _ => none

/-- `t` follows a `-`: is this the start of a `-- ` comment? -/
def startsDashComment (t : Bytes) : Bool :=
  match t with
  | d :: t' => d.toNat = 0x2D && (match t' with | s :: _ => isSpaceB s | [] => true)
  | [] => false

def startsStar (t : Bytes) : Bool :=
  match t with
  | a :: _ => a.toNat = 0x2A
  | [] => false

/-- Parse a text into items; `none` when it contains something outside the
    item language (unterminated quote or comment, `@`, `\`, `[`, a control or
    non-ASCII byte outside quotes and comments …). -/
def specLex : Nat → Bytes → Option (List Item)
  | 0, _ => none
  | fuel + 1, l =>
    match l with
    | [] => some []
    | b :: t =>
      let c := b.toNat
      let cont (it : Item) : Option (List Item) :=
        (specLex fuel (l.drop it.render.length)).map (it :: ·)
      if isWsB b then cont (.ws (l.takeWhile isWsB))
      else if c = 0x3B then cont .semi
      else if isWordStartB b then cont (.word (l.takeWhile isWordB))
      else if isDigit c then cont (.num (l.takeWhile isDigitB))
      else if c = 0x27 ∨ c = 0x22 then
        match strBodyLen b t.length t with
        | some n => cont (.str b (t.take n))
        | none => none
      else if c = 0x60 then
        match bqBodyLen t.length t with
        | some n => cont (.bq (t.take n))
        | none => none
      else if c = 0x23 then
        let body := t.takeWhile (·.toNat ≠ 0x0A)
        cont (.chash body (decide (body.length < t.length)))
      else if c = 0x2D ∧ startsDashComment t = true then
        let t' := t.drop 1
        let body := t'.takeWhile (·.toNat ≠ 0x0A)
        cont (.cdash body (decide (body.length < t'.length)))
      else if c = 0x2F ∧ startsStar t = true then
        let t' := t.drop 1
        match blockBodyLen t' with
        | some n =>
          let body := t'.take n
          match body with
          | x :: _ => if x.toNat = 0x21 ∨ x.toNat = 0x2B then cont (.xcomment body) else cont (.cblock body)
          | [] => cont (.cblock body)
        | none => none
      else if isSymB b then cont (.sym b)
      else none

end GaeaVerif.LexC17
