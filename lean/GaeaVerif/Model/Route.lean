/-
  Model of shard routing of WHERE / ON conditions (C01, reused by C05):
  proxy/plan/plan_select.go  handleComparisonExpr and callees,
                             getFindTableIndexesFunc, adjustShardIndex,
                             inverseOperator, mergeBinaryOperationRouteResult,
                             handleWhere
  proxy/plan/decorator_between_expr.go     getBetweenExprRouteResult,
                                           getShardBetweenExprRouteResult
  proxy/plan/decorator_pattern_in_expr.go  getPatternInRouteResult
  proxy/plan/util.go                       makeList, interList, unionList
  proxy/plan/route_result.go               RouteResult.Inter

  The routing code is parametric in the rule: it only calls
  `rule.FindTableIndex(v)` and `rangeShard.EqualStart(v, index)` on the
  literals of the statement.  A literal therefore carries the results of those
  two calls (`place`, `eqStart`); the placement functions themselves are the
  subject of C08/C09.  `rank` is the value the literal denotes in the ordered
  domain of the sharding column (used by the semantics, never by routing).
  Core Lean only.
-/
namespace GaeaVerif.Route

inductive Cmp where
  | eq | ne | lt | le | gt | ge
  deriving DecidableEq, Repr

/-- `inverseOperator` -/
def Cmp.inverse : Cmp → Cmp
  | .gt => .lt
  | .ge => .le
  | .lt => .gt
  | .le => .ge
  | o => o

structure Lit where
  /-- value denoted in the column's ordered domain (`none`: NULL / not a value of the column type) -/
  rank : Option Int
  /-- `rule.FindTableIndex(v)`: `none` = error -/
  place : Option Int
  /-- `rangeShard.EqualStart(v, place)` -/
  eqStart : Bool
  deriving DecidableEq, Repr

/-- Condition trees as `handleComparisonExpr` sees them. `onShard` tells whether
    the column is the sharding column of the sharded table (`false`: another
    column of that table).  `other` is everything that is not routed on:
    NOT, XOR, IS NULL, LIKE, column-vs-column, function calls, columns of
    unsharded tables … -/
inductive Cond where
  | cmp (onShard litLeft : Bool) (op : Cmp) (l : Lit)
  | inList (onShard neg : Bool) (ls : List Lit)
  | between (onShard neg : Bool) (lo hi : Lit)
  | and (a b : Cond)
  | or (a b : Cond)
  | paren (a : Cond)
  | other (id : Nat)
  deriving Repr

structure Rule where
  /-- `GetSubTableIndexes()` -/
  idxs : List Int
  /-- `GetFirstTableIndex()`, `GetLastTableIndex()` -/
  first : Int
  last : Int
  /-- the shard implements `router.RangeShard` (range, date_year, date_month, date_day) -/
  isRange : Bool
  /-- `GetType() == GlobalTableRuleType` -/
  isGlobal : Bool
  deriving Repr

/-- `makeList(start, end)`: `[start, end)` -/
def makeList (s e : Int) : List Int :=
  if s ≥ e then [] else (List.range (e - s).toNat).map (fun (i : Nat) => s + (i : Int))

/-- `interList`: the two-pointer intersection loop. -/
def interList : List Int → List Int → List Int
  | [], _ => []
  | _ :: _, [] => []
  | a :: as, b :: bs =>
    if a = b then a :: interList as bs
    else if a < b then interList as (b :: bs)
    else interList (a :: as) bs
termination_by l1 l2 => l1.length + l2.length

/-- `unionList`: the two-pointer merge loop (with its tail append). -/
def unionList : List Int → List Int → List Int
  | [], l2 => l2
  | a :: as, [] => a :: as
  | a :: as, b :: bs =>
    if a < b then a :: unionList as (b :: bs)
    else if a > b then b :: unionList (a :: as) bs
    else a :: unionList as bs
termination_by l1 l2 => l1.length + l2.length

/-- insertion into an ascending duplicate-free list -/
def insertUniq (a : Int) : List Int → List Int
  | [] => [a]
  | b :: bs => if a < b then a :: b :: bs else if a = b then b :: bs else b :: insertUniq a bs

/-- the index list of `getPatternInRouteResult`: the distinct placements, then `sort.Ints` -/
def sortDedup (l : List Int) : List Int := l.foldr insertUniq []

/-- `indexValueMap[i]` of `getPatternInRouteResult` for `k IN (…)` on the sharding
    column: the listed values placed in table `i`, in statement order.
    `PatternInExprDecorator.Restore` writes `k IN (these)` for table `i`, or `1=0`
    when there is none. -/
def inValuesFor (ls : List Lit) (i : Int) : List Lit := ls.filter fun l => l.place == some i

/-- `adjustShardIndex` -/
def adjust (l : Lit) (i : Int) : Int := if l.eqStart then i - 1 else i

/-- the closure returned by `getFindTableIndexesFunc(op)` -/
def findTableIndexes (r : Rule) (op : Cmp) (onShard : Bool) (l : Lit) : Option (List Int) :=
  if !onShard then some r.idxs else
  match op with
  | .eq => l.place.map fun i => [i]
  | .ne => some r.idxs
  | .lt => if r.isRange then l.place.map fun i => makeList r.first (adjust l i + 1) else some r.idxs
  | .le => if r.isRange then l.place.map fun i => makeList r.first (i + 1) else some r.idxs
  | .gt => if r.isRange then l.place.map fun i => makeList i (r.last + 1) else some r.idxs
  | .ge => if r.isRange then l.place.map fun i => makeList i (r.last + 1) else some r.idxs

def allPlaces : List Lit → Option (List Int)
  | [] => some []
  | l :: ls =>
    match l.place, allPlaces ls with
    | some i, some is => some (i :: is)
    | _, _ => none

/-- `getShardBetweenExprRouteResult` -/
def shardBetween (r : Rule) (neg : Bool) (lo hi : Lit) : Option (List Int) :=
  match lo.place, hi.place with
  | some s, some e =>
    if neg then
      if s > e then some r.idxs
      else some (unionList (makeList r.first (adjust lo s + 1)) (makeList e (r.last + 1)))
    else if s > e then some (makeList e (s + 1)) else some (makeList s (e + 1))
  | _, _ => none

/-- `mergeBinaryOperationRouteResult` for AND -/
def mergeAnd (l r : Bool × List Int) : Bool × List Int :=
  match l.1, r.1 with
  | false, false => (false, [])
  | true, true => (true, interList l.2 r.2)
  | true, false => (true, l.2)
  | false, true => (true, r.2)

/-- `mergeBinaryOperationRouteResult` for OR -/
def mergeOr (l r : Bool × List Int) : Bool × List Int :=
  if l.1 && r.1 then (true, unionList l.2 r.2) else (false, [])

/-- `handleComparisonExpr`: (has routing result, table indexes); `none` = the
    statement is rejected with an error. -/
def route (r : Rule) : Cond → Option (Bool × List Int)
  | .paren a => route r a
  | .other _ => some (false, r.idxs)
  | .and a b =>
    match route r a, route r b with
    | some x, some y => some (mergeAnd x y)
    | _, _ => none
  | .or a b =>
    match route r a, route r b with
    | some x, some y => some (mergeOr x y)
    | _, _ => none
  | .cmp onShard litLeft op l =>
    if r.isGlobal then some (false, []) else
    (findTableIndexes r (if litLeft then op.inverse else op) onShard l).map fun is => (true, is)
  | .inList onShard neg ls =>
    if r.isGlobal || neg || !onShard then some (true, r.idxs)
    else (allPlaces ls).map fun ps => (true, sortDedup ps)
  | .between onShard neg lo hi =>
    if r.isGlobal || !onShard || !r.isRange then some (true, r.idxs)
    else (shardBetween r neg lo hi).map fun is => (true, is)

/-- `handleWhere` on a fresh route result (`NewRouteResult(…, rule.GetSubTableIndexes())`). -/
def routeStmt (r : Rule) (c : Option Cond) : Option (List Int) :=
  match c with
  | none => some r.idxs
  | some c =>
    match route r c with
    | none => none
    | some (has, l) => some (if has then interList r.idxs l else r.idxs)

/-! ### Reference semantics of a condition on one row (three-valued logic) -/

def and3 : Option Bool → Option Bool → Option Bool
  | some false, _ => some false
  | _, some false => some false
  | some true, some true => some true
  | _, _ => none

def or3 : Option Bool → Option Bool → Option Bool
  | some true, _ => some true
  | _, some true => some true
  | some false, some false => some false
  | _, _ => none

/-- `x op v` on the ordered domain -/
def Cmp.holds (op : Cmp) (x v : Int) : Bool :=
  match op with
  | .eq => x == v
  | .ne => x != v
  | .lt => x < v
  | .le => x ≤ v
  | .gt => x > v
  | .ge => x ≥ v

def allRanks : List Lit → Option (List Int)
  | [] => some []
  | l :: ls =>
    match l.rank, allRanks ls with
    | some v, some vs => some (v :: vs)
    | _, _ => none

/-- Truth value of the condition on a row whose sharding column holds `x`;
    `env` gives the truth value of everything that does not depend on the
    sharding column alone (other columns, opaque predicates, non-denotable
    literals). -/
def eval (env : Cond → Option Bool) (x : Int) : Cond → Option Bool
  | .paren a => eval env x a
  | .other id => env (.other id)
  | .and a b => and3 (eval env x a) (eval env x b)
  | .or a b => or3 (eval env x a) (eval env x b)
  | .cmp onShard litLeft op l =>
    if !onShard then env (.cmp onShard litLeft op l) else
    match l.rank with
    | none => env (.cmp onShard litLeft op l)
    | some v => some (if litLeft then op.holds v x else op.holds x v)
  | .inList onShard neg ls =>
    if !onShard then env (.inList onShard neg ls) else
    match allRanks ls with
    | none => env (.inList onShard neg ls)
    | some vs => some (vs.contains x != neg)
  | .between onShard neg lo hi =>
    if !onShard then env (.between onShard neg lo hi) else
    match lo.rank, hi.rank with
    | some a, some b => some ((decide (a ≤ x) && decide (x ≤ b)) != neg)
    | _, _ => env (.between onShard neg lo hi)

/-- the literals compared with the sharding column -/
def shardLits : Cond → List Lit
  | .paren a => shardLits a
  | .other _ => []
  | .and a b => shardLits a ++ shardLits b
  | .or a b => shardLits a ++ shardLits b
  | .cmp onShard _ _ l => if onShard then [l] else []
  | .inList onShard _ ls => if onShard then ls else []
  | .between onShard _ lo hi => if onShard then [lo, hi] else []

end GaeaVerif.Route
