/-
  Model of shard routing of WHERE / ON conditions (C01, reused by C05):
  proxy/plan/plan_select.go  handleComparisonExpr and callees,
                             getFindTableIndexesFunc, adjustShardIndex,
                             inverseOperator, mergeBinaryOperationRouteResult,
                             handleWhere
  proxy/plan/decorator_between_expr.go     getBetweenExprRouteResult,
                                           getShardBetweenExprRouteResult
  proxy/plan/decorator_pattern_in_expr.go  getPatternInRouteResult
  proxy/plan/util.go                       makeList, interList, unionList
  proxy/plan/route_result.go               RouteResult.Inter

  The routing code is parametric in the rule: it only calls
  `rule.FindTableIndex(v)` and `rangeShard.EqualStart(v, index)` on the
  literals of the statement.  A literal therefore carries the results of those
  two calls (`place`, `eqStart`); the placement functions themselves are the
  subject of C08/C09.  `rank` is the value the literal denotes in the ordered
  domain of the sharding column (used by the semantics, never by routing).

  proxy/plan/plan_select.go  getShardingCompareValue (fix commits 1707815,
  d3d5b3a, 79ccd38): a literal the rule cannot place (hexadecimal, bit, decimal,
  float, NULL; a string the rule does not read as MySQL does) is never handed
  to `FindTableIndex`; the comparison keeps every sub table.  Such a literal
  has `wide = true` (Model/RouteLit.lean computes the flag from the kind and
  value of the literal and the type of the rule).  `sem` says how the value
  `rank` is compared with a row: exactly, as a value strictly between `rank`
  and `rank + 1` (a decimal with a fraction), or as NULL.
  Core Lean only.
-/
namespace GaeaVerif.Route

inductive Cmp where
  | eq | ne | lt | le | gt | ge
  deriving DecidableEq, Repr

/-- `inverseOperator` -/
def Cmp.inverse : Cmp → Cmp
  | .gt => .lt
  | .ge => .le
  | .lt => .gt
  | .le => .ge
  | o => o

/-- How the value of a literal is compared with the value of a row. -/
inductive Sem where
  /-- the literal denotes exactly `rank` (`rank = none`: a value this model does not determine) -/
  | exact
  /-- the literal denotes a value strictly between `rank` and `rank + 1` (`1.5`, `'7.25'`) -/
  | frac
  /-- the literal is NULL: every comparison with it is NULL -/
  | null
  deriving DecidableEq, Repr

structure Lit where
  /-- value denoted in the column's ordered domain (`none`: not a value this model determines) -/
  rank : Option Int
  /-- `rule.FindTableIndex(v)`: `none` = error -/
  place : Option Int
  /-- `rangeShard.EqualStart(v, place)` -/
  eqStart : Bool
  /-- `getShardingCompareValue` reports the literal as not routable: the rule is not asked -/
  wide : Bool := false
  /-- how `rank` is compared with a row value -/
  sem : Sem := .exact
  deriving DecidableEq, Repr

/-- Condition trees as `handleComparisonExpr` sees them. `onShard` tells whether
    the column is the sharding column of the sharded table (`false`: another
    column of that table).  `other` is everything that is not routed on:
    NOT, XOR, IS NULL, LIKE, column-vs-column, function calls, columns of
    unsharded tables … -/
inductive Cond where
  | cmp (onShard litLeft : Bool) (op : Cmp) (l : Lit)
  | inList (onShard neg : Bool) (ls : List Lit)
  | between (onShard neg : Bool) (lo hi : Lit)
  | and (a b : Cond)
  | or (a b : Cond)
  | paren (a : Cond)
  | other (id : Nat)
  deriving Repr

structure Rule where
  /-- `GetSubTableIndexes()` -/
  idxs : List Int
  /-- `GetFirstTableIndex()`, `GetLastTableIndex()` -/
  first : Int
  last : Int
  /-- the shard implements `router.RangeShard` (range, date_year, date_month, date_day) -/
  isRange : Bool
  /-- `GetType() == GlobalTableRuleType` -/
  isGlobal : Bool
  deriving Repr

/-- `makeList(start, end)`: `[start, end)` -/
def makeList (s e : Int) : List Int :=
  if s ≥ e then [] else (List.range (e - s).toNat).map (fun (i : Nat) => s + (i : Int))

/-- `interList`: the two-pointer intersection loop. -/
def interList : List Int → List Int → List Int
  | [], _ => []
  | _ :: _, [] => []
  | a :: as, b :: bs =>
    if a = b then a :: interList as bs
    else if a < b then interList as (b :: bs)
    else interList (a :: as) bs
termination_by l1 l2 => l1.length + l2.length

/-- `unionList`: the two-pointer merge loop (with its tail append). -/
def unionList : List Int → List Int → List Int
  | [], l2 => l2
  | a :: as, [] => a :: as
  | a :: as, b :: bs =>
    if a < b then a :: unionList as (b :: bs)
    else if a > b then b :: unionList (a :: as) bs
    else a :: unionList as bs
termination_by l1 l2 => l1.length + l2.length

/-- insertion into an ascending duplicate-free list -/
def insertUniq (a : Int) : List Int → List Int
  | [] => [a]
  | b :: bs => if a < b then a :: b :: bs else if a = b then b :: bs else b :: insertUniq a bs

/-- the index list of `getPatternInRouteResult`: the distinct placements, then `sort.Ints` -/
def sortDedup (l : List Int) : List Int := l.foldr insertUniq []

/-- `indexValueMap[i]` of `getPatternInRouteResult` for `k IN (…)` on the sharding
    column: the listed values placed in table `i`, in statement order.
    `PatternInExprDecorator.Restore` writes `k IN (these)` for table `i`, or `1=0`
    when there is none. -/
def inValuesFor (ls : List Lit) (i : Int) : List Lit := ls.filter fun l => l.place == some i

/-- `adjustShardIndex` -/
def adjust (l : Lit) (i : Int) : Int := if l.eqStart then i - 1 else i

/-- the closure returned by `getFindTableIndexesFunc(op)` -/
def findTableIndexes (r : Rule) (op : Cmp) (onShard : Bool) (l : Lit) : Option (List Int) :=
  if !onShard then some r.idxs else
  match op with
  | .eq => l.place.map fun i => [i]
  | .ne => some r.idxs
  | .lt => if r.isRange then l.place.map fun i => makeList r.first (adjust l i + 1) else some r.idxs
  | .le => if r.isRange then l.place.map fun i => makeList r.first (i + 1) else some r.idxs
  | .gt => if r.isRange then l.place.map fun i => makeList i (r.last + 1) else some r.idxs
  | .ge => if r.isRange then l.place.map fun i => makeList i (r.last + 1) else some r.idxs

def allPlaces : List Lit → Option (List Int)
  | [] => some []
  | l :: ls =>
    match l.place, allPlaces ls with
    | some i, some is => some (i :: is)
    | _, _ => none

/-- `getShardBetweenExprRouteResult` -/
def shardBetween (r : Rule) (neg : Bool) (lo hi : Lit) : Option (List Int) :=
  match lo.place, hi.place with
  | some s, some e =>
    if neg then
      if s > e then some r.idxs
      else some (unionList (makeList r.first (adjust lo s + 1)) (makeList e (r.last + 1)))
    else if s > e then some (makeList e (s + 1)) else some (makeList s (e + 1))
  | _, _ => none

/-- `mergeBinaryOperationRouteResult` for AND -/
def mergeAnd (l r : Bool × List Int) : Bool × List Int :=
  match l.1, r.1 with
  | false, false => (false, [])
  | true, true => (true, interList l.2 r.2)
  | true, false => (true, l.2)
  | false, true => (true, r.2)

/-- `mergeBinaryOperationRouteResult` for OR -/
def mergeOr (l r : Bool × List Int) : Bool × List Int :=
  if l.1 && r.1 then (true, unionList l.2 r.2) else (false, [])

/-- `handleComparisonExpr`: (has routing result, table indexes); `none` = the
    statement is rejected with an error. -/
def route (r : Rule) : Cond → Option (Bool × List Int)
  | .paren a => route r a
  | .other _ => some (false, r.idxs)
  | .and a b =>
    match route r a, route r b with
    | some x, some y => some (mergeAnd x y)
    | _, _ => none
  | .or a b =>
    match route r a, route r b with
    | some x, some y => some (mergeOr x y)
    | _, _ => none
  | .cmp onShard litLeft op l =>
    if r.isGlobal then some (false, []) else
    if l.wide then some (true, r.idxs) else
    (findTableIndexes r (if litLeft then op.inverse else op) onShard l).map fun is => (true, is)
  | .inList onShard neg ls =>
    if r.isGlobal || neg || !onShard || ls.any (·.wide) then some (true, r.idxs)
    else (allPlaces ls).map fun ps => (true, sortDedup ps)
  | .between onShard neg lo hi =>
    if r.isGlobal || !onShard || !r.isRange || lo.wide || hi.wide then some (true, r.idxs)
    else (shardBetween r neg lo hi).map fun is => (true, is)

/-- `handleWhere` on a fresh route result (`NewRouteResult(…, rule.GetSubTableIndexes())`). -/
def routeStmt (r : Rule) (c : Option Cond) : Option (List Int) :=
  match c with
  | none => some r.idxs
  | some c =>
    match route r c with
    | none => none
    | some (has, l) => some (if has then interList r.idxs l else r.idxs)

/-! ### Reference semantics of a condition on one row (three-valued logic) -/

def and3 : Option Bool → Option Bool → Option Bool
  | some false, _ => some false
  | _, some false => some false
  | some true, some true => some true
  | _, _ => none

def or3 : Option Bool → Option Bool → Option Bool
  | some true, _ => some true
  | _, some true => some true
  | some false, some false => some false
  | _, _ => none

/-- `x op v` on the ordered domain -/
def Cmp.holds (op : Cmp) (x v : Int) : Bool :=
  match op with
  | .eq => x == v
  | .ne => x != v
  | .lt => x < v
  | .le => x ≤ v
  | .gt => x > v
  | .ge => x ≥ v

def allRanks : List Lit → Option (List Int)
  | [] => some []
  | l :: ls =>
    match l.rank, allRanks ls with
    | some v, some vs => some (v :: vs)
    | _, _ => none

def not3 : Option Bool → Option Bool
  | some b => some (!b)
  | none => none

/-- `x op (v + ½)`: comparison with a value strictly between `v` and `v + 1` -/
def Cmp.holdsFrac (op : Cmp) (x v : Int) : Bool :=
  match op with
  | .eq => false
  | .ne => true
  | .lt => x ≤ v
  | .le => x ≤ v
  | .gt => x > v
  | .ge => x > v

/-- `x op literal` in SQL's three-valued logic; the outer `none`: the model
    does not determine the value the literal denotes. -/
def Lit.cmp3 (l : Lit) (op : Cmp) (x : Int) : Option (Option Bool) :=
  match l.sem with
  | .null => some none
  | .frac => l.rank.map fun v => some (op.holdsFrac x v)
  | .exact => l.rank.map fun v => some (op.holds x v)

/-- `x IN (literals)` in three-valued logic: TRUE when some literal equals `x`,
    otherwise NULL when a NULL is listed, otherwise FALSE; the outer `none` as
    in `cmp3`. -/
def in3 (ls : List Lit) (x : Int) : Option (Option Bool) :=
  if ls.any (fun l => l.sem != .null && l.rank.isNone) then none
  else if ls.any (fun l => l.sem == .exact && l.rank == some x) then some (some true)
  else if ls.any (fun l => l.sem == .null) then some none
  else some (some false)

/-- `x BETWEEN lo AND hi` is `x >= lo AND x <= hi` -/
def between3 (lo hi : Lit) (x : Int) : Option (Option Bool) :=
  match lo.cmp3 .ge x, hi.cmp3 .le x with
  | some p, some q => some (and3 p q)
  | _, _ => none

/-- Truth value of the condition on a row whose sharding column holds `x`;
    `env` gives the truth value of everything that does not depend on the
    sharding column alone (other columns, opaque predicates, non-denotable
    literals). -/
def eval (env : Cond → Option Bool) (x : Int) : Cond → Option Bool
  | .paren a => eval env x a
  | .other id => env (.other id)
  | .and a b => and3 (eval env x a) (eval env x b)
  | .or a b => or3 (eval env x a) (eval env x b)
  | .cmp onShard litLeft op l =>
    if !onShard then env (.cmp onShard litLeft op l) else
    match l.sem with
    | .exact =>
      match l.rank with
      | none => env (.cmp onShard litLeft op l)
      | some v => some (if litLeft then op.holds v x else op.holds x v)
    | _ =>
      match l.cmp3 (if litLeft then op.inverse else op) x with
      | none => env (.cmp onShard litLeft op l)
      | some t => t
  | .inList onShard neg ls =>
    if !onShard then env (.inList onShard neg ls) else
    if ls.all (fun l => l.sem == .exact) then
      match allRanks ls with
      | none => env (.inList onShard neg ls)
      | some vs => some (vs.contains x != neg)
    else
      match in3 ls x with
      | none => env (.inList onShard neg ls)
      | some t => if neg then not3 t else t
  | .between onShard neg lo hi =>
    if !onShard then env (.between onShard neg lo hi) else
    if lo.sem == .exact && hi.sem == .exact then
      match lo.rank, hi.rank with
      | some a, some b => some ((decide (a ≤ x) && decide (x ≤ b)) != neg)
      | _, _ => env (.between onShard neg lo hi)
    else
      match between3 lo hi x with
      | none => env (.between onShard neg lo hi)
      | some t => if neg then not3 t else t

/-- the literals compared with the sharding column -/
def shardLits : Cond → List Lit
  | .paren a => shardLits a
  | .other _ => []
  | .and a b => shardLits a ++ shardLits b
  | .or a b => shardLits a ++ shardLits b
  | .cmp onShard _ _ l => if onShard then [l] else []
  | .inList onShard _ ls => if onShard then ls else []
  | .between onShard _ lo hi => if onShard then [lo, hi] else []

/-! ### operator dispatch as tables (tied to the source by `harness/extract/c01.go`) -/

/-- What a `case` of the `switch op` in `getFindTableIndexesFunc` does for the
    sharding column. -/
inductive FindAction where
  /-- `FindTableIndex(v)`, `[]int{index}` -/
  | single
  /-- `rule.GetSubTableIndexes()` -/
  | all
  /-- range shard: `makeList(first, index+1)`, after `adjustShardIndex` if `adj`; otherwise all -/
  | upTo (adj : Bool)
  /-- range shard: `makeList(index, last+1)`; otherwise all -/
  | from
  deriving DecidableEq, Repr

/-- the `switch op` of `getFindTableIndexesFunc` -/
def Cmp.findAction : Cmp → FindAction
  | .eq => .single
  | .ne => .all
  | .lt => .upTo true
  | .le => .upTo false
  | .gt => .from
  | .ge => .from

def FindAction.run (r : Rule) (l : Lit) : FindAction → Option (List Int)
  | .single => l.place.map fun i => [i]
  | .all => some r.idxs
  | .upTo adj =>
    if r.isRange then l.place.map fun i => makeList r.first ((if adj then adjust l i else i) + 1) else some r.idxs
  | .from => if r.isRange then l.place.map fun i => makeList i (r.last + 1) else some r.idxs

def Cmp.all : List Cmp := [.eq, .ne, .gt, .ge, .lt, .le]

/-- the `opcode` constant a comparison is in the source -/
def Cmp.goName : Cmp → String
  | .eq => "EQ" | .ne => "NE" | .lt => "LT" | .le => "LE" | .gt => "GT" | .ge => "GE"

/-- The statements `getFindTableIndexesFunc` executes for the sharding column
    when `op` is the given constant (conditions on `op` resolved, error returns
    dropped), as the translator prints them. -/
def FindAction.trace : FindAction → List String
  | .single => ["index, err := rule.FindTableIndex(v)", "return []int{index}, nil"]
  | .all => ["return rule.GetSubTableIndexes(), nil"]
  | .upTo true =>
    ["if rangeShard, ok := rule.GetShard().(router.RangeShard); ok {", "index, err := rule.FindTableIndex(v)",
     "index = adjustShardIndex(rangeShard, v, index)", "return makeList(rule.GetFirstTableIndex(), index+1), nil", "}",
     "return rule.GetSubTableIndexes(), nil"]
  | .upTo false =>
    ["if rangeShard, ok := rule.GetShard().(router.RangeShard); ok {", "index, err := rule.FindTableIndex(v)",
     "return makeList(rule.GetFirstTableIndex(), index+1), nil", "}", "return rule.GetSubTableIndexes(), nil"]
  | .from =>
    ["if rangeShard, ok := rule.GetShard().(router.RangeShard); ok {", "index, err := rule.FindTableIndex(v)",
     "return makeList(index, rule.GetLastTableIndex()+1), nil", "}", "return rule.GetSubTableIndexes(), nil"]

/-- which list a branch of `mergeBinaryOperationRouteResult` returns -/
inductive MergeRet where
  | nil | left | right | inter | union
  deriving DecidableEq, Repr

def MergeRet.run (l r : List Int) : MergeRet → List Int
  | .nil => []
  | .left => l
  | .right => r
  | .inter => interList l r
  | .union => unionList l r

def MergeRet.ofCode : String → Option MergeRet
  | "nil" => some .nil
  | "left" => some .left
  | "right" => some .right
  | "inter" => some .inter
  | "union" => some .union
  | _ => none

/-- the decision lists the translator writes, with the list codes read -/
def readDecisions (ds : List ((Bool → Bool → Bool) × Bool × String)) :
    Option (List ((Bool → Bool → Bool) × Bool × MergeRet)) :=
  ds.mapM fun d => (MergeRet.ofCode d.2.2).map fun m => (d.1, d.2.1, m)

/-- A `case` of `mergeBinaryOperationRouteResult` as the translator reads it: the
    `if cond { return has, list }` statements in order, then the statement the
    control reaches when no condition holds (`return false, nil` at the end of
    the function). -/
def runDecisions (ds : List ((Bool → Bool → Bool) × Bool × MergeRet)) (dflt : Bool × MergeRet)
    (lHas rHas : Bool) : Bool × MergeRet :=
  match ds.find? (fun d => d.1 lHas rHas) with
  | some d => d.2
  | none => dflt

/-! ### JOIN … ON: `handleJoin` / `handleJoinTree` / `rewriteOnCondition` /
    `precheckJoinClause` of plan_select.go -/

/-- The column an atom of a multi-table statement names, as
    `NeedCreateColumnNameExprDecoratorInCondition` resolves it. Tables are
    numbered in FROM order; all of them are the same sharded table or linked
    tables of it (one `RouteResult`, one shard). -/
inductive JCol where
  /-- the sharding column of table `tbl` (qualified, or unqualified and the sharding column of that table only) -/
  | key (tbl : Nat)
  /-- another column, qualified with table `tbl`: the rule is found, `GetShardingColumn() != column` -/
  | col (tbl : Nat)
  /-- an unqualified column that is no table's sharding column: `need = false`, the atom is not routed -/
  | free
  /-- an unqualified column that is the sharding column of two tables: "column … is ambiguous for sharding" -/
  | ambiguous
  deriving DecidableEq, Repr

inductive JCond where
  | cmp (c : JCol) (litLeft : Bool) (op : Cmp) (l : Lit)
  | inList (c : JCol) (neg : Bool) (ls : List Lit)
  | between (c : JCol) (neg : Bool) (lo hi : Lit)
  | and (a b : JCond)
  | or (a b : JCond)
  | paren (a : JCond)
  | other (id : Nat)
  deriving Repr

/-- What `handleComparisonExpr` sees of a join condition: a linked rule
    delegates `FindTableIndex`, `GetShard`, first/last index and the sub-table
    list to its parent rule, so only "sharding column of its table or not"
    remains of the column. -/
def JCond.erase : JCond → Cond
  | .paren a => .paren a.erase
  | .other id => .other id
  | .and a b => .and a.erase b.erase
  | .or a b => .or a.erase b.erase
  | .cmp (.key _) litLeft op l => .cmp true litLeft op l
  | .cmp (.col _) litLeft op l => .cmp false litLeft op l
  | .cmp _ _ _ _ => .other 0
  | .inList (.key _) neg ls => .inList true neg ls
  | .inList (.col _) neg ls => .inList false neg ls
  | .inList _ _ _ => .other 0
  | .between (.key _) neg lo hi => .between true neg lo hi
  | .between (.col _) neg lo hi => .between false neg lo hi
  | .between _ _ _ _ => .other 0

def JCond.hasAmbiguous : JCond → Bool
  | .paren a => a.hasAmbiguous
  | .other _ => false
  | .and a b => a.hasAmbiguous || b.hasAmbiguous
  | .or a b => a.hasAmbiguous || b.hasAmbiguous
  | .cmp c _ _ _ => c == .ambiguous
  | .inList c _ _ => c == .ambiguous
  | .between c _ _ _ => c == .ambiguous

/-- `handleComparisonExpr` on a condition of a multi-table statement -/
def routeJ (r : Rule) (c : JCond) : Option (Bool × List Int) :=
  if c.hasAmbiguous then none else route r c.erase

inductive JoinTp where
  /-- `JOIN`, `INNER JOIN`, `CROSS JOIN`, `STRAIGHT_JOIN`, the comma (`ast.CrossJoin`) -/
  | inner
  | left
  | right
  deriving DecidableEq, Repr

/-- the `ast.JoinType` constant -/
def JoinTp.goName : JoinTp → String
  | .inner => "CrossJoin"
  | .left => "LeftJoin"
  | .right => "RightJoin"

/-- One `ast.Join` node of a left-deep FROM clause: it joins the tree of the
    tables before it with one more table. -/
structure JoinStep where
  tp : JoinTp
  /-- a `USING` column is written with a schema or table qualifier (`precheckJoinClause`) -/
  usingQualified : Bool
  on : Option JCond
  deriving Repr

/-- `handleJoinTree` on the join nodes listed outermost first, starting from the
    route result `acc`; `restricts` as in the source: every result row has
    passed the ON conditions of this tree. `none`: the statement is rejected. -/
def routeJoins (r : Rule) (acc : List Int) : List JoinStep → Bool → Option (List Int)
  | [], _ => some acc
  | j :: rest, restricts =>
    if j.usingQualified then none else
    match routeJoins r acc rest (restricts && j.tp != .right) with
    | none => none
    | some acc' =>
      match j.on with
      | none => some acc'
      | some c =>
        match routeJ r c with
        | none => none
        | some (has, l) => some (if has && (restricts && j.tp == .inner) then interList acc' l else acc')

/-- `handleTableRefs` then `handleWhere` of a SELECT over joined tables. -/
def routeJoinStmt (r : Rule) (joins : List JoinStep) (wh : Option JCond) : Option (List Int) :=
  match routeJoins r r.idxs joins true with
  | none => none
  | some acc =>
    match wh with
    | none => some acc
    | some c =>
      match routeJ r c with
      | none => none
      | some (has, l) => some (if has then interList acc l else acc)

/-- Truth value of a condition on a row of the joined tables: `vals t` is the
    sharding value of the row of table `t`, `none` when that row is the NULL
    extension of an outer join (a comparison with NULL is NULL). -/
def evalJ (env : JCond → Option Bool) (vals : Nat → Option Int) : JCond → Option Bool
  | .paren a => evalJ env vals a
  | .other id => env (.other id)
  | .and a b => and3 (evalJ env vals a) (evalJ env vals b)
  | .or a b => or3 (evalJ env vals a) (evalJ env vals b)
  | .cmp (.key t) litLeft op l =>
    match vals t with
    | none => none
    | some x =>
      match l.sem with
      | .exact =>
        match l.rank with
        | none => env (.cmp (.key t) litLeft op l)
        | some v => some (if litLeft then op.holds v x else op.holds x v)
      | _ =>
        match l.cmp3 (if litLeft then op.inverse else op) x with
        | none => env (.cmp (.key t) litLeft op l)
        | some r => r
  | .cmp c litLeft op l => env (.cmp c litLeft op l)
  | .inList (.key t) neg ls =>
    match vals t with
    | none => none
    | some x =>
      if ls.all (fun l => l.sem == .exact) then
        match allRanks ls with
        | none => env (.inList (.key t) neg ls)
        | some vs => some (vs.contains x != neg)
      else
        match in3 ls x with
        | none => env (.inList (.key t) neg ls)
        | some r => if neg then not3 r else r
  | .inList c neg ls => env (.inList c neg ls)
  | .between (.key t) neg lo hi =>
    match vals t with
    | none => none
    | some x =>
      if lo.sem == .exact && hi.sem == .exact then
        match lo.rank, hi.rank with
        | some a, some b => some ((decide (a ≤ x) && decide (x ≤ b)) != neg)
        | _, _ => env (.between (.key t) neg lo hi)
      else
        match between3 lo hi x with
        | none => env (.between (.key t) neg lo hi)
        | some r => if neg then not3 r else r
  | .between c neg lo hi => env (.between c neg lo hi)

/-- the literals compared with a sharding column -/
def jShardLits : JCond → List Lit
  | .paren a => jShardLits a
  | .other _ => []
  | .and a b => jShardLits a ++ jShardLits b
  | .or a b => jShardLits a ++ jShardLits b
  | .cmp (.key _) _ _ l => [l]
  | .cmp _ _ _ _ => []
  | .inList (.key _) _ ls => ls
  | .inList _ _ _ => []
  | .between (.key _) _ lo hi => [lo, hi]
  | .between _ _ _ _ => []

def optLits : Option JCond → List Lit
  | some c => jShardLits c
  | none => []

def joinsLits (joins : List JoinStep) : List Lit := joins.flatMap fun j => optLits j.on

/-- `j.on` holds on the row (no ON condition: always) -/
def onTrue (env : JCond → Option Bool) (vals : Nat → Option Int) (j : JoinStep) : Prop :=
  match j.on with
  | none => True
  | some c => evalJ env vals c = some true

/-- **SQL semantics of a left-deep join tree** (join nodes outermost first; the
    node at depth `rest.length` joins tables `0 … rest.length` with table
    `rest.length + 1`): is the combined row `vals` (with its NULL extensions) a
    row of the joined table?  An inner join keeps the pairs on which ON is
    TRUE; a LEFT JOIN keeps every row of its left tree, extended by a matching
    right row or by NULLs; a RIGHT JOIN keeps every right row, extended by a
    matching row of the left tree or by NULLs for all its tables. -/
def inJoin (env : JCond → Option Bool) (vals : Nat → Option Int) : List JoinStep → Prop
  | [] => (vals 0).isSome
  | j :: rest =>
    match j.tp with
    | .inner => inJoin env vals rest ∧ (vals (rest.length + 1)).isSome ∧ onTrue env vals j
    | .left => inJoin env vals rest ∧ ((vals (rest.length + 1)).isSome → onTrue env vals j)
    | .right => (vals (rest.length + 1)).isSome ∧
        ((inJoin env vals rest ∧ onTrue env vals j) ∨ ∀ t, t ≤ rest.length → vals t = none)

end GaeaVerif.Route
