import GaeaVerif.Model.Go
/-
  Model of how a backend result set travels through the proxy (C39):

    backend/direct_connection.go   readResultRows, drainResults
    backend/pooled_connection.go   Execute / FetchMoreRows (moreRowsExist), Recycle
    proxy/server/executor.go       ExecuteSQL (continueConn), ExecuteSQLs →
                                   executeShardSQLInSlice → executeMultipleSQLInSlice
    proxy/server/client_conn.go    writeOKResultStream, writeResultset, writeRowsWithEOF
    proxy/server/session.go        writeResponse (recycleContinueConn)

  Level of the model.  Below it: packet framing (C11) — the backend's answer
  is a list of packets `Pkt`, already reassembled; an exhausted list means the
  connection was lost (`readPacket` fails).  A row packet is abstracted to an
  identity `id` and its length `size` (`len(data)`, what `bufLength` adds up);
  the column definitions, the values inside a row and their text→binary
  conversion (C13) are not modelled: `Parse`/`BuildBinaryResultSet` are
  assumed to succeed.  Above it: the merge of shard results (C02); the model
  ends where `ExecuteSQLs` returns one row list per shard.  Time-outs, KILL
  QUERY, transactions / keep-session pinning of connections and multi-result
  (`MoreResultsExist`) statements are modelled one level up, in
  `Model/ResultSession.lean`, on top of the functions of this file.  The backend is assumed
  never to send a zero-length packet inside a result set (`data[0]` in
  `isEOFPacket` would panic; malformed backends are not what C39 is about).

  The code modelled is the repaired code (three `fix:` commits, see
  known/C39.json): the row limit rejects only results *larger* than the limit,
  the sharded path fetches the chunks the 16 MiB threshold left pending, the
  streaming path applies the limit to the whole result.

  `T` is `mysql.MaxPayloadLen` (extracted as `Gen.maxPayloadLen`), `maxRows`
  the namespace's `max_sql_result_size` (`≤ 0`: no limit).  Core Lean only.
-/
namespace GaeaVerif.ResultStream
open GaeaVerif

/-- A row packet: which row it is and `len(data)`. -/
structure Row where
  id : Nat
  size : Nat
  deriving Repr, BEq, DecidableEq

/-- A packet of the backend's answer after the column definitions. -/
inductive Pkt where
  | row (r : Row)
  /-- `data[0] == EOFHeader && len(data) <= 5` -/
  | eof
  /-- `data[0] == ErrHeader` -/
  | err
  /-- not a packet: from here on the backend sends nothing and keeps the
      connection open (a statement that takes longer than anybody waits);
      the read that reaches this point blocks -/
  | stall
  deriving Repr, BEq, DecidableEq

/-- `DirectConnection.drainResults`: read and drop packets up to the EOF. -/
inductive Drain where
  | ok (rest : List Pkt)
  /-- an ERR packet, or the connection was lost: `drainResults` returns an error -/
  | failed
  /-- the backend fell silent: `drainResults` does not return -/
  | stalled
  deriving Repr, BEq, DecidableEq

def drainResults : List Pkt → Drain
  | [] => .failed
  | .eof :: rest => .ok rest
  | .err :: _ => .failed
  | .stall :: _ => .stalled
  | .row _ :: rest => drainResults rest

/-- Outcome of `readResultRows`. `rowsRev` is `result.RowDatas`, newest first. -/
inductive Read where
  /-- `nil`: `moreRowExists = more`, the backend stream continues at `rest` -/
  | ok (rowsRev : List Row) (more : Bool) (rest : List Pkt)
  /-- `readPacket` failed: connection lost, `dc.pkgErr` set -/
  | errConn
  /-- the backend sent an ERR packet; the stream continues at `rest` -/
  | errBackend (rest : List Pkt)
  /-- `ErrRowsLimitExceeded`, the rest of the result was drained -/
  | errLimit (rest : List Pkt)
  /-- `ErrRowsLimitExceeded … drain error`: `dc.pkgErr` set -/
  | errLimitDrain
  /-- the backend fell silent: the call does not return (what becomes of the
      statement depends on whether somebody waits with a deadline) -/
  | stalled
  deriving Repr, BEq, DecidableEq

/-- `DirectConnection.readResultRows(result, _, maxRows)`: the `for` loop.
    `rowsRev`/`n` are `result.RowDatas` (reversed) and its length on entry —
    empty for `Execute` and for each `FetchMoreRows` of the streaming path,
    the rows so far when the sharded path fetches into the same result;
    `buf` is `bufLength`. -/
def readRows (T : Nat) (maxRows : Int) : List Pkt → List Row → Nat → Nat → Read
  | [], _, _, _ => .errConn
  -- EOF packet: break (moreRowExists stays false)
  | .eof :: rest, rowsRev, _, _ => .ok rowsRev false rest
  -- data[0] == ErrHeader: return handleErrorPacket(data)
  | .err :: rest, _, _, _ => .errBackend rest
  | .stall :: _, _, _, _ => .stalled
  | .row r :: rest, rowsRev, n, buf =>
    -- bufLength += len(data); result.RowDatas = append(result.RowDatas, data)
    let buf' := buf + r.size
    let rowsRev' := r :: rowsRev
    let n' := n + 1
    -- if maxRows > 0 && len(result.RowDatas) > maxRows { drainResults … }
    if maxRows > 0 ∧ (n' : Int) > maxRows then
      match drainResults rest with
      | .ok rest' => .errLimit rest'
      | .failed => .errLimitDrain
      | .stalled => .stalled
    -- if bufLength > mysql.MaxPayloadLen { moreRowExists = true; break }
    else if buf' > T then .ok rowsRev' true rest
    else readRows T maxRows rest rowsRev' n' buf'

/-- What becomes of the backend connection when the statement is over. -/
inductive Fate where
  /-- `Recycle` closed it (`pkgErr`, or rows still pending) -/
  | closed
  /-- put back into the pool; `pending` is what the backend had sent and nobody read -/
  | pooled (pending : List Pkt)
  deriving Repr, BEq, DecidableEq

/-! ### sharded path: one shard -/

/-- Result of one shard of `ExecuteSQLs`. -/
inductive Shard where
  | ok (rows : List Row) (fate : Fate)
  | errLimit (fate : Fate)
  | errBackend (fate : Fate)
  | errConn
  /-- the backend fell silent before the result was complete: with
      `max_sql_execute_time` the slice's deadline passes and the statement fails
      (`execution timed out`, connection closed); without, it blocks -/
  | stalled
  /-- out of fuel; unreachable -/
  | fuel
  deriving Repr, BEq, DecidableEq

/-- `pooledConn.Execute(sql, maxRows)` followed by
    `for pooledConn.MoreRowsExist() { pooledConn.FetchMoreRows(res, maxRows) }`
    (executeMultipleSQLInSlice, repaired): every chunk is appended to the same
    result, so `len(result.RowDatas)` — and the limit — count the whole result. -/
def fetchAll (T : Nat) (maxRows : Int) : Nat → List Pkt → List Row → Nat → Shard
  | 0, _, _, _ => .fuel
  | fuel + 1, s, rowsRev, n =>
    match readRows T maxRows s rowsRev n 0 with
    | .ok rowsRev' more rest =>
      if more then fetchAll T maxRows fuel rest rowsRev' rowsRev'.length
      else .ok rowsRev'.reverse (.pooled rest)
    | .errConn => .errConn
    | .errBackend rest => .errBackend (.pooled rest)
    | .errLimit rest => .errLimit (.pooled rest)
    | .errLimitDrain => .errLimit .closed
    | .stalled => .stalled

def execShard (T : Nat) (maxRows : Int) (s : List Pkt) : Shard :=
  fetchAll T maxRows (s.length + 1) s [] 0

def Shard.isOk : Shard → Bool
  | .ok _ _ => true
  | _ => false

def Shard.rows : Shard → List Row
  | .ok rows _ => rows
  | _ => []

/-- `SessionExecutor.ExecuteSQLs` → `executeShardSQLInSlice`: every shard is
    executed; any error makes the whole statement fail, otherwise the results
    are returned shard by shard (in slice order). -/
def executeSQLs (T : Nat) (maxRows : Int) (shards : List (List Pkt)) : Option (List (List Row)) :=
  let rs := shards.map (execShard T maxRows)
  if rs.all Shard.isOk then some (rs.map Shard.rows) else none

/-! ### unsharded path: streaming to the client -/

/-- What an error is about (the text of the ERR packet / of the error
    `ExecuteSQLs` returns). -/
inductive ErrKind where
  /-- `sql result set size exceeded` -/
  | limit
  /-- the backend's own ERR packet, passed on -/
  | backend
  deriving Repr, BEq, DecidableEq

/-- How the client's result ends. -/
inductive Fin where
  /-- the closing EOF packet: the client takes the result as complete -/
  | eof
  /-- an ERR packet (instead of, or in the middle of, the result) -/
  | err (k : ErrKind)
  /-- the backend connection was lost (`ErrBadConn`, a `SessionCloseNoRespError`)
      or a write to the client failed: nothing more is written and the session
      closes the client connection -/
  | closed
  /-- the backend fell silent while `ExecuteSQL` read the first chunk: with
      `max_sql_execute_time` the deadline passes, the client gets the error
      `execution timed out` and the backend connection is closed; without, the
      session blocks -/
  | stalled
  /-- the backend fell silent while the following chunks were streamed
      (nobody waits with a deadline there): the session blocks -/
  | hang
  /-- out of fuel; unreachable -/
  | fuel
  deriving Repr, BEq, DecidableEq

/-- What the client receives for the statement and what happens to the backend
    connection. -/
structure Client where
  rows : List Row
  fin : Fin
  fate : Fate
  deriving Repr, BEq, DecidableEq

/-- The client's side of the statement: `none` — the client reads whatever it
    is sent; `some k` — it takes `k` more packets and then its connection
    breaks (every later write fails). -/
def accepts (b : Option Nat) (n : Nat) : Bool :=
  match b with
  | none => true
  | some k => decide (n ≤ k)

/-- What is left of the client's budget after `n` packets were written. -/
def spend (b : Option Nat) (n : Nat) : Option Nat := b.map (· - n)

/-- An error is reported with one ERR packet (`handleResponseError` /
    `CreateErrorResponse`); if the client does not take it either, the write
    fails and `Session.Run` closes the session. -/
def errFin (b : Option Nat) (k : ErrKind) : Fin :=
  if accepts b 1 then .err k else .closed

/-- The `for continueConn.MoreRowsExist()` loop of `writeOKResultStream`
    (repaired: `delivered` counts the rows of all chunks against the limit).
    `outRev`: row packets written to the client so far, newest first; `b`: what
    the client still takes.  A stream that is given up with rows pending (row
    limit, failed write) ends with the backend connection closed — by `Recycle`,
    and for a connection a transaction or keep-session pins by
    `Session.writeResponse` (repaired). -/
def streamMore (T : Nat) (maxRows : Int) : Nat → List Pkt → List Row → Nat → Option Nat → Client
  | 0, _, outRev, _, _ => ⟨outRev.reverse, .fuel, .closed⟩
  | fuel + 1, s, outRev, delivered, b =>
    -- result := ResultPool.Get(); continueConn.FetchMoreRows(result, maxRows)
    match readRows T maxRows s [] 0 0 with
    | .ok chunkRev more rest =>
      let delivered' := delivered + chunkRev.length
      -- the whole result is over the limit: error, the chunk is not written
      if maxRows > 0 ∧ (delivered' : Int) > maxRows then
        ⟨outRev.reverse, errFin b .limit, if more then .closed else .pooled rest⟩
      -- writeRowsWithEOF(result, continueConn.MoreRowsExist(), status): the rows, and the
      -- closing EOF after the last chunk
      else if accepts b (chunkRev.length + (if more then 0 else 1)) then
        if more then
          streamMore T maxRows fuel rest (chunkRev ++ outRev) delivered'
            (spend b (chunkRev.length + (if more then 0 else 1)))
        else ⟨(chunkRev ++ outRev).reverse, .eof, .pooled rest⟩
      -- the write fails: what the client still took of this chunk, then nothing
      else ⟨outRev.reverse ++ chunkRev.reverse.take (b.getD 0), .closed,
            if more then .closed else .pooled rest⟩
    | .errConn => ⟨outRev.reverse, .closed, .closed⟩
    | .errBackend rest => ⟨outRev.reverse, errFin b .backend, .pooled rest⟩
    | .errLimit rest => ⟨outRev.reverse, errFin b .limit, .pooled rest⟩
    | .errLimitDrain => ⟨outRev.reverse, errFin b .limit, .closed⟩
    | .stalled => ⟨outRev.reverse, .hang, .closed⟩

/-- Packets of a result-set header as the proxy writes it: the column count,
    the two column definitions of the harness's results, the EOF. -/
def headerPackets : Nat := 4

/-- `writeOKResult(status, more, rs)` for the first chunk of a result set
    (header, rows, and the EOF unless rows are pending), then the loop above. -/
def sendResult (T : Nat) (maxRows : Int) (rowsRev : List Row) (more : Bool) (rest : List Pkt)
    (b : Option Nat) : Client :=
  if accepts b (headerPackets + rowsRev.length + (if more then 0 else 1)) then
    if more then
      streamMore T maxRows (rest.length + 1) rest rowsRev rowsRev.length
        (spend b (headerPackets + rowsRev.length + (if more then 0 else 1)))
    else ⟨rowsRev.reverse, .eof, .pooled rest⟩
  else ⟨rowsRev.reverse.take (b.getD 0 - headerPackets), .closed, if more then .closed else .pooled rest⟩

/-- `ExecuteSQL` (first chunk; `continueConn` is set when rows are pending)
    followed by `Session.writeResponse` → `writeOKResultStream` /
    `writeOKResult`, then `recycleContinueConn` / `recycleBackendConn`. -/
def unshard (T : Nat) (maxRows : Int) (s : List Pkt) (b : Option Nat := none) : Client :=
  match readRows T maxRows s [] 0 0 with
  | .ok rowsRev more rest => sendResult T maxRows rowsRev more rest b
  | .errConn => ⟨[], .closed, .closed⟩
  | .errBackend rest => ⟨[], errFin b .backend, .pooled rest⟩
  | .errLimit rest => ⟨[], errFin b .limit, .pooled rest⟩
  | .errLimitDrain => ⟨[], errFin b .limit, .closed⟩
  | .stalled => ⟨[], .stalled, .closed⟩

end GaeaVerif.ResultStream
