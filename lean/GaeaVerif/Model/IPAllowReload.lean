import GaeaVerif.Model.IPAllow
import GaeaVerif.Model.MgrReload
/-
  C35 — the allow-list of a namespace across online reloads.

  Gaea code:
    proxy/server/manager.go    CreateNamespaceManager (a namespace whose configuration
                               NewNamespace rejects is skipped), ReloadNamespacePrepare /
                               ReloadNamespaceCommit / DeleteNamespace / GetNamespace
                               (the machine of Model/MgrReload.lean, tied to the code by C31)
    proxy/server/namespace.go  NewNamespace: `allowips, err := parseAllowIps(cfg.AllowedIP)`,
                               an error rejects the whole configuration; `namespace.allowips`
                               is assigned there and nowhere else (Gen.c35AllowipsWriters)
    proxy/server/session.go    Session.IsAllowConnect: `ns := cc.getNamespace()`, nil ⇒ false,
                               then the host of the remote address against `ns.allowips`

  A configuration version `v` of the namespace (name 0) stands for the
  configuration whose `allowed_ip` is `cfg v`.  A namespace object is immutable
  as far as the allow-list goes, so the object of version `v` carries
  `parseAllowIps (cfg v)`.  Core Lean only.
-/
namespace GaeaVerif.IPAllowReload
open GaeaVerif GaeaVerif.IPAllow GaeaVerif.MgrReload

/-- Version ↦ `allowed_ip` of that configuration. -/
abbrev Cfg := Nat → List Bytes

/-- Does `NewNamespace` accept version `v` (as far as `allowed_ip` goes)? -/
def buildable (pa : Bytes → Option Addr) (cfg : Cfg) (v : Nat) : Bool :=
  match parseAllowIps pa (cfg v) with
  | .ok _ => true
  | _ => false

/-- The proxy after start-up with the one namespace at version 0; a namespace
    whose configuration is rejected is not created (`continue` in
    `CreateNamespaceManager`). -/
def start (pa : Bytes → Option Addr) (cfg : Cfg) : Manager :=
  CreateManager (if buildable pa cfg 0 then [(0, 0)] else [])

/-- `Session.IsAllowConnect` of a session of namespace 0 on the manager `m`:
    one load of the current generation (`getNamespace`), then the immutable
    list of the namespace object found there.  `panic` = nil `NamespaceManager`. -/
def connect (pa : Bytes → Option Addr) (cfg : Cfg) (m : Manager) (remote : Bytes) : R Bool :=
  match GetNamespace m 0 with
  | none => .panic
  | some none => .ok false
  | some (some v) => parseAllowIps pa (cfg v) >>= fun infos => isAllowConnect pa infos remote

/-- One step of a history on one proxy. -/
inductive Op where
  | prepare (v : Nat)        -- ReloadNamespacePrepare of the configuration version `v`
  | commit
  | delete
  | conn (remote : Bytes)    -- a client completes its handshake
  deriving Repr, DecidableEq

/-- What the step answers. -/
inductive Ans where
  | out (o : Out)
  | dec (d : R Bool)
  deriving Repr, DecidableEq

def step (pa : Bytes → Option Addr) (cfg : Cfg) (m : Manager) : Op → Manager × Ans
  | .prepare v => let r := MgrReload.step m (.prepare 0 v (buildable pa cfg v)); (r.1, .out r.2)
  | .commit => let r := MgrReload.step m (.commit 0); (r.1, .out r.2)
  | .delete => let r := MgrReload.step m (.delete 0); (r.1, .out r.2)
  | .conn remote => (m, .dec (connect pa cfg m remote))

def run (pa : Bytes → Option Addr) (cfg : Cfg) (m : Manager) : List Op → List Ans
  | [] => []
  | op :: rest => let r := step pa cfg m op; r.2 :: run pa cfg r.1 rest

/-- The configuration operation behind a step (`none` for a connecting client). -/
def Op.mgr (pa : Bytes → Option Addr) (cfg : Cfg) : Op → Option MgrReload.Op
  | .prepare v => some (.prepare 0 v (buildable pa cfg v))
  | .commit => some (.commit 0)
  | .delete => some (.delete 0)
  | .conn _ => none

end GaeaVerif.IPAllowReload
