import GaeaVerif.Model.LenEnc
/-
  Model of the byte-level decoders a client reaches in the proxy (C38):

    proxy/server/client_conn.go   readHandshakeResponse
    proxy/server/session.go       handleHandshakeResponse (which password check runs), Run (command loop)
    mysql/util.go                 CheckHashPassword (the indexing)
    proxy/server/executor.go      ExecuteCommand (dispatch)
    proxy/server/executor_stmt.go handleStmtExecute, bindStmtArgs, handleStmtSendLongData, handleStmtReset
    proxy/server/executor_handle.go handleStmtPrepare, handleStmtClose, handleFieldList, handleUseDB
    mysql/encoding.go             FormatBinaryDate / FormatBinaryTime / FormatBinaryDateTime (the indexing)

  Every Go index / slice expression goes through `goIdx` / `goSlice` (or an
  explicit length test for the `[]interface{}` argument vector), so a missing
  guard is a reachable `panic` outcome.  What the decoders hand to the SQL layer
  (statement text, bound values) is not modelled: a command that reaches
  `handleQuery` answers `q`, one that reaches the backend for a field list `fl`.

  Three places of the modelled code are being repaired by other properties'
  `fix:` commits while this model is written; the model follows the source
  through the flags of `Variant`, which the translator reads off the current
  tree (harness/extract/c38.go → Gen.c38DateGuard / c38ResetEarly /
  c38HashLenGuard).  Core Lean only.
-/
namespace GaeaVerif.Crash
open GaeaVerif GaeaVerif.LenEnc

/-- Shape of the three variation points in the current source tree. -/
structure Variant where
  /-- bindStmtArgs checks `len(paramValues) < pos+n` before slicing a DATE/TIME/DATETIME payload -/
  dateGuard : Bool
  /-- handleStmtExecute defers `s.ResetParams()` right after the statement lookup (not just before handleQuery) -/
  resetEarly : Bool
  /-- CheckHashPassword rejects responses whose length differs from the digest length -/
  hashLenGuard : Bool
  deriving Repr, DecidableEq

/-! ### constants (mysql/constants.go, mysql/type.go) -/

def clientConnectWithDB : Nat := 8
def clientProtocol41 : Nat := 512
def clientSecureConnection : Nat := 32768
def clientPluginAuth : Nat := 524288
def clientPluginAuthLenencClientData : Nat := 2097152

def comQuit : UInt8 := 1
def comInitDB : UInt8 := 2
def comQuery : UInt8 := 3
def comFieldList : UInt8 := 4
def comPing : UInt8 := 14
def comStmtPrepare : UInt8 := 22
def comStmtExecute : UInt8 := 23
def comStmtSendLongData : UInt8 := 24
def comStmtClose : UInt8 := 25
def comStmtReset : UInt8 := 26
def comSetOption : UInt8 := 27

/-- Go's `x & flag > 0` for a single-bit flag. -/
def hasFlag (x flag : Nat) : Bool := (x / flag) % 2 == 1

/-! ### handshake -/

inductive HsErr where
  | flags | proto41 | maxpkt | charset | user | authlen | auth | db | switch
  deriving Repr, DecidableEq

structure HsInfo where
  capability : Nat
  collation : Nat
  user : Bytes
  auth : Bytes
  db : Bytes
  /-- `info.AuthPlugin`: set (to the server's plugin) only when an auth switch was requested -/
  plugin : Bytes
  deriving Repr, DecidableEq

inductive HsOut where
  | err (e : HsErr)
  | info (i : HsInfo)
  | panic
  deriving Repr, DecidableEq

/-- The optional tail of `readHandshakeResponse` (`ClientPluginAuth`): the
    plugin name is read; if it differs from the server's the client is asked to
    switch and its next packet (`second`; `none` = the connection ended) becomes
    the auth response. -/
def hsPluginPart (proxyPlugin : Bytes) (second : Option Bytes) (cap coll : Nat) (user auth db data : Bytes)
    (pos : Int) : HsOut :=
  if hasFlag cap clientPluginAuth then
    match readNull data pos with
    | .panic => .panic
    | .fail => .info ⟨cap, coll, user, auth, db, []⟩
    | .ok (plugin, _) =>
      if plugin ≠ proxyPlugin then
        match second with
        | none => .err .switch
        | some a => .info ⟨cap, coll, user, a, db, proxyPlugin⟩
      else .info ⟨cap, coll, user, auth, db, []⟩
  else .info ⟨cap, coll, user, auth, db, []⟩

def hsDbPart (proxyPlugin : Bytes) (second : Option Bytes) (cap coll : Nat) (user auth data : Bytes)
    (pos : Int) : HsOut :=
  if hasFlag cap clientConnectWithDB then
    match readNull data pos with
    | .panic => .panic
    | .fail => .err .db
    | .ok (db, pos) => hsPluginPart proxyPlugin second cap coll user auth db data pos
  else hsPluginPart proxyPlugin second cap coll user auth [] data pos

/-- `ClientConn.readHandshakeResponse` on the payload `data` of the client's
    first packet. -/
def readHandshakeResponse (proxyPlugin : Bytes) (data : Bytes) (second : Option Bytes) : HsOut :=
  match readUintN 4 data 0 with
  | .panic => .panic
  | .fail => .err .flags
  | .ok (cap, pos) =>
    if !hasFlag cap clientProtocol41 then .err .proto41 else
    match readUintN 4 data pos with
    | .panic => .panic
    | .fail => .err .maxpkt
    | .ok (_, pos) =>
      match readByte data pos with
      | .panic => .panic
      | .fail => .err .charset
      | .ok (coll, pos) =>
        -- reserved 23 zero bytes, skipped
        let pos := pos + 23
        match readNull data pos with
        | .panic => .panic
        | .fail => .err .user
        | .ok (user, pos) =>
          match readLenEncInt data pos with
          | .panic => .panic
          | .fail => .err .authlen
          | .ok (l, pos, _) =>
            let authR :=
              if hasFlag cap clientPluginAuthLenencClientData || hasFlag cap clientSecureConnection then
                readBytes data pos (u64ToInt l)
              else readNull data pos
            match authR with
            | .panic => .panic
            | .fail => .err .auth
            | .ok (auth, pos) => hsDbPart proxyPlugin second cap coll.toNat user auth data pos

/-- The loop `for i := range clientResp { clientResp[i] ^= hash[i] }` of
    `CheckHashPassword`, from index `i` on (`hash` is the 20-byte SHA1 digest;
    its value is not modelled, only its length). -/
def xorLoop (hash : Bytes) : Bytes → Nat → R Unit
  | [], _ => .ok ()
  | _ :: rest, i =>
    match goIdx hash i with
    | .ok _ => xorLoop hash rest (i + 1)
    | .fail => .fail
    | .panic => .panic

/-- `mysql.CheckHashPassword(clientResp, scramble, encryptPassword)`: does it
    return (`ok`) or panic.  `encLen = len(encryptPassword)`. -/
def checkHashPassword (v : Variant) (clientResp hash : Bytes) (encLen : Nat) : R Unit :=
  if encLen == 0 then .ok ()
  else if v.hashLenGuard && clientResp.length != hash.length then .ok ()
  else xorLoop hash clientResp 0

/-- SHA1 digests are 20 bytes long. -/
def sha1Len : Nat := 20

/-- Which password check `Session.handleHandshakeResponse` runs, as far as
    panics go.  `known user` = `Manager.CheckUser`; `hashed user` = the user has
    a stored password of the form `*` + 40 hex digits (then
    `UserManager.CheckHashPassword` calls `mysql.CheckHashPassword` with the
    40 digits). -/
def handleHandshakeAuth (v : Variant) (known hashed : Bytes → Bool) (i : HsInfo) : R Unit :=
  if !known i.user then .ok ()          -- access denied
  else if i.plugin.length == 0 then
    if i.auth.length == 32 then .ok ()  -- CheckSha2Password: bytes.Equal only
    else if hashed i.user then checkHashPassword v i.auth (List.replicate sha1Len 0) 40
    else .ok ()                         -- CheckPassword: bytes.Equal only
  else .ok ()                           -- CheckSha2Password / CheckPassword

/-! ### prepared statements -/

/-- What one slot of `Stmt.args` holds, as far as control flow depends on it. -/
inductive Arg where
  | none    -- nil
  | bytes   -- a []byte (long data, string-typed values, formatted dates)
  | other   -- any other Go value (integers, floats)
  deriving Repr, DecidableEq

structure Stmt where
  paramCount : Nat
  args : List Arg
  paramTypes : Bytes
  deriving Repr, DecidableEq

/-- `SessionExecutor.stmts` (a `map[uint32]*Stmt`) and the `stmtID` counter. -/
structure Sess where
  stmts : List (Nat × Stmt)
  stmtID : Nat
  deriving Repr, DecidableEq

def Sess.init : Sess := ⟨[], 0⟩

def lookupStmt (m : List (Nat × Stmt)) (id : Nat) : Option Stmt :=
  match m with
  | [] => none
  | (k, s) :: rest => if k = id then some s else lookupStmt rest id

def storeStmt (m : List (Nat × Stmt)) (id : Nat) (s : Stmt) : List (Nat × Stmt) :=
  match m with
  | [] => [(id, s)]
  | (k, s') :: rest => if k = id then (id, s) :: rest else (k, s') :: storeStmt rest id s

def deleteStmt (m : List (Nat × Stmt)) (id : Nat) : List (Nat × Stmt) :=
  match m with
  | [] => []
  | (k, s') :: rest => if k = id then rest else (k, s') :: deleteStmt rest id

/-- `Stmt.ResetParams`. -/
def Stmt.reset (s : Stmt) : Stmt := { s with args := List.replicate s.paramCount Arg.none }

inductive ErrTag where
  | malform | flag | ftype | datelen | dtlen | timelen | lenenc | nodbname | unknowncmd
  | longtype | nostmt | wrongargs | nodb
  | floatval   -- "Stmt invalid float parameter value": a FLOAT / DOUBLE parameter that is NaN or an infinity
  deriving Repr, DecidableEq

/-- What the session writes in answer to one command packet. -/
inductive Resp where
  | none                 -- nothing (COM_QUIT, COM_STMT_CLOSE, COM_STMT_SEND_LONG_DATA)
  | ok
  | eof
  | q                    -- the command reached handleQuery (result or error, decided by the SQL layer)
  | fl                   -- the field-list request reached the backend
  | prep (id n : Nat)    -- prepare-OK: statement id and number of parameters
  | err (t : ErrTag)
  | unmodelled           -- prepare text outside the modelled alphabet
  | panic
  deriving Repr, DecidableEq

/-- Outcome of `bindStmtArgs`: the argument vector (also when it fails: the
    slots bound so far stay written) and how it ended. -/
inductive BindEnd where
  | done | err (t : ErrTag) | panic
  deriving Repr, DecidableEq

/-- Go's `args[i] = x` on a slice of length `args.length`. -/
def setArg (args : List Arg) (i : Nat) (a : Arg) : Option (List Arg) :=
  if i < args.length then some (args.set i a) else none

/-- `FormatBinaryDate(n, data)`: `ok` / error / panic (indexing only). -/
def formatBinaryDate (n : Nat) (data : Bytes) : R Unit :=
  if n == 0 then .ok ()
  else if n == 4 || n == 7 then do
    let _ ← goSlice data 0 2
    let _ ← goIdx data 2
    let _ ← goIdx data 3
    .ok ()
  else if n == 10 then .ok ()
  else .fail

/-- `FormatBinaryDateTime(n, data)`. -/
def formatBinaryDateTime (n : Nat) (data : Bytes) : R Unit :=
  if n == 0 then .ok ()
  else if n == 4 then do
    let _ ← goSlice data 0 2
    let _ ← goIdx data 2
    let _ ← goIdx data 3
    .ok ()
  else if n == 7 then do
    let _ ← goSlice data 0 2
    let _ ← goIdx data 2
    let _ ← goIdx data 3
    let _ ← goIdx data 4
    let _ ← goIdx data 5
    let _ ← goIdx data 6
    .ok ()
  else if n == 11 then do
    let _ ← goSlice data 0 2
    let _ ← goIdx data 2
    let _ ← goIdx data 3
    let _ ← goIdx data 4
    let _ ← goIdx data 5
    let _ ← goIdx data 6
    let _ ← goSlice data 7 11
    .ok ()
  else if n == 19 || n == 26 then .ok ()
  else .fail

/-- `FormatBinaryTime(n, data)`. -/
def formatBinaryTime (n : Nat) (data : Bytes) : R Unit :=
  if n == 0 then .ok ()
  else do
    let b0 ← goIdx data 0
    if n == 1 && b0 == 0 then .ok ()
    else do
      -- `if data[0] == 1` (sign)
      let _ ← goIdx data 0
      if n == 8 then do
        let _ ← goIdx data 1
        let _ ← goIdx data 5
        let _ ← goIdx data 6
        let _ ← goIdx data 7
        .ok ()
      else if n == 12 then do
        let _ ← goIdx data 1
        let _ ← goIdx data 5
        let _ ← goIdx data 6
        let _ ← goIdx data 7
        let _ ← goSlice data 8 12
        .ok ()
      else .fail

/-- The three temporal kinds `bindStmtArgs` distinguishes. -/
inductive Temporal where
  | date | time | datetime
  deriving Repr, DecidableEq

def Temporal.format : Temporal → Nat → Bytes → R Unit
  | .date => formatBinaryDate
  | .time => formatBinaryTime
  | .datetime => formatBinaryDateTime

def Temporal.lenErr : Temporal → ErrTag
  | .date => .datelen
  | .time => .timelen
  | .datetime => .dtlen

/-- How `bindStmtArgs` treats a parameter type byte. -/
inductive TypeClass where
  | null
  | fixed (width : Nat)
  | float (width : Nat)
  | temporal (t : Temporal)
  | str
  | unknown
  deriving Repr, DecidableEq

def typeClass (tp : UInt8) : TypeClass :=
  if tp == 6 then .null
  else if tp == 1 then .fixed 1
  else if tp == 2 || tp == 13 then .fixed 2
  else if tp == 9 || tp == 3 then .fixed 4
  else if tp == 8 then .fixed 8
  else if tp == 4 then .float 4
  else if tp == 5 then .float 8
  else if tp == 10 || tp == 14 then .temporal .date
  else if tp == 11 then .temporal .time
  else if tp == 7 || tp == 12 then .temporal .datetime
  else if tp == 0 || tp == 0xf6 || tp == 15 || tp == 16 || tp == 0xf7 || tp == 0xf8 || tp == 0xf9
      || tp == 0xfa || tp == 0xfb || tp == 0xfc || tp == 0xfd || tp == 0xfe || tp == 0xff || tp == 0xf5 then .str
  else .unknown

/-- Decoding of one parameter value: the slot's new content and the new
    `pos`, an error return, or a panic. -/
inductive ValEnd where
  | ok (a : Arg) (pos : Int)
  | err (t : ErrTag)
  | panic
  deriving Repr, DecidableEq

/-- The fixed-width cases (`TypeTiny` … `TypeDouble`): `w` bytes at `pos`. -/
def bindFixed (paramValues : Bytes) (pos : Int) (w : Nat) : ValEnd :=
  if (paramValues.length : Int) < pos + w then .err .malform
  else
    match goSlice paramValues pos (pos + w) with
    | .ok _ => .ok .other (pos + w)
    | _ => .panic

/-- `TypeFloat` / `TypeDouble`: `w` bytes at `pos`; a value whose exponent bits
    are all set (NaN, ±Inf) is rejected (`math.IsNaN(f) || math.IsInf(f, 0)`;
    widening a float32 to float64 keeps NaN and the infinities). -/
def bindFloat (paramValues : Bytes) (pos : Int) (w : Nat) : ValEnd :=
  if (paramValues.length : Int) < pos + w then .err .malform
  else
    match goSlice paramValues pos (pos + w) with
    | .ok s =>
      let bits := leNat s
      if (w == 4 && (bits / 2 ^ 23) % 256 == 255) || (w == 8 && (bits / 2 ^ 52) % 2048 == 2047) then .err .floatval
      else .ok .other (pos + w)
    | _ => .panic

/-- The cases `TypeDate/NewDate`, `TypeDuration`, `TypeTimestamp/Datetime`: a
    length byte, then that many bytes handed to `FormatBinary…`. -/
def bindTemporal (v : Variant) (t : Temporal) (paramValues : Bytes) (pos : Int) : ValEnd :=
  if (paramValues.length : Int) < pos + 1 then .err .malform
  else
    match goIdx paramValues pos with
    | .ok nb =>
      let n : Nat := nb.toNat
      let pos := pos + 1
      if v.dateGuard && (paramValues.length : Int) < pos + n then .err .malform
      else
        match goSlice paramValues pos (pos + n) with
        | .ok d =>
          match t.format n d with
          | .ok _ => .ok .bytes (pos + n)
          | .fail => .err t.lenErr
          | .panic => .panic
        | _ => .panic
    | _ => .panic

/-- The string-like cases: a length-encoded string. -/
def bindStr (paramValues : Bytes) (pos : Int) : ValEnd :=
  if (paramValues.length : Int) < pos + 1 then .err .malform
  else
    match readLenEncStringAsBytes paramValues pos with
    | .panic => .panic
    | .fail => .err .lenenc
    | .ok (_, pos, isNull) => .ok (if isNull then .none else .bytes) pos

/-- The `switch tp` of `bindStmtArgs`. -/
def bindValue (v : Variant) (tc : TypeClass) (paramValues : Bytes) (pos : Int) : ValEnd :=
  match tc with
  | .null => .ok .none pos
  | .fixed w => bindFixed paramValues pos w
  | .float w => bindFloat paramValues pos w
  | .temporal t => bindTemporal v t paramValues pos
  | .str => bindStr paramValues pos
  | .unknown => .err .ftype

/-- `args[i] = a; continue`. -/
def storeArg (args : List Arg) (i : Nat) (a : Arg) (pos : Int) : Except (List Arg × BindEnd) (List Arg × Int) :=
  match setArg args i a with
  | none => .error (args, .panic)
  | some args' => .ok (args', pos)

/-- One iteration of the loop of `bindStmtArgs` for parameter `i`: new argument
    vector and new `pos`, or the end of the function. -/
def bindOne (v : Variant) (nullBitmap paramTypes paramValues : Bytes) (args : List Arg) (i : Nat) (pos : Int) :
    Except (List Arg × BindEnd) (List Arg × Int) :=
  match goIdx nullBitmap (i / 8) with
  | .ok nb =>
    if (nb.toNat / 2 ^ (i % 8)) % 2 == 1 then storeArg args i .none pos
    else if 2 * i + 1 ≥ paramTypes.length then .error (args, .err .malform)
    else
      match goIdx paramTypes (2 * i), goIdx paramTypes (2 * i + 1) with
      | .ok tp, .ok _ =>
        match args[i]? with
        | none => .error (args, .panic)        -- s.args[i] out of range
        | some .none =>
          match bindValue v (typeClass tp) paramValues pos with
          | .ok a pos' => storeArg args i a pos'
          | .err t => .error (args, .err t)
          | .panic => .error (args, .panic)
        | some _ => .ok (args, pos)            -- already holds a value: skipped
      | _, _ => .error (args, .panic)
  | _ => .error (args, .panic)

/-- The loop of `bindStmtArgs` from parameter `i` on, `k` parameters left. -/
def bindLoop (v : Variant) (nullBitmap paramTypes paramValues : Bytes) :
    Nat → Nat → List Arg → Int → List Arg × BindEnd
  | 0, _, args, _ => (args, .done)
  | k + 1, i, args, pos =>
    match bindOne v nullBitmap paramTypes paramValues args i pos with
    | .error e => e
    | .ok (args, pos) => bindLoop v nullBitmap paramTypes paramValues k (i + 1) args pos

/-- `SessionExecutor.bindStmtArgs(s, nullBitmap, paramTypes, paramValues)`. -/
def bindStmtArgs (v : Variant) (s : Stmt) (nullBitmap paramTypes paramValues : Bytes) : List Arg × BindEnd :=
  bindLoop v nullBitmap paramTypes paramValues s.paramCount 0 s.args 0

/-- State of the statement after `handleStmtExecute` leaves through an error
    return that follows the statement lookup. -/
def afterFailedExecute (v : Variant) (s : Stmt) : Stmt := if v.resetEarly then s.reset else s

/-- `bindStmtArgs` + `GetRewriteSQL` + `handleQuery` at the end of
    `handleStmtExecute`: the statement afterwards and the answer. -/
def executeBind (v : Variant) (s : Stmt) (nullBitmaps paramValues : Bytes) : Stmt × Resp :=
  match bindStmtArgs v s nullBitmaps s.paramTypes paramValues with
  | (args, .done) => (({ s with args := args }).reset, .q)      -- deferred ResetParams after handleQuery
  | (args, .err t) => (afterFailedExecute v { s with args := args }, .err t)
  | (args, .panic) => ({ s with args := args }, .panic)

/-- The branch `paramNum > 0` of `handleStmtExecute` (`pos` is 9 on entry). -/
def executeParams (v : Variant) (s : Stmt) (data : Bytes) : Stmt × Resp :=
  let nullBitmapLen : Nat := (s.paramCount + 7) / 8
  if (data.length : Int) < 9 + nullBitmapLen + 1 then (afterFailedExecute v s, .err .malform)
  else
    match goSlice data 9 (9 + nullBitmapLen), goIdx data (9 + nullBitmapLen) with
    | .ok nullBitmaps, .ok bound =>
      if bound == 1 then
        -- new-params-bound flag: the types follow, then the values
        let pos : Int := 9 + nullBitmapLen + 1
        if (data.length : Int) < pos + 2 * s.paramCount then (afterFailedExecute v s, .err .malform)
        else
          match goSlice data pos (pos + 2 * s.paramCount), goSlice data (pos + 2 * s.paramCount) data.length with
          | .ok paramTypes, .ok paramValues => executeBind v { s with paramTypes := paramTypes } nullBitmaps paramValues
          | _, _ => (s, .panic)
      else
        match goSlice data (9 + nullBitmapLen + 1) data.length with
        | .ok paramValues => executeBind v s nullBitmaps paramValues
        | _ => (s, .panic)
    | _, _ => (s, .panic)

/-- `handleStmtExecute` after the statement lookup (`len(data) ≥ 9`). -/
def executeStmt (v : Variant) (s : Stmt) (data : Bytes) : Stmt × Resp :=
  match goIdx data 4 with
  | .ok fb =>
    if fb.toNat % 2 != 0 then (afterFailedExecute v s, .err .flag)   -- data[pos] & CursorTypeReadOnly
    else if s.paramCount > 0 then executeParams v s data
    else (s.reset, .q)
  | _ => (s, .panic)

/-- `SessionExecutor.handleStmtExecute(reqCtx, data)`. -/
def handleStmtExecute (v : Variant) (st : Sess) (data : Bytes) : Sess × Resp :=
  if data.length < 9 then (st, .err .malform) else
  match goSlice data 0 4 with
  | .ok idb =>
    let id := leNat idb
    match lookupStmt st.stmts id with
    | none => (st, .err .nostmt)
    | some s =>
      match executeStmt v s data with
      | (s', r) => ({ st with stmts := storeStmt st.stmts id s' }, r)
  | _ => (st, .panic)

/-- `SessionExecutor.handleStmtSendLongData(data)`. -/
def handleStmtSendLongData (st : Sess) (data : Bytes) : Sess × Resp :=
  if data.length < 6 then (st, .err .malform) else
  match goSlice data 0 4, goSlice data 4 6 with
  | .ok idb, .ok pb =>
    let id := leNat idb
    match lookupStmt st.stmts id with
    | none => (st, .err .nostmt)
    | some s =>
      let paramID := leNat pb
      if paramID ≥ s.paramCount % 65536 then (st, .err .wrongargs)
      else
        match s.args[paramID]? with
        | none => (st, .panic)
        | some .none =>
          match goSlice data 6 data.length with
          | .ok _ => ({ st with stmts := storeStmt st.stmts id { s with args := s.args.set paramID .bytes } }, .none)
          | _ => (st, .panic)
        | some .bytes =>
          match goSlice data 6 data.length with
          | .ok _ => (st, .none)
          | _ => (st, .panic)
        | some .other => (st, .err .longtype)
  | _, _ => (st, .panic)

/-- `SessionExecutor.handleStmtReset(data)`. -/
def handleStmtReset (st : Sess) (data : Bytes) : Sess × Resp :=
  if data.length < 4 then (st, .err .malform) else
  match goSlice data 0 4 with
  | .ok idb =>
    let id := leNat idb
    match lookupStmt st.stmts id with
    | none => (st, .err .nostmt)
    | some s => ({ st with stmts := storeStmt st.stmts id s.reset }, .ok)
  | _ => (st, .panic)

/-- `SessionExecutor.handleStmtClose(data)`. -/
def handleStmtClose (st : Sess) (data : Bytes) : Sess × Resp :=
  if data.length < 4 then (st, .none) else
  match goSlice data 0 4 with
  | .ok idb => ({ st with stmts := deleteStmt st.stmts (leNat idb) }, .none)
  | _ => (st, .panic)

/-- Bytes a generated prepare text may contain: on them the number of
    parameters is the number of `?` for both the pinned and the repaired
    `CalcParams` (no quotes, back-quotes, backslashes, `#`, `-`, `/`, `*`). -/
def plainSqlByte (b : UInt8) : Bool :=
  b == 0x20 || b == 0x2c || b == 0x3f || b == 0x3d || b == 0x28 || b == 0x29 || b == 0x3b ||
  (0x30 ≤ b && b ≤ 0x39) || (0x61 ≤ b && b ≤ 0x7a) || (0x41 ≤ b && b ≤ 0x5a) || b == 0x5f

/-- `SessionExecutor.handleStmtPrepare(sql)` for text over `plainSqlByte`. -/
def handleStmtPrepare (st : Sess) (sql : Bytes) : Sess × Resp :=
  if !sql.all plainSqlByte then (st, .unmodelled) else
  let n := sql.count 0x3f
  let id := st.stmtID
  let s : Stmt := ⟨n, List.replicate n Arg.none, []⟩
  ({ stmts := storeStmt st.stmts id s, stmtID := (st.stmtID + 1) % 2 ^ 32 }, .prep id (n % 65536))

def indexByteZero : Bytes → Option Nat := indexZero

/-- `SessionExecutor.handleFieldList(reqCtx, data)` up to the backend request. -/
def handleFieldList (data : Bytes) : Resp :=
  match indexByteZero data with
  | none => .err .malform
  | some index =>
    match goSlice data 0 index, goSlice data (index + 1) data.length with
    | .ok _, .ok _ => .fl
    | _, _ => .panic

def asciiLower (b : UInt8) : UInt8 := if 0x41 ≤ b && b ≤ 0x5a then b + 32 else b

/-- `if util.LowerEqual(dbName, informationSchemaDB) { dbName = informationSchemaDB }` -/
def normDB (dbName : Bytes) : Bytes :=
  let info := "information_schema".toUTF8.toList
  if dbName.length == info.length && dbName.map asciiLower == info then info else dbName

/-- `SessionExecutor.handleUseDB(dbName)` for a non-admin user of a namespace
    whose `allowedDBs` are `allowed` (the effect on `se.db` is not modelled: no
    modelled decoder reads it). -/
def handleUseDB (allowed : List Bytes) (dbName : Bytes) : Resp :=
  if dbName.length == 0 then .err .nodbname
  else if allowed.contains (normDB dbName) then .ok else .err .nodb

/-- `SessionExecutor.ExecuteCommand(cmd, data)`. -/
def executeCommand (v : Variant) (allowed : List Bytes) (st : Sess) (cmd : UInt8) (data : Bytes) : Sess × Resp :=
  if cmd == comQuit then (st, .none)
  else if cmd == comQuery then (st, .q)
  else if cmd == comPing then (st, .ok)
  else if cmd == comInitDB then (st, handleUseDB allowed data)
  else if cmd == comFieldList then (st, handleFieldList data)
  else if cmd == comStmtPrepare then
    -- strings.TrimRight(sql, ";") does not change the number of '?'
    handleStmtPrepare st data
  else if cmd == comStmtExecute then handleStmtExecute v st data
  else if cmd == comStmtClose then handleStmtClose st data
  else if cmd == comStmtSendLongData then handleStmtSendLongData st data
  else if cmd == comStmtReset then handleStmtReset st data
  else if cmd == comSetOption then (st, .eof)
  else (st, .err .unknowncmd)

/-! ### the session goroutine -/

/-- How `Session.Run` stops on a script of packets. -/
inductive RunEnd where
  | open      -- every packet was served; the session waits for the next one
  | closed    -- the session closed the connection itself (COM_QUIT)
  | panicked  -- a panic unwinds the loop
  deriving Repr, DecidableEq

/-- The command loop of `Session.Run` on the payloads of the packets a client
    sends (an empty payload is a zero-length packet). -/
def run (v : Variant) (allowed : List Bytes) : Sess → List Bytes → Sess × List Resp × RunEnd
  | st, [] => (st, [], .open)
  | st, [] :: rest =>
    -- zero-length packet: answered with an error (no command byte to index)
    let (st', rs, e) := run v allowed st rest
    (st', .err .malform :: rs, e)
  | st, (cmd :: data) :: rest =>
    match executeCommand v allowed st cmd data with
    | (st', .panic) => (st', [], .panicked)
    | (st', r) =>
      if cmd == comQuit then (st', [r], .closed)
      else
        let (st'', rs, e) := run v allowed st' rest
        (st'', r :: rs, e)

/-- Which goroutine roots on the client path install a deferred `recover`
    (translator facts). -/
structure Roots where
  onConn : Bool
  sessionRun : Bool
  deriving Repr, DecidableEq

/-- What a connection's goroutine does to the process. -/
inductive ConnEnd where
  | open | closed
  | recovered   -- a panic was caught at a goroutine root: the connection is closed, the process lives on
  | crash       -- a panic left the goroutine: the process terminates
  deriving Repr, DecidableEq

/-- `Server.onConn` after a successful handshake: `Session.Run` inside the
    goroutine started by `go s.onConn(conn)`. -/
def connCommandPhase (roots : Roots) (v : Variant) (allowed : List Bytes) (st : Sess) (pkts : List Bytes) :
    Sess × List Resp × ConnEnd :=
  match run v allowed st pkts with
  | (st', rs, .open) => (st', rs, .open)
  | (st', rs, .closed) => (st', rs, .closed)
  | (st', rs, .panicked) => (st', rs, if roots.sessionRun || roots.onConn then .recovered else .crash)

/-- `Server.onConn` during the handshake: decode, then authenticate. -/
def connHandshakePhase (roots : Roots) (v : Variant) (known hashed : Bytes → Bool) (proxyPlugin data : Bytes)
    (second : Option Bytes) : HsOut × ConnEnd :=
  match readHandshakeResponse proxyPlugin data second with
  | .panic => (.panic, if roots.onConn then .recovered else .crash)
  | .err e => (.err e, .closed)
  | .info i =>
    match handleHandshakeAuth v known hashed i with
    | .panic => (.panic, if roots.onConn then .recovered else .crash)
    | _ => (.info i, .open)

/-! ### several connections in one process

  One step = one client packet served to completion by the goroutine of its
  connection (the decoders above touch nothing but the session's own state:
  translator fact `Gen.c38SharedWrites = []`). -/

/-- A connection in its command phase. -/
structure Conn where
  st : Sess
  /-- the goroutine has ended (COM_QUIT, or a recovered panic) -/
  ended : Bool
  deriving Repr, DecidableEq

/-- One iteration of the loop of `Session.Run`: the new connection state, what
    is written back (`none` when the connection has ended or ends by a panic)
    and whether a panic unwinds the goroutine. -/
def stepConn (v : Variant) (allowed : List Bytes) (c : Conn) (p : Bytes) : Conn × Option Resp × Bool :=
  if c.ended then (c, none, false) else
  match p with
  | [] => (c, some (.err .malform), false)
  | cmd :: data =>
    match executeCommand v allowed c.st cmd data with
    | (st', .panic) => (⟨st', true⟩, none, true)
    | (st', r) => (⟨st', cmd == comQuit⟩, some r, false)

/-- The process: every connection's state, what each connection has been sent
    back so far (latest first), and whether the process has terminated. -/
structure World where
  conns : Nat → Conn
  sent : Nat → List Resp
  crashed : Bool

/-- Connection `i` receives packet `p`. -/
def World.step (roots : Roots) (v : Variant) (allowed : List Bytes) (w : World) (i : Nat) (p : Bytes) : World :=
  if w.crashed then w else
  match stepConn v allowed (w.conns i) p with
  | (c', out, panicked) =>
    { conns := fun j => if j = i then c' else w.conns j
      sent := fun j => if j = i then (match out with | some r => r :: w.sent j | none => w.sent j) else w.sent j
      crashed := panicked && !(roots.sessionRun || roots.onConn) }

/-- A whole interleaving of packets of several connections. -/
def World.run (roots : Roots) (v : Variant) (allowed : List Bytes) : World → List (Nat × Bytes) → World
  | w, [] => w
  | w, (i, p) :: rest => World.run roots v allowed (World.step roots v allowed w i p) rest

/-- Connection `i` alone: its state and what it is sent back for the packets `ps`. -/
def aloneRun (v : Variant) (allowed : List Bytes) : Conn → List Resp → List Bytes → Conn × List Resp
  | c, acc, [] => (c, acc)
  | c, acc, p :: ps =>
    match stepConn v allowed c p with
    | (c', some r, _) => aloneRun v allowed c' (r :: acc) ps
    | (c', none, _) => aloneRun v allowed c' acc ps

/-! ### what the wire protocol alone calls malformed (used by the property oracle) -/

def knownCommand (c : UInt8) : Bool :=
  c == comQuit || c == comInitDB || c == comQuery || c == comFieldList || c == comPing || c == comStmtPrepare ||
  c == comStmtExecute || c == comStmtSendLongData || c == comStmtClose || c == comStmtReset || c == comSetOption

/-- Is this packet malformed whatever the decoders do: no command byte, a
    command the proxy does not serve, an execute / reset packet shorter than its
    fixed header or naming a statement id that is not live (`live` = the ids the
    server has announced and the client has not closed), a field-list request
    without the NUL after the table name. -/
def specMalformed (live : List Nat) (p : Bytes) : Bool :=
  match p with
  | [] => true
  | c :: d =>
    if !knownCommand c then true
    else if c == comStmtExecute then d.length < 9 || !live.contains (leNat (d.take 4))
    else if c == comStmtReset then d.length < 4 || !live.contains (leNat (d.take 4))
    else if c == comFieldList then !d.contains 0
    else false

end GaeaVerif.Crash
