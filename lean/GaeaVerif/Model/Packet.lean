import GaeaVerif.Model.Go
/-
  Model of the MySQL packet framing of /repo/mysql/conn.go (C11; the frame
  layer under C39): `Conn.WritePacket`, `Conn.readHeaderFrom`,
  `Conn.readOnePacket`, `Conn.readPacket` (= `ReadPacket`) and
  `Conn.ReadEphemeralPacket`.

  * The frame limit is a parameter `M` (`MaxPacketSize` in the source, extracted
    as `Gen.maxPacketSize` on every run); theorems hold for every `M`.
  * The sequence id is a `uint8` (`UInt8`, wraps at 256).
  * The transport is a byte stream: `Conn.input` is what the peer's side of the
    connection will still deliver before EOF.  `io.ReadFull` either takes
    exactly `n` bytes off that stream or fails; how the stream is cut into
    `Read` calls (and the `bufio.Reader` in between) is not modelled — the
    correspondence check fragments the stream at random points to tie this
    abstraction to the code.
  * Writes to the transport are assumed to succeed (`w.Write` returns
    `len, nil`); the error returns of `WritePacket` are not modelled.
  * The `currentEphemeralPolicy` bookkeeping of `ReadEphemeralPacket` (a panic
    when two ephemeral reads are not separated by `RecycleReadPacket`) is a
    calling convention, not modelled.
  Core Lean only.
-/
namespace GaeaVerif.Packet
open GaeaVerif

/-- One frame as it travels: the 3-byte length field, the sequence byte and
    the body. -/
structure Frame where
  len : Nat
  seq : UInt8
  body : Bytes
  deriving Repr, BEq, DecidableEq

/-- The header `WritePacket` builds:
    `byte(n), byte(n>>8), byte(n>>16), c.sequence`. -/
def header (n : Nat) (seq : UInt8) : Bytes := leBytes n 3 ++ [seq]

def Frame.encode (f : Frame) : Bytes := header f.len f.seq ++ f.body

/-- Bytes on the wire for a list of frames. -/
def wire : List Frame → Bytes
  | [] => []
  | f :: fs => f.encode ++ wire fs

/-- The payload a list of frames carries. -/
def bodies : List Frame → Bytes
  | [] => []
  | f :: fs => f.body ++ bodies fs

/-- Go's `data[lo:hi]` with non-negative bounds: panics unless
    `lo ≤ hi ≤ len(data)`. -/
def slice (d : Bytes) (lo hi : Nat) : R Bytes :=
  if lo ≤ hi ∧ hi ≤ d.length then .ok ((d.drop lo).take (hi - lo)) else .panic

/-! ### Conn.WritePacket -/

/-- The `for` loop of `WritePacket`; `index`, `length`, `seq` are the loop
    variables.  Returns the frames written and `c.sequence` afterwards.
    `fuel` bounds the iterations (the Go loop does not terminate for
    `MaxPacketSize = 0`); `fail` = out of fuel, proved unreachable for
    `M > 0` (`C11.writePacket_ok`). -/
def writeLoop (M : Nat) : Nat → Bytes → Nat → Nat → UInt8 → R (List Frame × UInt8)
  | 0, _, _, _, _ => .fail
  | fuel + 1, data, index, length, seq =>
    -- packetLength := length; if packetLength > MaxPacketSize { packetLength = MaxPacketSize }
    let packetLength := if length > M then M else length
    -- buf.Write(data[index : index+packetLength])
    match slice data index (index + packetLength) with
    | .ok body =>
      let f : Frame := ⟨packetLength, seq, body⟩
      -- c.sequence++ ; length -= packetLength
      let seq1 := seq + 1
      let length1 := length - packetLength
      if length1 = 0 then
        if packetLength = M then
          -- a packet of exactly MaxPacketSize is followed by an empty one
          .ok ([f, ⟨0, seq1, []⟩], seq1 + 1)
        else .ok ([f], seq1)
      else
        -- index += packetLength
        match writeLoop M fuel data (index + packetLength) length1 seq1 with
        | .ok (fs, s) => .ok (f :: fs, s)
        | .fail => .fail
        | .panic => .panic
    | _ => .panic

/-- `Conn.WritePacket(data)` with `c.sequence = seq`. -/
def writePacket (M : Nat) (data : Bytes) (seq : UInt8) : R (List Frame × UInt8) :=
  writeLoop M (data.length + 1) data 0 data.length seq

/-! ### readers -/

/-- Reader side of a connection: the expected sequence id and the bytes the
    transport will still deliver. -/
structure Conn where
  seq : UInt8
  input : Bytes
  deriving Repr, BEq, DecidableEq

inductive Err where
  /-- the 4 header bytes could not be read (`ErrBadConn`) -/
  | badConn
  /-- `invalid sequence, expected … got …` -/
  | invalidSeq
  /-- `io.ReadFull(packet body of length …) failed` -/
  | body
  /-- out of fuel; unreachable (`C11.readPacket_fuel`) -/
  | fuel
  deriving Repr, BEq, DecidableEq

/-- `io.ReadFull(r, buf)` with `len(buf) = n`. -/
def readFull (s : Bytes) (n : Nat) : Option (Bytes × Bytes) :=
  if n ≤ s.length then some (s.take n, s.drop n) else none

/-- `Conn.readHeaderFrom` (as repaired: the sequence id of every frame,
    empty or not, is checked). Returns the length field. -/
def readHeaderFrom (c : Conn) : Except Err (Nat × Conn) :=
  match c.input with
  | b0 :: b1 :: b2 :: b3 :: rest =>
    -- length := int(uint32(header[0]) | uint32(header[1])<<8 | uint32(header[2])<<16)
    let length := leNat [b0, b1, b2]
    if b3 ≠ c.seq then .error .invalidSeq
    else .ok (length, { seq := c.seq + 1, input := rest })
  | _ => .error .badConn

/-- `Conn.readOnePacket`. -/
def readOnePacket (c : Conn) : Except Err (Bytes × Conn) :=
  match readHeaderFrom c with
  | .error e => .error e
  | .ok (length, c1) =>
    if length = 0 then .ok ([], c1)
    else
      match readFull c1.input length with
      | none => .error .body
      | some (d, rest) => .ok (d, { c1 with input := rest })

/-- The continuation loop shared by `readPacket` and `ReadEphemeralPacket`:
    `for { next := readOnePacket(); if len(next)==0 {break};
           data = append(data, next...); if len(next) < MaxPacketSize {break} }`. -/
def readMore (M : Nat) : Nat → Bytes → Conn → Except Err (Bytes × Conn)
  | 0, _, _ => .error .fuel
  | fuel + 1, data, c =>
    match readOnePacket c with
    | .error e => .error e
    | .ok (next, c1) =>
      if next.length = 0 then .ok (data, c1)
      else if next.length < M then .ok (data ++ next, c1)
      else readMore M fuel (data ++ next) c1

/-- `Conn.readPacket` / `Conn.ReadPacket`. -/
def readPacket (M : Nat) (c : Conn) : Except Err (Bytes × Conn) :=
  match readOnePacket c with
  | .error e => .error e
  | .ok (data, c1) =>
    if data.length < M then .ok (data, c1)
    else readMore M (c1.input.length + 1) data c1

/-- `Conn.ReadEphemeralPacket`: pooled buffer for a first frame shorter than
    `MaxPacketSize`, concatenating path otherwise. -/
def readEphemeralPacket (M : Nat) (c : Conn) : Except Err (Bytes × Conn) :=
  match readHeaderFrom c with
  | .error e => .error e
  | .ok (length, c1) =>
    if length = 0 then .ok ([], c1)
    else if length < M then
      -- bufPool.Get(length); io.ReadFull(r, *c.currentEphemeralBuffer)
      match readFull c1.input length with
      | none => .error .body
      | some (d, rest) => .ok (d, { c1 with input := rest })
    else
      match readFull c1.input length with
      | none => .error .body
      | some (data, rest) => readMore M (rest.length + 1) data { c1 with input := rest }

end GaeaVerif.Packet
