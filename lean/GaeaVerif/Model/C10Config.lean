import GaeaVerif.Model.Go
/-
  Model for C10 (accepted configurations load and give an unambiguous routing
  table).  Transliterates, function by function,

    models/namespace.go   Namespace.Verify (verifySlices, verifyEachSlice,
                          verifyDefaultSlice, verifyDefaultSliceExists,
                          verifyShardRules)
    models/slice.go       Slice.verify
    models/shard.go       Shard.verify, getRealDatabases
    models/shard_rule.go  every verify* function
    models/numkey.go      ParseNumSharding, ParseYearRange, ParseMonthRange, ParseDayRange
    proxy/router/router.go   NewRouter
    proxy/router/rule.go     parseRule, parseRuleSliceInfos, parse*RuleSliceInfos,
                             createLinkedRule, getRealDatabases, accessors
    proxy/router/numkey.go   ParseNumSharding, Parse{Year,Month,Day}Range (the lenient copies)
    proxy/router/shard_mycat.go  MycatPartitionLongShard.Init, parseHashSliceStartEnd,
                             NewMycatPartitionMurmurHashShard, GetMycatPartitionPaddingModShard,
                             checkParam and the FindForKey of the mod/long/string/murmur/padding shards
    proxy/router/shard.go    HashValue, NumValue, GetString, HashShard/ModShard/NumRangeShard.FindForKey

  as they are AFTER the repairs (`fix:` commits) listed in known/C10.json
  (including c29cd53: a global rule keeps its configured slices).

  Conventions.  Go strings are `List Char` (`Str`); every string the harness
  generates is ASCII, so byte length = number of characters and `s[a:b]` is
  `take`/`drop` (assumption listed in the evidence).  Go `int` is `Int`; the
  places where 64-bit wrap-around is reachable (`i*TableRowLimit`, `stringHash`,
  `int64(uint64)`, `hack.Abs`) wrap explicitly.  A Go map `map[int]int` is the
  list of its writes in program order (`mapGet`: last write wins, `mapLen`:
  number of distinct keys).  The nested map `map[db]map[table]` of the router is
  a flat association list keyed by `(db, table)` (both "db not found" and
  "table not found" are the same outcome `fail`).  Outcomes are `R`: `ok`,
  `fail` (the function returned an error) and `panic` (a Go run-time panic).
  Core Lean only.
-/
namespace GaeaVerif.C10
open GaeaVerif

abbrev Str := List Char

/-! ## strconv / strings -/

def isDigit (c : Char) : Bool := decide (48 ≤ c.toNat) && decide (c.toNat ≤ 57)

def digitVal (c : Char) : Nat := c.toNat - 48

/-- value of a digit string, most significant digit first -/
def digitsVal (ds : Str) : Nat := ds.foldl (fun acc c => acc * 10 + digitVal c) 0

def allDigits (s : Str) : Bool := s.all isDigit

/-- `strconv.Atoi` / `strconv.ParseInt(s, 10, 64)`: optional sign, at least one
    digit, digits only, value inside int64. -/
def atoiBody (neg : Bool) (ds : Str) : Option Int :=
  if ds.isEmpty || !allDigits ds then none
  else if neg then (if digitsVal ds ≤ 2 ^ 63 then some (-(digitsVal ds : Int)) else none)
  else (if digitsVal ds < 2 ^ 63 then some (digitsVal ds : Int) else none)

def atoi (s : Str) : Option Int :=
  match s with
  | '+' :: r => atoiBody false r
  | '-' :: r => atoiBody true r
  | _ => atoiBody false s

/-- `new(big.Int).SetString(s, 10)`: optional sign, at least one digit, digits
    only (no blanks, no underscores in base 10), no bound on the value. -/
def parseBigBody (neg : Bool) (ds : Str) : Option Int :=
  if ds.isEmpty || !allDigits ds then none
  else if neg then some (-(digitsVal ds : Int)) else some (digitsVal ds : Int)

def parseBigDec (s : Str) : Option Int :=
  match s with
  | '+' :: r => parseBigBody false r
  | '-' :: r => parseBigBody true r
  | _ => parseBigBody false s

/-- `strconv.ParseUint(s, 10, 64)` -/
def parseUint (s : Str) : Option Nat :=
  if s.isEmpty || !allDigits s then none
  else if digitsVal s < 2 ^ 64 then some (digitsVal s) else none

/-- `strconv.Itoa` / `strconv.FormatInt(i, 10)` -/
def itoa (i : Int) : Str :=
  if i < 0 then '-' :: (Nat.repr i.natAbs).toList else (Nat.repr i.toNat).toList

/-- Go's `<` on strings (byte-wise lexicographic; for valid UTF-8 the same as
    code-point-wise). -/
def strLt : Str → Str → Bool
  | [], [] => false
  | [], _ :: _ => true
  | _ :: _, [] => false
  | a :: as, b :: bs =>
    if a.toNat < b.toNat then true else if b.toNat < a.toNat then false else strLt as bs

/-- `strings.Split(s, sep)` for a one-character separator -/
def splitOn (sep : Char) : Str → List Str
  | [] => [[]]
  | c :: cs =>
    if c = sep then [] :: splitOn sep cs
    else match splitOn sep cs with
      | [] => [[c]]
      | h :: t => (c :: h) :: t

/-- `strings.SplitN(s, sep, 2)` for a one-character separator -/
def splitN2 (sep : Char) : Str → List Str
  | [] => [[]]
  | c :: cs =>
    if c = sep then [[], cs]
    else match splitN2 sep cs with
      | [] => [[c]]
      | h :: t => (c :: h) :: t

def toLower (s : Str) : Str := s.map Char.toLower

/-- `unicode.IsSpace` on the Latin-1 range -/
def isSpace (c : Char) : Bool :=
  c.toNat == 9 || c.toNat == 10 || c.toNat == 11 || c.toNat == 12 || c.toNat == 13 ||
  c.toNat == 32 || c.toNat == 0x85 || c.toNat == 0xA0

def trimSpace (s : Str) : Str :=
  ((s.dropWhile isSpace).reverse.dropWhile isSpace).reverse

/-- 64-bit two's-complement wrap of an integer (`int64(x)`) -/
def wrap64 (x : Int) : Int := (x + 2 ^ 63) % 2 ^ 64 - 2 ^ 63

def minInt64 : Int := -(2 ^ 63)
def maxInt64 : Int := 2 ^ 63 - 1

/-! ## configuration types (models.Slice, models.Shard, models.Namespace) -/

structure Slice where
  name : Str
  userName : Str
  master : Str
  slaves : List Str
  capacity : Int
  maxCapacity : Int
  deriving Repr, DecidableEq

structure Shard where
  db : Str
  table : Str
  parentTable : Str
  typ : Str
  key : Str
  locations : List Int
  slices : List Str
  dateRange : List Str
  tableRowLimit : Int
  databases : List Str
  partitionCount : Str
  partitionLength : Str
  hashSlice : Str
  seed : Str
  virtualBucketTimes : Str
  padFrom : Str
  padLength : Str
  modBegin : Str
  modEnd : Str
  deriving Repr, DecidableEq

/-- The part of `models.Namespace` that `verifySlices`, `verifyDefaultSlice`
    and `verifyShardRules` read. -/
structure Namespace where
  slices : List Slice
  defaultSlice : Str
  shardRules : List Shard
  deriving Repr

/-- rule types (`models.Shard*` constants); `unknown` is any other string -/
inductive RT where
  | default | global | linked | mod | hash | range | year | month | day
  | mycatMod | mycatLong | mycatString | mycatMurmur | mycatPadding | unknown
  deriving Repr, DecidableEq

def tDefault : Str := ['d','e','f','a','u','l','t']
def tGlobal : Str := ['g','l','o','b','a','l']
def tLinked : Str := ['l','i','n','k','e','d']
def tMod : Str := ['m','o','d']
def tHash : Str := ['h','a','s','h']
def tRange : Str := ['r','a','n','g','e']
def tYear : Str := ['d','a','t','e','_','y','e','a','r']
def tMonth : Str := ['d','a','t','e','_','m','o','n','t','h']
def tDay : Str := ['d','a','t','e','_','d','a','y']
def tMycatMod : Str := ['m','y','c','a','t','_','m','o','d']
def tMycatLong : Str := ['m','y','c','a','t','_','l','o','n','g']
def tMycatString : Str := ['m','y','c','a','t','_','s','t','r','i','n','g']
def tMycatMurmur : Str := ['m','y','c','a','t','_','m','u','r','m','u','r']
def tMycatPadding : Str := ['m','y','c','a','t','_','p','a','d','d','i','n','g','_','m','o','d']

def rtOf (t : Str) : RT :=
  if t = tDefault then .default else if t = tGlobal then .global else if t = tLinked then .linked
  else if t = tMod then .mod else if t = tHash then .hash else if t = tRange then .range
  else if t = tYear then .year else if t = tMonth then .month else if t = tDay then .day
  else if t = tMycatMod then .mycatMod else if t = tMycatLong then .mycatLong
  else if t = tMycatString then .mycatString else if t = tMycatMurmur then .mycatMurmur
  else if t = tMycatPadding then .mycatPadding else .unknown

/-- `PartitionLength` of models/shard.go and proxy/router/shard_mycat.go -/
def partitionLength : Nat := 1024

/-! ## Go maps `map[int]int` as write logs -/

abbrev IntMap := List (Int × Int)

def distinctCount : List Int → Nat
  | [] => 0
  | a :: l => (if a ∈ l then 0 else 1) + distinctCount l

/-- `len(m)` -/
def mapLen (m : IntMap) : Int := (distinctCount (m.map (·.1)) : Int)

/-- `m[k]` (`none`: absent); the last write wins -/
def mapGet : IntMap → Int → Option Int
  | [], _ => none
  | (k', v) :: rest, k =>
    match mapGet rest k with
    | some x => some x
    | none => if k' = k then some v else none

/-! ## slices of hash / mod / range / mycat / global rules -/

/-- the two nested loops of `verifyHashRuleSliceInfos` / `parseHashRuleSliceInfos`:
    the writes `tableToSlice[j+sumTables] = i` in order (and, for the router,
    the appends to `subTableIndexs`, which are the keys of the same writes);
    `fail` on a negative entry. -/
def hashTables : List Int → Int → Int → R IntMap
  | [], _, _ => .ok []
  | loc :: rest, i, sumTables =>
    if loc < 0 then .fail
    else match hashTables rest (i + 1) (sumTables + loc) with
      | .ok r => .ok ((List.range loc.toNat).map (fun (j : Nat) => ((j : Int) + sumTables, i)) ++ r)
      | .fail => .fail
      | .panic => .panic

/-- models/shard_rule.go verifyHashRuleSliceInfos: the map `tableToSlice` -/
def verifyHashRuleSliceInfos (locations : List Int) (slices : List Str) : R IntMap :=
  if locations.length ≠ slices.length then .fail
  else match hashTables locations 0 0 with
    | .ok t => if locations.sum = 0 then .fail else .ok t
    | .fail => .fail
    | .panic => .panic

/-- proxy/router/rule.go parseHashRuleSliceInfos: `(subTableIndexs, tableToSlice)` -/
def parseHashRuleSliceInfos (locations : List Int) (slices : List Str) : R (List Int × IntMap) :=
  if locations.length ≠ slices.length then .fail
  else match hashTables locations 0 0 with
    | .ok t => if locations.sum = 0 then .fail else .ok (t.map (·.1), t)
    | .fail => .fail
    | .panic => .panic

/-- `\s` of Go's regexp: `[\t\n\f\r ]` -/
def isReSpace (c : Char) : Bool :=
  c.toNat == 9 || c.toNat == 10 || c.toNat == 12 || c.toNat == 13 || c.toNat == 32

/-- `rangeDatabaseRegex = ^(\S+?)\[(\d+)-(\d+)\]$`: the three groups.  The text
    between the last `[` and the final `]` must be `digits-digits`, so the match
    is unique and can be read off from the right. -/
def matchDbRange (s : Str) : Option (Str × Str × Str) :=
  match s.reverse with
  | ']' :: r =>
    match r.dropWhile isDigit with
    | '-' :: r2 =>
      match r2.dropWhile isDigit with
      | '[' :: r3 =>
        if (r.takeWhile isDigit).isEmpty || (r2.takeWhile isDigit).isEmpty || r3.isEmpty
            || r3.any isReSpace then none
        else some (r3.reverse, (r2.takeWhile isDigit).reverse, (r.takeWhile isDigit).reverse)
      | _ => none
    | _ => none
  | _ => none

/-- the inclusive integer interval `lo, lo+1, …, hi` -/
def intRange (lo hi : Int) : List Int :=
  (List.range (hi - lo + 1).toNat).map (fun (k : Nat) => lo + (k : Int))

/-- `getRealDatabases` (identical copies in models/shard.go and proxy/router/rule.go) -/
def getRealDatabases : List Str → R (List Str)
  | [] => .ok []
  | db :: rest =>
    match matchDbRange db with
    | some (pre, l, r) =>
      match atoi l, atoi r with
      | some a, some b =>
        if b ≤ a then .fail
        else match getRealDatabases rest with
          | .ok more => .ok ((intRange a b).map (fun i => pre ++ itoa i) ++ more)
          | .fail => .fail
          | .panic => .panic
      | _, _ => .fail
    | none =>
      match getRealDatabases rest with
      | .ok more => .ok (db :: more)
      | .fail => .fail
      | .panic => .panic

/-- verifyMycatHashRuleSliceInfos -/
def verifyMycatHashRuleSliceInfos (locations : List Int) (slices databases : List Str) : R IntMap :=
  match verifyHashRuleSliceInfos locations slices with
  | .ok t =>
    match getRealDatabases databases with
    | .ok dbs => if mapLen t ≠ dbs.length then .fail else .ok t
    | .fail => .fail
    | .panic => .panic
  | .fail => .fail
  | .panic => .panic

/-- parseMycatHashRuleSliceInfos -/
def parseMycatHashRuleSliceInfos (locations : List Int) (slices databases : List Str) :
    R (List Int × IntMap) :=
  match parseHashRuleSliceInfos locations slices with
  | .ok (idx, t) =>
    match getRealDatabases databases with
    | .ok dbs => if mapLen t ≠ dbs.length then .fail else .ok (idx, t)
    | .fail => .fail
    | .panic => .panic
  | .fail => .fail
  | .panic => .panic

/-- verifyGlobalTableRuleSliceInfos -/
def verifyGlobalTableRuleSliceInfos (locations : List Int) (slices databases : List Str) : R Unit :=
  match verifyHashRuleSliceInfos locations slices with
  | .ok t =>
    if databases.length ≠ 0 then
      match getRealDatabases databases with
      | .ok dbs => if mapLen t ≠ dbs.length then .fail else .ok ()
      | .fail => .fail
      | .panic => .panic
    else .ok ()
  | .fail => .fail
  | .panic => .panic

/-- parseGlobalTableRuleSliceInfos -/
def parseGlobalTableRuleSliceInfos (locations : List Int) (slices databases : List Str) :
    R (List Int × IntMap) :=
  match parseHashRuleSliceInfos locations slices with
  | .ok (idx, t) =>
    if databases.length ≠ 0 then
      match getRealDatabases databases with
      | .ok dbs => if mapLen t ≠ dbs.length then .fail else .ok (idx, t)
      | .fail => .fail
      | .panic => .panic
    else .ok (idx, t)
  | .fail => .fail
  | .panic => .panic

/-- `ParseNumSharding` (identical copies in models/numkey.go and proxy/router/numkey.go):
    the ranges `[i*limit, (i+1)*limit)`; `make` with a negative length panics. -/
def parseNumSharding (locations : List Int) (tableRowLimit : Int) : R (List (Int × Int)) :=
  if tableRowLimit ≤ 0 then .fail
  else if locations.sum < 0 then .panic
  else .ok ((List.range locations.sum.toNat).map fun (i : Nat) =>
    (wrap64 ((i : Int) * tableRowLimit), wrap64 (((i : Int) + 1) * tableRowLimit)))

/-! ## calendar rules -/

def isLeap (y : Nat) : Bool := y % 4 == 0 && (y % 100 != 0 || y % 400 == 0)

def daysIn (m y : Nat) : Nat :=
  if m == 2 then (if isLeap y then 29 else 28)
  else if m == 4 || m == 6 || m == 9 || m == 11 then 30 else 31

/-- `time.Parse("2006", s)` succeeds -/
def timeParseYear (s : Str) : Bool := s.length == 4 && allDigits s

/-- `time.Parse("200601", s)` succeeds -/
def timeParseMonth (s : Str) : Bool :=
  s.length == 6 && allDigits s && decide (1 ≤ digitsVal (s.drop 4)) && decide (digitsVal (s.drop 4) ≤ 12)

/-- `time.Parse("20060102", s)`: the civil date, `none` on error -/
def timeParseDay (s : Str) : Option (Nat × Nat × Nat) :=
  if s.length == 8 && allDigits s then
    let y := digitsVal (s.take 4)
    let m := digitsVal ((s.drop 4).take 2)
    let d := digitsVal (s.drop 6)
    if 1 ≤ m ∧ m ≤ 12 ∧ 1 ≤ d ∧ d ≤ daysIn m y then some (y, m, d) else none
  else none

def nextDay : Nat × Nat × Nat → Nat × Nat × Nat
  | (y, m, d) =>
    if d < daysIn m y then (y, m, d + 1)
    else if m < 12 then (y, m + 1, 1)
    else (y + 1, 1, 1)

/-- `strconv.Atoi(date.Format("20060102"))` -/
def dayNum : Nat × Nat × Nat → Int
  | (y, m, d) => ((y * 10000 + m * 100 + d : Nat) : Int)

/-- the loop `for i := 0; i <= daysCount; i++ { begin.Add(24h*i) … }` -/
def dayLoop : Nat → Nat × Nat × Nat → List Int
  | 0, _ => []
  | n + 1, dt => dayNum dt :: dayLoop n (nextDay dt)

/-- number of `nextDay` steps from `cur` to `target`, at most `fuel` -/
def countDays : Nat → Nat × Nat × Nat → Nat × Nat × Nat → Int → Int
  | 0, _, _, acc => acc
  | fuel + 1, cur, target, acc =>
    if cur = target then acc else countDays fuel (nextDay cur) target (acc + 1)

/-- `int(end.Sub(begin).Hours() / 24)` for two midnights: the number of days
    from `b` to `e`; `Sub` saturates at 2^63-1 ns, i.e. at 106751 days; a
    negative duration (never reached: the bounds were ordered) only matters as
    "the loop does not run". -/
def daysCount (b e : Nat × Nat × Nat) : Int :=
  if dayNum e < dayNum b then -1 else countDays 106751 b e 0

/-- the loop of ParseMonthRange -/
def monthLoop : Nat → Int → Int → List Int
  | 0, _, _ => []
  | n + 1, y, m =>
    if 12 < m then ((y + 1) * 100 + m % 12) :: monthLoop n (y + 1) (m % 12 + 1)
    else (y * 100 + m) :: monthLoop n y (m + 1)

/-- the swap `if dateTmp[1] < dateTmp[0]` -/
def orderPair (a b : Str) : Str × Str := if strLt b a then (b, a) else (a, b)

/-- ParseYearRange; `strict` = the copy in models/numkey.go (with the
    `time.Parse` checks), otherwise the copy in proxy/router/numkey.go -/
def parseYearRange (strict : Bool) (dateRange : Str) : R (List Int) :=
  match splitN2 '-' dateRange with
  | [a] =>
    if a.length ≠ 4 then .fail
    else if strict && !timeParseYear a then .fail
    else match atoi a with
      | some n => .ok [n]
      | none => .fail
  | [a0, b0] =>
    if strict && !timeParseYear (orderPair a0 b0).1 then .fail
    else match atoi (orderPair a0 b0).1 with
      | none => .fail
      | some beginYear =>
        if strict && !timeParseYear (orderPair a0 b0).2 then .fail
        else match atoi (orderPair a0 b0).2 with
          | none => .fail
          | some endYear => .ok (intRange beginYear endYear)
  | _ => .fail

/-- ParseMonthRange (both copies) -/
def parseMonthRange (strict : Bool) (dateRange : Str) : R (List Int) :=
  match splitN2 '-' dateRange with
  | [a] =>
    if a.length ≠ 6 then .fail
    else if strict && !timeParseMonth a then .fail
    else match atoi a with
      | some n => .ok [n]
      | none => .fail
  | [a0, b0] =>
    if a0.length ≠ 6 || b0.length ≠ 6 then .fail
    else if strict && !timeParseMonth (orderPair a0 b0).1 then .fail
    else match atoi ((orderPair a0 b0).1.take 4), atoi ((orderPair a0 b0).1.drop 4) with
      | some beginYear, some beginMonth =>
        if strict && !timeParseMonth (orderPair a0 b0).2 then .fail
        else match atoi ((orderPair a0 b0).2.take 4), atoi ((orderPair a0 b0).2.drop 4) with
          | some endYear, some endMonth =>
            .ok (monthLoop ((endYear - beginYear) * 12 + endMonth - beginMonth + 1).toNat beginYear beginMonth)
          | _, _ => .fail
      | _, _ => .fail
  | _ => .fail

/-- ParseDayRange (both copies; they differ in the single-day path only) -/
def parseDayRange (strict : Bool) (dateRange : Str) : R (List Int) :=
  match splitN2 '-' dateRange with
  | [a] =>
    if a.length ≠ 8 then .fail
    else if strict && (timeParseDay a).isNone then .fail
    else match atoi a with
      | some n => .ok [n]
      | none => .fail
  | [a0, b0] =>
    if a0.length ≠ 8 || b0.length ≠ 8 then .fail
    else match timeParseDay (orderPair a0 b0).1 with
      | none => .fail
      | some b =>
        match timeParseDay (orderPair a0 b0).2 with
        | none => .fail
        | some e => .ok (dayLoop (daysCount b e + 1).toNat b)
  | _ => .fail

/-- the loop shared by verifyDate{Day,Month,Year}RuleSliceInfos and
    parseDate{Day,Month,Year}RuleSliceInfos: `acc` is `subTableIndexs`, `m`
    the writes to `tableToSlice` (the models copies keep no map). `nums[0]`
    on an empty list panics. -/
def dateLoop (parse : Str → R (List Int)) : List Str → Int → List Int → IntMap → R (List Int × IntMap)
  | [], _, acc, m => .ok (acc, m)
  | dr :: rest, i, acc, m =>
    match parse dr with
    | .fail => .fail
    | .panic => .panic
    | .ok nums =>
      match acc.getLast?, nums with
      | some _, [] => .panic
      | some last, n0 :: _ =>
        if n0 ≤ last then .fail
        else dateLoop parse rest (i + 1) (acc ++ nums) (m ++ nums.map (fun v => (v, i)))
      | none, _ => dateLoop parse rest (i + 1) (acc ++ nums) (m ++ nums.map (fun v => (v, i)))

/-- verifyDate*RuleSliceInfos (models) -/
def verifyDateRuleSliceInfos (parse : Str → R (List Int)) (dateRange slices : List Str) : R Unit :=
  if dateRange.length ≠ slices.length then .fail
  else match dateLoop parse dateRange 0 [] [] with
    | .ok _ => .ok ()
    | .fail => .fail
    | .panic => .panic

/-- parseDate*RuleSliceInfos (router) -/
def parseDateRuleSliceInfos (parse : Str → R (List Int)) (dateRange slices : List Str) :
    R (List Int × IntMap) :=
  if dateRange.length ≠ slices.length then .fail
  else dateLoop parse dateRange 0 [] []

/-! ## Mycat rules -/

/-- `toIntArray` (identical copies): remove blanks, split at commas, `Atoi` each -/
def toIntArray (s : Str) : Option (List Int) :=
  (splitOn ',' (s.filter (· ≠ ' '))).mapM atoi

/-- the run lengths `lengthList[i]` repeated `countList[i]` times: the
    differences `ai[k+1] - ai[k]` -/
def partitionRuns (counts lengths : List Int) : List Int :=
  (counts.zip lengths).flatMap (fun cl => List.replicate cl.1.toNat cl.2)

/-- `segment`: run `k` filled with `k` -/
def segmentOf : List Int → Int → List Int
  | [], _ => []
  | l :: rest, k => List.replicate l.toNat k ++ segmentOf rest (k + 1)

/-- verifyMycatPatitionLongShard and MycatPartitionLongShard.Init: the checks
    are the same; `Init` also builds `segment`, which is returned here.  After
    the bounds check every index into `ai` and `segment` is in range (theorem
    `partition_segment_length`), so there is no panic outcome. -/
def partitionLongInit (shardNum : Int) (partitionCount partitionLengthStr : Str) : R (List Int) :=
  match toIntArray partitionCount with
  | none => .fail
  | some countList =>
    match toIntArray partitionLengthStr with
    | none => .fail
    | some lengthList =>
      if countList.length ≠ lengthList.length then .fail
      else if (countList.zip lengthList).any
          (fun cl => cl.1 < 0 || cl.1 > shardNum || cl.2 < 0 || cl.2 > (partitionLength : Int)) then .fail
      else if countList.sum ≠ shardNum then .fail
      else if (partitionRuns countList lengthList).sum ≠ (partitionLength : Int) then .fail
      else .ok (segmentOf (partitionRuns countList lengthList) 0)

/-- `parseHashSliceValue` / `verifyHashSliceValue` -/
def parseHashSliceValue (s : Str) : Option Int :=
  if s.isEmpty then some 0 else atoi s

/-- `parseHashSliceStartEnd` (router) and `verifyHashSliceStartEnd` (models,
    which only keeps the error): `(start, end)` -/
def parseHashSliceStartEnd (hashSliceStr : Str) : R (Int × Int) :=
  match splitOn ':' (trimSpace hashSliceStr) with
  | [a] =>
    match atoi a with
    | some v => if v ≥ 0 then .ok (0, v) else .ok (v, 0)
    | none => .fail
  | [a, b] =>
    match parseHashSliceValue a, parseHashSliceValue b with
    | some s, some e => .ok (s, e)
    | _, _ => .fail
  | _ => .fail

def default160 : Str := ['1', '6', '0']

/-- `NewMycatPartitionMurmurHashShard` / `verifyMycatPartitionMurmurHashShard`:
    `(seed, virtualBucketTimes)` -/
def parseMurmur (seedStr vbtStr : Str) : R (Int × Int) :=
  match atoi seedStr with
  | none => .fail
  | some seed =>
    match atoi (if vbtStr.isEmpty then default160 else vbtStr) with
    | none => .fail
    | some vbt => .ok (seed, vbt)

structure PaddingMod where
  padFrom : Int
  padLength : Int
  modBegin : Int
  modEnd : Int
  mod : Int
  deriving Repr, DecidableEq

/-- `GetMycatPartitionPaddingModShard` + `checkParam`, and
    `verifyMycatPartitionPaddingModShard` (same checks) -/
def parsePaddingMod (padFromStr padLengthStr modBeginStr modEndStr : Str) (mod : Int) : R PaddingMod :=
  match atoi padFromStr, atoi padLengthStr, atoi modBeginStr, atoi modEndStr with
  | some padFrom, some padLength, some modBegin, some modEnd =>
    if padFrom ≠ 0 ∧ padFrom ≠ 1 then .fail
    else if mod < 2 then .fail
    else if modBegin < 0 ∨ modBegin ≥ modEnd then .fail
    else if padLength ≤ 0 then .fail
    else if padLength < modEnd - modBegin then .fail
    else if padLength < modEnd then .fail
    else .ok ⟨padFrom, padLength, modBegin, modEnd, mod⟩
  | _, _, _, _ => .fail

/-! ## models: Shard.verify -/

/-- `ruleVerifyFuncMapping[s.Type](s)`; types without an entry give ErrUnknownRuleType -/
def shardVerify (s : Shard) : R Unit :=
  match rtOf s.typ with
  | .hash | .mod =>
    match verifyHashRuleSliceInfos s.locations s.slices with
    | .ok _ => .ok ()
    | .fail => .fail
    | .panic => .panic
  | .range =>
    match verifyHashRuleSliceInfos s.locations s.slices with
    | .ok t =>
      match parseNumSharding s.locations s.tableRowLimit with
      | .ok rs => if (rs.length : Int) ≠ mapLen t then .fail else .ok ()
      | .fail => .fail
      | .panic => .panic
    | .fail => .fail
    | .panic => .panic
  | .day => verifyDateRuleSliceInfos (parseDayRange true) s.dateRange s.slices
  | .month => verifyDateRuleSliceInfos (parseMonthRange true) s.dateRange s.slices
  | .year => verifyDateRuleSliceInfos (parseYearRange true) s.dateRange s.slices
  | .mycatMod =>
    match verifyMycatHashRuleSliceInfos s.locations s.slices s.databases with
    | .ok _ => .ok ()
    | .fail => .fail
    | .panic => .panic
  | .mycatLong =>
    match verifyMycatHashRuleSliceInfos s.locations s.slices s.databases with
    | .ok t =>
      match partitionLongInit (mapLen t) s.partitionCount s.partitionLength with
      | .ok _ => .ok ()
      | .fail => .fail
      | .panic => .panic
    | .fail => .fail
    | .panic => .panic
  | .mycatString =>
    match verifyMycatHashRuleSliceInfos s.locations s.slices s.databases with
    | .ok t =>
      match partitionLongInit (mapLen t) s.partitionCount s.partitionLength with
      | .ok _ =>
        match parseHashSliceStartEnd s.hashSlice with
        | .ok _ => .ok ()
        | .fail => .fail
        | .panic => .panic
      | .fail => .fail
      | .panic => .panic
    | .fail => .fail
    | .panic => .panic
  | .mycatMurmur =>
    match verifyMycatHashRuleSliceInfos s.locations s.slices s.databases with
    | .ok _ =>
      match parseMurmur s.seed s.virtualBucketTimes with
      | .ok _ => .ok ()
      | .fail => .fail
      | .panic => .panic
    | .fail => .fail
    | .panic => .panic
  | .mycatPadding =>
    match verifyMycatHashRuleSliceInfos s.locations s.slices s.databases with
    | .ok t =>
      match parsePaddingMod s.padFrom s.padLength s.modBegin s.modEnd (mapLen t) with
      | .ok _ => .ok ()
      | .fail => .fail
      | .panic => .panic
    | .fail => .fail
    | .panic => .panic
  | .global => verifyGlobalTableRuleSliceInfos s.locations s.slices s.databases
  | .default | .linked | .unknown => .fail

/-! ## models: Namespace.Verify -/

/-- `includeSlice` -/
def includeSlice (slices : List Str) (sliceName : Str) : Bool := slices.any (· = sliceName)

/-- `Slice.verify` -/
def sliceVerify (s : Slice) : Bool :=
  !(s.name.isEmpty) && !(s.userName.isEmpty) && !(s.master.isEmpty && s.slaves.isEmpty) &&
  s.slaves.all (fun a => !a.isEmpty) && decide (0 < s.capacity) && decide (0 < s.maxCapacity) &&
  decide (s.capacity ≤ s.maxCapacity)

/-- `verifyEachSlice`: every slice verifies and no earlier slice has its name -/
def verifyEachSlice : List Slice → List Str → Bool
  | [], _ => true
  | s :: rest, seen => sliceVerify s && !(seen.any (· = s.name)) && verifyEachSlice rest (seen ++ [s.name])

/-- `verifySlices` -/
def verifySlices (n : Namespace) : R Unit :=
  if n.slices.isEmpty then .fail else if verifyEachSlice n.slices [] then .ok () else .fail

def sliceNames (n : Namespace) : List Str := n.slices.map (·.name)

/-- `verifyDefaultSlice`: a non-empty default slice must be one of the slices -/
def verifyDefaultSlice (n : Namespace) : R Unit :=
  if !n.defaultSlice.isEmpty && !includeSlice (sliceNames n) n.defaultSlice then .fail else .ok ()

/-- `verifyDefaultSliceExists` -/
def verifyDefaultSliceExists (n : Namespace) : R Unit :=
  if n.defaultSlice.isEmpty then .fail else .ok ()

/-- the rules recorded so far: `(db, lower-case table) ↦ type` -/
abbrev TypeMap := List ((Str × Str) × Str)

def lookup {α : Type} (m : List ((Str × Str) × α)) (k : Str × Str) : Option α :=
  match m with
  | [] => none
  | (k', v) :: rest =>
    match lookup rest k with
    | some x => some x
    | none => if k' = k then some v else none

/-- first loop of `verifyShardRules`: returns the linked shards and the type map -/
def verifyRulesLoop (names : List Str) : List Shard → List Shard → TypeMap → R (List Shard × TypeMap)
  | [], linked, rules => .ok (linked, rules)
  | s :: rest, linked, rules =>
    if !(s.slices.all (includeSlice names)) then .fail
    else
      match rtOf s.typ with
      | .default => .fail
      | .linked =>
        if (lookup rules (s.db, toLower s.table)).isSome then .fail
        else verifyRulesLoop names rest (linked ++ [s]) (rules ++ [((s.db, toLower s.table), s.typ)])
      | _ =>
        match shardVerify s with
        | .ok _ =>
          if (lookup rules (s.db, toLower s.table)).isSome then .fail
          else verifyRulesLoop names rest linked (rules ++ [((s.db, toLower s.table), s.typ)])
        | .fail => .fail
        | .panic => .panic

/-- second loop of `verifyShardRules` -/
def verifyLinkedLoop (rules : TypeMap) : List Shard → R Unit
  | [] => .ok ()
  | s :: rest =>
    match lookup rules (s.db, toLower s.parentTable) with
    | none => .fail
    | some t => if rtOf t = .linked then .fail else verifyLinkedLoop rules rest

/-- `verifyShardRules` -/
def verifyShardRules (n : Namespace) : R Unit :=
  match verifyRulesLoop (sliceNames n) n.shardRules [] [] with
  | .ok (linked, rules) => verifyLinkedLoop rules linked
  | .fail => .fail
  | .panic => .panic

/-- `Namespace.Verify`, the part that concerns slices and shard rules (the
    harness holds name, users, allowed DBs, charset … at valid values) -/
def verify (n : Namespace) : R Unit :=
  match verifySlices n with
  | .ok _ =>
    match verifyDefaultSlice n with
    | .ok _ =>
      match verifyDefaultSliceExists n with
      | .ok _ => verifyShardRules n
      | .fail => .fail
      | .panic => .panic
    | .fail => .fail
    | .panic => .panic
  | .fail => .fail
  | .panic => .panic

/-! ## router: rules -/

/-- implementations of `router.Shard` built by `parseRuleSliceInfos` -/
inductive ShardFn where
  | hash (shardNum : Int)
  | mod (shardNum : Int)
  | range (shards : List (Int × Int))
  | dateYear | dateMonth | dateDay
  | mycatMod (shardNum : Int)
  | mycatLong (segment : List Int)
  | mycatString (segment : List Int) (hashSliceStart hashSliceEnd : Int)
  | mycatMurmur (seed count virtualBucketTimes : Int)
  | mycatPadding (p : PaddingMod)
  | global
  deriving Repr, DecidableEq

structure BaseRule where
  db : Str
  table : Str
  shardingColumn : Str
  ruleType : Str
  slices : List Str
  subTableIndexes : List Int
  tableToSlice : IntMap
  shard : ShardFn
  mycatDatabases : List Str
  deriving Repr, DecidableEq

inductive Rule where
  | base (b : BaseRule)
  | linked (db table shardingColumn : Str) (linkToRule : BaseRule)
  deriving Repr, DecidableEq

/-- the `*BaseRule` behind a rule (`linkToRule` for a linked rule) -/
def Rule.target : Rule → BaseRule
  | .base b => b
  | .linked _ _ _ b => b

abbrev RuleMap := List ((Str × Str) × Rule)

structure Router where
  rules : RuleMap
  defaultSlice : Str
  deriving Repr, DecidableEq

/-- `parseRuleSliceInfos` -/
def parseRuleSliceInfos (cfg : Shard) : R (List Int × IntMap × ShardFn) :=
  match rtOf cfg.typ with
  | .hash =>
    match parseHashRuleSliceInfos cfg.locations cfg.slices with
    | .ok (idx, t) => .ok (idx, t, .hash (mapLen t))
    | .fail => .fail
    | .panic => .panic
  | .mod =>
    match parseHashRuleSliceInfos cfg.locations cfg.slices with
    | .ok (idx, t) => .ok (idx, t, .mod (mapLen t))
    | .fail => .fail
    | .panic => .panic
  | .range =>
    match parseHashRuleSliceInfos cfg.locations cfg.slices with
    | .ok (idx, t) =>
      match parseNumSharding cfg.locations cfg.tableRowLimit with
      | .ok rs => if (rs.length : Int) ≠ mapLen t then .fail else .ok (idx, t, .range rs)
      | .fail => .fail
      | .panic => .panic
    | .fail => .fail
    | .panic => .panic
  | .day =>
    match parseDateRuleSliceInfos (parseDayRange false) cfg.dateRange cfg.slices with
    | .ok (idx, t) => .ok (idx, t, .dateDay)
    | .fail => .fail
    | .panic => .panic
  | .month =>
    match parseDateRuleSliceInfos (parseMonthRange false) cfg.dateRange cfg.slices with
    | .ok (idx, t) => .ok (idx, t, .dateMonth)
    | .fail => .fail
    | .panic => .panic
  | .year =>
    match parseDateRuleSliceInfos (parseYearRange false) cfg.dateRange cfg.slices with
    | .ok (idx, t) => .ok (idx, t, .dateYear)
    | .fail => .fail
    | .panic => .panic
  | .mycatMod =>
    match parseMycatHashRuleSliceInfos cfg.locations cfg.slices cfg.databases with
    | .ok (idx, t) => .ok (idx, t, .mycatMod (mapLen t))
    | .fail => .fail
    | .panic => .panic
  | .mycatLong =>
    match parseMycatHashRuleSliceInfos cfg.locations cfg.slices cfg.databases with
    | .ok (idx, t) =>
      match partitionLongInit (mapLen t) cfg.partitionCount cfg.partitionLength with
      | .ok seg => .ok (idx, t, .mycatLong seg)
      | .fail => .fail
      | .panic => .panic
    | .fail => .fail
    | .panic => .panic
  | .mycatString =>
    match parseMycatHashRuleSliceInfos cfg.locations cfg.slices cfg.databases with
    | .ok (idx, t) =>
      match partitionLongInit (mapLen t) cfg.partitionCount cfg.partitionLength with
      | .ok seg =>
        match parseHashSliceStartEnd cfg.hashSlice with
        | .ok (s, e) => .ok (idx, t, .mycatString seg s e)
        | .fail => .fail
        | .panic => .panic
      | .fail => .fail
      | .panic => .panic
    | .fail => .fail
    | .panic => .panic
  | .mycatMurmur =>
    match parseMycatHashRuleSliceInfos cfg.locations cfg.slices cfg.databases with
    | .ok (idx, t) =>
      match parseMurmur cfg.seed cfg.virtualBucketTimes with
      | .ok (seed, vbt) => .ok (idx, t, .mycatMurmur seed (mapLen t) vbt)
      | .fail => .fail
      | .panic => .panic
    | .fail => .fail
    | .panic => .panic
  | .mycatPadding =>
    match parseMycatHashRuleSliceInfos cfg.locations cfg.slices cfg.databases with
    | .ok (idx, t) =>
      match parsePaddingMod cfg.padFrom cfg.padLength cfg.modBegin cfg.modEnd (mapLen t) with
      | .ok p => .ok (idx, t, .mycatPadding p)
      | .fail => .fail
      | .panic => .panic
    | .fail => .fail
    | .panic => .panic
  | .global =>
    match parseGlobalTableRuleSliceInfos cfg.locations cfg.slices cfg.databases with
    | .ok (idx, t) => .ok (idx, t, .global)
    | .fail => .fail
    | .panic => .panic
  | .default | .linked | .unknown => .fail

/-- `IsMycatShardingRule`.  The router's copy tests the constant
    `MycatModRuleType` ("mycat_mod"); the models copy tests `ShardMod`. -/
def isMycatShardingRule (t : RT) : Bool :=
  t == .mycatMod || t == .mycatLong || t == .mycatMurmur || t == .mycatPadding || t == .mycatString

/-- `parseRule` -/
def parseRule (cfg : Shard) : R BaseRule :=
  match parseRuleSliceInfos cfg with
  | .fail => .fail
  | .panic => .panic
  | .ok (idx, t, shard) =>
    let r : BaseRule := ⟨cfg.db, toLower cfg.table, toLower cfg.key, cfg.typ, cfg.slices, idx, t, shard, []⟩
    if isMycatShardingRule (rtOf cfg.typ) then
      match getRealDatabases cfg.databases with
      | .ok dbs => .ok { r with mycatDatabases := dbs }
      | .fail => .fail
      | .panic => .panic
    else if rtOf cfg.typ = .global then
      if cfg.databases.length ≠ 0 then
        match getRealDatabases cfg.databases with
        | .ok dbs => .ok { r with mycatDatabases := dbs }
        | .fail => .fail
        | .panic => .panic
      else .ok { r with mycatDatabases := List.replicate idx.length cfg.db }
    else .ok r

/-- first loop of `NewRouter` (linked shards are kept for the second loop) -/
def routerRulesLoop (names : List Str) : List Shard → List Shard → RuleMap → R (List Shard × RuleMap)
  | [], linked, rules => .ok (linked, rules)
  | s :: rest, linked, rules =>
    if !(s.slices.all (includeSlice names)) then .fail
    else if rtOf s.typ = .linked then routerRulesLoop names rest (linked ++ [s]) rules
    else
      match parseRule s with
      | .fail => .fail
      | .panic => .panic
      | .ok rule =>
        -- (before c29cd53 a global rule's slices were replaced by the namespace's here)
        if rtOf rule.ruleType = .default then .fail
        else if (lookup rules (rule.db, rule.table)).isSome then .fail
        else routerRulesLoop names rest linked (rules ++ [((rule.db, rule.table), .base rule)])

/-- `createLinkedRule` -/
def createLinkedRule (rules : RuleMap) (shard : Shard) : R Rule :=
  if rtOf shard.typ ≠ .linked then .fail
  else
    match lookup rules (shard.db, toLower shard.parentTable) with
    | none => .fail
    | some dbRule =>
      if rtOf dbRule.target.ruleType = .linked then .fail
      else match dbRule with
        | .base b => .ok (.linked shard.db (toLower shard.table) (toLower shard.key) b)
        | .linked _ _ _ _ => .fail

/-- second loop of `NewRouter`: `rt.rules[rule.db][rule.table] = rule` -/
def routerLinkedLoop : List Shard → RuleMap → R RuleMap
  | [], rules => .ok rules
  | s :: rest, rules =>
    match createLinkedRule rules s with
    | .ok rule => routerLinkedLoop rest (rules ++ [((s.db, toLower s.table), rule)])
    | .fail => .fail
    | .panic => .panic

/-- `NewRouter` -/
def newRouter (n : Namespace) : R Router :=
  if !includeSlice (sliceNames n) n.defaultSlice then .fail
  else
    match routerRulesLoop (sliceNames n) n.shardRules [] [] with
    | .fail => .fail
    | .panic => .panic
    | .ok (linked, rules) =>
      match routerLinkedLoop linked rules with
      | .ok rules' => .ok ⟨rules', n.defaultSlice⟩
      | .fail => .fail
      | .panic => .panic

/-- the rule stored under a key after all writes (`rt.rules[db][table]`) -/
def Router.get (r : Router) (k : Str × Str) : Option Rule := lookup r.rules k

/-- the keys of `rt.rules` -/
def Router.keys (r : Router) : List (Str × Str) := (r.rules.map (·.1)).eraseDups

/-! ## sharding functions (`FindForKey`) -/

inductive Key where
  | int (v : Int)      -- int64
  | uint (v : Nat)     -- uint64
  | str (s : Str)      -- string
  deriving Repr, DecidableEq

/-- CRC-32 (IEEE), bit by bit -/
def crcStep (crc : Nat) : Nat := if crc % 2 == 1 then (crc / 2) ^^^ 0xEDB88320 else crc / 2

def crcByte (crc : Nat) (b : Nat) : Nat :=
  crcStep (crcStep (crcStep (crcStep (crcStep (crcStep (crcStep (crcStep (crc ^^^ b))))))))

def crc32 (bs : List Nat) : Nat := (bs.foldl crcByte 0xFFFFFFFF) ^^^ 0xFFFFFFFF

/-- `HashValue` (a uint64) -/
def hashValue : Key → Nat
  | .int v => (v % 2 ^ 64).toNat
  | .uint v => v
  | .str s =>
    match parseUint s with
    | some v => v
    | none => crc32 (s.map Char.toNat)

/-- `NumValue` (an int64); `fail` = the KeyError panic that the planner recovers -/
def numValue : Key → R Int
  | .int v => .ok v
  | .uint v => .ok (wrap64 v)
  | .str s =>
    match atoi s with
    | some v => .ok v
    | none => .fail

/-- `GetString` -/
def getString : Key → Str
  | .int v => itoa v
  | .uint v => (Nat.repr v).toList
  | .str s => s

/-- `hack.Abs` on int64: `(n ^ n>>63) - (n>>63)`, which is `n` itself for MinInt64 -/
def hackAbs (n : Int) : Int := if n = minInt64 then minInt64 else if n < 0 then -n else n

/-- Go's `%` on integers (truncated division: the sign follows the dividend) -/
def goMod (a b : Int) : Int := if 0 ≤ a then a % b else -((-a) % b)

/-- `stringHash` of shard_mycat.go: `h = (h<<5) - h + int64(input[i])`, wrapping -/
def stringHashLoop : Str → Int → Int
  | [], h => h
  | c :: cs, h => stringHashLoop cs (wrap64 (wrap64 (wrap64 (h * 32) - h) + (c.toNat : Int)))

def stringHash (s : Str) (start end_ : Int) : Int :=
  let start' := if start < 0 then 0 else start
  let end' := if end_ > s.length then (s.length : Int) else end_
  stringHashLoop ((s.drop start'.toNat).take (end' - start').toNat) 0

/-- Go's `s[lo:hi]` on a string -/
def strSlice (s : Str) (lo hi : Int) : R Str :=
  if 0 ≤ lo ∧ lo ≤ hi ∧ hi ≤ s.length then .ok ((s.drop lo.toNat).take (hi - lo).toNat) else .panic

/-- `NumKeyRange.Contains` -/
def rangeContains (r : Int × Int) (i : Int) : Bool :=
  decide (r.1 ≤ i) && decide (i < r.2)

/-- the loop of `NumRangeShard.FindForKey` -/
def rangeFind : List (Int × Int) → Int → Int → Option Int
  | [], _, _ => none
  | r :: rest, v, i => if rangeContains r v then some i else rangeFind rest v (i + 1)

/-- `paddingKey` of `MycatPartitionPaddingModShard.FindForKey`: the decimal key
    cut or padded to `padLength` characters (`fail`: "padding left to a negative
    is not allowed") -/
def paddingKey (p : PaddingMod) (h : Int) : R Str :=
  if ((itoa h).length : Int) > p.padLength then strSlice (itoa h) 0 p.padLength
  else if p.padFrom = 0 then
    (if h < 0 then .fail else .ok (List.replicate (p.padLength - (itoa h).length).toNat '0' ++ itoa h))
  else .ok (itoa h ++ List.replicate (p.padLength - (itoa h).length).toNat '0')

/-- the rest of it: `paddingKey[modBegin:modEnd]`, `ParseInt`, `|bigNum % mod|` -/
def paddingMod (p : PaddingMod) (paddingKey : Str) : R Int :=
  match strSlice paddingKey p.modBegin p.modEnd with
  | .fail => .fail
  | .panic => .panic
  | .ok modSegment =>
    match atoi modSegment with
    | none => .fail
    | some bigNum => if p.mod = 0 then .panic else .ok (hackAbs (goMod bigNum p.mod))

/-- `MycatPartitionPaddingModShard.FindForKey` after `NumValue` -/
def paddingFind (p : PaddingMod) (h : Int) : R Int :=
  match paddingKey p h with
  | .fail => .fail
  | .panic => .panic
  | .ok pk => paddingMod p pk

/-- The bucket map of the murmur shard is the set of pairs
    `(hash("SHARD-i-NODE-0…-NODE-n"), i)` for `i < count`, `n < virtualBucketTimes`;
    `FindForKey` returns the value at the ceiling of the key's hash, else the
    value at the smallest hash, else an error if the map is empty.  The hash
    function is a parameter: `bucketOf i n` is the hash of the `n`-th virtual
    node of shard `i`, `keyHash` the hash of the key. -/
def murmurBuckets (bucketOf : Nat → Nat → Int) (count vbt : Int) : List (Int × Int) :=
  (List.range count.toNat).flatMap fun i =>
    (List.range vbt.toNat).map fun n => (bucketOf i n, (i : Int))

/-- value at the least key ≥ `h` (`treemap.Ceiling`); with duplicate keys the
    last `Put` wins -/
def ceilingVal (m : List (Int × Int)) (h : Int) : Option Int :=
  let cands := m.filter (fun kv => h ≤ kv.1)
  match cands with
  | [] => none
  | c :: cs =>
    let kmin := (c :: cs).foldl (fun a kv => if kv.1 < a then kv.1 else a) c.1
    (((c :: cs).filter (fun kv => kv.1 = kmin)).getLast?).map (·.2)

def murmurFind (bucketOf : Nat → Nat → Int) (keyHash : Int) (count vbt : Int) : R Int :=
  let m := murmurBuckets bucketOf count vbt
  match ceilingVal m keyHash with
  | some v => .ok v
  | none =>
    match m with
    | [] => .fail
    | c :: cs =>
      match ceilingVal (c :: cs) ((c :: cs).foldl (fun a kv => if kv.1 < a then kv.1 else a) c.1) with
      | some v => .ok v
      | none => .fail

/-- `Rule.FindTableIndex(key)` = `shard.FindForKey(key)`.  `fail` is a returned
    error or the KeyError panic the planner recovers; `panic` is a Go run-time
    panic (division by zero, index or slice out of range).  The murmur shard is
    evaluated with the hash functions given as parameters. -/
def findForKey (bucketOf : Nat → Nat → Int) (murmurKeyHash : Str → Int) (sh : ShardFn) (key : Key) : R Int :=
  match sh with
  | .hash n => if n = 0 then .panic else .ok (((hashValue key) % n.toNat : Nat) : Int)   -- n = len(map) ≥ 0
  | .mod n =>
    match numValue key with
    | .ok v => if n = 0 then .panic else .ok (hackAbs (goMod v n))
    | .fail => .fail
    | .panic => .panic
  | .range shards =>
    match numValue key with
    | .ok v =>
      match rangeFind shards v 0 with
      | some i => .ok i
      | none => .fail
    | .fail => .fail
    | .panic => .panic
  | .mycatMod n =>
    -- `new(big.Int).SetString(GetString(key), 10)`, `Abs`, `Mod` (722beea): |key| mod n on
    -- the full integer; a key that is not a decimal integer is the recovered KeyError panic,
    -- `Mod` by zero a run-time panic
    match parseBigDec (getString key) with
    | some v => if n = 0 then .panic else .ok ((v.natAbs : Int) % n)
    | none => .fail
  | .mycatLong segment =>
    match numValue key with
    | .ok v =>
      match segment[(v % 1024).toNat]? with
      | some i => .ok i
      | none => .panic
    | .fail => .fail
    | .panic => .panic
  | .mycatString segment s e =>
    let keyStr := getString key
    let start := if s ≥ 0 then s else (keyStr.length : Int) + s
    let end_ := if e > 0 then e else (keyStr.length : Int) + e
    match segment[((stringHash keyStr start end_) % 1024).toNat]? with
    | some i => .ok i
    | none => .panic
  | .mycatMurmur _ count vbt => murmurFind bucketOf (murmurKeyHash (getString key)) count vbt
  | .mycatPadding p =>
    match numValue key with
    | .ok v => paddingFind p v
    | .fail => .fail
    | .panic => .panic
  | .dateYear | .dateMonth | .dateDay => .fail   -- subject of C09, not modelled here
  | .global => .panic                             -- panic("global table cannot find key")

end GaeaVerif.C10
