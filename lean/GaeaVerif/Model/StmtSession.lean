import GaeaVerif.Model.StmtCalcParams
import GaeaVerif.Model.StmtBind
/-
  Model of the prepared-statement commands of one client session (C16):
    SessionExecutor.handleStmtPrepare / handleStmtClose  (proxy/server/executor_handle.go)
    SessionExecutor.handleStmtExecute / handleStmtSendLongData / handleStmtReset
                                                         (proxy/server/executor_stmt.go)
  as dispatched by SessionExecutor.ExecuteCommand (proxy/server/executor.go),
  after the `fix:` commit "reset prepared-statement parameters on every exit of
  handleStmtExecute".  One step = one command.  The statement text handed to
  `handleQuery` is the output of an execution; what `handleQuery` does with it
  is not modelled (whatever it returns, the deferred `ResetParams` runs).
  Core Lean only.
-/
namespace GaeaVerif.StmtSession
open GaeaVerif GaeaVerif.StmtLex GaeaVerif.StmtCalcParams GaeaVerif.StmtBind

/-- `Stmt` (the fields the commands use). -/
structure Stmt where
  sql : Bytes
  paramCount : Nat
  sqlItems : List Bytes
  paramTypes : Bytes
  args : List Arg
  deriving Repr, BEq, DecidableEq

/-- `SessionExecutor.stmts`, `SessionExecutor.stmtID`, and whether the sql_mode
    the session has set (`SessionExecutor.sessionVariables`, as read by
    `noBackslashEscapes`) contains NO_BACKSLASH_ESCAPES. -/
structure State where
  stmts : List (Nat × Stmt)
  stmtID : Nat
  nbe : Bool := false
  deriving Repr

def State.init : State := { stmts := [], stmtID := 0, nbe := false }

/-- `se.stmts[id]` -/
def lookup (m : List (Nat × Stmt)) (id : Nat) : Option Stmt :=
  match m with
  | [] => none
  | (k, s) :: rest => if k = id then some s else lookup rest id

/-- `delete(se.stmts, id)` -/
def erase (m : List (Nat × Stmt)) (id : Nat) : List (Nat × Stmt) :=
  match m with
  | [] => []
  | (k, s) :: rest => if k = id then erase rest id else (k, s) :: erase rest id

/-- `se.stmts[id] = s` -/
def insert (m : List (Nat × Stmt)) (id : Nat) (s : Stmt) : List (Nat × Stmt) :=
  (id, s) :: erase m id

/-- `ResetParams`: `make([]interface{}, s.paramCount)` -/
def nulls (n : Nat) : List Arg := List.replicate n .null

/-- `strings.TrimRight(sql, ";")` -/
def trimRightSemi (sql : Bytes) : Bytes :=
  (sql.reverse.dropWhile (· == 0x3b)).reverse

/-- A client command of the prepared-statement family, with its payload. -/
inductive Op where
  | prepare (sql : Bytes)          -- COM_STMT_PREPARE
  | execute (data : Bytes)         -- COM_STMT_EXECUTE
  | sendLongData (data : Bytes)    -- COM_STMT_SEND_LONG_DATA
  | reset (data : Bytes)           -- COM_STMT_RESET
  | close (data : Bytes)           -- COM_STMT_CLOSE
  | setMode (nbe : Bool)           -- COM_QUERY "SET sql_mode = …" with / without NO_BACKSLASH_ESCAPES
  deriving Repr, BEq, DecidableEq

/-- What a command does, as far as the property observes it. -/
inductive Out where
  | prepared (id paramCount : Nat)
  | exec (sql : Bytes)             -- the statement text handed to handleQuery
  | done                           -- OK / no response
  | err (e : E)
  | panic
  deriving Repr, BEq, DecidableEq

/-- `binary.LittleEndian.Uint32(data[0:4])`, for `len(data) ≥ 4`. -/
def stmtIdOf (data : Bytes) : Nat := leNat (data.take 4)

/-- `handleStmtPrepare` -/
def handleStmtPrepare (st : State) (sql : Bytes) : State × Out :=
  let sql := trimRightSemi sql
  match calcParams sql with
  | .panic => (st, .panic)
  | .fail => (st, .err .unterminated)
  | .ok (paramCount, _, sqlItems) =>
    let stmt : Stmt := { sql := sql, paramCount := paramCount, sqlItems := sqlItems,
                         paramTypes := [], args := nulls paramCount }
    ({ st with stmts := insert st.stmts st.stmtID stmt, stmtID := st.stmtID + 1 },
     .prepared st.stmtID paramCount)

/-- The body of `handleStmtExecute` after the statement was found, up to the
    call of `handleQuery`: the statement text to execute (or the error), and
    the parameter types the statement holds afterwards.  (`bind` is
    `bindStmtArgs`; it is a parameter only so that the theorems can state what
    replacing it by the reference semantics changes: nothing.) -/
def executeBodyWith (bind : Nat → List Arg → Bytes → Bytes → Bytes → O (List Arg))
    (nbe : Bool) (s : Stmt) (data : Bytes) : O Bytes × Bytes :=
  match goIdx data 4 with
  | .panic => (.panic, s.paramTypes)
  | .fail => (.panic, s.paramTypes)
  | .ok fb =>
    if fb.toNat % 2 ≠ 0 then (.err .unsupportedFlag, s.paramTypes)   -- data[pos] & CursorTypeReadOnly
    else
      let pos : Int := 9
      if s.paramCount > 0 then
        let nullBitmapLen : Int := ((s.paramCount + 7) / 8 : Nat)
        if (data.length : Int) < pos + nullBitmapLen + 1 then (.err .malformed, s.paramTypes)
        else
          match goSlice data pos (pos + nullBitmapLen), goIdx data (pos + nullBitmapLen) with
          | .ok nullBitmaps, .ok nb =>
            let pos := pos + nullBitmapLen
            if nb = 1 then
              -- new-params-bound flag
              let pos := pos + 1
              let n2 : Int := ((2 * s.paramCount : Nat) : Int)
              if (data.length : Int) < pos + n2 then (.err .malformed, s.paramTypes)
              else
                match goSlice data pos (pos + n2), goSlice data (pos + n2) data.length with
                | .ok paramTypes, .ok paramValues =>
                  (do let args ← bind s.paramCount s.args nullBitmaps paramTypes paramValues
                      getRewriteSQL nbe s.sqlItems args,
                   paramTypes)
                | _, _ => (.panic, s.paramTypes)
            else
              match goSlice data (pos + 1) data.length with
              | .ok paramValues =>
                (do let args ← bind s.paramCount s.args nullBitmaps s.paramTypes paramValues
                    getRewriteSQL nbe s.sqlItems args,
                 s.paramTypes)
              | _ => (.panic, s.paramTypes)
          | _, _ => (.panic, s.paramTypes)
      else (.ok s.sql, s.paramTypes)

def executeBody (nbe : Bool) (s : Stmt) (data : Bytes) : O Bytes × Bytes :=
  executeBodyWith bindStmtArgs nbe s data

/-- `handleStmtExecute`: whatever happens after the statement was found, the
    deferred `ResetParams` leaves it with no bound value. -/
def handleStmtExecute (st : State) (data : Bytes) : State × Out :=
  if data.length < 9 then (st, .err .malformed)
  else
    let id := stmtIdOf data
    match lookup st.stmts id with
    | none => (st, .err .unknownStmt)
    | some s =>
      let r := executeBody st.nbe s data
      let s' : Stmt := { s with paramTypes := r.2, args := nulls s.paramCount }
      ({ st with stmts := insert st.stmts id s' },
       match r.1 with
       | .ok sql => .exec sql
       | .err e => .err e
       | .panic => .panic)

/-- `handleStmtSendLongData` -/
def handleStmtSendLongData (st : State) (data : Bytes) : State × Out :=
  if data.length < 6 then (st, .err .malformed)
  else
    let id := stmtIdOf data
    match lookup st.stmts id with
    | none => (st, .err .unknownStmt)
    | some s =>
      let paramID := leNat ((data.drop 4).take 2)
      if paramID ≥ s.paramCount % 65536 then (st, .err .wrongArguments)   -- uint16(s.paramCount)
      else
        let chunk := data.drop 6
        match s.args[paramID]? with
        | none => (st, .panic)
        | some .null =>
          ({ st with stmts := insert st.stmts id { s with args := s.args.set paramID (.bytes chunk) } }, .done)
        | some (.bytes b) =>
          ({ st with stmts := insert st.stmts id { s with args := s.args.set paramID (.bytes (b ++ chunk)) } }, .done)
        | some _ => (st, .err .longDataType)

/-- `handleStmtReset` -/
def handleStmtReset (st : State) (data : Bytes) : State × Out :=
  if data.length < 4 then (st, .err .malformed)
  else
    let id := stmtIdOf data
    match lookup st.stmts id with
    | none => (st, .err .unknownStmt)
    | some s => ({ st with stmts := insert st.stmts id { s with args := nulls s.paramCount } }, .done)

/-- `handleStmtClose` -/
def handleStmtClose (st : State) (data : Bytes) : State × Out :=
  if data.length < 4 then (st, .done)
  else ({ st with stmts := erase st.stmts (stmtIdOf data) }, .done)

/-- `ExecuteCommand` on the prepared-statement commands. -/
def step (st : State) : Op → State × Out
  | .prepare sql => handleStmtPrepare st sql
  | .execute data => handleStmtExecute st data
  | .sendLongData data => handleStmtSendLongData st data
  | .reset data => handleStmtReset st data
  | .close data => handleStmtClose st data
  | .setMode nbe => ({ st with nbe := nbe }, .done)

/-- A whole history: the final state and the outputs, oldest first. -/
def run (st : State) : List Op → State × List Out
  | [] => (st, [])
  | op :: ops =>
    let r := step st op
    let rs := run r.1 ops
    (rs.1, r.2 :: rs.2)

end GaeaVerif.StmtSession
