import GaeaVerif.Model.Go
/-
  Model of `UserManager` (proxy/server/manager.go) after fix cf4783b
  (`userNamespaces` keyed by the struct `userKey{username, password}`).

  Strings are an arbitrary type `σ` with decidable equality: the code only
  compares user names, passwords and namespace names for equality (the driver
  instantiates `σ := Bytes`, Go strings being byte strings; the examples use
  `String`).  Go maps are association lists that are only read through `mget`
  and written through `mset`/`mdel`; nothing depends on their order, and the
  one place where the code ranges over a map (`ClearNamespaceUsers`) takes the
  iteration order as an explicit argument (`clearNamespaceUsersOrd`), so the
  theorems quantify over every order Go may choose.  Core Lean only.
-/
namespace GaeaVerif.UserMgr

variable {κ ν σ : Type}

/-! ### Go maps -/

/-- `m[k]` with the comma-ok form: `none` = key absent. -/
def mget [DecidableEq κ] : List (κ × ν) → κ → Option ν
  | [], _ => none
  | (k', v) :: r, k => if k' = k then some v else mget r k

/-- `delete(m, k)`. -/
def mdel [DecidableEq κ] (m : List (κ × ν)) (k : κ) : List (κ × ν) :=
  m.filter (fun e => !decide (e.1 = k))

/-- `m[k] = v`. -/
def mset [DecidableEq κ] (m : List (κ × ν)) (k : κ) (v : ν) : List (κ × ν) :=
  (k, v) :: mdel m k

/-! ### UserManager -/

/-- `type UserManager struct { users map[string][]string; userNamespaces map[userKey]string }` -/
structure UserManager (σ : Type) where
  users : List (σ × List σ)
  userNamespaces : List ((σ × σ) × σ)

/-- The part of `models.Namespace` that `UserManager` reads: `Name` and, for every
    element of `Users`, `UserName` and `Password`. -/
structure NsCfg (σ : Type) where
  name : σ
  users : List (σ × σ)

/-- `NewUserManager` -/
def newUserManager : UserManager σ := { users := [], userNamespaces := [] }

/-- `getUserKey` (manager.go) -/
def getUserKey (username password : σ) : σ × σ := (username, password)

/-- `getUserAndPasswordFromKey` (manager.go) -/
def getUserAndPasswordFromKey (key : σ × σ) : σ × σ := (key.1, key.2)

variable [DecidableEq σ]

/-- One iteration of the loop of `addNamespaceUsers`. -/
def addUser (name : σ) (u : UserManager σ) (user : σ × σ) : UserManager σ :=
  let key := getUserKey user.1 user.2
  { userNamespaces := mset u.userNamespaces key name
    -- u.users[user.UserName] = append(u.users[user.UserName], user.Password)
    users := mset u.users user.1 ((mget u.users user.1).getD [] ++ [user.2]) }

/-- `UserManager.addNamespaceUsers` -/
def addNamespaceUsers (u : UserManager σ) (nscfg : NsCfg σ) : UserManager σ :=
  nscfg.users.foldl (addUser nscfg.name) u

/-- Body of the `for key, ns := range u.userNamespaces` loop of `ClearNamespaceUsers`. -/
def clearStep (nsName : σ) (u : UserManager σ) (e : (σ × σ) × σ) : UserManager σ :=
  if e.2 = nsName then
    let up := getUserAndPasswordFromKey e.1
    let passwords := (mget u.users up.1).getD []
    let newPasswords := passwords.filter (fun pwd => !decide (pwd = up.2))
    { userNamespaces := mdel u.userNamespaces e.1
      users := if newPasswords.length = 0 then mdel u.users up.1 else mset u.users up.1 newPasswords }
  else u

/-- `UserManager.ClearNamespaceUsers` with the map iteration order made explicit:
    `order` lists the entries of `u.userNamespaces` in the order the `range`
    produces them (the loop deletes only the entry it is visiting, so every
    entry present at the start is produced exactly once). -/
def clearNamespaceUsersOrd (u : UserManager σ) (nsName : σ) (order : List ((σ × σ) × σ)) : UserManager σ :=
  order.foldl (clearStep nsName) u

/-- `UserManager.ClearNamespaceUsers`, iterating in the order of the association list. -/
def clearNamespaceUsers (u : UserManager σ) (nsName : σ) : UserManager σ :=
  clearNamespaceUsersOrd u nsName u.userNamespaces

/-- `UserManager.RebuildNamespaceUsers` -/
def rebuildNamespaceUsers (u : UserManager σ) (nscfg : NsCfg σ) : UserManager σ :=
  addNamespaceUsers (clearNamespaceUsers u nscfg.name) nscfg

/-- `CloneUserManager`: both maps are re-made and every password slice is copied,
    so the clone shares nothing with its source; in a value model that is the
    identity (the harness checks on every case that the source is unchanged by
    operations on the clone). -/
def cloneUserManager (u : UserManager σ) : UserManager σ := u

/-- `CreateUserManager`, the namespaces taken in list order. -/
def createUserManager (namespaceConfigs : List (NsCfg σ)) : UserManager σ :=
  namespaceConfigs.foldl addNamespaceUsers newUserManager

/-- `UserManager.CheckUser` -/
def checkUser (u : UserManager σ) (user : σ) : Bool := (mget u.users user).isSome

/-- The loop shared by `CheckPassword`, `CheckHashPassword` and `CheckSha2Password`:
    the first configured password of `user` that `accepts`. -/
def checkPasswordWith (accepts : σ → Bool) (u : UserManager σ) (user : σ) : Option σ :=
  ((mget u.users user).getD []).find? accepts

/-- `UserManager.GetNamespaceByUser` (`default` is Go's `""`). -/
def getNamespaceByUser [Inhabited σ] (u : UserManager σ) (userName password : σ) : σ :=
  (mget u.userNamespaces (getUserKey userName password)).getD default

/-- The decision of `Session.handleHandshakeResponse` for a client that proves
    knowledge of `password` (the scramble comparison is abstracted to equality
    here; the scrambles are the subject of C30): `none` = access denied,
    `some ns` = the session is bound to namespace `ns`. -/
def authenticate [Inhabited σ] (u : UserManager σ) (user password : σ) : Option σ :=
  if !checkUser u user then none
  else match checkPasswordWith (fun stored => decide (stored = password)) u user with
    | some p => some (getNamespaceByUser u user p)
    | none => none

/-! ### Histories -/

/-- Control-plane operations on the user table. -/
inductive Op (σ : Type) where
  /-- `Manager.ReloadNamespacePrepare` + `Commit`: create or reload a namespace -/
  | reload (cfg : NsCfg σ)
  /-- `Manager.DeleteNamespace` -/
  | delete (name : σ)

/-- The namespace an operation acts on. -/
def Op.target : Op σ → σ
  | .reload cfg => cfg.name
  | .delete name => name

/-- One operation, iterating maps in association-list order. -/
def step (u : UserManager σ) : Op σ → UserManager σ
  | .reload cfg => rebuildNamespaceUsers (cloneUserManager u) cfg
  | .delete name => clearNamespaceUsers (cloneUserManager u) name

def run (init : List (NsCfg σ)) (ops : List (Op σ)) : UserManager σ :=
  ops.foldl step (createUserManager init)

/-! ### Reference semantics: a set of (namespace, user, password) triples -/

abbrev Triple (σ : Type) := σ × σ × σ

def cfgTriples (cfg : NsCfg σ) : List (Triple σ) := cfg.users.map fun up => (cfg.name, up.1, up.2)

def specInit (init : List (NsCfg σ)) : List (Triple σ) := init.flatMap cfgTriples

def specStep (T : List (Triple σ)) : Op σ → List (Triple σ)
  | .reload cfg => T.filter (fun t => !decide (t.1 = cfg.name)) ++ cfgTriples cfg
  | .delete name => T.filter (fun t => !decide (t.1 = name))

def specRun (T : List (Triple σ)) (ops : List (Op σ)) : List (Triple σ) := ops.foldl specStep T

/-- "Passwords unique per user name": no (user, password) pair is configured in
    two different namespaces. -/
def uniqueT (T : List (Triple σ)) : Bool :=
  T.all fun t1 => T.all fun t2 => !(decide (t1.2.1 = t2.2.1) && decide (t1.2.2 = t2.2.2)) || decide (t1.1 = t2.1)

/-- The rule holds in the initial configuration and after every operation. -/
def uniqueAlong (T : List (Triple σ)) : List (Op σ) → Bool
  | [] => uniqueT T
  | op :: ops => uniqueT T && uniqueAlong (specStep T op) ops

/-- Expected answer: the namespace of a matching triple. -/
def specAuth (T : List (Triple σ)) (user password : σ) : Option σ :=
  (T.find? fun t => decide (t.2.1 = user) && decide (t.2.2 = password)).map (·.1)

/-! ### The key of the pinned tree (before fix cf4783b), kept for the record -/

/-- `getUserKey` of the pinned tree: `username + ":" + password`. -/
def legacyUserKey (username password : List Char) : List Char := username ++ ':' :: password

/-- `strings.Split(key, ":")` fields 0 and 1 (for a key that contains a `:`). -/
def legacyUserAndPasswordFromKey (key : List Char) : List Char × List Char :=
  let f0 := key.takeWhile (· ≠ ':')
  let rest := (key.dropWhile (· ≠ ':')).drop 1
  (f0, rest.takeWhile (· ≠ ':'))

end GaeaVerif.UserMgr
