import GaeaVerif.Model.Merge
/-
  C02: when does ORDER BY fix the order of the groups of a GROUP BY statement by
  their GROUP BY columns alone (the case in which the planner keeps the
  per-table LIMIT, handleLimit / orderByStartsWithGroupByColumns), stated on the
  compiled statement.  Definitions only (used by the class `Supported`).  Core Lean only.
-/
namespace GaeaVerif.Merge

/-- the columns of the leading ORDER BY keys that are GROUP BY columns -/
def leadCols (g : List Nat) : List (Item × Bool) → List Nat
  | (.col c, _) :: ks => if g.contains c then c :: leadCols g ks else []
  | _ => []

/-- ORDER BY starts with GROUP BY columns and names all of them before anything else -/
def leadCovers (g : List Nat) (keys : List (Item × Bool)) : Bool := g.all fun c => (leadCols g keys).contains c

end GaeaVerif.Merge
