import GaeaVerif.Model.GlobalStmt
/-
  The syntax-directed part of the planning of statements over global tables (C04):
  which handler of the planner meets which column name.

  proxy/plan/plan.go          Checker (shard plan or unshard plan: the schema
                              qualifier of a table name decides, the session
                              database is the fallback), BuildPlan,
                              StmtInfo.checkAndGetDB / getShardRule
  proxy/plan/plan_select.go   HandleSelectStmt: handleTableRefs / handleJoin,
                              handleFieldList, handleWhere, handleGroupBy,
                              handleOrderBy, createSelectFieldFromByItem,
                              handleHaving; handleComparisonExpr and its callees
                              handleBinaryOperationExprLogic / MathCompare / Other,
                              handlePatternInExpr, handleBetweenExpr,
                              rewriteColumnNamesInExpr
  proxy/plan/plan_update.go   HandleUpdatePlan: handleUpdateTableRefs,
                              handleUpdateAssignmentList, handleUpdateWhere,
                              handleUpdateOrderBy
  proxy/plan/plan_delete.go   HandleDeletePlan (the same three steps; `DELETE tbl FROM tbl …`
                              is the single-table statement: simplifySingleTargetDelete)
  proxy/plan/plan_insert.go   HandleInsertStmt (global path): precheckInsertStmt,
                              handleInsertTableRefs, removeInsertColumnQualifiers

  A statement is a tree (what the parser hands to the planner, reduced to the
  node kinds the planner distinguishes); `skeleton` walks it the way the
  planner does and yields the name skeleton of Model/GlobalStmt.lean, in which
  every name carries the position (= the handler) it was met at.  Core Lean only.
-/
namespace GaeaVerif.GlobalTree
open GaeaVerif GaeaVerif.Layout GaeaVerif.Global

/-- `[[db.]table.]column` as written -/
structure ColRef where
  schema : String
  table : String
  name : String
  deriving DecidableEq, Repr

/-- Expressions, by the node kinds `handleComparisonExpr` and its callees
    distinguish.  Everything else (function calls, IS NULL, LIKE, NOT, unary
    minus, CASE, aggregate functions, row constructors …) is a `node`: the
    planner only ever runs the column name visitor over it; an n-ary node is
    nested to the right, a node without a second child has `val` there.
    Sub queries and the `DATABASE()` routing hint are not represented. -/
inductive Expr where
  /-- `*ast.ColumnNameExpr` -/
  | col (c : ColRef)
  /-- `*driver.ValueExpr` -/
  | val
  | node (l r : Expr)
  /-- `BinaryOperationExpr` with `= != < <= > >=` -/
  | cmp (l r : Expr)
  /-- `BinaryOperationExpr` with AND / OR -/
  | logic (l r : Expr)
  /-- `BinaryOperationExpr` with any other operator (arithmetic, XOR, `<=>`, …) -/
  | binop (l r : Expr)
  /-- `PatternInExpr` with a value list (`items`: the values as a right-nested `node`) -/
  | inList (e items : Expr)
  /-- `BetweenExpr` -/
  | between (e lo hi : Expr)
  /-- `ParenthesesExpr` -/
  | paren (e : Expr)
  deriving DecidableEq, Repr

/-- the columns of an expression in text order -/
def Expr.cols : Expr → List ColRef
  | .col c => [c]
  | .val => []
  | .node l r => l.cols ++ r.cols
  | .cmp l r => l.cols ++ r.cols
  | .logic l r => l.cols ++ r.cols
  | .binop l r => l.cols ++ r.cols
  | .inList e items => e.cols ++ items.cols
  | .between e lo hi => e.cols ++ lo.cols ++ hi.cols
  | .paren e => e.cols

def mkName (pos : Pos) (c : ColRef) : Name :=
  { pos := pos, schema := c.schema, table := c.table, name := c.name, alias := "", whole := false }

/-- `ColumnNameRewriteVisitor` run over an expression by the handler `pos`:
    every column of the expression is looked up and decorated -/
def visitNames (pos : Pos) (e : Expr) : List Name := e.cols.map (mkName pos)

/-- one operand of `handleBinaryOperationExprMathCompare`: a column gets a
    decorator, a literal has no names, anything else gets
    `rewriteColumnNamesInExpr` -/
def cmpOperand : Expr → List Name
  | .col c => [mkName .condOperand c]
  | .val => []
  | e => visitNames .condNested e

/-- one operand of `handleBinaryOperationExprOther` -/
def binopOperand : Expr → List Name
  | .col c => [mkName .condOperand c]
  | .val => []
  | e => visitNames .condBinopNested e

/-- `handleComparisonExpr`: the names of a condition (WHERE, ON) in text order,
    each with the handler that meets it -/
def condNames : Expr → List Name
  | .logic l r => condNames l ++ condNames r                      -- handleBinaryOperationExprLogic
  | .cmp l r => cmpOperand l ++ cmpOperand r                      -- handleBinaryOperationExprMathCompare
  | .binop l r => binopOperand l ++ binopOperand r                -- handleBinaryOperationExprOther
  | .inList (.col c) items => mkName .condOperand c :: visitNames .condInItem items        -- handlePatternInExpr
  | .inList e items => visitNames .condInNested e ++ visitNames .condInNested items
  | .between (.col c) lo hi =>                                                            -- handleBetweenExpr
      mkName .condOperand c :: (visitNames .condBetweenBound lo ++ visitNames .condBetweenBound hi)
  | .between e lo hi =>
      visitNames .condBetweenNested e ++ (visitNames .condBetweenBound lo ++ visitNames .condBetweenBound hi)
  | .paren e => condNames e
  | .col c => [mkName .condRoot c]                                -- default branch, root column
  | .val => []
  | .node l r => visitNames .condOther (.node l r)                -- default branch

/-- a select field -/
inductive Field where
  /-- `*` -/
  | star
  /-- `tbl.*` / `db.tbl.*` -/
  | wild (schema table : String)
  | expr (e : Expr)
  deriving DecidableEq, Repr

/-- `handleFieldList` -/
def fieldNames : Field → List Name
  | .star => []
  | .wild s t => [{ pos := .selWildcard, schema := s, table := t, name := "*", alias := "", whole := false }]
  | .expr (.col c) => [{ mkName .selField c with whole := true }]
  | .expr e => visitNames .selField e

/-- a GROUP BY / ORDER BY item -/
inductive ByItem where
  | col (c : ColRef)
  /-- `*ast.AggregateFuncExpr` -/
  | agg (e : Expr)
  /-- a literal or a position -/
  | lit
  /-- anything else: "ByItem.Expr is not a ColumnNameExpr" -/
  | other
  deriving DecidableEq, Repr

def byNames : ByItem → List Name
  | .col c => [mkName .byItem c]
  | .agg e => visitNames .byExpr e
  | .lit => []
  | .other => []

/-- a table reference with its alias and, for a joined table, the ON condition -/
structure TableRef where
  schema : String
  table : String
  alias : String
  on : Option Expr
  deriving DecidableEq, Repr

def tableNames (t : TableRef) : List Name :=
  { pos := .tableRef, schema := t.schema, table := t.table, name := "", alias := t.alias, whole := false } ::
    (match t.on with
     | some e => condNames e
     | none => [])

structure Assign where
  col : ColRef
  value : Expr
  deriving DecidableEq, Repr

/-- A statement as the planner sees it.  `tables`: the table references of a
    left-deep join in text order.  INSERT: `cols` / `rows` (VALUES form), `sets`
    (SET form), `ondup`; UPDATE: `sets`. -/
structure TStmt where
  kind : StmtKind
  fields : List Field
  tables : List TableRef
  cols : List ColRef
  rows : List (List Expr)
  sets : List Assign
  ondup : List Assign
  «where» : Option Expr
  groupBy : List ByItem
  having : Option Expr
  orderBy : List ByItem
  deriving DecidableEq, Repr

def optCond : Option Expr → List Name
  | some e => condNames e
  | none => []

def insAssign (a : Assign) : List Name := mkName .insColumn a.col :: visitNames .insValue a.value

/-- `handleHaving`: the rewrite visitor over the whole condition -/
def havingNames : Option Expr → List Name
  | some e => visitNames .having e
  | none => []

/-- everything after the table references, in text order -/
def tailNames (s : TStmt) : List Name :=
  match s.kind with
  | .select => optCond s.«where» ++ s.groupBy.flatMap byNames ++ havingNames s.having ++ s.orderBy.flatMap byNames
  | .update =>
    (s.sets.flatMap fun a => mkName .setColumn a.col :: visitNames .setValue a.value) ++ optCond s.«where» ++
      s.orderBy.flatMap byNames
  | .delete => optCond s.«where» ++ s.orderBy.flatMap byNames
  | .insert =>
    s.cols.map (mkName .insColumn) ++ (s.rows.flatMap fun row => row.flatMap (visitNames .insValue)) ++
      s.sets.flatMap insAssign ++ s.ondup.flatMap insAssign

/-- the name skeleton of a statement: every name with the handler that meets it -/
def skeleton (s : TStmt) : Stmt :=
  { kind := s.kind, fields := s.fields.flatMap fieldNames, «from» := s.tables.flatMap tableNames, tail := tailNames s }

/-- syntactic rejections of the planner that do not depend on a name:
    UPDATE / DELETE of several tables, a GROUP BY / ORDER BY item the planner
    cannot handle (SELECT: anything but a column, an aggregate function, a
    literal or a position; UPDATE / DELETE: anything but a column), an INSERT
    without column list or with a row of another length (`precheckInsertStmt`) -/
def rejected (s : TStmt) : Bool :=
  match s.kind with
  | .select => (s.groupBy ++ s.orderBy).any fun b => b == .other
  | .update | .delete =>
    s.tables.length != 1 || s.orderBy.any fun b => match b with | .col _ => false | _ => true
  | .insert =>
    s.tables.length != 1 || (s.sets.isEmpty && (s.cols.isEmpty || s.rows.any fun row => row.length != s.cols.length))

/-! ### The router's rule table, the session database, shard plan or unshard plan -/

/-- one shard rule of the router: logical database, table, layout -/
structure RouterRule where
  db : String
  table : String
  rule : Rule
  deriving Repr

/-- `Router.GetShardRule(db, table)` -/
def getShardRule (router : List RouterRule) (db table : String) : Option Rule :=
  match router.find? fun e => e.db == db && e.table == table with
  | some e => some e.rule
  | none => none

/-- the database a table name stands in: its schema qualifier, the session's
    database without one (`Checker.hasShardTableInTableName`, `checkAndGetDB`) -/
def effectiveDB (sess : String) (t : TableRef) : String := if t.schema = "" then sess else t.schema

inductive Checked where
  /-- "no database selected" -/
  | invalid
  /-- some table has a shard rule: `buildShardPlan` -/
  | shard
  /-- no table has one: `CreateUnshardPlan`, the statement goes to the default slice as it is -/
  | unshard
  deriving DecidableEq, Repr

/-- `Checker`: the table names in text order; the first one without database
    or with a rule decides -/
def checker (router : List RouterRule) (sess : String) : List TableRef → Checked
  | [] => .unshard
  | t :: ts =>
    if sess = "" ∧ t.schema = "" then .invalid
    else if (getShardRule router (effectiveDB sess t) t.table).isSome then .shard
    else checker router sess ts

/-- `RecordShardTable` for every table reference: `checkAndGetDB`, then the rule
    of (database, table); `none` = one of them fails -/
def resolveRefs (router : List RouterRule) (valid : List String) (sess : String) : List TableRef → Option (List Rule)
  | [] => some []
  | t :: ts =>
    if t.schema ≠ "" ∧ ¬ valid.contains t.schema then none
    else if effectiveDB sess t = "" then none
    else
      match getShardRule router (effectiveDB sess t) t.table, resolveRefs router valid sess ts with
      | some r, some rs => some (r :: rs)
      | _, _ => none

inductive Plan where
  /-- an `UnshardPlan` -/
  | unshard
  /-- a plan over the copies: the produced statements -/
  | shard (out : List (Target (List Chain)))
  deriving Repr, DecidableEq

/-- `BuildPlan` for a statement whose tables with a rule are all global.
    `first`: which of the statement's global tables the planner takes the
    layout from; `pick`: the value of `rand.Intn(tableLen)`. -/
def planStmt (router : List RouterRule) (valid : List String) (sess : String) (s : TStmt) (first pick : Nat) : R Plan :=
  match checker router sess s.tables with
  | .invalid => .fail
  | .unshard => .ok .unshard
  | .shard =>
    if rejected s then .fail
    else
      match resolveRefs router valid sess s.tables with
      | none => .fail
      | some rules =>
        match planGlobal false valid sess rules (skeleton s) first pick with
        | .ok out => .ok (.shard out)
        | .fail => .fail
        | .panic => .panic

/-! ### Reference listing of the names of a statement (independent of the handlers) -/

/-- how a name may legitimately be printed in the statement sent to a copy -/
inductive RefKind where
  /-- a table reference: `[db.]table [AS alias]` -/
  | table
  /-- a column (or `tbl.*`): `[db.][table.]column` -/
  | column
  /-- a column whose qualifiers are removed: SET column of an UPDATE; column
      list, SET column, ON DUPLICATE KEY UPDATE column and the columns in the
      values of an INSERT -/
  | bare
  deriving DecidableEq, Repr

structure Ref where
  kind : RefKind
  schema : String
  table : String
  name : String
  alias : String
  deriving DecidableEq, Repr

def colRef (k : RefKind) (c : ColRef) : Ref := { kind := k, schema := c.schema, table := c.table, name := c.name, alias := "" }

def fieldRefs : Field → List Ref
  | .star => []
  | .wild s t => [{ kind := .column, schema := s, table := t, name := "*", alias := "" }]
  | .expr e => e.cols.map (colRef .column)

def byRefs : ByItem → List Ref
  | .col c => [colRef .column c]
  | .agg e => e.cols.map (colRef .column)
  | _ => []

def optRefs : Option Expr → List Ref
  | some e => e.cols.map (colRef .column)
  | none => []

def tableRefs (t : TableRef) : List Ref :=
  { kind := .table, schema := t.schema, table := t.table, name := "", alias := t.alias } :: optRefs t.on

def insAssignRefs (a : Assign) : List Ref := colRef .bare a.col :: a.value.cols.map (colRef .bare)

/-- `handleExtraFieldList`: is the column already a plain, unqualified select field? -/
def selectsPlain (fields : List Field) (c : String) : Bool :=
  fields.any fun f => match f with
    | .expr (.col x) => x.schema == "" && x.table == "" && x.name == c
    | _ => false

/-- the select field the planner appends for one GROUP BY / ORDER BY item: the
    item again, unless it is a column the select list already has -/
def appendedOf (fields : List Field) : ByItem → List Ref
  | .col c => if selectsPlain fields c.name then [] else [colRef .column c]
  | .agg e => e.cols.map (colRef .column)
  | _ => []

def appendedRefs (s : TStmt) : List Ref :=
  if s.kind = .select then (s.groupBy ++ s.orderBy).flatMap (appendedOf s.fields) else []

/-- the names after the table references, in text order -/
def tailRefs (s : TStmt) : List Ref :=
  match s.kind with
  | .select => optRefs s.«where» ++ s.groupBy.flatMap byRefs ++ optRefs s.having ++ s.orderBy.flatMap byRefs
  | .update =>
    (s.sets.flatMap fun a => colRef .bare a.col :: a.value.cols.map (colRef .column)) ++ optRefs s.«where» ++
      s.orderBy.flatMap byRefs
  | .delete => optRefs s.«where» ++ s.orderBy.flatMap byRefs
  | .insert =>
    s.cols.map (colRef .bare) ++ (s.rows.flatMap fun row => row.flatMap fun e => e.cols.map (colRef .bare)) ++
      s.sets.flatMap insAssignRefs ++ s.ondup.flatMap insAssignRefs

/-- every table and column name of the statement the planner sends, in text
    order: the field list, the appended fields, the table references with
    their ON conditions, then the rest -/
def refs (s : TStmt) : List Ref :=
  s.fields.flatMap fieldRefs ++ appendedRefs s ++ s.tables.flatMap tableRefs ++ tailRefs s

/-- what a name looks like in the statement sent to the physical database `db`:
    as written, except that a schema qualifier is `db` (and `bare` names have no
    qualifier at all) -/
def printRef (db : String) (r : Ref) : List Chain :=
  match r.kind with
  | .table => ((if r.schema = "" then [] else [db]) ++ [r.table]) :: (if r.alias = "" then [] else [[r.alias]])
  | .bare => [[r.name]]
  | .column => [(if r.schema = "" then [] else [db]) ++ (if r.table = "" then [] else [r.table]) ++ [r.name]]

end GaeaVerif.GlobalTree
