import GaeaVerif.Model.Go
/-
  Model of the length-encoded codec and the bounded readers of
  /repo/mysql/encoding.go (C12; shared by C13, C16, C38, C39).
  Positions and sizes are Go `int`s (`Int` here, no wrap-around below 2^63);
  every index and slice expression of the Go code goes through `goIdx` /
  `goSlice`, so a missing guard shows up as a reachable `panic` outcome.
-/
namespace GaeaVerif.LenEnc
open GaeaVerif

/-- `LenEncIntSize`. -/
def lenEncIntSize (i : Nat) : Nat :=
  if i < 251 then 1 else if i < 65536 then 3 else if i < 16777216 then 4 else 9

/-- `AppendLenEncInt(nil, i)`, for `i < 2^64`. -/
def appendLenEncInt (i : Nat) : Bytes :=
  if i ≤ 250 then [UInt8.ofNat i]
  else if i ≤ 0xffff then 0xfc :: leBytes i 2
  else if i ≤ 0xffffff then 0xfd :: leBytes i 3
  else 0xfe :: leBytes i 8

/-- The bytes `WriteLenEncInt(data, pos, i)` stores at `data[pos:]`
    (it returns `pos + length`). -/
def writeLenEncInt (i : Nat) : Bytes :=
  if i < 251 then [UInt8.ofNat i]
  else if i < 65536 then 0xfc :: leBytes i 2
  else if i < 16777216 then 0xfd :: leBytes i 3
  else 0xfe :: leBytes i 8

/-- `AppendLenEncStringBytes(nil, b)`. -/
def appendLenEncStringBytes (b : Bytes) : Bytes := appendLenEncInt b.length ++ b

/-- `ReadByte`. -/
def readByte (d : Bytes) (pos : Int) : R (UInt8 × Int) :=
  if pos < 0 ∨ pos ≥ d.length then .fail else do
    let b ← goIdx d pos
    .ok (b, pos + 1)

/-- `ReadBytes` (and `ReadBytesCopy`, which returns a copy of the same bytes;
    `make([]byte, size)` panics for a negative size). -/
def readBytes (d : Bytes) (pos size : Int) : R (Bytes × Int) :=
  if size < 0 ∨ pos < 0 ∨ pos > d.length ∨ size > d.length - pos then .fail else do
    let s ← goSlice d pos (pos + size)
    .ok (s, pos + size)

def indexZero : Bytes → Option Nat
  | [] => none
  | b :: bs => if b = 0 then some 0 else (indexZero bs).map (· + 1)

/-- `ReadNullString` / `ReadNullByte`. -/
def readNull (d : Bytes) (pos : Int) : R (Bytes × Int) :=
  if pos < 0 ∨ pos > d.length then .fail else do
    let tail ← goSlice d pos d.length
    match indexZero tail with
    | none => .fail
    | some e => do
      let s ← goSlice d pos (pos + e)
      .ok (s, pos + e + 1)

/-- `ReadUint16/32/64` for `n = 2, 4, 8`. -/
def readUintN (n : Nat) (d : Bytes) (pos : Int) : R (Nat × Int) :=
  if pos < 0 ∨ pos ≥ d.length ∨ (d.length : Int) - pos ≤ (n : Int) - 1 then .fail else do
    let s ← goSlice d pos (pos + n)
    .ok (leNat s, pos + n)

/-- `ReadLenEncInt`: value, next position, NULL flag. -/
def readLenEncInt (d : Bytes) (pos : Int) : R (Nat × Int × Bool) :=
  if pos < 0 ∨ pos ≥ d.length then .fail else do
    let b ← goIdx d pos
    if b = 0xfb then .ok (0, pos + 1, true)
    else if b = 0xfc then
      if pos + 2 ≥ d.length then .fail else do
        let b1 ← goIdx d (pos + 1)
        let b2 ← goIdx d (pos + 2)
        .ok (leNat [b1, b2], pos + 3, false)
    else if b = 0xfd then
      if pos + 3 ≥ d.length then .fail else do
        let b1 ← goIdx d (pos + 1)
        let b2 ← goIdx d (pos + 2)
        let b3 ← goIdx d (pos + 3)
        .ok (leNat [b1, b2, b3], pos + 4, false)
    else if b = 0xfe then
      if pos + 8 ≥ d.length then .fail else do
        let b1 ← goIdx d (pos + 1)
        let b2 ← goIdx d (pos + 2)
        let b3 ← goIdx d (pos + 3)
        let b4 ← goIdx d (pos + 4)
        let b5 ← goIdx d (pos + 5)
        let b6 ← goIdx d (pos + 6)
        let b7 ← goIdx d (pos + 7)
        let b8 ← goIdx d (pos + 8)
        .ok (leNat [b1, b2, b3, b4, b5, b6, b7, b8], pos + 9, false)
    else .ok (b.toNat, pos + 1, false)

/-- `ReadLenEncStringAsBytes` (and `readLenEncString`, which returns the same
    bytes as a string and drops the NULL flag). -/
def readLenEncStringAsBytes (d : Bytes) (pos : Int) : R (Bytes × Int × Bool) := do
  let (size, p, isNull) ← readLenEncInt d pos
  let s := u64ToInt size
  if s < 0 ∨ s > d.length - p then .fail else do
    let v ← goSlice d p (p + s)
    .ok (v, p + s, isNull)

/-- `skipLenEncString`. -/
def skipLenEncString (d : Bytes) (pos : Int) : R Int := do
  let (size, p, _) ← readLenEncInt d pos
  let s := u64ToInt size
  if s < 0 ∨ s > d.length - p then .fail else .ok (p + s)

end GaeaVerif.LenEnc
