import GaeaVerif.Model.Go
/-
  Model of replica selection (C25):

    backend/balancer.go   gcd, newBalancer, (*balancer).next
    backend/slice.go      (*DBInfo).getIndicesAndWeights, (*DBInfo).InitBalancers,
                          (*DBInfo).GetNode, allSlaveIsOffline,
                          (*Slice).getNodeFromBalancer, getConnFromBalancer,
                          getConnFromBalancerTryAll (after the `fix:` commit 5e14b16),
                          getConnWithFuse (pool answer only), GetSlaveConn

  Go `int` is modelled by `Int` (`/` = `Int.tdiv`, `%` = `Int.tmod`); the
  `uint32` cursor `nextIndex` by a `Nat` kept below 2^32 (every store is
  reduced `% 2^32`).  `rand.Shuffle` in `newBalancer` is a parameter
  `shuffle : List Int → List Int` (the theorems assume only that it permutes).
  Where Go would panic (integer division by zero, index out of range) the model
  returns `panic`.  One call of `next` is one atomic step (the successful
  compare-and-swap; failed attempts change nothing), one `GetSlaveConn` runs
  under the `DBInfo` lock.  Core Lean only.
-/
namespace GaeaVerif.Balancer
open GaeaVerif

/-- backend/balancer.go `balancer`. -/
structure Balancer where
  nextIndex : Nat            -- uint32
  roundRobinQ : List Int
  poolIndices : List Int
  poolWeights : List Int
  deriving Repr, BEq, DecidableEq

/-- `gcdHelper` inside `gcd`: `for b != 0 { a, b = b, a%b }` with explicit
    fuel (`|a % b| < |b|`, so `|b| + 1` iterations suffice). -/
def gcdHelperFuel : Nat → Int → Int → Int
  | 0, a, _ => a
  | n + 1, a, b => if b = 0 then a else gcdHelperFuel n b (Int.tmod a b)

def gcdHelper (a b : Int) : Int := gcdHelperFuel (b.natAbs + 1) a b

/-- the loop `for i := 1; i < len(ary); i++` of `gcd` -/
def gcdLoop (g : Int) : List Int → Int
  | [] => g
  | w :: ws =>
    let g' := gcdHelper g w
    if g' = 1 then 1 else gcdLoop g' ws

/-- backend/balancer.go `gcd`. -/
def gcd : List Int → Int
  | [] => 1
  | w :: ws => gcdLoop w ws

/-- The weight expansion built by `newBalancer`: `idx` repeated
    `weights[i] / gcdVal` times (a negative repeat count repeats 0 times). -/
def expand (gcdVal : Int) : List Int → List Int → List Int
  | idx :: is, w :: ws => List.replicate (Int.tdiv w gcdVal).toNat idx ++ expand gcdVal is ws
  | _, _ => []

/-- backend/balancer.go `newBalancer`: `fail` = the error return, `ok none` =
    `(nil, nil)`. -/
def newBalancer (indices weights : List Int) (shuffle : List Int → List Int) : R (Option Balancer) :=
  if indices.length ≠ weights.length then .fail
  else if indices.length = 0 then .ok none
  else
    let gcdVal := gcd weights
    if gcdVal = 0 then .panic            -- weight / gcdVal: integer divide by zero
    else
      let queue := expand gcdVal indices weights
      let queue := if queue.length > 1 then shuffle queue else queue
      .ok (some { nextIndex := 0, roundRobinQ := queue, poolWeights := weights, poolIndices := indices })

/-- Go `q[i]` on an `[]int`. -/
def qIdx (q : List Int) (i : Nat) : R Int :=
  match q[i]? with
  | some v => .ok v
  | none => .panic

/-- backend/balancer.go `(*balancer).next` (after the `fix:` commit: the cursor
    is advanced modulo the queue length by compare-and-swap, so it never wraps
    at 2^32 in the middle of a round): `fail` = the error return. -/
def Balancer.next (b : Balancer) : Balancer × R Int :=
  let L := b.roundRobinQ.length
  if L = 0 then (b, .fail)
  else if L = 1 then (b, qIdx b.roundRobinQ 0)
  else
    let idx := b.nextIndex + 1                      -- int64(old) + 1
    let idx := if idx ≥ L then 0 else idx
    ({ b with nextIndex := idx % 4294967296 }, qIdx b.roundRobinQ idx)

/-- The pinned code before the fix: `atomic.AddUint32(&b.nextIndex, 1)` then
    `int64(newIndex) % int64(len(q))`. Kept for the witness theorem only. -/
def Balancer.nextWrapping (b : Balancer) : Balancer × R Int :=
  let L := b.roundRobinQ.length
  if L = 0 then (b, .fail)
  else if L = 1 then (b, qIdx b.roundRobinQ 0)
  else
    let newIndex := (b.nextIndex + 1) % 4294967296
    ({ b with nextIndex := newIndex }, qIdx b.roundRobinQ (newIndex % L))

/-- `n` consecutive calls of `next`: the picks, or the first failure. -/
def nextN : Nat → Balancer → R (Balancer × List Int)
  | 0, b => .ok (b, [])
  | n + 1, b =>
    match b.next with
    | (b1, .ok v) =>
      match nextN n b1 with
      | .ok (b2, vs) => .ok (b2, v :: vs)
      | .fail => .fail
      | .panic => .panic
    | (_, .fail) => .fail
    | (_, .panic) => .panic

def nextNWrapping : Nat → Balancer → R (Balancer × List Int)
  | 0, b => .ok (b, [])
  | n + 1, b =>
    match b.nextWrapping with
    | (b1, .ok v) =>
      match nextNWrapping n b1 with
      | .ok (b2, vs) => .ok (b2, v :: vs)
      | .fail => .fail
      | .panic => .panic
    | (_, .fail) => .fail
    | (_, .panic) => .panic

/-! ### the lock-free loop of `next`, one atomic action at a time -/

/-- Shared cursor plus, per goroutine, the value its last `atomic.LoadUint32`
    returned (`none` = it has to (re)load before it can try the swap). -/
structure Shared where
  b : Balancer
  regs : List (Option Nat)
  deriving Repr, BEq, DecidableEq

inductive Act where
  | load (t : Nat)   -- goroutine t: old := atomic.LoadUint32(&b.nextIndex)
  | cas (t : Nat)    -- goroutine t: atomic.CompareAndSwapUint32(&b.nextIndex, old, idx)
  deriving Repr, BEq, DecidableEq

/-- One atomic action; `some r` = goroutine `t`'s call of `next` returns `r`. -/
def casStep (s : Shared) : Act → Shared × Option (R Int)
  | .load t => ({ s with regs := s.regs.set t (some s.b.nextIndex) }, none)
  | .cas t =>
    match s.regs.getD t none with
    | none => (s, none)
    | some old =>
      if s.b.nextIndex = old then
        let r := ({ s.b with nextIndex := old } : Balancer).next   -- idx is computed from `old`
        ({ b := r.1, regs := s.regs.set t none }, some r.2)
      else ({ s with regs := s.regs.set t none }, none)            -- swap failed: loop again

def runSched (s : Shared) : List Act → Shared × List (R Int)
  | [] => (s, [])
  | a :: as =>
    let (s1, r) := casStep s a
    let (s2, rs) := runSched s1 as
    (s2, match r with | some x => x :: rs | none => rs)

/-- `k` sequential calls of `next`, results included. -/
def nextSeq : Nat → Balancer → Balancer × List (R Int)
  | 0, b => (b, [])
  | k + 1, b =>
    let (b1, r) := b.next
    let (b2, rs) := nextSeq k b1
    (b2, r :: rs)

/-! ### DBInfo -/

/-- What selection reads of a `backend.NodeInfo`. Datacenters are compared for
    equality only and are modelled by numbers. -/
structure Node where
  weight : Int
  dc : Nat
  up : Bool          -- Status == StatusUp
  poolOk : Bool      -- ConnPool.Get answers a connection (no error)
  deriving Repr, BEq, DecidableEq

structure DBInfo where
  nodes : List Node
  localB : Option Balancer
  remoteB : Option Balancer
  globalB : Option Balancer
  deriving Repr, BEq, DecidableEq

structure IndexWeightList where
  indices : List Int
  weights : List Int
  deriving Repr, BEq, DecidableEq

/-- backend/slice.go `(*DBInfo).getIndicesAndWeights`, the loop from node
    index `idx` on: (local, remote, global). -/
def getIndicesAndWeightsFrom (proxyDC : Nat) : Int → List Node →
    IndexWeightList × IndexWeightList × IndexWeightList
  | _, [] => (⟨[], []⟩, ⟨[], []⟩, ⟨[], []⟩)
  | idx, nd :: rest =>
    let (l, r, g) := getIndicesAndWeightsFrom proxyDC (idx + 1) rest
    if nd.weight ≤ 0 then (l, r, g)
    else
      let g' : IndexWeightList := ⟨idx :: g.indices, nd.weight :: g.weights⟩
      if nd.dc = proxyDC then (⟨idx :: l.indices, nd.weight :: l.weights⟩, r, g')
      else (l, ⟨idx :: r.indices, nd.weight :: r.weights⟩, g')

def getIndicesAndWeights (nodes : List Node) (proxyDC : Nat) :=
  getIndicesAndWeightsFrom proxyDC 0 nodes

/-- backend/slice.go `(*DBInfo).InitBalancers` (one shuffle per balancer);
    `fail` = the error return. -/
def InitBalancers (d : DBInfo) (proxyDC : Nat) (shG shL shR : List Int → List Int) : R DBInfo :=
  if d.nodes.length = 0 then .ok d
  else
    let (l, r, g) := getIndicesAndWeights d.nodes proxyDC
    let mk (cur : Option Balancer) (x : IndexWeightList) (sh : List Int → List Int) : R (Option Balancer) :=
      if x.indices.length > 0 then newBalancer x.indices x.weights sh else .ok cur
    match mk d.globalB g shG, mk d.localB l shL, mk d.remoteB r shR with
    | .panic, _, _ => .panic
    | _, .panic, _ => .panic
    | _, _, .panic => .panic
    | .ok gb, .ok lb, .ok rb => .ok { d with globalB := gb, localB := lb, remoteB := rb }
    | _, _, _ => .fail

/-- backend/slice.go `(*DBInfo).GetNode`. -/
def GetNode (nodes : List Node) (index : Int) : Option Node :=
  if index < 0 ∨ index ≥ nodes.length then none else nodes[index.toNat]?

/-- backend/slice.go `allSlaveIsOffline`. -/
def allSlaveIsOffline (nodes : List Node) : Bool := nodes.all fun nd => !nd.up

/-- Outcome of a selection. -/
inductive Sel where
  | conn (i : Int)         -- a connection of node `i` is handed out
  | noSlave                -- errors.ErrNoSlaveDB
  | noLocalBalancer        -- "no local balancer available"
  | noGlobalBalancer       -- "no global balancer available"
  | noHealthy              -- "no healthy connection available from selected balancer"
  | nextErr                -- "failed to get next index from balancer"
  | pool (i : Int)         -- *getConnError: the pool of the selected node `i` failed
  | noLocalOrRemote        -- "no available slave DB in local or remote data centers"
  | panic
  deriving Repr, BEq, DecidableEq

/-- The loop of `getNodeFromBalancer`, `n` iterations left: `ok i` = node `i`
    returned, `fail` = loop exhausted. -/
def getNodeLoop (nodes : List Node) : Nat → Balancer → Balancer × Sel
  | 0, b => (b, .noHealthy)
  | n + 1, b =>
    match b.next with
    | (b1, .ok index) =>
      match GetNode nodes index with
      | some nd => if nd.up then (b1, .conn index) else getNodeLoop nodes n b1
      | none => getNodeLoop nodes n b1
    | (b1, .fail) => (b1, .nextErr)
    | (b1, .panic) => (b1, .panic)

/-- backend/slice.go `(*Slice).getNodeFromBalancer` (`conn i` = node `i`). -/
def getNodeFromBalancer (nodes : List Node) (b : Balancer) : Balancer × Sel :=
  getNodeLoop nodes b.roundRobinQ.length b

/-- backend/slice.go `getConnFromBalancer` + `getConnWithFuse` (the breaker is
    C26's; here only whether the pool answers). -/
def getConnFromBalancer (nodes : List Node) (b : Balancer) : Balancer × Sel :=
  match getNodeFromBalancer nodes b with
  | (b1, .conn i) =>
    match GetNode nodes i with
    | some nd => if nd.poolOk then (b1, .conn i) else (b1, .pool i)
    | none => (b1, .panic)
  | r => r

/-- The loop of `getConnFromBalancerTryAll`, `n` iterations left. `tried` = the
    keys of the Go map `tried` (nodes whose pool has been asked in this call,
    latest first), `last` = `lastErr`.  Result: balancer, outcome, and the nodes
    whose pool was asked (latest first). -/
def tryAllLoop (nodes : List Node) : Nat → List Int → Sel → Balancer → Balancer × Sel × List Int
  | 0, tried, last, b => (b, last, tried)
  | n + 1, tried, last, b =>
    match getNodeFromBalancer nodes b with
    | (b1, .conn i) =>
      if tried.contains i then tryAllLoop nodes n tried last b1          -- continue
      else
        match GetNode nodes i with
        | some nd =>
          if nd.poolOk then (b1, .conn i, i :: tried)
          else tryAllLoop nodes n (i :: tried) (.pool i) b1              -- lastErr = err
        | none => (b1, .panic, tried)
    | (b1, o) => (b1, o, tried)                                          -- return nil, err

/-- backend/slice.go `(*Slice).getConnFromBalancerTryAll` (added by the `fix:`
    commit): up to `len(roundRobinQ)` calls of `getNodeFromBalancer`; the pool of
    every node returned is asked once; the first connection is handed out.
    `lastErr` starts as the "no healthy connection" error. -/
def getConnFromBalancerTryAll (nodes : List Node) (b : Balancer) : Balancer × Sel × List Int :=
  tryAllLoop nodes b.roundRobinQ.length [] .noHealthy b

def LocalSlaveReadClosed : Int := 0
def LocalSlaveReadPrefer : Int := 1
def LocalSlaveReadForce : Int := 2

def Sel.isConn : Sel → Bool
  | .conn _ => true
  | _ => false

/-- `getConnFromBalancer(slavesInfo, slavesInfo.LocalBalancer)` guarded by the
    nil check in front of it. -/
def attemptLocal (d : DBInfo) : DBInfo × Sel :=
  match d.localB with
  | none => (d, .noLocalBalancer)
  | some b =>
    let r := getConnFromBalancer d.nodes b
    ({ d with localB := some r.1 }, r.2)

/-- the same for `RemoteBalancer` (a nil balancer is skipped: any outcome that
    is not a connection) -/
def attemptRemote (d : DBInfo) : DBInfo × Sel :=
  match d.remoteB with
  | none => (d, .noLocalBalancer)
  | some b =>
    let r := getConnFromBalancer d.nodes b
    ({ d with remoteB := some r.1 }, r.2)

/-- the same for `GlobalBalancer` -/
def attemptGlobal (d : DBInfo) : DBInfo × Sel :=
  match d.globalB with
  | none => (d, .noGlobalBalancer)
  | some b =>
    let r := getConnFromBalancer d.nodes b
    ({ d with globalB := some r.1 }, r.2)

/-- `getConnFromBalancerTryAll(slavesInfo, slavesInfo.LocalBalancer)` guarded by
    the nil check in front of it (a nil balancer is skipped: any outcome that is
    not a connection); third component: the nodes whose pool was asked, latest first. -/
def attemptLocalAll (d : DBInfo) : DBInfo × Sel × List Int :=
  match d.localB with
  | none => (d, .noLocalBalancer, [])
  | some b =>
    let r := getConnFromBalancerTryAll d.nodes b
    ({ d with localB := some r.1 }, r.2.1, r.2.2)

/-- the same for `RemoteBalancer` -/
def attemptRemoteAll (d : DBInfo) : DBInfo × Sel × List Int :=
  match d.remoteB with
  | none => (d, .noLocalBalancer, [])
  | some b =>
    let r := getConnFromBalancerTryAll d.nodes b
    ({ d with remoteB := some r.1 }, r.2.1, r.2.2)

/-- backend/slice.go `(*Slice).GetSlaveConn` (after the `fix:` commit: the
    preferred-local branch tries every local replica that is up before it goes
    remote, and every remote one before it gives up). -/
def GetSlaveConn (d : DBInfo) (policy : Int) : DBInfo × Sel :=
  if d.nodes.length = 0 ∨ allSlaveIsOffline d.nodes then (d, .noSlave)
  else if policy = LocalSlaveReadForce then attemptLocal d
  else if policy = LocalSlaveReadPrefer then
    let r1 := attemptLocalAll d
    if r1.2.1.isConn || r1.2.1 == .panic then (r1.1, r1.2.1)
    else
      let r2 := attemptRemoteAll r1.1
      if r2.2.1.isConn || r2.2.1 == .panic then (r2.1, r2.2.1) else (r2.1, .noLocalOrRemote)
  else
    -- LocalSlaveReadClosed and every other value: the global balancer
    attemptGlobal d

/-- The pools asked (`ConnPool.Get`) by one `GetSlaveConn`, in the order of the
    calls (observed by the harness through the scripted pools). -/
def GetSlaveConnGets (d : DBInfo) (policy : Int) : List Int :=
  if d.nodes.length = 0 ∨ allSlaveIsOffline d.nodes then []
  else if policy = LocalSlaveReadPrefer ∧ policy ≠ LocalSlaveReadForce then
    let r1 := attemptLocalAll d
    if r1.2.1.isConn || r1.2.1 == .panic then r1.2.2.reverse
    else r1.2.2.reverse ++ (attemptRemoteAll r1.1).2.2.reverse
  else
    match (GetSlaveConn d policy).2 with
    | .conn i => [i]
    | .pool i => [i]
    | _ => []

/-- `GetSlaveConn` before the `fix:` commit (one attempt per balancer). Kept for
    the witness theorem only. -/
def GetSlaveConnLegacy (d : DBInfo) (policy : Int) : DBInfo × Sel :=
  if d.nodes.length = 0 ∨ allSlaveIsOffline d.nodes then (d, .noSlave)
  else if policy = LocalSlaveReadForce then attemptLocal d
  else if policy = LocalSlaveReadPrefer then
    let r1 := attemptLocal d
    if r1.2.isConn || r1.2 == .panic then r1
    else
      let r2 := attemptRemote r1.1
      if r2.2.isConn || r2.2 == .panic then r2 else (r2.1, .noLocalOrRemote)
  else
    attemptGlobal d

/-! ### histories -/

inductive Op where
  | sel (policy : Int)               -- one GetSlaveConn
  | setUp (i : Nat) (up : Bool)      -- health checker / breaker changes node i's status
  | setPool (i : Nat) (ok : Bool)    -- node i's pool starts / stops answering
  deriving Repr, BEq, DecidableEq

def setNode (nodes : List Node) (i : Nat) (f : Node → Node) : List Node :=
  match nodes[i]? with
  | some nd => nodes.set i (f nd)
  | none => nodes

/-- One step; the outcome of a selection (`none` for the other operations). -/
def step (d : DBInfo) : Op → DBInfo × Option Sel
  | .sel p => let (d1, o) := GetSlaveConn d p; (d1, some o)
  | .setUp i u => ({ d with nodes := setNode d.nodes i fun nd => { nd with up := u } }, none)
  | .setPool i k => ({ d with nodes := setNode d.nodes i fun nd => { nd with poolOk := k } }, none)

/-- The trace of a history: for every selection the state it ran in, the
    policy and the outcome. -/
def run (d : DBInfo) : List Op → List (DBInfo × Int × Sel)
  | [] => []
  | op :: ops =>
    let (d1, o) := step d op
    match op, o with
    | .sel p, some o => (d, p, o) :: run d1 ops
    | _, _ => run d1 ops

end GaeaVerif.Balancer
