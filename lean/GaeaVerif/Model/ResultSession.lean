import GaeaVerif.Model.ResultStream
/-
  Model of how the answers of the backends travel through a whole client
  session (C39, second level — on top of `Model/ResultStream.lean`, whose
  `readRows`, `sendResult`/`streamMore` and `execShard` are used as they are):

    proxy/server/session.go        Run (one command after the other, txConnLost),
                                   writeResponse (a stream given up with packets
                                   unread closes its connection — repaired), Close
    proxy/server/client_conn.go    writeOKResultStream: every result of a
                                   multi-result answer, each chunk by chunk
                                   (repaired), closing EOF with the
                                   more-results flag (repaired)
    backend/pooled_connection.go   Execute / ReadMoreResult (moreRowsExist,
                                   moreResultsExist), Recycle
    backend/direct_connection.go   readResult, drainResults following the
                                   more-results flag (repaired)
    proxy/server/executor.go       ExecuteSQL → executeUnshardSQLInSlice (deadline
                                   max_sql_execute_time around the first chunk),
                                   ExecuteSQLs → executeMultipleSQLInSlice (deadline
                                   around all statements of a slice), recycle*,
                                   transaction / keep-session pinning
    proxy/server/executor_handle.go  doMultiStmts (a COM_QUERY text of several
                                   statements: every statement answered on its own,
                                   the flag on all answers but the last - repaired)
    proxy/plan/plan_select.go      SelectPlan.ExecuteIn + MergeSelectResult for a
                                   SELECT without aggregation, ORDER BY, LIMIT: the
                                   rows of the sub-tables one after the other

  An answer of a backend is a list of results (`Res`): OK packets, ERR
  packets, result sets; a result set is its header followed by the packets of
  `Model/ResultStream.lean` (`body`: rows, then EOF / ERR / nothing = connection
  lost / `stall` = silence).  `more` is SERVER_MORE_RESULTS_EXISTS in the status
  of the result (header EOF, closing EOF, OK packet).  What the backend has sent
  and the proxy has not read is kept per connection (`Left`): a statement that
  starts on a connection with something left reads a stranger's packets as its
  own answer — the model then stops with `desync` (proved unreachable for
  well-formed answers, `Props/C39.lean`).

  Not modelled: a backend connection that is lost (`cut`) while a transaction or
  keep-session pins it stays pinned until its next use fails; here it counts as
  closed at once (never generated; C18/C19/C23 cover that bookkeeping).  The
  pool of a slice holds one connection (the harness builds it so), so the
  connection a statement gives back is the one the next statement gets.
  Core Lean only.
-/
namespace GaeaVerif.ResultSession
open GaeaVerif GaeaVerif.ResultStream

/-- One result of a backend's answer. -/
inductive Res where
  /-- an OK packet -/
  | okp (more : Bool)
  /-- an ERR packet in place of a result -/
  | errp
  /-- silence in place of a result -/
  | stall0
  /-- a result set: header (column count, definitions, EOF), then `body` -/
  | set (more : Bool) (body : List Pkt)
  deriving Repr, BEq, DecidableEq

/-- Packets a list of `Pkt` stands for on the wire (`stall` is not a packet). -/
def wirePackets : List Pkt → Nat
  | [] => 0
  | .stall :: rest => wirePackets rest
  | _ :: rest => 1 + wirePackets rest

def Res.packets : Res → Nat
  | .okp _ => 1
  | .errp => 1
  | .stall0 => 0
  | .set _ body => headerPackets + wirePackets body

def packetsOf : List Res → Nat
  | [] => 0
  | r :: rs => r.packets + packetsOf rs

/-- What a backend has sent on a connection and the proxy has not read. -/
structure Left where
  body : List Pkt
  more : List Res
  deriving Repr, BEq, DecidableEq

def Left.clean (l : Left) : Bool := l.body.isEmpty && l.more.isEmpty

def Left.packets (l : Left) : Nat := wirePackets l.body + packetsOf l.more

/-- The backend connection when the statement is over. -/
inductive ConnAfter where
  /-- closed (time-out, stream given up, connection lost) -/
  | closed
  /-- open, with `left` unread; `pkgErr`: `dc.pkgErr` is set — `Recycle` closes
      such a connection, a pinned one goes on (the next read clears the flag) -/
  | live (left : Left) (pkgErr : Bool)
  deriving Repr, BEq, DecidableEq

/-- What an ERR packet sent to the client is about. -/
inductive SErr where
  | limit | backend | timeout | conn
  deriving Repr, BEq, DecidableEq

/-- How the answer to a statement ends at the client. -/
inductive SFin where
  /-- the last result was closed without the more-results flag -/
  | done
  | err (k : SErr)
  /-- nothing more is written and the session closes the client connection
      (backend connection lost in the unsharded path, or a write failed) -/
  | closed
  /-- the session blocks: the backend is silent and nobody waits with a deadline -/
  | hang
  deriving Repr, BEq, DecidableEq

/-- One result as the client sees it. -/
inductive RView where
  | okp (more : Bool)
  /-- a result set: its rows, and the flag of the closing EOF if one was sent -/
  | rs (rows : List Row) (ended : Option Bool)
  deriving Repr, BEq, DecidableEq

structure StmtOut where
  views : List RView
  fin : SFin
  conn : ConnAfter
  deriving Repr, BEq, DecidableEq

def sErrFin (b : Option Nat) (k : SErr) : SFin := if accepts b 1 then .err k else .closed

/-- Where the drain of `drainResults` stands after it failed on an ERR packet;
    `none`: the stream ran out (connection lost). -/
def afterFirstErr : List Pkt → Option (List Pkt)
  | [] => none
  | .err :: rest => some rest
  | _ :: rest => afterFirstErr rest

/-- `drainMoreResults` (repaired `drainResults`): the results that follow a
    result whose status announced them are read and dropped. -/
inductive Drained where
  /-- everything announced was read; `left` has not been announced -/
  | ok (left : List Res)
  /-- an ERR packet ended the answer (`dc.pkgErr` is set) -/
  | failed (left : List Res)
  /-- the connection was lost -/
  | lost
  | stalled
  deriving Repr, BEq, DecidableEq

def drainMore : List Res → Drained
  | [] => .lost
  | .okp more :: rs => if more then drainMore rs else .ok rs
  | .errp :: rs => .failed rs
  | .stall0 :: _ => .stalled
  | .set more body :: rs =>
    match drainResults body with
    | .ok _ => if more then drainMore rs else .ok rs
    | .failed =>
      match afterFirstErr body with
      | some _ => .failed rs
      | none => .lost
    | .stalled => .stalled

/-- The backend is silent: `Execute` of the first result runs under the
    deadline of `executeUnshardSQLInSlice` (if `max_sql_execute_time` is set):
    the statement fails with `execution timed out` and the connection is closed.
    Everything later is read by `writeOKResultStream` with no deadline. -/
def timedOut (first armed : Bool) (acc : List RView) (b : Option Nat) : StmtOut :=
  if first && armed then ⟨acc.reverse, sErrFin b .timeout, .closed⟩
  else ⟨acc.reverse, .hang, .closed⟩

/-- `ExecuteSQL` (`first`) / `ReadMoreResult`, and `writeOKResultStream`'s
    round for the result read, over the results of the answer.
    `acc`: the results sent so far, newest first; `b`: packets the client
    still takes. -/
def unResults (T : Nat) (m : Int) (armed : Bool) : Bool → List Res → Option Nat → List RView → StmtOut
  -- nothing comes: the connection is lost (ErrBadConn: no response, the session ends)
  | _, [], _, acc => ⟨acc.reverse, .closed, .closed⟩
  | first, .stall0 :: _, b, acc => timedOut first armed acc b
  | _, .errp :: rs, b, acc => ⟨acc.reverse, sErrFin b .backend, .live ⟨[], rs⟩ false⟩
  | _, .okp more :: rs, b, acc =>
    -- writeOKResult: one OK packet
    if accepts b 1 then
      if more then unResults T m armed false rs (spend b 1) (.okp true :: acc)
      else ⟨(RView.okp false :: acc).reverse, .done, .live ⟨[], rs⟩ false⟩
    -- the write fails; with further results announced the connection is closed
    else ⟨acc.reverse, .closed, if more then .closed else .live ⟨[], rs⟩ false⟩
  | first, .set more body :: rs, b, acc =>
    match readRows T m body [] 0 0 with
    | .ok rowsRev moreRows rest =>
      let c := sendResult T m rowsRev moreRows rest b
      -- the client saw this result only if it took its first packet
      let seen (ended : Option Bool) : List RView :=
        if accepts b 1 then .rs c.rows ended :: acc else acc
      match c.fin with
      | .eof =>
        if more then
          unResults T m armed false rs (spend b (headerPackets + c.rows.length + 1)) (.rs c.rows (some true) :: acc)
        else
          ⟨(RView.rs c.rows (some false) :: acc).reverse, .done,
            match c.fate with
            | .pooled p => .live ⟨p, rs⟩ false
            | .closed => .closed⟩
      -- the stream of this result was given up (Session.writeResponse closes a connection
      -- with rows pending or further results announced)
      | f =>
        ⟨(seen none).reverse,
          match f with
          | .err .limit => .err .limit
          | .err .backend => .err .backend
          | .hang => .hang
          | _ => .closed,
          match c.fate with
          | .pooled p => if more then .closed else .live ⟨p, rs⟩ false
          | .closed => .closed⟩
    | .errConn => ⟨acc.reverse, .closed, .closed⟩
    | .errBackend rest => ⟨acc.reverse, sErrFin b .backend, .live ⟨rest, rs⟩ false⟩
    | .errLimit rest =>
      -- drained up to the closing EOF; further results are drained too (repaired)
      if more then
        match drainMore rs with
        | .ok left => ⟨acc.reverse, sErrFin b .limit, .live ⟨rest, left⟩ false⟩
        | .failed left => ⟨acc.reverse, sErrFin b .limit, .live ⟨rest, left⟩ true⟩
        | .lost => ⟨acc.reverse, sErrFin b .limit, .closed⟩
        | .stalled => timedOut first armed acc b
      else ⟨acc.reverse, sErrFin b .limit, .live ⟨rest, rs⟩ false⟩
    | .errLimitDrain =>
      match afterFirstErr body with
      | some rest => ⟨acc.reverse, sErrFin b .limit, .live ⟨rest, rs⟩ true⟩
      | none => ⟨acc.reverse, sErrFin b .limit, .closed⟩
    | .stalled => timedOut first armed acc b

/-- An unsharded statement: `ExecuteSQL` and `Session.writeResponse`. -/
def unStmt (T : Nat) (m : Int) (armed : Bool) (answer : List Res) (b : Option Nat) : StmtOut :=
  unResults T m armed true answer b []

/-! ### sharded statements, from above the planner -/

/-- The answer to the statement of one sub-table. -/
inductive TRes where
  | errp
  | stall0
  | set (body : List Pkt)
  deriving Repr, BEq, DecidableEq

/-- One slice of a sharded statement. -/
inductive SliceOut where
  | ok (rows : List (List Row))
  | err (k : SErr)
  /-- the backend is silent and `max_sql_execute_time` is not set -/
  | hang
  /-- the next statement of the slice was sent on a connection with unread packets -/
  | desync
  deriving Repr, BEq, DecidableEq

/-- `executeMultipleSQLInSlice`: the statements of a slice one after the other
    on its connection (`executeCompleteSQLInSlice`, every chunk fetched); the
    first error ends the slice; the deadline covers all of them. -/
def execSlice (T : Nat) (m : Int) (armed : Bool) : List TRes → List (List Row) → SliceOut × ConnAfter
  | [], acc => (.ok acc.reverse, .live ⟨[], []⟩ false)
  | .errp :: _, _ => (.err .backend, .live ⟨[], []⟩ false)
  | .stall0 :: _, _ => if armed then (.err .timeout, .closed) else (.hang, .closed)
  | .set body :: ts, acc =>
    match execShard T m body with
    | .ok rows (.pooled rest) =>
      match ts with
      | [] => (.ok (rows :: acc).reverse, .live ⟨rest, []⟩ false)
      | _ :: _ => if rest.isEmpty then execSlice T m armed ts (rows :: acc) else (.desync, .live ⟨rest, []⟩ false)
    | .ok _ .closed => (.err .conn, .closed)
    | .errLimit (.pooled rest) => (.err .limit, .live ⟨rest, []⟩ false)
    | .errLimit .closed =>
      match afterFirstErr body with
      | some rest => (.err .limit, .live ⟨rest, []⟩ true)
      | none => (.err .limit, .closed)
    | .errBackend (.pooled rest) => (.err .backend, .live ⟨rest, []⟩ false)
    | .errBackend .closed => (.err .backend, .closed)
    | .errConn => (.err .conn, .closed)
    | .stalled => if armed then (.err .timeout, .closed) else (.hang, .closed)
    | .fuel => (.hang, .closed)

/-- The kind of the ERR packet of a sharded statement: the errors of the slices
    are joined into one message, which names the row limit first. -/
def errKind (ks : List SErr) : SErr :=
  if ks.contains .limit then .limit
  else if ks.contains .backend then .backend
  else if ks.contains .timeout then .timeout
  else .conn

def SliceOut.isHang : SliceOut → Bool
  | .hang => true
  | _ => false

def SliceOut.isDesync : SliceOut → Bool
  | .desync => true
  | _ => false

def SliceOut.rows : SliceOut → List (List Row)
  | .ok rows => rows
  | _ => []

def SliceOut.err? : SliceOut → Option SErr
  | .err k => some k
  | _ => none

/-- `SelectPlan.ExecuteIn` for `SELECT c… FROM t [WHERE …]` (no aggregation, no
    ORDER BY, no LIMIT): `ExecuteSQLs`, then the rows of the sub-tables one
    after the other, slice by slice (`MergeSelectResult`; the one result as it
    is when a single sub-table was asked), written with `writeOKResult`. -/
def sqClient (outs : List SliceOut) (b : Option Nat) : List RView × SFin :=
  if outs.any SliceOut.isHang then ([], .hang)
  else
    match outs.filterMap SliceOut.err? with
    | k :: ks => ([], sErrFin b (errKind (k :: ks)))
    | [] =>
      let rows := (outs.map fun o => o.rows.flatten).flatten
      if accepts b (headerPackets + rows.length + 1) then ([.rs rows (some false)], .done)
      else if accepts b 1 then ([.rs (rows.take (b.getD 0 - headerPackets)) none], .closed)
      else ([], .closed)

/-! ### the session -/

/-- One slice of the namespace as the session sees it. -/
structure Sl where
  /-- the live connection (pinned by the session or idle in the pool) and what is unread on it -/
  conn : Option Left
  /-- pinned by the open transaction / by keep-session -/
  pinned : Bool
  /-- connections of this slice closed so far -/
  closedN : Nat
  deriving Repr, BEq, DecidableEq

structure Sess where
  /-- keep-session -/
  ks : Bool
  tx : Bool
  alive : Bool
  s0 : Sl
  s1 : Sl
  /-- a command was sent on a connection with unread packets -/
  desync : Bool
  deriving Repr, BEq, DecidableEq

def Sess.init (ks : Bool) : Sess := ⟨ks, false, true, ⟨none, false, 0⟩, ⟨none, false, 0⟩, false⟩

inductive Stmt where
  | begin
  | commit
  | rollback
  /-- unsharded statement: the answer of slice-0's backend, what the client takes -/
  | un (answer : List Res) (b : Option Nat)
  /-- sharded statement: the answers to the statements of slice-0 and of slice-1 (in table order) -/
  | sq (t0 t1 : List TRes) (b : Option Nat)
  /-- one COM_QUERY text of several unsharded statements, split by the proxy
      (`support_multi_query` and CLIENT_MULTI_STATEMENTS: `doMultiStmts`): the
      answer of slice-0's backend to each statement (one result per statement) -/
  | mq (pieces : List Res) (b : Option Nat)
  deriving Repr, BEq, DecidableEq

/-- Is the connection of a slice fit for a command (new, or nothing unread)? -/
def Sl.fit (s : Sl) : Bool :=
  match s.conn with
  | none => true
  | some l => l.clean

/-- A command (BEGIN, COMMIT, ROLLBACK) sent on the pinned connection of a slice. -/
def Sl.pinnedFit (s : Sl) : Bool := !s.pinned || s.fit

/-- The slice after a statement ran on its connection. `pin`: the statement
    ran with the connection pinned (transaction or keep-session). Result:
    the slice, and whether a pinned connection was closed. -/
def Sl.after (s : Sl) (pin : Bool) (ca : ConnAfter) : Sl × Bool :=
  match ca with
  | .closed => (⟨none, false, s.closedN + 1⟩, pin)
  | .live l pkgErr =>
    if pin then (⟨some l, true, s.closedN⟩, false)
    -- Recycle closes a connection whose pkgErr is set
    else if pkgErr then (⟨none, false, s.closedN + 1⟩, false)
    else (⟨some l, false, s.closedN⟩, false)

/-- What the client gets for one statement: results, end, session still open. -/
structure Answer where
  views : List RView
  fin : SFin
  open_ : Bool
  deriving Repr, BEq, DecidableEq

/-- COMMIT / ROLLBACK: the command goes to the pinned connections; those of a
    transaction are given back to the pool, those of keep-session stay. -/
def Sl.endTx (s : Sl) (ks : Bool) : Sl := if ks then s else { s with pinned := false }

/-- A sharded statement after its slices ran (`r0`, `r1`: what slice-0 / slice-1
    returned and what became of its connection; `none`: the slice was not asked). -/
def sqStep (ss : Sess) (r0 r1 : Option (SliceOut × ConnAfter)) (b : Option Nat) : Sess × Option Answer :=
  let outs := (r0.toList ++ r1.toList).map (·.1)
  if outs.any SliceOut.isDesync then ({ ss with desync := true }, none)
  else
    let pin := ss.tx || ss.ks
    let cl := sqClient outs b
    let a0 := match r0 with
      | some r => ss.s0.after pin r.2
      | none => (ss.s0, false)
    let a1 := match r1 with
      | some r => ss.s1.after pin r.2
      | none => (ss.s1, false)
    -- the session ends when a write failed, when it blocks, and when the open transaction lost a
    -- connection (txConnLost)
    let alive := !(cl.2 == .closed || cl.2 == .hang || (ss.tx && (a0.2 || a1.2)))
    ({ ss with s0 := a0.1, s1 := a1.1, alive := alive }, some ⟨cl.1, cl.2, alive⟩)

/-- `doMultiStmts` answers every statement but the last with
    SERVER_MORE_RESULTS_EXISTS in the status (a streamed result keeps it: repaired). -/
def flagMore : List RView → List RView
  | [] => []
  | .okp _ :: vs => .okp true :: flagMore vs
  | .rs rows (some _) :: vs => .rs rows (some true) :: flagMore vs
  | .rs rows none :: vs => .rs rows none :: flagMore vs

/-- Packets written for results that were sent in full. -/
def viewsPackets : List RView → Nat
  | [] => 0
  | .okp _ :: vs => 1 + viewsPackets vs
  | .rs rows _ :: vs => headerPackets + rows.length + 1 + viewsPackets vs

structure MqOut where
  sl : Sl
  views : List RView
  fin : SFin
  /-- a pinned connection was closed -/
  lost : Bool
  desync : Bool
  deriving Repr, BEq, DecidableEq

/-- `doMultiStmts`: the statements one after the other, each like a statement
    of its own (`doQuery`; its connection is taken and given back per statement);
    the answer to every statement but the last is written at once, with the
    more-results flag; a statement that fails - at once, or in the middle of its
    streamed result (repaired) - ends the answer to the packet. -/
def mqLoop (T : Nat) (m : Int) (armed pin : Bool) : List Res → Sl → Option Nat → List RView → MqOut
  | [], s0, _, acc => ⟨s0, acc, .done, false, false⟩
  | r :: rest, s0, b, acc =>
    if !s0.fit then ⟨s0, acc, .closed, false, true⟩
    else
      let o := unStmt T m armed [r] b
      let a := s0.after pin o.conn
      match rest with
      | [] => ⟨a.1, acc ++ o.views, o.fin, a.2, false⟩
      | _ :: _ =>
        if o.fin = .done then
          mqLoop T m armed pin rest a.1 (spend b (viewsPackets o.views)) (acc ++ flagMore o.views)
        else ⟨a.1, acc ++ flagMore o.views, o.fin, a.2, false⟩

def step (T : Nat) (m : Int) (armed : Bool) (ss : Sess) (st : Stmt) : Sess × Option Answer :=
  if !ss.alive || ss.desync then (ss, none)
  else
    let okAnswer : Answer := ⟨[.okp false], .done, true⟩
    match st with
    | .begin =>
      if ss.s0.pinnedFit && ss.s1.pinnedFit then ({ ss with tx := true }, some okAnswer)
      else ({ ss with desync := true }, none)
    | .commit | .rollback =>
      if ss.s0.pinnedFit && ss.s1.pinnedFit then
        ({ ss with tx := false, s0 := ss.s0.endTx ss.ks, s1 := ss.s1.endTx ss.ks }, some okAnswer)
      else ({ ss with desync := true }, none)
    | .un answer b =>
      if !ss.s0.fit then ({ ss with desync := true }, none)
      else
        let pin := ss.tx || ss.ks
        let o := unStmt T m armed answer b
        let (s0', lost) := ss.s0.after pin o.conn
        -- the session ends when a write failed / no response can be given, when it blocks, and
        -- when the open transaction lost its connection (txConnLost)
        let alive := !(o.fin == .closed || o.fin == .hang || (ss.tx && lost))
        ({ ss with s0 := s0', alive := alive }, some ⟨o.views, o.fin, alive⟩)
    | .mq pieces b =>
      let o := mqLoop T m armed (ss.tx || ss.ks) pieces ss.s0 b []
      if o.desync then ({ ss with desync := true }, none)
      else
        let alive := !(o.fin == .closed || o.fin == .hang || (ss.tx && o.lost))
        ({ ss with s0 := o.sl, alive := alive }, some ⟨o.views, o.fin, alive⟩)
    | .sq t0 t1 b =>
      if (!t0.isEmpty && !ss.s0.fit) || (!t1.isEmpty && !ss.s1.fit) then ({ ss with desync := true }, none)
      else
        sqStep ss (if t0.isEmpty then none else some (execSlice T m armed t0 []))
          (if t1.isEmpty then none else some (execSlice T m armed t1 [])) b

def run (T : Nat) (m : Int) (armed : Bool) : Sess → List Stmt → List Answer → Sess × List Answer
  | ss, [], acc => (ss, acc.reverse)
  | ss, st :: sts, acc =>
    match step T m armed ss st with
    | (ss', some a) => run T m armed ss' sts (a :: acc)
    | (ss', none) => run T m armed ss' sts acc

/-- The fate of the connections of a slice when the session is over
    (`Session.Close`: ROLLBACK on the pinned ones; those of a transaction go
    back to the pool, those of keep-session are closed): how many were closed,
    and the packets left unread on the one that is back in the pool. -/
def Sl.final (s : Sl) (ks : Bool) : Nat × Option Nat :=
  match s.conn with
  | none => (s.closedN, none)
  | some l => if ks && s.pinned then (s.closedN + 1, none) else (s.closedN, some l.packets)

/-- The ROLLBACK of `Session.Close` finds its connections fit. -/
def Sess.closeFit (ss : Sess) : Bool := ss.s0.pinnedFit && ss.s1.pinnedFit

end GaeaVerif.ResultSession
