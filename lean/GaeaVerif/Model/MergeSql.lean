import GaeaVerif.Model.Go
/-
  Reference semantics for C02: what one MySQL database answers to the
  single-table SELECT statements of the supported subset (column projection,
  COUNT/SUM/MAX/MIN with and without DISTINCT, GROUP BY, ORDER BY, LIMIT,
  SELECT DISTINCT).  The same function evaluates the rewritten per-table
  statement on one sub-table (the "backend" of the model) and the original
  statement on the union of all sub-tables (the reference of the property).

  Values: NULL, BIGINT, DECIMAL (unscaled value and scale), strings under a
  binary collation.  Ascending order: NULL first, numbers by value, strings
  by bytes.  Decimals of one column have one scale (as a DECIMAL(M,D) column
  has), so two decimals of the same scale are compared by their unscaled
  values; decimals of different scales are ordered by scale (never compared in
  a well-typed table, kept so that the order is total).

  Core Lean only.
-/
namespace GaeaVerif.Merge

inductive Val where
  | null
  | int (i : Int)
  | dec (u : Int) (scale : Nat)
  | str (b : List UInt8)
  deriving DecidableEq, Repr, Inhabited

abbrev Row := List Val

/-- lexicographic order on byte strings (`bytes.Compare(a, b) <= 0`) -/
def bytesLe : List UInt8 → List UInt8 → Bool
  | [], _ => true
  | _ :: _, [] => false
  | a :: as, b :: bs =>
    if a.toNat < b.toNat then true
    else if b.toNat < a.toNat then false
    else bytesLe as bs

def Val.rank : Val → Nat
  | .null => 0
  | .int _ => 1
  | .dec _ _ => 2
  | .str _ => 3

/-- `a` sorts before or with `b` in ascending order -/
def leVal (a b : Val) : Bool :=
  match a, b with
  | .int x, .int y => decide (x ≤ y)
  | .dec u s, .dec u' s' => if s = s' then decide (u ≤ u') else decide (s < s')
  | .str x, .str y => bytesLe x y
  | a, b => decide (a.rank ≤ b.rank)

def ltVal (a b : Val) : Bool := !leVal b a

/-- lexicographic comparison of ORDER BY keys; `dirs[i] = true` is DESC.
    Missing key columns count as NULL, so that the relation is a total preorder
    on all lists. -/
def leKey : List Bool → List Val → List Val → Bool
  | [], _, _ => true
  | d :: ds, as, bs =>
    let a := as.headD .null
    let b := bs.headD .null
    let x := if d then b else a
    let y := if d then a else b
    if ltVal x y then true
    else if ltVal y x then false
    else leKey ds as.tail bs.tail

/-! ### Aggregate functions -/

inductive AggKind where
  | count | sum | max | min
  deriving DecidableEq, Repr

/-- a numeric value as (unscaled, scale) -/
def toDec : Val → Int × Nat
  | .int i => (i, 0)
  | .dec u s => (u, s)
  | _ => (0, 0)

/-- exact decimal addition: the result has the larger scale -/
def decAdd (a b : Int × Nat) : Int × Nat :=
  let m := max a.2 b.2
  (a.1 * 10 ^ (m - a.2) + b.1 * 10 ^ (m - b.2), m)

def maxVal (m x : Val) : Val := if ltVal m x then x else m
def minVal (m x : Val) : Val := if ltVal x m then x else m

/-- the aggregate of a list of non-NULL argument values (for COUNT(*): one
    entry per row) -/
def aggOf : AggKind → List Val → Val
  | .count, l => .int l.length
  | .sum, [] => .null
  | .sum, v :: vs =>
    let r := vs.foldl (fun acc x => decAdd acc (toDec x)) (toDec v)
    .dec r.1 r.2
  | .max, [] => .null
  | .max, v :: vs => vs.foldl maxVal v
  | .min, [] => .null
  | .min, v :: vs => vs.foldl minVal v

/-- first occurrences, in order (`seen`: the values already kept) -/
def dedupAux {α : Type} [DecidableEq α] (seen : List α) : List α → List α
  | [] => []
  | a :: l => if a ∈ seen then dedupAux seen l else a :: dedupAux (a :: seen) l

def dedup {α : Type} [DecidableEq α] (l : List α) : List α := dedupAux [] l

/-- first occurrences with respect to a projection -/
def dedupByAux {α β : Type} [DecidableEq β] (f : α → β) (seen : List β) : List α → List α
  | [] => []
  | a :: l => if f a ∈ seen then dedupByAux f seen l else a :: dedupByAux f (f a :: seen) l

def dedupBy {α β : Type} [DecidableEq β] (f : α → β) (l : List α) : List α := dedupByAux f [] l

/-- a resolved select / ORDER BY expression -/
inductive Item where
  | col (c : Nat)
  | agg (k : AggKind) (arg : Option Nat) (distinct : Bool)   -- `arg = none`: COUNT(*)
  | const (i : Int)
  deriving DecidableEq, Repr

def Item.isAgg : Item → Bool
  | .agg _ _ _ => true
  | _ => false

/-- the argument values an aggregate sees in a group -/
def aggArgs (arg : Option Nat) (distinct : Bool) (grp : List Row) : List Val :=
  match arg with
  | none => grp.map fun _ => Val.int 1
  | some c =>
    let vs := (grp.map fun r => r.getD c .null).filter (fun v => v ≠ .null)
    if distinct then dedup vs else vs

/-- value of an expression on a group of rows (a non-aggregated column takes
    the value of the group's first row; all rows of a group agree on the
    GROUP BY columns) -/
def evalItem (grp : List Row) : Item → Val
  | .col c => match grp with
    | [] => .null
    | r :: _ => r.getD c .null
  | .agg k arg d => aggOf k (aggArgs arg d grp)
  | .const i => .int i

/-- a compiled statement -/
structure CQ where
  items : List Item                 -- select list (`*` expanded)
  keys : List (Item × Bool)         -- ORDER BY (expression, DESC)
  group : Option (List Nat)         -- GROUP BY columns
  distinct : Bool
  limit : Option (Nat × Nat)        -- offset, count
  deriving Repr

/-- an answer row with its ORDER BY key -/
structure OutRow where
  vis : Row
  key : Row
  deriving DecidableEq, Repr

def groupKey (g : List Nat) (r : Row) : Row := g.map fun c => r.getD c .null

/-- GROUP BY: the groups in order of first occurrence, each with its rows in order -/
def groupRows (g : List Nat) (rows : List Row) : List (List Row) :=
  (dedup (rows.map (groupKey g))).map fun k => rows.filter fun r => groupKey g r = k

def CQ.aggregated (cq : CQ) : Bool :=
  cq.group.isSome || cq.items.any Item.isAgg || cq.keys.any (fun k => k.1.isAgg)

def CQ.dirs (cq : CQ) : List Bool := cq.keys.map (·.2)

def groupsOf (cq : CQ) (rows : List Row) : List (List Row) :=
  if !cq.aggregated then rows.map fun r => [r]
  else match cq.group with
    | none => [rows]
    | some g => groupRows g rows

def outOf (cq : CQ) (grp : List Row) : OutRow :=
  { vis := cq.items.map (evalItem grp), key := cq.keys.map fun k => evalItem grp k.1 }

/-- the answer before ORDER BY and LIMIT: one row per group (or per row), DISTINCT applied -/
def evalPre (cq : CQ) (rows : List Row) : List OutRow :=
  let out := (groupsOf cq rows).map (outOf cq)
  if cq.distinct then dedupBy OutRow.vis out else out

def leOut (dirs : List Bool) (a b : OutRow) : Bool := leKey dirs a.key b.key

def window (lim : Option (Nat × Nat)) {α : Type} (l : List α) : List α :=
  match lim with
  | none => l
  | some (o, c) => (l.drop o).take c

/-- the answer a MySQL server gives, ties in the order of the stored rows -/
def evalSorted (cq : CQ) (rows : List Row) : List OutRow :=
  if cq.keys.isEmpty then evalPre cq rows else (evalPre cq rows).mergeSort (leOut cq.dirs)

def evalCQ (cq : CQ) (rows : List Row) : List OutRow :=
  window cq.limit (evalSorted cq rows)

/-! ### Statements as written -/

inductive FExpr where
  | star
  | col (name : Nat)
  | agg (k : AggKind) (arg : Option Nat) (distinct : Bool)
  | pos (n : Nat)                   -- only produced by the rewriting of `ORDER BY n`
  deriving DecidableEq, Repr

structure Field where
  expr : FExpr
  asName : Option Nat
  deriving DecidableEq, Repr

/-- GROUP BY / ORDER BY item: a name (column or select alias), an aggregate, a position -/
inductive By where
  | name (n : Nat)
  | agg (k : AggKind) (arg : Option Nat) (distinct : Bool)
  | pos (n : Nat)
  deriving DecidableEq, Repr

inductive Lim where
  | none
  | count (c : Nat)                 -- LIMIT c
  | offCount (o c : Nat)            -- LIMIT o, c  /  LIMIT c OFFSET o
  deriving DecidableEq, Repr

structure Query where
  distinct : Bool
  fields : List Field
  groupBy : Option (List By)
  orderBy : List (By × Bool)
  limit : Lim
  /-- every column reference of the statement is written `alias.column` (the
      statements over a join); select aliases stay unqualified -/
  qualified : Bool := false
  deriving DecidableEq, Repr

/-- column types of the table: names `0 … schema.length-1` are its columns -/
inductive Ty where
  | int
  | dec (scale : Nat)
  | str
  deriving DecidableEq, Repr

def compileAgg (schema : List Ty) (k : AggKind) (arg : Option Nat) (d : Bool) : Option Item :=
  match arg with
  | none => if k = .count then some (.agg k none d) else none
  | some c =>
    match schema[c]? with
    | none => none
    | some t => if k = .sum ∧ t = .str then none else some (.agg k (some c) d)

def compileField (schema : List Ty) (f : Field) : Option (List (Item × Option Nat)) :=
  match f.expr with
  | .star => some ((List.range schema.length).map fun c => (Item.col c, none))
  | .col n => if n < schema.length then some [(.col n, f.asName)] else none
  | .agg k arg d => (compileAgg schema k arg d).map fun it => [(it, f.asName)]
  | .pos n => some [(.const n, f.asName)]

def compileFields (schema : List Ty) : List Field → Option (List (Item × Option Nat))
  | [] => some []
  | f :: fs =>
    match compileField schema f, compileFields schema fs with
    | some a, some b => some (a ++ b)
    | _, _ => none

/-- name resolution of a GROUP BY / ORDER BY item: a select alias first, then
    a column (the generated statements never use an alias that is a column name) -/
def resolveBy (schema : List Ty) (items : List (Item × Option Nat)) (orderBy : Bool) : By → Option Item
  | .name n =>
    match items.find? (fun it => it.2 = some n) with
    | some it => some it.1
    | none => if n < schema.length then some (.col n) else none
  | .agg k arg d => compileAgg schema k arg d
  | .pos n =>
    if orderBy then
      if 1 ≤ n ∧ n ≤ items.length then (items[n - 1]?).map (·.1) else none
    else some (.const n)

def resolveAll (schema : List Ty) (items : List (Item × Option Nat)) (orderBy : Bool) : List By → Option (List Item)
  | [] => some []
  | b :: bs =>
    match resolveBy schema items orderBy b, resolveAll schema items orderBy bs with
    | some a, some r => some (a :: r)
    | _, _ => none

def groupCols : List Item → Option (List Nat)
  | [] => some []
  | .col c :: r => (groupCols r).map (c :: ·)
  | _ :: _ => none

def Lim.toWindow : Lim → Option (Nat × Nat)
  | .none => Option.none
  | .count c => some (0, c)
  | .offCount o c => some (o, c)

/-- static analysis of a statement; `none`: the server rejects it (unknown
    column, SUM of a string column, GROUP BY on an expression, position out of range) -/
def compile (schema : List Ty) (q : Query) : Option CQ :=
  match compileFields schema q.fields with
  | none => none
  | some items =>
    match resolveAll schema items true (q.orderBy.map (·.1)) with
    | none => none
    | some ks =>
      let grp : Option (Option (List Nat)) :=
        match q.groupBy with
        | none => some none
        | some bs =>
          match resolveAll schema items false bs with
          | none => none
          | some gi => (groupCols gi).map some
      match grp with
      | none => none
      | some g =>
        some { items := items.map (·.1), keys := ks.zip (q.orderBy.map (·.2)), group := g,
               distinct := q.distinct, limit := q.limit.toWindow }

end GaeaVerif.Merge
