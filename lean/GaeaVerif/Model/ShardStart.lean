import GaeaVerif.Model.ShardPlace
/-
  Model of `RangeShard.EqualStart` in /repo/proxy/router/shard.go (as repaired
  by the fix of C01): `NumRangeShard.EqualStart`, `DateYearShard.EqualStart`,
  `DateMonthShard.EqualStart`, `DateDayShard.EqualStart`, `isPeriodStart`,
  `isPeriodStartString`.  Used by C01/C05 (the `<` and `NOT BETWEEN` pruning of
  proxy/plan asks `EqualStart` whether the table of the bound itself may be
  skipped).

  Like `civilOf` in Model/ShardPlace.lean, the clock of `time.Unix(v, 0)` in the
  process's zone (`Hour()`, `Minute()`, `Second()`) is a parameter `clockOf`;
  `clockOfUnix off` is the executable instance for a zone with a fixed offset.
  Every string slice has its run-time panic as an explicit outcome.

  Core Lean only.
-/
namespace GaeaVerif.ShardPlace
open GaeaVerif.ShardGo

/-- `tm.Hour()`, `tm.Minute()`, `tm.Second()`. -/
structure Clock where
  hour : Nat
  minute : Nat
  second : Nat
  deriving Repr, DecidableEq

/-- `s[lo:]`. -/
def strFrom (s : GoStr) (lo : Nat) : Out GoStr := if lo ≤ s.length then .ok (s.drop lo) else .panic

/-- `s[i]`. -/
def strAt (s : GoStr) (i : Nat) : Out Nat :=
  match s[i]? with
  | some b => .ok b
  | none => .panic

/-- `strings.HasPrefix(s, p)`. -/
def hasPrefix (s p : GoStr) : Bool := p.length ≤ s.length && s.take p.length == p

/-- `strings.Trim(s, "0")`. -/
def trimZeros (s : GoStr) : GoStr := ((s.dropWhile (· == 48)).reverse.dropWhile (· == 48)).reverse

/-- `" 00:00:00"`. -/
def midnightText : GoStr := [32, 48, 48, 58, 48, 48, 58, 48, 48]

/-- `"01"`. -/
def text01 : GoStr := [48, 49]

/-- The block `if rest := val[10:]; rest != "" { … }` of `isPeriodStartString`:
    `.ok false` = the function returns false inside the block, `.ok true` = the
    control falls through. -/
def restIsMidnight (rest : GoStr) : Out Bool :=
  if rest = [] then .ok true else
  if !hasPrefix rest midnightText then .ok false else
  match strFrom rest 9 with
  | .ok frac =>
    if frac = [] then .ok true else
    match strAt frac 0, strFrom frac 1 with
    | .ok c, .ok z => .ok (!(c != 46 || trimZeros z != []))
    | _, _ => .panic
  | _ => .panic

/-- `isPeriodStartString(val, unit)`; `unit` is the byte `'y'` (121), `'m'` (109) or `'d'` (100). -/
def isPeriodStartString (val : GoStr) (unit : Nat) : Out Bool :=
  if val.length < 10 then .ok false else
  match strFrom val 10 with
  | .ok rest =>
    match restIsMidnight rest with
    | .ok true =>
      if unit = 100 then .ok true else
      match strSlice val 8 10 with
      | .ok dd =>
        if dd ≠ text01 then .ok false else
        if unit = 109 then .ok true else
        match strSlice val 5 7 with
        | .ok mm => .ok (mm == text01)
        | _ => .panic
      | _ => .panic
    | r => r
  | _ => .panic

/-- The part of `isPeriodStart` after `tm` is set (integer keys). -/
def isPeriodStartTime (civilOf : Int → Civil) (clockOf : Int → Clock) (v : Int) (unit : Nat) : Bool :=
  let c := clockOf v
  if c.hour ≠ 0 ∨ c.minute ≠ 0 ∨ c.second ≠ 0 then false
  else if unit = 100 then true
  else if (civilOf v).day ≠ 1 then false
  else unit = 109 || (civilOf v).month = 1

/-- `isPeriodStart(key, unit)`. -/
def isPeriodStart (civilOf : Int → Civil) (clockOf : Int → Clock) (key : Key) (unit : Nat) : Out Bool :=
  match key with
  | .int v => .ok (isPeriodStartTime civilOf clockOf v unit)
  | .uint64 v => .ok (isPeriodStartTime civilOf clockOf (u64ToI64 v) unit)
  | .int64 v => .ok (isPeriodStartTime civilOf clockOf v unit)
  | .str s => isPeriodStartString s unit
  | _ => .ok false

/-- The common shape of the three `Date…Shard.EqualStart`:
    `num, err := getNum…(key); if err != nil { return false }; return num == index && isPeriodStart(key, unit)`. -/
def dateEqualStart (find : Key → Out Int) (civilOf : Int → Civil) (clockOf : Int → Clock) (unit : Nat)
    (key : Key) (index : Int) : Out Bool :=
  match find key with
  | .ok n => if n = index then isPeriodStart civilOf clockOf key unit else .ok false
  | .err _ => .ok false
  | .panic => .panic

/-- `DateYearShard.EqualStart`. -/
def DateYearShard.EqualStart (civilOf : Int → Civil) (clockOf : Int → Clock) (key : Key) (index : Int) : Out Bool :=
  dateEqualStart (DateYearShard.FindForKey civilOf) civilOf clockOf 121 key index

/-- `DateMonthShard.EqualStart`. -/
def DateMonthShard.EqualStart (civilOf : Int → Civil) (clockOf : Int → Clock) (key : Key) (index : Int) : Out Bool :=
  dateEqualStart (DateMonthShard.FindForKey civilOf) civilOf clockOf 109 key index

/-- `DateDayShard.EqualStart`. -/
def DateDayShard.EqualStart (civilOf : Int → Civil) (clockOf : Int → Clock) (key : Key) (index : Int) : Out Bool :=
  dateEqualStart (DateDayShard.FindForKey civilOf) civilOf clockOf 100 key index

/-- `NumRangeShard.EqualStart`: `v := NumValue(key); return s.Shards[index].Start == v`. -/
def NumRangeShard.EqualStart (shards : List (Int × Int)) (key : Key) (index : Int) : Out Bool :=
  match NumValue key with
  | .ok v =>
    if 0 ≤ index ∧ index < shards.length then .ok ((shards.getD index.toNat (0, 0)).1 == v) else .panic
  | .err k => .err k
  | .panic => .panic

/-- `shard.(router.RangeShard)` succeeds. -/
def Shard.isRange : Shard → Bool
  | .numRange _ | .dateYear | .dateMonth | .dateDay => true
  | _ => false

/-- `rangeShard.EqualStart(key, index)` for the shards that implement `RangeShard`
    (the Mycat shards do not: `.ok false` is never asked of them). -/
def Shard.EqualStart (civilOf : Int → Civil) (clockOf : Int → Clock) : Shard → Key → Int → Out Bool
  | .numRange shards, key, index => NumRangeShard.EqualStart shards key index
  | .dateYear, key, index => DateYearShard.EqualStart civilOf clockOf key index
  | .dateMonth, key, index => DateMonthShard.EqualStart civilOf clockOf key index
  | .dateDay, key, index => DateDayShard.EqualStart civilOf clockOf key index
  | _, _, _ => .ok false

/-- `time.Unix(v, 0)`'s clock in a zone with a fixed offset of `off` seconds. -/
def clockOfUnix (off : Int) (v : Int) : Clock :=
  let r := ((v + off) % 86400).toNat
  { hour := r / 3600, minute := r % 3600 / 60, second := r % 60 }

end GaeaVerif.ShardPlace
