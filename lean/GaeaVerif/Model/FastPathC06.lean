import GaeaVerif.Model.TokenizeC06
/-
  C06 — the token pre-check that lets a statement bypass the parser:

    /repo/proxy/server/executor_handle.go   preBuildUnshardPlan
    /repo/proxy/plan/plan_unshard.go        CheckUnshardBase / CheckUnshardInsert /
                                            CheckUnshardUpdate, MentionsShardTable,
                                            isMentioned, withoutVersionNumber,
                                            isNotIdentifierRune, PreCreateUnshardPlan
    /repo/proxy/router/router.go            Router.GetRule (rule present or default)

  The router is the list of its rule keys `(db, table)`: `NewRouter` stores a
  rule under the configured database name and the *lower-cased* table name
  (sharded, linked and global tables alike).  Core Lean only.
-/
namespace GaeaVerif.FastPath
open GaeaVerif GaeaVerif.Tok

/-- What the pre-check needs of a namespace. -/
structure Cfg where
  /-- keys of `Router.rules`: (database, lower-cased table) -/
  rules : List (Str × Str)
  /-- `Namespace.GetPhysicalDBs()`: logical → physical database -/
  phyDBs : List (Str × Str)

/-- Statement kinds of `parser.Preview` used here (checked against the source
    by the translator facts `Gen.c06_Stmt…`). -/
def stmtSelect : Nat := 0
def stmtInsert : Nat := 2
def stmtReplace : Nat := 3
def stmtUpdate : Nat := 4
def stmtDelete : Nat := 5
def stmtShow : Nat := 11
def stmtComment : Nat := 15

/-- `mysql.ParseTokenMap` restricted to the ids `preBuildUnshardPlan` switches on,
    with `mysql.ParseTokenIdStrMap[id]` (the keyword whose neighbour names the
    table).  The other keywords of the map lead to `default: return nil, false`. -/
inductive Kw where
  | select | delete | insert | replace | update | other
  deriving Repr, DecidableEq

/-- The keys of `mysql.ParseTokenMap`. -/
def parseTokenKeys : List String :=
  ["insert", "update", "delete", "replace", "set", "begin", "commit", "rollback", "admin",
   "select", "use", "start", "transaction", "show", "prepare", "kill", "create", "temporary",
   "truncate", "lock", "flush", "load"]

/-- `mysql.ParseTokenMap[strings.ToLower(tokens[0])]`. -/
def parseToken (t : Str) : Option Kw :=
  let l := String.ofList (toLower t)
  if l == "select" then some .select
  else if l == "delete" then some .delete
  else if l == "insert" then some .insert
  else if l == "replace" then some .replace
  else if l == "update" then some .update
  else if parseTokenKeys.contains l then some .other
  else none

def kwFrom : Str := "from".toList
def kwInto : Str := "into".toList
def kwSet : Str := "set".toList

/-- `rt.GetRule(db, table) != rt.GetDefaultRule()`. -/
def hasRule (rules : List (Str × Str)) (db table : Str) : Bool :=
  let parts := splitAll '.' table
  let (db, table) :=
    match parts with
    | [a, b] => (trimBackquote a, trimBackquote b)
    | _ => (db, table)
  rules.contains (db, table)

/-- The loop of `CheckUnshardBase` (keyword `from`) and, with `getInsertDBTable`,
    of `CheckUnshardInsert` (keyword `into`): the token after each occurrence of
    the keyword names a table. -/
def checkAfterLoop (kw : Str) (split : Str → Str × Str) (rules : List (Str × Str)) :
    Str → List Str → Str × Bool
  | ruleDB, [] => (ruleDB, true)
  | ruleDB, t :: tl =>
    match tl with
    | [] => (ruleDB, true)
    | next :: _ =>
      if toLower t != kw then checkAfterLoop kw split rules ruleDB tl
      else
        let (dbName, tableName) := split next
        let ruleDB := if !dbName.isEmpty then dbName else ruleDB
        if hasRule rules ruleDB tableName then (ruleDB, false)
        else checkAfterLoop kw split rules ruleDB tl

/-- `CheckUnshardBase(tokenId, tokens, rt, db)` for SELECT and DELETE. -/
def checkUnshardBase (tokens : List Str) (rules : List (Str × Str)) (db : Str) : Str × Bool :=
  checkAfterLoop kwFrom getDBTable rules db tokens

/-- `CheckUnshardInsert(tokens, rt, db)`. -/
def checkUnshardInsert (tokens : List Str) (rules : List (Str × Str)) (db : Str) : Str × Bool :=
  checkAfterLoop kwInto getInsertDBTable rules db tokens

/-- The loop of `CheckUnshardUpdate` from `i = 1`: the token *before* each `set`
    that is not the last token names a table. -/
def checkUpdateLoop (rules : List (Str × Str)) : Str → Str → List Str → Str × Bool
  | ruleDB, _, [] => (ruleDB, true)
  | ruleDB, prev, t :: tl =>
    if toLower t != kwSet || tl.isEmpty then checkUpdateLoop rules ruleDB t tl
    else
      let (dbName, tableName) := getDBTable prev
      let ruleDB := if !dbName.isEmpty then dbName else ruleDB
      if hasRule rules ruleDB tableName then (ruleDB, false)
      else checkUpdateLoop rules ruleDB t tl

/-- `CheckUnshardUpdate(tokens, rt, db)`. -/
def checkUnshardUpdate (tokens : List Str) (rules : List (Str × Str)) (db : Str) : Str × Bool :=
  match tokens with
  | [] => (db, true)
  | t0 :: tl => checkUpdateLoop rules db t0 tl

/-- `isNotIdentifierRune` of plan_unshard.go, negated: letters, digits, `_`, `$`
    and every non-ASCII character that is not Unicode white space (the parser
    skips `unicode.IsSpace` characters before a token). -/
def isIdentChar (c : Char) : Bool :=
  if c.val ≥ 0x80 then !isSpace c
  else c == '_' || c == '$' || ('0' ≤ c && c ≤ '9') || ('a' ≤ c && c ≤ 'z') || ('A' ≤ c && c ≤ 'Z')

/-- `isNotIdentifierRune` before the `fix:` commit about Unicode white space:
    every non-ASCII character counted as an identifier character. -/
def isIdentCharV1 (c : Char) : Bool :=
  c == '_' || c == '$' || c.val ≥ 0x80 ||
  ('0' ≤ c && c ≤ '9') || ('a' ≤ c && c ≤ 'z') || ('A' ≤ c && c ≤ 'Z')

/-- The words of a text: `strings.FieldsFunc(sql, isNotIdentifierRune)`. -/
def identWords (sql : Str) : List Str := fieldsFunc (fun c => !isIdentChar c) sql

def isDigit (c : Char) : Bool := '0' ≤ c && c ≤ '9'

/-- `strings.TrimPrefix(word, "M")`. -/
def trimPrefixM (word : Str) : Str :=
  match word with
  | 'M' :: r => r
  | _ => word

/-- `withoutVersionNumber(word)`: the word without a leading `M?[0-9]{5,6}`, in the
    ways it can be read (5 digits, 6 digits). -/
def withoutVersionNumber (word : Str) : List Str :=
  let w := trimPrefixM word
  let d := (w.takeWhile isDigit).length
  (if 5 ≤ d then [w.drop 5] else []) ++ (if 6 ≤ d then [w.drop 6] else [])

/-- `"/*!"`: the opening of an executable comment. -/
def versionMark : Str := ['/', '*', '!']

/-- The set `words` of `MentionsShardTable`: the lower-cased words of the
    statement and, when the statement contains `/*!`, each word without a
    leading version number. -/
def statementWords (sql : Str) : List Str :=
  if containsSub versionMark sql then
    (identWords sql).flatMap fun w => toLower w :: (withoutVersionNumber w).map toLower
  else (identWords sql).map toLower

/-- `isMentioned(table, words)`: every word of the table name is among `words`. -/
def isMentioned (table : Str) (words : List Str) : Bool :=
  (identWords table).all fun p => words.contains p

/-- `MentionsShardTable(sql, rt)`. -/
def mentionsShardTable (sql : Str) (rules : List (Str × Str)) : Bool :=
  let words := statementWords sql
  rules.any fun r => isMentioned r.2 words

/-- `MentionsShardTable` as the first repair introduced it (before the three
    later `fix:` commits): some word of the statement — non-ASCII white space
    counted as identifier characters — is, lower-cased, a table with a rule. -/
def mentionsShardTableV1 (sql : Str) (rules : List (Str × Str)) : Bool :=
  (fieldsFunc (fun c => !isIdentCharV1 c) sql).any fun w => rules.any fun r => r.2 == toLower w

/-- Which backstop scan `preBuildUnshardPlan` runs after the token checks. -/
inductive Guard where
  /-- none: the pinned tree -/
  | none
  /-- `mentionsShardTableV1`: the tree after the first repair -/
  | v1
  /-- `mentionsShardTable`: the current tree -/
  | cur
  deriving Repr, DecidableEq

def Guard.mentions (g : Guard) (sql : Str) (rules : List (Str × Str)) : Bool :=
  match g with
  | .none => false
  | .v1 => mentionsShardTableV1 sql rules
  | .cur => mentionsShardTable sql rules

/-- `PreCreateUnshardPlan(sql, phyDBs, db)` succeeds. -/
def preCreateOK (phyDBs : List (Str × Str)) (db : Str) : Bool :=
  match phyDBs.lookup db with
  | some phy => db == phy
  | none => true

def lastInsertIdMark : Str := "SELECTLAST_INSERT_ID()".toList

/-- The `select last_insert_id()` guard of `preBuildUnshardPlan`. -/
def lastInsertIdGuard (tokens : List Str) : Bool :=
  match tokens with
  | _ :: t1 :: _ =>
    decide (byteLen t1 > 13) && decide (byteLen t1 < 17) && hasUpperPrefix tokens.flatten lastInsertIdMark
  | _ => false

/-- Result of the pre-check: `unshard db` = an `UnshardPlan` for database `db`
    is returned and the parser is skipped. -/
inductive Pre where
  | unshard (db : Str)
  | no
  deriving Repr, DecidableEq

/-- The `switch tokenId` of `preBuildUnshardPlan`: the token check of the
    statement keyword (`none`: `default: return nil, false`). -/
def tokenCheck (cfg : Cfg) (db : Str) (kw : Kw) (tokens : List Str) : Option (Str × Bool) :=
  match kw with
  | .select | .delete => some (checkUnshardBase tokens cfg.rules db)
  | .insert | .replace => some (checkUnshardInsert tokens cfg.rules db)
  | .update => some (checkUnshardUpdate tokens cfg.rules db)
  | .other => none

/-- The end of `preBuildUnshardPlan`: the `MentionsShardTable` guard (in the
    version `guard`) and `PreCreateUnshardPlan` for the database the token check chose. -/
def finish (guard : Guard) (cfg : Cfg) (sql : Str) (r : Option (Str × Bool)) : Pre :=
  match r with
  | none => .no
  | some (ruleDB, isUnshard) =>
    if isUnshard && !(guard.mentions sql cfg.rules) && preCreateOK cfg.phyDBs ruleDB
    then .unshard ruleDB else .no

/-- The decision of `preBuildUnshardPlan` once the tokens are known.
    `guard = .none` gives the pre-check of the pinned tree (before the fix that
    added the `MentionsShardTable` guard), `.v1` the one after that first fix;
    they are kept for the witness theorems. -/
def preDecide (guard : Guard) (cfg : Cfg) (db : Str) (stmtType : Nat) (sql : Str) (tokens : List Str) : Pre :=
  match tokens with
  | [] => .no
  | t0 :: _ =>
    if stmtType == stmtComment || lastInsertIdGuard tokens then .no
    else if cfg.rules.isEmpty && preCreateOK cfg.phyDBs db then .unshard db
    else
      match parseToken t0 with
      | none => .no
      | some kw => finish guard cfg sql (tokenCheck cfg db kw tokens)

/-! ### the parser-based analysis, as far as it can be modelled: `plan.Checker` -/

/-- Outcome of `plan.Checker` on the `TableName` nodes of a statement. -/
inductive Chk where
  /-- a table without schema while the session has no database (`IsDatabaseInvalid`) -/
  | noDB
  /-- some table has a shard rule (`IsShard`): `BuildPlan` builds a shard plan -/
  | shard
  /-- neither: `BuildPlan` builds an `UnshardPlan` -/
  | unshard
  deriving Repr, DecidableEq

/-- `plan.Checker.Enter` over the `TableName` nodes in visiting order, each given as
    (schema, name) as written in the statement: the parser lower-cases both
    (`Schema.L`, `Name.L`), a missing schema is the session database, and
    `Router.GetShardRule` looks the pair up (it splits a dotted table name like
    `GetRule`).  The visit stops at the first table that decides. -/
def checkerScan (rules : List (Str × Str)) (db : Str) : List (Str × Str) → Chk
  | [] => .unshard
  | (schema, name) :: rest =>
    if db.isEmpty && (toLower schema).isEmpty then .noDB
    else if hasRule rules (if (toLower schema).isEmpty then db else toLower schema) (toLower name) then .shard
    else checkerScan rules db rest

/-- `SessionExecutor.preBuildUnshardPlan(reqCtx, db, sql)` (current tree). -/
def preBuildUnshardPlan (cfg : Cfg) (db : Str) (stmtType : Nat) (sql : Str) : R Pre :=
  match tokenize sql with
  | .ok tokens => .ok (preDecide .cur cfg db stmtType sql tokens)
  | .fail => .fail
  | .panic => .panic

/-- The pre-check of the pinned tree (no `MentionsShardTable` guard). -/
def preBuildUnshardPlanPinned (cfg : Cfg) (db : Str) (stmtType : Nat) (sql : Str) : R Pre :=
  match tokenize sql with
  | .ok tokens => .ok (preDecide .none cfg db stmtType sql tokens)
  | .fail => .fail
  | .panic => .panic

/-- The pre-check after the first repair (the word scan `mentionsShardTableV1`). -/
def preBuildUnshardPlanV1 (cfg : Cfg) (db : Str) (stmtType : Nat) (sql : Str) : R Pre :=
  match tokenize sql with
  | .ok tokens => .ok (preDecide .v1 cfg db stmtType sql tokens)
  | .fail => .fail
  | .panic => .panic

end GaeaVerif.FastPath
