import GaeaVerif.Model.Go
/-
  Model of Go's `fmt.Sprintf("%v", f)` for `float32` / `float64` values given
  by their IEEE-754 bits — what `util.ItoString` renders a float parameter to
  (C15, C16).  `%v` is `strconv.FormatFloat(f, 'g', -1, bitSize)`: the shortest
  decimal digit string that rounds back to the same float (strconv/ftoa.go,
  `roundShortest`: the fewest digits such that truncating or rounding up stays
  between the midpoints to the neighbouring floats, bounds included iff the
  mantissa is even; nearest, ties to even, when both do), printed in `%e` form
  when the decimal exponent is < -4 or ≥ 6 (the rule for the shortest form)
  and in `%f` form otherwise.  Compared with the real `fmt` on every run.
  Exact arithmetic on `Nat`; core Lean only.

  The function is cut into named pieces (`scaled`, `findShortest`,
  `digitsTrim`, `fmtDigits`, `fmtMagnitude`) so that Lemmas/StmtFloat.lean can
  state what each of them guarantees; `fmtV` is their composition.
-/
namespace GaeaVerif.StmtGoFloat
open GaeaVerif

/-- Decimal digits of a positive natural number, most significant first (`[]` for 0). -/
def digitsOf (n : Nat) : List Nat := if n = 0 then [] else (Nat.toDigits 10 n).map fun c => c.toNat - 48

def natOfDigits (ds : List Nat) : Nat := ds.foldl (fun a d => a * 10 + d) 0

/-- The float `v4/4 × 2^(e+2)` and the midpoints `lower4/4`, `upper4/4` (same
    unit) to its neighbours, as integers `(v, lo, up)` in units of `10^s`:
    for `e ≥ 0` multiply by `2^e` (`s = 0`), for `e < 0` by `5^(-e)` (`s = e`,
    because `2^e = 5^(-e) × 10^e`). -/
def scaled (v4 lower4 upper4 : Nat) (e : Int) : Nat × Nat × Nat × Int :=
  if e ≥ 0 then (v4 * 2 ^ e.toNat, lower4 * 2 ^ e.toNat, upper4 * 2 ^ e.toNat, 0)
  else (v4 * 5 ^ (-e).toNat, lower4 * 5 ^ (-e).toNat, upper4 * 5 ^ (-e).toNat, e)

/-- The largest `j ≤` the start value (fewest digits kept) at which truncating
    `v` to a multiple of `10^j` or rounding it up to the next one stays inside
    the bounds `lo`, `up` (bounds themselves allowed iff `inclusive`); the
    nearer of the two when both do (ties to even); `v` itself if no `j` does. -/
def findShortest (v lo up : Nat) (inclusive : Bool) (fuel j : Nat) : Nat × Nat :=
  let p := 10 ^ j
  let down := v / p * p
  let upv := down + p
  let okdown := down > lo || (inclusive && down == lo)
  let okup := upv < up || (inclusive && upv == up)
  let pick : Nat :=
    if okdown && okup then
      let r := v % p
      if 2 * r > p then upv
      else if 2 * r < p then down
      else if (v / p) % 2 = 1 then upv else down
    else if okdown then down else upv
  if okdown || okup then (pick, j)
  else match fuel with
    | 0 => (v, 0)
    | f + 1 => if j = 0 then (v, 0) else findShortest v lo up inclusive f (j - 1)

/-- `r` in units of `10^s` as `(digits, dp)` with value `0.d₁d₂… × 10^dp`,
    trailing zeros stripped. -/
def digitsTrim (r : Nat) (s : Int) : List Nat × Int :=
  let ds := digitsOf r
  ((ds.reverse.dropWhile (· == 0)).reverse, (ds.length : Int) + s)

/-- Shortest digits: for the float `v4/4 × 2^(e+2)` (with `v4 > 0`), whose
    neighbours' midpoints are `lower4` and `upper4` in the same unit, returns
    `(digits, dp)` with value `0.d₁d₂… × 10^dp`. -/
def shortest (v4 lower4 upper4 : Nat) (e : Int) (inclusive : Bool) : List Nat × Int :=
  let sc := scaled v4 lower4 upper4 e
  let jmax := (digitsOf sc.2.2.1).length
  digitsTrim (findShortest sc.1 sc.2.1 sc.2.2.1 inclusive jmax jmax).1 sc.2.2.2

def digitChar (d : Nat) : UInt8 := UInt8.ofNat (48 + d)

/-- `%e` form: d.ddde±XX -/
def fmtE (ds : List Nat) (dp : Int) : Bytes :=
  let first := ds.headD 0
  let rest := ds.drop 1
  let exp := dp - 1
  let mant : Bytes := digitChar first :: (if rest.isEmpty then [] else 0x2e :: rest.map digitChar)
  let ea := exp.natAbs
  let ed : Bytes := (if ea < 10 then [0x30] else []) ++ ((Nat.toDigits 10 ea).map fun c => UInt8.ofNat c.toNat)
  mant ++ [0x65, if exp < 0 then 0x2d else 0x2b] ++ ed

/-- `%f` form with just the digits needed. -/
def fmtF (ds : List Nat) (dp : Int) : Bytes :=
  let nd : Int := ds.length
  let intPart : Bytes :=
    if dp > 0 then
      (List.range dp.toNat).map fun (i : Nat) => if (i : Int) < nd then digitChar (ds.getD i 0) else 0x30
    else [0x30]
  let prec := if nd - dp > 0 then (nd - dp).toNat else 0
  let frac : Bytes :=
    if prec > 0 then
      0x2e :: (List.range prec).map fun (i : Nat) =>
        let k : Int := dp + (i : Int)
        if k < 0 ∨ k ≥ nd then 0x30 else digitChar (ds.getD k.toNat 0)
    else []
  intPart ++ frac

/-- `%v` of the digits: `%e` when the decimal exponent `dp - 1` is `< -4` or `≥ 6`
    (`eprec = 6` for the shortest form), else `%f`. -/
def fmtDigits (ds : List Nat) (dp : Int) : Bytes :=
  if dp - 1 < -4 ∨ dp - 1 ≥ 6 then fmtE ds dp else fmtF ds dp

def mantbits (dbl : Bool) : Nat := if dbl then 52 else 23
def expbits (dbl : Bool) : Nat := if dbl then 11 else 8
def bias (dbl : Bool) : Int := if dbl then -1023 else -127

/-- the biased exponent field -/
def expField (dbl : Bool) (bits : Nat) : Nat := bits / 2 ^ mantbits dbl % 2 ^ expbits dbl
/-- the fraction field -/
def fracField (dbl : Bool) (bits : Nat) : Nat := bits % 2 ^ mantbits dbl
/-- the sign bit -/
def negative (dbl : Bool) (bits : Nat) : Bool := bits / 2 ^ (mantbits dbl + expbits dbl) % 2 = 1
/-- neither NaN nor ±Inf: the exponent field is not all ones -/
def finite (dbl : Bool) (bits : Nat) : Bool := expField dbl bits ≠ 2 ^ expbits dbl - 1

/-- `(mant, exp)` with `|f| = mant × 2^(exp - mantbits)` (subnormals: no hidden bit). -/
def mantExp (dbl : Bool) (bits : Nat) : Nat × Int :=
  if expField dbl bits = 0 then (fracField dbl bits, bias dbl + 1)
  else (fracField dbl bits + 2 ^ mantbits dbl, (expField dbl bits : Int) + bias dbl)

/-- In units of a quarter of the last place (`2^(exp - mantbits - 2)`), where
    the float is `4·mant` and the midpoint to the next float `4·mant + 2`: the
    midpoint to the previous float, `4·mant - 2`, or `4·mant - 1` when the
    previous float has a smaller exponent (half the spacing). -/
def lower4 (dbl : Bool) (mant : Nat) (exp : Int) : Nat :=
  if mant > 2 ^ mantbits dbl ∨ exp = bias dbl + 1 then 4 * mant - 2 else 4 * mant - 1

/-- The shortest digits of the finite non-zero float with these bits. -/
def shortestOf (dbl : Bool) (bits : Nat) : List Nat × Int :=
  let me := mantExp dbl bits
  shortest (4 * me.1) (lower4 dbl me.1 me.2) (4 * me.1 + 2) (me.2 - mantbits dbl - 2) (me.1 % 2 = 0)

/-- `%v` of `|f|` for a finite `f`. -/
def fmtMagnitude (dbl : Bool) (bits : Nat) : Bytes :=
  if (mantExp dbl bits).1 = 0 then [0x30]
  else fmtDigits (shortestOf dbl bits).1 (shortestOf dbl bits).2

/-- `fmt.Sprintf("%v", f)`, `f` the float32 (`dbl = false`) or float64 with
    these bits. -/
def fmtV (dbl : Bool) (bits : Nat) : Bytes :=
  if finite dbl bits then (if negative dbl bits then [0x2d] else []) ++ fmtMagnitude dbl bits
  else if fracField dbl bits ≠ 0 then [0x4e, 0x61, 0x4e]          -- NaN
  else if negative dbl bits then [0x2d, 0x49, 0x6e, 0x66]           -- -Inf
  else [0x2b, 0x49, 0x6e, 0x66]                                     -- +Inf

end GaeaVerif.StmtGoFloat
