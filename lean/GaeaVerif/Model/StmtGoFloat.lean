import GaeaVerif.Model.Go
/-
  Model of Go's `fmt.Sprintf("%v", f)` for `float32` / `float64` values given
  by their IEEE-754 bits — what `util.ItoString` renders a float parameter to
  (C15, C16).  `%v` is `strconv.FormatFloat(f, 'g', -1, bitSize)`: the shortest
  decimal digit string that rounds back to the same float (strconv/ftoa.go,
  `roundShortest`: the fewest digits such that truncating or rounding up stays
  between the midpoints to the neighbouring floats, bounds included iff the
  mantissa is even; nearest, ties to even, when both do), printed in `%e` form
  when the decimal exponent is < -4 or ≥ 6 (the rule for the shortest form)
  and in `%f` form otherwise.  Compared with the real `fmt` on every run.
  Exact arithmetic on `Nat`; core Lean only.
-/
namespace GaeaVerif.StmtGoFloat
open GaeaVerif

/-- Decimal digits of a positive natural number, most significant first (`[]` for 0). -/
def digitsOf (n : Nat) : List Nat := if n = 0 then [] else (Nat.toDigits 10 n).map fun c => c.toNat - 48

def natOfDigits (ds : List Nat) : Nat := ds.foldl (fun a d => a * 10 + d) 0

/-- Shortest digits: for the float `mant × 2^(e2)` (with `mant > 0`), whose
    neighbours' midpoints are `lowerNum` and `upperNum` in the same unit `2^(e2 - 2)`
    as `v4 = 4·mant`, returns `(digits, dp)` with value `0.d₁d₂… × 10^dp`. -/
def shortest (v4 lower4 upper4 : Nat) (e : Int) (inclusive : Bool) : List Nat × Int :=
  -- everything as integers in units of 10^s
  let (v, lo, up, s) : Nat × Nat × Nat × Int :=
    if e ≥ 0 then (v4 * 2 ^ e.toNat, lower4 * 2 ^ e.toNat, upper4 * 2 ^ e.toNat, 0)
    else (v4 * 5 ^ (-e).toNat, lower4 * 5 ^ (-e).toNat, upper4 * 5 ^ (-e).toNat, e)
  let jmax := (digitsOf up).length
  -- the largest j (fewest digits kept) at which truncating or rounding up at 10^j stays inside the bounds
  let rec find (fuel j : Nat) : Nat × Nat :=
    let p := 10 ^ j
    let down := v / p * p
    let upv := down + p
    let okdown := down > lo || (inclusive && down == lo)
    let okup := upv < up || (inclusive && upv == up)
    let pick : Nat :=
      if okdown && okup then
        let r := v % p
        if 2 * r > p then upv
        else if 2 * r < p then down
        else if (v / p) % 2 = 1 then upv else down
      else if okdown then down else upv
    if okdown || okup then (pick, j)
    else match fuel with
      | 0 => (v, 0)
      | f + 1 => if j = 0 then (v, 0) else find f (j - 1)
  let (r, _) := find jmax jmax
  -- r in units of 10^s: strip trailing zeros
  let ds := digitsOf r
  let nd := ds.length
  let dsTrim := (ds.reverse.dropWhile (· == 0)).reverse
  (dsTrim, (nd : Int) + s)

def digitChar (d : Nat) : UInt8 := UInt8.ofNat (48 + d)

/-- `%e` form: d.ddde±XX -/
def fmtE (ds : List Nat) (dp : Int) : Bytes :=
  let first := ds.headD 0
  let rest := ds.drop 1
  let exp := dp - 1
  let mant : Bytes := digitChar first :: (if rest.isEmpty then [] else 0x2e :: rest.map digitChar)
  let ea := exp.natAbs
  let ed : Bytes := (if ea < 10 then [0x30] else []) ++ ((Nat.toDigits 10 ea).map fun c => UInt8.ofNat c.toNat)
  mant ++ [0x65, if exp < 0 then 0x2d else 0x2b] ++ ed

/-- `%f` form with just the digits needed. -/
def fmtF (ds : List Nat) (dp : Int) : Bytes :=
  let nd : Int := ds.length
  let intPart : Bytes :=
    if dp > 0 then
      (List.range dp.toNat).map fun (i : Nat) => if (i : Int) < nd then digitChar (ds.getD i 0) else 0x30
    else [0x30]
  let prec := if nd - dp > 0 then (nd - dp).toNat else 0
  let frac : Bytes :=
    if prec > 0 then
      0x2e :: (List.range prec).map fun (i : Nat) =>
        let k : Int := dp + (i : Int)
        if k < 0 ∨ k ≥ nd then 0x30 else digitChar (ds.getD k.toNat 0)
    else []
  intPart ++ frac

/-- `fmt.Sprintf("%v", f)`, `f` the float32 (`dbl = false`) or float64 with
    these bits. -/
def fmtV (dbl : Bool) (bits : Nat) : Bytes :=
  let mantbits : Nat := if dbl then 52 else 23
  let expbits : Nat := if dbl then 11 else 8
  let bias : Int := if dbl then -1023 else -127
  let neg := bits / 2 ^ (mantbits + expbits) % 2 = 1
  let expField := bits / 2 ^ mantbits % 2 ^ expbits
  let frac := bits % 2 ^ mantbits
  if expField = 2 ^ expbits - 1 then
    if frac ≠ 0 then [0x4e, 0x61, 0x4e]                       -- NaN
    else if neg then [0x2d, 0x49, 0x6e, 0x66]                 -- -Inf
    else [0x2b, 0x49, 0x6e, 0x66]                             -- +Inf
  else
    let sign : Bytes := if neg then [0x2d] else []
    let (mant, exp) : Nat × Int :=
      if expField = 0 then (frac, bias + 1) else (frac + 2 ^ mantbits, (expField : Int) + bias)
    if mant = 0 then sign ++ [0x30]
    else
      -- value = mant × 2^(exp - mantbits)
      let minexp : Int := bias + 1
      let e2 : Int := exp - mantbits
      -- in units of 2^(e2-2): value = 4·mant, upper = 4·mant + 2, lower = 4·mant - 2, or 4·mant - 1
      -- when the next lower float has a smaller exponent
      let lower4 := if mant > 2 ^ mantbits ∨ exp = minexp then 4 * mant - 2 else 4 * mant - 1
      let (ds, dp) := shortest (4 * mant) lower4 (4 * mant + 2) (e2 - 2) (mant % 2 = 0)
      let x := dp - 1
      if x < -4 ∨ x ≥ 6 then sign ++ fmtE ds dp else sign ++ fmtF ds dp

end GaeaVerif.StmtGoFloat
