import GaeaVerif.Model.Go
/-
  Physical layout of a shard rule and the code that turns a routed statement
  into per-slice, per-database SQL (shared by C03 and C04):

  proxy/router/rule.go    BaseRule: GetSlice, GetSliceIndexFromTableIndex,
                          GetDatabaseNameByTableIndex; parseHashRuleSliceInfos,
                          parseGlobalTableRuleSliceInfos, parseRule (global part)
  proxy/router/router.go  NewRouter (what it does to a global rule)
  proxy/plan/plan.go      generateShardingSQLs, generateMultiShardingSQLs (the
                          loop over the route result)
  proxy/plan/decorator_table_name.go   TableNameDecorator.Restore
  proxy/plan/decorator_column_name.go  ColumnNameDecorator.Restore

  A rewritten statement is observed through its *name skeleton*: the chains of
  back-quoted identifiers (`db`.`table`.`column`, `table`, `alias` …) in text
  order.  Core Lean only.
-/
namespace GaeaVerif.Layout

/-- The three ways `Restore` treats a rule: kingshard style (hash, mod, range,
    date_*: the table name gets the `_%04d` suffix), Mycat style (`mycat_*`: the
    database is rewritten) and global tables. -/
inductive Kind where
  | kingshard | mycat | global
  deriving DecidableEq, Repr

/-- What a `BaseRule` holds after `parseRule` and `NewRouter`. -/
structure Rule where
  kind : Kind
  /-- `r.db`: the logical database -/
  db : String
  /-- `r.slices` -/
  slices : List String
  /-- `r.subTableIndexes` -/
  idxs : List Int
  /-- `r.tableToSlice` (a Go map; looked up by key) -/
  t2s : List (Int × Int)
  /-- `r.mycatDatabases` (also used by global rules) -/
  dbs : List String
  deriving Repr, DecidableEq

/-- `m[k]` with the `ok` flag of a Go map kept as an association list. -/
def mapGet (m : List (Int × Int)) (k : Int) : Option Int :=
  match m with
  | [] => none
  | (k', v) :: rest => if k' = k then some v else mapGet rest k

/-- `m[k] = v` -/
def mapSet (m : List (Int × Int)) (k v : Int) : List (Int × Int) :=
  match m with
  | [] => [(k, v)]
  | (k', v') :: rest => if k' = k then (k, v) :: rest else (k', v') :: mapSet rest k v

/-- `BaseRule.GetSliceIndexFromTableIndex` -/
def getSliceIndexFromTableIndex (r : Rule) (i : Int) : Int :=
  match mapGet r.t2s i with
  | some s => s
  | none => -1

/-- Go's `xs[i]` on a string slice. -/
def strIdx (xs : List String) (i : Int) : R String :=
  if i < 0 then .panic else
  match xs[i.toNat]? with
  | some s => .ok s
  | none => .panic

/-- `BaseRule.GetSlice`: `r.slices[i]` -/
def getSlice (r : Rule) (i : Int) : R String := strIdx r.slices i

/-- `BaseRule.GetDatabaseNameByTableIndex`; `fail` is `ErrInvalidArgument`. -/
def getDatabaseNameByTableIndex (r : Rule) (index : Int) : R String :=
  match r.kind with
  | .kingshard => .ok r.db
  | _ => if index > r.idxs.length then .fail else strIdx r.dbs index

/-! ### Building the layout from the configuration -/

/-- the inner loop of `parseHashRuleSliceInfos` for slice `i` holding `n`
    tables, the first of which has index `sum` -/
def addTables (i : Int) (sum : Int) : Nat → List Int × List (Int × Int) → List Int × List (Int × Int)
  | 0, acc => acc
  | n + 1, acc =>
    let acc' := addTables i sum n acc
    (acc'.1 ++ [(n : Int) + sum], mapSet acc'.2 ((n : Int) + sum) i)

/-- the outer loop of `parseHashRuleSliceInfos` -/
def hashLoop : List Int → Int → Int → List Int × List (Int × Int) → List Int × List (Int × Int)
  | [], _, _, acc => acc
  | loc :: rest, i, sum, acc => hashLoop rest (i + 1) (sum + loc) (addTables i sum loc.toNat acc)

/-- `parseHashRuleSliceInfos(locations, slices)`; `none` = `ErrLocationsCount`, or
    (since the `fix:` commit "reject negative and all-zero locations") a negative
    entry (`ErrLocationsNegative`) or no sub table at all (`ErrLocationsEmpty`) -/
def parseHashRuleSliceInfos (locations : List Int) (slices : List String) :
    Option (List Int × List (Int × Int)) :=
  if locations.length ≠ slices.length then none
  else if locations.any (fun l => decide (l < 0)) then none
  else if (hashLoop locations 0 0 ([], [])).1 = [] then none
  else some (hashLoop locations 0 0 ([], []))

/-- The configuration of a global table (`models.Shard` of type `global`);
    `databases` is the list after `getRealDatabases` expanded `db[0-3]`. -/
structure GlobalCfg where
  db : String
  locations : List Int
  slices : List String
  databases : List String
  deriving Repr

/-- `parseRule` for `cfg.Type == global` (with `parseGlobalTableRuleSliceInfos`)
    followed by what `NewRouter` does to the rule.  `nsSlices` are the slice
    names of the namespace; `overrideSlices` is the pinned behaviour
    (`rule.slices = sliceNames`), removed by the `fix:` commit c29cd53. -/
def parseGlobalRule (overrideSlices : Bool) (nsSlices : List String) (cfg : GlobalCfg) : Option Rule :=
  match parseHashRuleSliceInfos cfg.locations cfg.slices with
  | none => none
  | some (idxs, t2s) =>
    if cfg.databases.length ≠ 0 ∧ t2s.length ≠ cfg.databases.length then none
    else
      let dbs := if cfg.databases.length ≠ 0 then cfg.databases else List.replicate idxs.length cfg.db
      some { kind := .global, db := cfg.db,
             slices := if overrideSlices then nsSlices else cfg.slices,
             idxs := idxs, t2s := t2s, dbs := dbs }

/-! ### Names -/

def padLeft (n : Nat) (s : String) : String :=
  String.ofList (List.replicate (n - s.length) '0') ++ s

/-- `fmt.Sprintf("%04d", i)` -/
def fmt04 (i : Int) : String :=
  if i < 0 then "-" ++ padLeft 3 (toString i.natAbs) else padLeft 4 (toString i.natAbs)

/-- a chain of back-quoted identifiers joined by dots -/
abbrev Chain := List String

/-- the schema part written by both decorators when the original name has one -/
def restoreSchema (r : Rule) (schema : String) (tableIndex : Int) : R Chain :=
  if schema = "" then .ok [] else
  match r.kind with
  | .kingshard => .ok [schema]
  | _ =>
    match getDatabaseNameByTableIndex r tableIndex with
    | .ok d => .ok [d]
    | .fail => .fail
    | .panic => .panic

/-- `TableNameDecorator.Restore` (index hints aside): the chain of the table and,
    if there is one, the chain of the alias. -/
def restoreTableName (r : Rule) (schema name alias : String) (tableIndex : Int) : R (List Chain) :=
  match restoreSchema r schema tableIndex with
  | .ok s =>
    let t := match r.kind with
      | .kingshard => name ++ "_" ++ fmt04 tableIndex
      | _ => name
    .ok ((s ++ [t]) :: (if alias = "" then [] else [[alias]]))
  | .fail => .fail
  | .panic => .panic

/-- `ColumnNameDecorator.Restore` -/
def restoreColumnName (r : Rule) (schema table name : String) (isAlias : Bool) (tableIndex : Int) : R Chain :=
  match restoreSchema r schema tableIndex with
  | .ok s =>
    let t := if table = "" then [] else
      match r.kind with
      | .kingshard => if isAlias then [table] else [table ++ "_" ++ fmt04 tableIndex]
      | _ => [table]
    .ok (s ++ t ++ [name])
  | .fail => .fail
  | .panic => .panic

/-! ### From a route result to per-slice SQL -/

/-- one entry of the `map[slice]map[db][]sql` a plan ends with -/
structure Target (α : Type) where
  slice : String
  db : String
  sql : α
  deriving Repr, DecidableEq

/-- the part of the loop body of `generateShardingSQLs` after `Restore`:
    `GetSliceIndexFromTableIndex`, `GetSlice`, `GetDatabaseNameByTableIndex`
    (whose error is ignored there) -/
def targetOf {α : Type} (r : Rule) (index : Int) (sql : α) : R (Target α) :=
  match getSlice r (getSliceIndexFromTableIndex r index) with
  | .ok slice =>
    match getDatabaseNameByTableIndex r index with
    | .ok d => .ok { slice := slice, db := d, sql := sql }
    | .fail => .ok { slice := slice, db := "", sql := sql }
    | .panic => .panic
  | .fail => .fail
  | .panic => .panic

/-- `generateShardingSQLs`: for every routed index, restore the statement for
    that index and file it under the slice and database of the index.  The
    entries are listed in generation order (the Go map keeps, per slice and
    database, the same order). -/
def generateShardingSQLs {α : Type} (r : Rule) (restore : Int → R α) : List Int → R (List (Target α))
  | [] => .ok []
  | i :: is =>
    match restore i with
    | .ok sql =>
      match targetOf r i sql with
      | .ok t =>
        match generateShardingSQLs r restore is with
        | .ok ts => .ok (t :: ts)
        | .fail => .fail
        | .panic => .panic
      | .fail => .fail
      | .panic => .panic
    | .fail => .fail
    | .panic => .panic

/-- the loop of `generateMultiShardingSQLs` (`stmts[result.currentIndex]` is
    restored for `result.indexes[result.currentIndex]`) -/
def multiLoop {α β : Type} (r : Rule) (restore : β → Int → R α) :
    List β → List Int → R (List (Target α))
  | s :: ss, i :: is =>
    match restore s i with
    | .ok sql =>
      match targetOf r i sql with
      | .ok t =>
        match multiLoop r restore ss is with
        | .ok ts => .ok (t :: ts)
        | .fail => .fail
        | .panic => .panic
      | .fail => .fail
      | .panic => .panic
    | .fail => .fail
    | .panic => .panic
  | _, _ => .ok []

/-- `generateMultiShardingSQLs`: one statement per routed index; `fail` when
    the counts differ ("stmt not equal result") -/
def generateMultiShardingSQLs {α β : Type} (r : Rule) (restore : β → Int → R α)
    (stmts : List β) (idxs : List Int) : R (List (Target α)) :=
  if stmts.length ≠ idxs.length then .fail else multiLoop r restore stmts idxs

/-! ### Reference: the copies a global-table configuration describes -/

/-- slice of every copy, in table-index order: `locations[i]` copies on `slices[i]` -/
def copySlices : List Int → List String → List String
  | loc :: locs, s :: ss => List.replicate loc.toNat s ++ copySlices locs ss
  | _, _ => []

/-- the configured copies of a global table: (slice, physical database) per
    copy, in table-index order -/
def copies (cfg : GlobalCfg) : List (String × String) :=
  let ss := copySlices cfg.locations cfg.slices
  let dbs := if cfg.databases.length ≠ 0 then cfg.databases else List.replicate ss.length cfg.db
  ss.zip dbs

end GaeaVerif.Layout
