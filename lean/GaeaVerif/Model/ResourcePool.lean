/-
  Model of util/resource_pool.go (ResourcePool) as a transition system at the
  granularity of the pool's atomic actions: one step = the code between two
  consecutive `verifStep("label")` points of the Go source, which contains at
  most one shared action (channel send/receive/close, atomic load/add/CAS,
  mutex lock/unlock) plus thread-local computation.  Every thread has a program
  counter `Pc` (named after the step labels) carrying its local variables.

  Modelled rather than verified: Go channels (FIFO buffer, close semantics:
  receive on a closed empty channel yields the zero value, send on a closed
  channel panics), sync.Mutex, sync2.Semaphore of one slot (`scaling`: Acquire
  blocks, TryAcquire does not, a panic runs the deferred Release), sync/atomic,
  util/timer.Timer (Stop waits for a running callback and prevents later ones:
  `idleBusy`/`capBusy`/`idleOn`/`capOn`).
  Time is abstracted: `recent` = "the last scale-out is at most 60 s old",
  `Alt.expired` = "the idle timeout of the inspected resource has passed",
  `Alt.timeout` = "the context of a waiting Get expires now".
  Core Lean only.
-/
namespace GaeaVerif.ResourcePool

/-- `resourceWrapper`: `none` = `resource == nil`, `some r` = resource number `r`. -/
abbrev Slot := Option Nat

/-- The shared state of a `ResourcePool`. -/
structure Pool where
  chan : List Slot          -- rp.resources, head = next to be received
  closed : Bool             -- close(rp.resources) happened
  maxCap : Nat              -- cap(rp.resources) = rp.maxCapacity
  capacity : Int
  available : Int
  inUse : Int
  active : Int
  baseCap : Int
  lock : Bool               -- rp.lock is held
  scaling : Bool            -- the rp.scaling semaphore is taken
  todo : Bool               -- rp.scaleInTodo holds an element
  recent : Bool             -- time.Now().Unix() - rp.scaleOutTime <= 60
  dynamic : Bool            -- rp.Dynamic
  idleOn : Bool             -- idleTimer still running (closeIdleResources may start)
  capOn : Bool              -- capTimer still running (scaleInResources may start)
  idleBusy : Nat            -- closeIdleResources calls in progress
  capBusy : Nat             -- scaleInResources calls in progress (not the spawned goroutine)
  nextRes : Nat             -- next resource number the factory hands out
  deriving Repr, BEq, DecidableEq

/-- Operations a thread performs, in program order. -/
inductive Op where
  | get (fails : Nat)       -- Get; the factory fails `fails` times before succeeding (3 attempts)
  | put                     -- Put(resource) of the most recently obtained resource
  | drop                    -- Put(nil) for the most recently obtained resource
  | sweep                   -- closeIdleResources (idle timer callback)
  | tick                    -- scaleInResources (capacity timer callback)
  | setCap (c : Int)        -- SetCapacity(c)
  | scale (c : Int)         -- ScaleCapacity(c)
  | close                   -- Close()
  | age                     -- environment: more than 60 s pass since the last scale-out
  deriving Repr, BEq, DecidableEq

/-- Program counters; the name is the `verifStep` label the thread is parked at. -/
inductive Pc where
  | idle | dead
  -- get
  | gRecv (f : Nat) | gWait (f : Nat) | gMake (f : Nat) | gFailSend
  | gAct (r : Nat) | gAvail (r : Nat) | gInUse (r : Nat)
  -- scaleOutResources / AddCapacityResource (inside get)
  | soLock (f : Nat) | soCap (f : Nat) | soTry (f : Nat) | soCap2 (f : Nat) | soAdd (f : Nat) (c : Int)
  | soAvail (f : Nat) | soRelease (f : Nat) (ok : Bool) | soUnlock (f : Nat) (ok stamp : Bool)
  -- Put
  | pAct | pSend (w : Slot) | pInUse | pAvail
  -- closeIdleResources
  | cLoad | cRecv (n i : Int) | cAct (n i : Int) | cSend (n i : Int) (w : Slot)
  -- SetCapacity
  | scLoad (c : Int) | scCas (c old : Int)
  -- ScaleCapacity
  | sLock (c : Int) | sLoad (c : Int) | sCas (c old : Int)
  | sShrRecv (c old i : Int) | sShrAct (c old i : Int) | sShrAvail (c old i : Int)
  | sGrowSend (c old i : Int) | sGrowAvail (c old i : Int) | sClose | sUnlock
  -- scaleInResources and its spawned goroutine
  | tLock | tCap | tTodo | tUnlock | kLoad | kDone
  -- Close
  | clIdle | clCap
  deriving Repr, BEq, DecidableEq

/-- What a step makes observable to the caller of the operation. -/
inductive Ev where
  | none | skip | spawn
  | got (r : Nat) | errClosed | errTimeout | errFactory
  | sErrRange                -- range error returned by ScaleCapacity (its callers ignore it)
  | okPut | ok
  | panicPutFull | panicPutClosed | panicSendClosed | panicCloseClosed
  deriving Repr, BEq, DecidableEq

structure Thread where
  prog : List Op
  pc : Pc
  held : List Nat           -- resources this client holds (most recent first)
  child : Bool              -- the goroutine spawned by scaleInResources
  deriving Repr, BEq, DecidableEq

/-- External choices of a step. -/
structure Alt where
  timeout : Bool := false
  expired : Bool := false
  deriving Repr, BEq, DecidableEq

structure Res where
  pool : Pool
  thr : Thread
  spawn : Option Thread := none
  ev : Ev := .none

/-- NewResourcePool (timers are represented by `idleOn`/`capOn`). -/
def newPool (capacity maxCap : Int) (dynamic : Bool) : Option Pool :=
  if capacity ≤ 0 ∨ maxCap ≤ 0 ∨ capacity > maxCap then none
  else some {
    chan := List.replicate capacity.toNat none, closed := false, maxCap := maxCap.toNat,
    capacity := capacity, available := capacity, inUse := 0, active := 0, baseCap := capacity,
    lock := false, scaling := false, todo := false, recent := false, dynamic := dynamic,
    idleOn := true, capOn := true, idleBusy := 0, capBusy := 0, nextRes := 0 }

/-- Where a thread goes after receiving wrapper `w` in `get`. -/
def gotWrapper (f : Nat) : Slot → Pc
  | some r => .gAvail r
  | none => .gMake f

/-- Return from ScaleCapacity: the spawned goroutine continues with `<-rp.scaleInTodo`. -/
def afterScale (t : Thread) : Pc := if t.child then .kDone else .idle

/-- ScaleCapacity's range check (no shared action besides the constant maxCapacity). -/
def scaleEntry (p : Pool) (t : Thread) (c : Int) : Pc × Ev :=
  if c < 0 ∨ c > p.maxCap then (afterScale t, .sErrRange) else (.sLock c, .none)

/-- After the shrink/grow loops of ScaleCapacity. -/
def scaleTail (c : Int) : Pc :=
  if c = 0 then .sClose else .sUnlock

/-- End of closeIdleResources. -/
def sweepEnd (p : Pool) (t : Thread) : Res :=
  { pool := { p with idleBusy := p.idleBusy - 1 }, thr := { t with pc := .idle }, ev := .ok }

/-- Start of the next operation of a thread that is between operations. -/
def startOp (p : Pool) (t : Thread) : Option Res :=
  match t.prog with
  | [] => none
  | op :: rest =>
    let t := { t with prog := rest }
    match op with
    | .get f => some { pool := p, thr := { t with pc := .gRecv f } }
    | .put =>
      match t.held with
      | r :: hs => some { pool := p, thr := { t with pc := .pSend (some r), held := hs } }
      | [] => some { pool := p, thr := t, ev := .skip }
    | .drop =>
      match t.held with
      | _ :: hs => some { pool := p, thr := { t with pc := .pAct, held := hs } }
      | [] => some { pool := p, thr := t, ev := .skip }
    | .sweep =>
      if p.idleOn then some { pool := { p with idleBusy := p.idleBusy + 1 }, thr := { t with pc := .cLoad } }
      else some { pool := p, thr := t, ev := .skip }
    | .tick =>
      if p.capOn then some { pool := { p with capBusy := p.capBusy + 1 }, thr := { t with pc := .tLock } }
      else some { pool := p, thr := t, ev := .skip }
    | .setCap c => some { pool := p, thr := { t with pc := .scLoad c } }
    | .scale c =>
      let (pc, ev) := scaleEntry p t c
      some { pool := p, thr := { t with pc := pc }, ev := ev }
    | .close => some { pool := p, thr := { t with pc := .clIdle } }
    | .age => some { pool := { p with recent := false }, thr := t, ev := .ok }

/-- One atomic step of thread `t` on pool `p`; `none` = the thread cannot move
    (finished, dead, or blocked on the mutex / the channel / a timer). -/
def stepThread (p : Pool) (t : Thread) (a : Alt) : Option Res :=
  match t.pc with
  | .idle => startOp p t
  | .dead => none
  ---------------------------------------------------------------- get
  | .gRecv f =>                                   -- select { case w, ok = <-rp.resources: default: }
    match p.chan with
    | w :: rest => some { pool := { p with chan := rest }, thr := { t with pc := gotWrapper f w } }
    | [] =>
      if p.closed then some { pool := p, thr := { t with pc := .idle }, ev := .errClosed }
      else if p.dynamic then some { pool := p, thr := { t with pc := .soLock f } }
      else some { pool := p, thr := { t with pc := .gWait f } }
  | .soLock f =>                                  -- rp.lock.Lock()
    if p.lock then none else some { pool := { p with lock := true }, thr := { t with pc := .soCap f } }
  | .soCap f =>                                   -- rp.capacity.Get() < rp.maxCapacity.Get()
    if p.capacity < p.maxCap then some { pool := p, thr := { t with pc := .soTry f } }
    else some { pool := p, thr := { t with pc := .soUnlock f false false } }
  | .soTry f =>                                   -- rp.scaling.TryAcquire()
    if p.scaling then some { pool := p, thr := { t with pc := .soUnlock f false false } }
    else some { pool := { p with scaling := true }, thr := { t with pc := .soCap2 f } }
  | .soCap2 f =>                                  -- AddCapacityResource: capacity := rp.capacity.Get()
    if p.capacity ≤ 0 ∨ p.capacity ≥ p.maxCap then some { pool := p, thr := { t with pc := .soRelease f false } }
    else some { pool := p, thr := { t with pc := .soAdd f p.capacity } }
  | .soAdd f c =>                                 -- rp.capacity.CompareAndSwap(capacity, capacity+1)
    if p.capacity = c then some { pool := { p with capacity := c + 1 }, thr := { t with pc := .soAvail f } }
    else some { pool := p, thr := { t with pc := .soCap2 f } }
  | .soAvail f =>                                 -- rp.available.Add(1)
    some { pool := { p with available := p.available + 1 }, thr := { t with pc := .soRelease f true } }
  | .soRelease f ok =>                            -- rp.scaling.Release()
    some { pool := { p with scaling := false }, thr := { t with pc := .soUnlock f ok true } }
  | .soUnlock f ok stamp =>                       -- (rp.scaleOutTime = now;) rp.lock.Unlock()
    -- scaleOutTime is written whenever AddCapacityResource was called, successful or not
    let p' := { p with lock := false, recent := stamp || p.recent }
    if ok then some { pool := p', thr := { t with pc := .gMake f } }
    else some { pool := p', thr := { t with pc := .gWait f } }
  | .gWait f =>                                   -- select { case w, ok = <-rp.resources: case <-ctx.Done(): }
    if a.timeout then some { pool := p, thr := { t with pc := .idle }, ev := .errTimeout }
    else match p.chan with
    | w :: rest => some { pool := { p with chan := rest }, thr := { t with pc := gotWrapper f w } }
    | [] => if p.closed then some { pool := p, thr := { t with pc := .idle }, ev := .errClosed } else none
  | .gMake f =>                                   -- createResourceWithRetry
    if f ≥ 3 then some { pool := p, thr := { t with pc := .gFailSend } }
    else some { pool := { p with nextRes := p.nextRes + 1 }, thr := { t with pc := .gAct p.nextRes } }
  | .gFailSend =>                                 -- rp.resources <- resourceWrapper{}
    if p.closed then some { pool := p, thr := { t with pc := .dead }, ev := .panicSendClosed }
    else if p.chan.length < p.maxCap then
      some { pool := { p with chan := p.chan ++ [none] }, thr := { t with pc := .idle }, ev := .errFactory }
    else none
  | .gAct r => some { pool := { p with active := p.active + 1 }, thr := { t with pc := .gAvail r } }
  | .gAvail r => some { pool := { p with available := p.available - 1 }, thr := { t with pc := .gInUse r } }
  | .gInUse r =>
    some { pool := { p with inUse := p.inUse + 1 }, thr := { t with pc := .idle, held := r :: t.held }, ev := .got r }
  ---------------------------------------------------------------- Put
  | .pAct => some { pool := { p with active := p.active - 1 }, thr := { t with pc := .pSend none } }
  | .pSend w =>                                   -- select { case rp.resources <- wrapper: default: panic }
    if p.closed then some { pool := p, thr := { t with pc := .dead }, ev := .panicPutClosed }
    else if p.chan.length < p.maxCap then
      some { pool := { p with chan := p.chan ++ [w] }, thr := { t with pc := .pInUse } }
    else some { pool := p, thr := { t with pc := .dead }, ev := .panicPutFull }
  | .pInUse => some { pool := { p with inUse := p.inUse - 1 }, thr := { t with pc := .pAvail } }
  | .pAvail => some { pool := { p with available := p.available + 1 }, thr := { t with pc := .idle }, ev := .okPut }
  ---------------------------------------------------------------- closeIdleResources
  | .cLoad =>                                     -- available := int(rp.Available())
    if 0 < p.available then some { pool := p, thr := { t with pc := .cRecv p.available 0 } }
    else some (sweepEnd p t)
  | .cRecv n i =>                                 -- select { case wrapper, _ = <-rp.resources: default: return }
    match p.chan with
    | w :: rest =>
      match w with
      | some r =>
        if a.expired then some { pool := { p with chan := rest }, thr := { t with pc := .cAct n i } }
        else some { pool := { p with chan := rest }, thr := { t with pc := .cSend n i (some r) } }
      | none => some { pool := { p with chan := rest }, thr := { t with pc := .cSend n i none } }
    | [] => some (sweepEnd p t)                   -- closed (`!ok`) or nothing there (`default`): return
  | .cAct n i => some { pool := { p with active := p.active - 1 }, thr := { t with pc := .cSend n i none } }
  | .cSend n i w =>                               -- rp.resources <- wrapper
    if p.closed then some { pool := p, thr := { t with pc := .dead }, ev := .panicSendClosed }
    else if p.chan.length < p.maxCap then
      let p' := { p with chan := p.chan ++ [w] }
      if i + 1 < n then some { pool := p', thr := { t with pc := .cRecv n (i + 1) } }
      else some (sweepEnd p' t)
    else none
  ---------------------------------------------------------------- SetCapacity
  | .scLoad c => some { pool := p, thr := { t with pc := .scCas c p.baseCap } }
  | .scCas c old =>                               -- rp.baseCapacity.CompareAndSwap(oldcap, capacity)
    let p' := if p.baseCap = old then { p with baseCap := c } else p
    if old < c then
      let (pc, ev) := scaleEntry p t c
      some { pool := p', thr := { t with pc := pc }, ev := ev }
    else some { pool := p', thr := { t with pc := .idle }, ev := .ok }
  ---------------------------------------------------------------- ScaleCapacity
  | .sLock c =>                                   -- rp.scaling.Acquire()
    if p.scaling then none else some { pool := { p with scaling := true }, thr := { t with pc := .sLoad c } }
  | .sLoad c =>                                   -- oldcap = int(rp.capacity.Get())
    if p.capacity = 0 then some { pool := p, thr := { t with pc := .sUnlock } }       -- return ErrClosed
    else if p.capacity = c then some { pool := p, thr := { t with pc := .sUnlock } }  -- return nil
    else some { pool := p, thr := { t with pc := .sCas c p.capacity } }
  | .sCas c old =>                                -- rp.capacity.CompareAndSwap(oldcap, capacity)
    if p.capacity = old then
      let p' := { p with capacity := c }
      if c < old then some { pool := p', thr := { t with pc := .sShrRecv c old 0 } }
      else some { pool := p', thr := { t with pc := .sGrowSend c old 0 } }
    else some { pool := p, thr := { t with pc := .sLoad c } }
  | .sShrRecv c old i =>                          -- wrapper := <-rp.resources
    match p.chan with
    | w :: rest =>
      match w with
      | some _ => some { pool := { p with chan := rest }, thr := { t with pc := .sShrAct c old i } }
      | none => some { pool := { p with chan := rest }, thr := { t with pc := .sShrAvail c old i } }
    | [] => if p.closed then some { pool := p, thr := { t with pc := .sShrAvail c old i } } else none
  | .sShrAct c old i => some { pool := { p with active := p.active - 1 }, thr := { t with pc := .sShrAvail c old i } }
  | .sShrAvail c old i =>                         -- rp.available.Add(-1)
    let p' := { p with available := p.available - 1 }
    if i + 1 < old - c then some { pool := p', thr := { t with pc := .sShrRecv c old (i + 1) } }
    else some { pool := p', thr := { t with pc := scaleTail c } }
  | .sGrowSend c old i =>                         -- rp.resources <- resourceWrapper{}
    -- a panic runs the deferred rp.scaling.Release()
    if p.closed then some { pool := { p with scaling := false }, thr := { t with pc := .dead }, ev := .panicSendClosed }
    else if p.chan.length < p.maxCap then
      some { pool := { p with chan := p.chan ++ [none] }, thr := { t with pc := .sGrowAvail c old i } }
    else none
  | .sGrowAvail c old i =>                        -- rp.available.Add(1)
    let p' := { p with available := p.available + 1 }
    if i + 1 < c - old then some { pool := p', thr := { t with pc := .sGrowSend c old (i + 1) } }
    else some { pool := p', thr := { t with pc := scaleTail c } }
  | .sClose =>                                    -- close(rp.resources)
    if p.closed then some { pool := { p with scaling := false }, thr := { t with pc := .dead }, ev := .panicCloseClosed }
    else some { pool := { p with closed := true }, thr := { t with pc := .sUnlock } }
  | .sUnlock =>                                   -- return; the deferred rp.scaling.Release()
    some { pool := { p with scaling := false }, thr := { t with pc := afterScale t }, ev := .ok }
  ---------------------------------------------------------------- scaleInResources
  | .tLock => if p.lock then none else some { pool := { p with lock := true }, thr := { t with pc := .tCap } }
  | .tCap =>                                      -- capacity > baseCapacity && now - scaleOutTime > 60
    if p.capacity > p.baseCap ∧ ¬ p.recent then some { pool := p, thr := { t with pc := .tTodo } }
    else some { pool := p, thr := { t with pc := .tUnlock } }
  | .tTodo =>                                     -- select { case rp.scaleInTodo <- 0: go func(){…}() default: }
    if p.todo then some { pool := p, thr := { t with pc := .tUnlock } }
    else some { pool := { p with todo := true }, thr := { t with pc := .tUnlock },
                spawn := some { prog := [], pc := .kLoad, held := [], child := true }, ev := .spawn }
  | .tUnlock =>
    some { pool := { p with lock := false, capBusy := p.capBusy - 1 }, thr := { t with pc := .idle }, ev := .ok }
  | .kLoad =>                                     -- rp.ScaleCapacity(int(rp.capacity.Get()) - 1)
    let (pc, ev) := scaleEntry p t (p.capacity - 1)
    some { pool := p, thr := { t with pc := pc }, ev := ev }
  | .kDone => some { pool := { p with todo := false }, thr := { t with pc := .idle }, ev := .ok }
  ---------------------------------------------------------------- Close
  | .clIdle =>                                    -- rp.idleTimer.Stop(): waits for a running sweep
    if p.idleBusy = 0 then some { pool := { p with idleOn := false }, thr := { t with pc := .clCap } } else none
  | .clCap =>                                     -- rp.capTimer.Stop(); then ScaleCapacity(0)
    if p.capBusy = 0 then some { pool := { p with capOn := false }, thr := { t with pc := .sLock 0 } } else none

/-- The whole system: the pool and any number of threads. -/
structure State where
  pool : Pool
  threads : List Thread
  deriving Repr, BEq, DecidableEq

/-- Thread `i` takes one step. -/
def step (s : State) (i : Nat) (a : Alt) : Option (State × Ev) :=
  match s.threads[i]? with
  | none => none
  | some t =>
    match stepThread s.pool t a with
    | none => none
    | some r =>
      let ths := s.threads.set i r.thr
      some ({ pool := r.pool, threads := match r.spawn with | some c => ths ++ [c] | none => ths }, r.ev)

def mkThread (prog : List Op) : Thread := { prog := prog, pc := .idle, held := [], child := false }

def init (capacity maxCap : Int) (dynamic : Bool) (progs : List (List Op)) : Option State :=
  (newPool capacity maxCap dynamic).map fun p => { pool := p, threads := progs.map mkThread }

/-- Run a schedule (thread index + external choices per step); steps that are
    not enabled are skipped. -/
def run (s : State) : List (Nat × Alt) → State
  | [] => s
  | (i, a) :: rest =>
    match step s i a with
    | some (s', _) => run s' rest
    | none => run s rest

end GaeaVerif.ResourcePool
