import GaeaVerif.Model.Route
/-
  Model of the UPDATE / DELETE specific parts of the planner (C05):
  proxy/plan/plan_update.go   handleUpdateAssignmentList, UpdatePlan.ExecuteIn
  proxy/plan/plan_delete.go   DeletePlan.ExecuteIn
  proxy/plan/plan_insert.go   handleInsertOnDuplicate
  proxy/plan/merge_result.go  MergeExecResult
  The WHERE routing is `Route.routeStmt` (handleUpdateWhere / handleDeleteWhere
  call handleComparisonExpr exactly like handleWhere).  Core Lean only.
-/
namespace GaeaVerif.Modify
open GaeaVerif.Route

/-- How an assignment target `[[db.]tbl.]col` is qualified, as
    `TableAliasStmtInfo.GetSettedRuleFromColumnInfo` distinguishes it. -/
inductive Qual where
  | none      -- `col`
  | table     -- `tbl.col`, `tbl` is the sharded table of the statement
  | alias     -- `a.col`, `a` an alias of the sharded table
  | unknown   -- `x.col`, `x` neither: "rule not found"
  | badDb     -- `otherdb.tbl.col`: checkAndGetDB fails
  deriving DecidableEq, Repr

structure Target where
  qual : Qual
  /-- `assignment.Column.Name.L` (lower-cased by the parser) -/
  name : String
  /-- the assigned value holds a sub-query with a FROM clause
      (`checkNoSubqueryReadingTable(assignment.Expr)`, UPDATE only) -/
  sub : Bool := false
  deriving DecidableEq, Repr

inductive Verdict where
  | accept
  | rejectKey      -- "cannot update shard column value" / ErrUpdateKey
  | rejectOther    -- another planning error
  deriving DecidableEq, Repr

/-- the rest of an iteration once the column has passed: the assigned value
    must not hold a sub-query that reads a table -/
def checkValue (t : Target) : Verdict := if t.sub then .rejectOther else .accept

/-- one iteration of the loop of `handleUpdateAssignmentList`; `key` is the
    rule's sharding column (stored lower-cased). -/
def checkTarget (key : String) (t : Target) : Verdict :=
  match t.qual with
  | .none =>
    -- getSettedRuleByColumnName: a rule is found only if the name is the sharding column
    if t.name = key then .rejectKey else checkValue t
  | .table => if t.name = key then .rejectKey else checkValue t
  | .alias => if t.name = key then .rejectKey else checkValue t
  | .unknown => .rejectOther
  | .badDb => .rejectOther

/-- `handleUpdateAssignmentList`: the first offending assignment decides. -/
def handleUpdateAssignmentList (key : String) : List Target → Verdict
  | [] => .accept
  | t :: ts =>
    match checkTarget key t with
    | .accept => handleUpdateAssignmentList key ts
    | v => v

/-- `handleInsertOnDuplicate`: only the column name is looked at. -/
def handleInsertOnDuplicate (key : String) : List Target → Verdict
  | [] => .accept
  | t :: ts => if t.name = key then .rejectKey else handleInsertOnDuplicate key ts

/-- a per-shard execution result: status flags, affected rows, insert id -/
structure ExecResult where
  status : Nat
  affected : Nat
  insertId : Nat
  deriving DecidableEq, Repr

/-- the body of the loop of `MergeExecResult` -/
def mergeStep (r v : ExecResult) : ExecResult :=
  { status := r.status ||| v.status
    affected := r.affected + v.affected
    insertId := if r.insertId = 0 then v.insertId
                else if v.insertId ≠ 0 ∧ r.insertId > v.insertId then v.insertId else r.insertId }

/-- `MergeExecResult` -/
def mergeExecResult (rs : List ExecResult) : ExecResult :=
  rs.foldl mergeStep { status := 0, affected := 0, insertId := 0 }

/-! ### Reference semantics: one database holding all rows -/

/-- A row: its sharding value and the truth values of everything else.
    `id` names the row (the statement-level theorems of `Props/C05.lean` speak
    about *which* rows are changed); `o` is the value of the other column in the
    executable instances (ORDER BY and SET of the driver) — no theorem reads it. -/
structure Row where
  key : Int
  env : Cond → Option Bool
  id : Nat := 0
  o : Int := 0

/-- number of rows of a table the statement's WHERE selects -/
def matching (c : Cond) (rows : List Row) : Nat :=
  (rows.filter fun row => eval row.env row.key c == some true).length

/-- What the proxy reports: the per-table statement is executed on every
    routed table and the affected-row counts are added (`UpdatePlan.ExecuteIn`
    → `ExecuteSQLs` → `MergeExecResult`). -/
def proxyAffected (c : Cond) (tbl : Int → List Row) (routed : List Int) : Nat :=
  (mergeExecResult (routed.map fun i => { status := 0, affected := matching c (tbl i), insertId := 0 })).affected

end GaeaVerif.Modify
