import GaeaVerif.Model.Go
import GaeaVerif.Model.LenEnc
import GaeaVerif.Model.StmtLex
import GaeaVerif.Model.StmtGoFloat
/-
  Model of the parameter binding and statement rewriting of
  /repo/proxy/server/executor_stmt.go (C15, C16):
    bindStmtArgs, util.ItoString (util/util.go), escapeSQL, Stmt.GetRewriteSQL,
    mysql.FormatBinaryDate / FormatBinaryDateTime / FormatBinaryTime
    (mysql/encoding.go).
  Positions are Go `int`s (`Int`); every index and slice expression goes
  through `goIdx` / `goSlice`, so a missing guard is a reachable `panic`.
  Core Lean only.
-/
namespace GaeaVerif.StmtBind
open GaeaVerif GaeaVerif.StmtLex

/-- Error kinds of the prepared-statement commands (the harness maps Go errors
    to these by type / code / message prefix). -/
inductive E where
  | malformed        -- mysql.ErrMalformPacket
  | unknownStmt      -- ErrUnknownStmtHandler
  | unsupportedFlag  -- "unsupported flag %d"
  | badLenenc        -- "ReadLenEncStringAsBytes in bindStmtArgs failed"
  | unknownType      -- "Stmt Unknown FieldType %d"
  | badTemporal      -- "invalid date/datetime/time packet length %d"
  | wrongArguments   -- ErrWrongArguments (stmt_send_longdata)
  | longDataType     -- "invalid param long data type %T"
  | unterminated     -- CalcParams: "fatal situation"
  | badFloat         -- "Stmt invalid float parameter value %v"
  deriving Repr, BEq, DecidableEq

def E.name : E → String
  | .malformed => "malformed"
  | .unknownStmt => "unknown-stmt"
  | .unsupportedFlag => "unsupported-flag"
  | .badLenenc => "bad-lenenc"
  | .unknownType => "unknown-type"
  | .badTemporal => "bad-temporal"
  | .wrongArguments => "wrong-arguments"
  | .longDataType => "long-data-type"
  | .unterminated => "unterminated"
  | .badFloat => "bad-float"

/-- Outcome of a modelled function that can return an error or panic. -/
inductive O (α : Type) where
  | ok (a : α)
  | err (e : E)
  | panic
  deriving Repr, BEq, DecidableEq

namespace O
@[inline] def bind {α β : Type} (x : O α) (f : α → O β) : O β :=
  match x with
  | ok a => f a
  | err e => err e
  | panic => panic
instance : Monad O where
  pure := ok
  bind := bind
@[simp] theorem bind_ok {α β : Type} (a : α) (f : α → O β) : (ok a >>= f) = f a := rfl
@[simp] theorem bind_err {α β : Type} (e : E) (f : α → O β) : ((err e : O α) >>= f) = err e := rfl
@[simp] theorem bind_panic {α β : Type} (f : α → O β) : ((panic : O α) >>= f) = panic := rfl
@[simp] theorem pure_eq {α : Type} (a : α) : (pure a : O α) = ok a := rfl
end O

/-- A Go outcome whose `fail` means the error `e`. -/
def ofR {α : Type} (e : E) : R α → O α
  | .ok a => .ok a
  | .fail => .err e
  | .panic => .panic

/-- A bound argument: the dynamic value stored in `Stmt.args[i]`. -/
inductive Arg where
  | null                                   -- nil
  | int (v : Int)                          -- int8 … int64, uint8 … uint64
  | float (dbl : Bool) (bits : Nat)        -- float32 / float64, by their IEEE bits
  | bytes (b : Bytes)                      -- []byte
  deriving Repr, BEq, DecidableEq

/-- `fmt.Sprintf("%v", f)` for a float given by its bits (`Model/StmtGoFloat.lean`). -/
def fmtFloat (dbl : Bool) (bits : Nat) : Bytes := StmtGoFloat.fmtV dbl bits

def asciiBytes (s : String) : Bytes := s.toUTF8.toList

/-- Decimal digits with explicit fuel (any fuel ≥ `n` is enough). -/
def natDigitsF : Nat → Nat → Bytes
  | 0, n => [UInt8.ofNat (48 + n % 10)]
  | f + 1, n => if n < 10 then [UInt8.ofNat (48 + n)] else natDigitsF f (n / 10) ++ [UInt8.ofNat (48 + n % 10)]

/-- Decimal digits of a natural number, most significant first (`strconv`'s
    decimal formatting). -/
def natDigits (n : Nat) : Bytes := natDigitsF n n

/-- `fmt.Sprintf("%v", i)` for an integer. -/
def fmtInt (v : Int) : Bytes :=
  if v < 0 then 0x2d :: natDigits v.natAbs else natDigits v.natAbs

/-- `%0<w>d` for a non-negative integer. -/
def padNat (w : Nat) (n : Nat) : Bytes :=
  let d := natDigits n
  List.replicate (w - d.length) 0x30 ++ d

/-- `util.ItoString`: (quote?, text). -/
def itoString : Arg → Bool × Bytes
  | .null => (false, [0x4e, 0x55, 0x4c, 0x4c])   -- NULL
  | .bytes b => (true, b)
  | .int v => (false, fmtInt v)
  | .float d bits => (false, fmtFloat d bits)

/-- `escapeSQL(sql, noBackslashEscapes)`: a quote is doubled; a backslash is
    doubled unless the session's sql_mode contains NO_BACKSLASH_ESCAPES. -/
def escapeSQL (nbe : Bool) : Bytes → Bytes
  | [] => []
  | c :: rest =>
    if c = cSQuote then cSQuote :: c :: escapeSQL nbe rest
    else if c = cBackslash ∧ ¬ nbe then cBackslash :: c :: escapeSQL nbe rest
    else c :: escapeSQL nbe rest

/-- The text one argument is rendered to in `GetRewriteSQL`. -/
def renderArg (nbe : Bool) (a : Arg) : Bytes :=
  let r := itoString a
  if r.1 then cSQuote :: escapeSQL nbe r.2 ++ [cSQuote] else r.2

/-- Go's `l[i]` on a slice of arguments. -/
def argIdx (args : List Arg) (i : Nat) : O Arg :=
  match args[i]? with
  | some a => .ok a
  | none => .panic

/-- Go's `l[i] = v`. -/
def argSet (args : List Arg) (i : Nat) (v : Arg) : O (List Arg) :=
  if i < args.length then .ok (args.set i v) else .panic

/-- `Stmt.GetRewriteSQL`: the items written to the buffer, a `?` item replaced
    by the rendering of the next argument. -/
def rewriteLoop (nbe : Bool) (args : List Arg) : List Bytes → Nat → O Bytes
  | [], _ => .ok []
  | item :: items, index =>
    if item = [cQMark] then do
      let a ← argIdx args index
      let rest ← rewriteLoop nbe args items (index + 1)
      .ok (renderArg nbe a ++ rest)
    else do
      let rest ← rewriteLoop nbe args items index
      .ok (item ++ rest)

def getRewriteSQL (nbe : Bool) (sqlItems : List Bytes) (args : List Arg) : O Bytes :=
  rewriteLoop nbe args sqlItems 0

/-! ### temporal values -/

def cDashB : UInt8 := 0x2d
def cColon : UInt8 := 0x3a
def cSpace : UInt8 := 0x20
def cDot : UInt8 := 0x2e

/-- `%04d-%02d-%02d` of `binary.LittleEndian.Uint16(data[:2]), data[2], data[3]`. -/
def fmtYMD (data : Bytes) : R Bytes := do
  let y ← goSlice data 0 2
  let m ← goIdx data 2
  let d ← goIdx data 3
  .ok (padNat 4 (leNat y) ++ [cDashB] ++ padNat 2 m.toNat ++ [cDashB] ++ padNat 2 d.toNat)

/-- `FormatBinaryDate(n, data)` -/
def formatBinaryDate (n : Nat) (data : Bytes) : O Bytes :=
  if n = 0 then .ok (asciiBytes "0000-00-00")
  else if n = 4 ∨ n = 7 then ofR .badTemporal (fmtYMD data)
  else if n = 10 then .ok data
  else .err .badTemporal

/-- `%02d:%02d:%02d` of data[i], data[i+1], data[i+2] -/
def fmtHMS (data : Bytes) (i : Int) : R Bytes := do
  let h ← goIdx data i
  let m ← goIdx data (i + 1)
  let s ← goIdx data (i + 2)
  .ok (padNat 2 h.toNat ++ [cColon] ++ padNat 2 m.toNat ++ [cColon] ++ padNat 2 s.toNat)

/-- `FormatBinaryDateTime(n, data)` -/
def formatBinaryDateTime (n : Nat) (data : Bytes) : O Bytes :=
  if n = 0 then .ok (asciiBytes "0000-00-00 00:00:00")
  else if n = 4 then ofR .badTemporal do
    let ymd ← fmtYMD data
    .ok (ymd ++ asciiBytes " 00:00:00")
  else if n = 7 then ofR .badTemporal do
    let ymd ← fmtYMD data
    let hms ← fmtHMS data 4
    .ok (ymd ++ [cSpace] ++ hms)
  else if n = 11 then ofR .badTemporal do
    let ymd ← fmtYMD data
    let hms ← fmtHMS data 4
    let us ← goSlice data 7 11
    .ok (ymd ++ [cSpace] ++ hms ++ [cDot] ++ padNat 6 (leNat us))
  else if n = 19 ∨ n = 26 then .ok data
  else .err .badTemporal

/-- `FormatBinaryTime(n, data)` -/
def formatBinaryTime (n : Nat) (data : Bytes) : O Bytes :=
  if n = 0 then .ok (asciiBytes "00:00:00")
  else
    match goIdx data 0 with
    | .panic => .panic
    | .fail => .panic
    | .ok d0 =>
      if n = 1 ∧ d0 = 0 then .ok (asciiBytes "00:00:00")
      else
        let sign : Bytes := if d0 = 1 then [cDashB] else []
        if n = 8 ∨ n = 12 then ofR .badTemporal do
          let d1 ← goIdx data 1
          let d5 ← goIdx data 5
          let d6 ← goIdx data 6
          let d7 ← goIdx data 7
          -- uint16(data[1])*24 + uint16(data[5])
          let hours := (d1.toNat * 24 + d5.toNat) % 65536
          let base := sign ++ padNat 2 hours ++ [cColon] ++ padNat 2 d6.toNat ++ [cColon] ++ padNat 2 d7.toNat
          if n = 8 then .ok base
          else do
            let us ← goSlice data 8 12
            .ok (base ++ [cDot] ++ padNat 6 (leNat us))
        else .err .badTemporal

/-! ### bindStmtArgs -/

/-- Two's-complement reading of an `n`-byte little-endian value. -/
def signedLE (b : Bytes) : Int :=
  let u := leNat b
  if u < 2 ^ (8 * b.length - 1) then (u : Int) else (u : Int) - 2 ^ (8 * b.length)

/-- Fixed-width integer parameter of `w` bytes. -/
def bindInt (paramValues : Bytes) (pos : Int) (w : Nat) (isUnsigned : Bool) : O (Arg × Int) :=
  if (paramValues.length : Int) < pos + w then .err .malformed
  else ofR .malformed do
    let b ← goSlice paramValues pos (pos + w)
    .ok (if isUnsigned then .int (leNat b) else .int (signedLE b), pos + w)

/-- Date / time / datetime parameter: a length byte and that many bytes. -/
def bindTemporal (fmt : Nat → Bytes → O Bytes) (paramValues : Bytes) (pos : Int) : O (Arg × Int) :=
  if (paramValues.length : Int) < pos + 1 then .err .malformed
  else do
    let nb ← ofR .malformed (goIdx paramValues pos)
    let n := nb.toNat
    let pos := pos + 1
    if (paramValues.length : Int) < pos + n then .err .malformed
    else do
      let d ← ofR .malformed (goSlice paramValues pos (pos + n))
      let t ← fmt n d
      .ok (.bytes t, pos + n)

/-- The bits of `float64(f)` for the finite float32 `f` with these bits
    (`none` for NaN and ±Inf). -/
def f32to64 (bits : Nat) : Option Nat :=
  let sign := bits / 2 ^ 31 % 2
  let e := bits / 2 ^ 23 % 256
  let m := bits % 2 ^ 23
  if e = 255 then none
  else if e = 0 then
    if m = 0 then some (sign * 2 ^ 63)
    else
      -- subnormal float32: m × 2^-149, normal as a float64
      let k := Nat.log2 m                       -- m = 2^k + r, k ≤ 22
      let frac := (m - 2 ^ k) * 2 ^ (52 - k)
      some (sign * 2 ^ 63 + (k + 1023 - 149) * 2 ^ 52 + frac)
  else some (sign * 2 ^ 63 + (e + 1023 - 127) * 2 ^ 52 + m * 2 ^ 29)

def isStringType (tp : UInt8) : Bool :=
  tp == 0 || tp == 0xf6 || tp == 15 || tp == 16 || tp == 0xf7 || tp == 0xf8 || tp == 0xf9 ||
  tp == 0xfa || tp == 0xfb || tp == 0xfc || tp == 0xfd || tp == 0xfe || tp == 0xff || tp == 0xf5

/-- The `switch tp` of `bindStmtArgs` for one parameter that is neither NULL in
    the bitmap nor already bound: the decoded argument and the new position. -/
def bindOne (tp : UInt8) (isUnsigned : Bool) (paramValues : Bytes) (pos : Int) : O (Arg × Int) :=
  if tp = 6 then .ok (.null, pos)                                   -- TypeNull
  else if tp = 1 then bindInt paramValues pos 1 isUnsigned          -- TypeTiny
  else if tp = 2 ∨ tp = 13 then bindInt paramValues pos 2 isUnsigned -- TypeShort, TypeYear
  else if tp = 9 ∨ tp = 3 then bindInt paramValues pos 4 isUnsigned  -- TypeInt24, TypeLong
  else if tp = 8 then bindInt paramValues pos 8 isUnsigned           -- TypeLonglong
  else if tp = 4 then                                                -- TypeFloat
    if (paramValues.length : Int) < pos + 4 then .err .malformed
    else do
      let b ← ofR .malformed (goSlice paramValues pos (pos + 4))
      -- float64(math.Float32frombits(…)); NaN and ±Inf are rejected
      match f32to64 (leNat b) with
      | some bits => .ok (.float true bits, pos + 4)
      | none => .err .badFloat
  else if tp = 5 then                                                -- TypeDouble
    if (paramValues.length : Int) < pos + 8 then .err .malformed
    else do
      let b ← ofR .malformed (goSlice paramValues pos (pos + 8))
      if leNat b / 2 ^ 52 % 2048 = 2047 then .err .badFloat
      else .ok (.float true (leNat b), pos + 8)
  else if tp = 10 ∨ tp = 14 then bindTemporal formatBinaryDate paramValues pos      -- TypeDate, TypeNewDate
  else if tp = 11 then bindTemporal formatBinaryTime paramValues pos                -- TypeDuration
  else if tp = 7 ∨ tp = 12 then bindTemporal formatBinaryDateTime paramValues pos   -- TypeTimestamp, TypeDatetime
  else if isStringType tp then
    if (paramValues.length : Int) < pos + 1 then .err .malformed
    else do
      let (v, p, isNull) ← ofR .badLenenc (LenEnc.readLenEncStringAsBytes paramValues pos)
      .ok (if isNull then .null else .bytes v, p)
  else .err .unknownType

/-- The `for i := 0; i < s.paramCount; i++` loop of `bindStmtArgs`, `k`
    iterations remaining, working on the statement's own `args` slice. -/
def bindLoop (nullBitmap paramTypes paramValues : Bytes) : Nat → Nat → Int → List Arg → O (List Arg)
  | 0, _, _, args => .ok args
  | k + 1, i, pos, args => do
    let nb ← ofR .malformed (goIdx nullBitmap ((i / 8 : Nat) : Int))
    if nb.toNat / 2 ^ (i % 8) % 2 = 1 then do
      let args ← argSet args i .null
      bindLoop nullBitmap paramTypes paramValues k (i + 1) pos args
    else if 2 * i + 1 ≥ paramTypes.length then .err .malformed
    else do
      let tp ← ofR .malformed (goIdx paramTypes ((2 * i : Nat) : Int))
      let fl ← ofR .malformed (goIdx paramTypes ((2 * i + 1 : Nat) : Int))
      let isUnsigned := fl.toNat / 128 % 2 = 1
      let cur ← argIdx args i
      if cur ≠ .null then
        -- already holds a value (long data): not present in the packet
        bindLoop nullBitmap paramTypes paramValues k (i + 1) pos args
      else do
        let (v, pos) ← bindOne tp isUnsigned paramValues pos
        let args ← argSet args i v
        bindLoop nullBitmap paramTypes paramValues k (i + 1) pos args

/-- `bindStmtArgs(s, nullBitmap, paramTypes, paramValues)`: the arguments of the
    statement afterwards. -/
def bindStmtArgs (paramCount : Nat) (args : List Arg) (nullBitmap paramTypes paramValues : Bytes) : O (List Arg) :=
  bindLoop nullBitmap paramTypes paramValues paramCount 0 0 args

end GaeaVerif.StmtBind
