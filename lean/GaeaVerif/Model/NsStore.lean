import GaeaVerif.Model.Go
import GaeaVerif.Model.IPAllow
/-
  C33 — model of how a namespace configuration is stored and loaded.

  Gaea code (transliterated, same names):
    util/crypto/xaes_ecb.go   pkcs5Padding, pkcs5UnPadding, cryptBlocks, EncryptECB, DecryptECB
    models/namespace.go       encrypt, decrypt, Namespace.Encrypt, Namespace.Decrypt,
                              the part of Namespace.Verify that reads the credential fields
    models/store.go           Store.NamespacePath, UpdateNamespace, LoadNamespace
    models/local_client.go    safeJoinPath, FullNamespacePath, FullDirPath
  Trusted library code, parameters of the model:
    aes.NewCipher / cipher.Block   `newCipher : key → Option Block`
    encoding/base64                `Base64`
    encoding/json                  `Codec`
    path/filepath                  Clean / Join / Rel("/", ·) modelled on path components

  Strings are byte lists.  Core Lean only.
-/
namespace GaeaVerif.NsStore
open GaeaVerif

/-! ### util/crypto/xaes_ecb.go -/

/-- `pkcs5Padding(ciphertext, blockSize)`; `blockSize = 0` is Go's integer
    division by zero. -/
def pkcs5Padding (ciphertext : Bytes) (blockSize : Nat) : R Bytes :=
  if blockSize = 0 then .panic
  else
    let padding := blockSize - ciphertext.length % blockSize
    .ok (ciphertext ++ List.replicate padding (UInt8.ofNat padding))

/-- `pkcs5UnPadding(origData)` (`fail` = "invalid padding length"). -/
def pkcs5UnPadding (origData : Bytes) : R Bytes :=
  let length : Int := origData.length
  if length ≤ 0 then .ok origData
  else do
    let last ← goIdx origData (length - 1)
    let unpadding : Int := last.toNat
    if length < unpadding then .fail
    else goSlice origData 0 (length - unpadding)

/-- `cipher.Block`: block size and the two block functions. -/
structure Block where
  blockSize : Nat
  encrypt : Bytes → Bytes
  decrypt : Bytes → Bytes

/-- The loop of `cryptBlocks`: `for len(src) > 0 { f(dst, src[:bs]); src = src[bs:]; dst = dst[bs:] }`;
    the result is what was written to `dst`.  Fuel: `len(src)`. -/
def cryptLoop (f : Bytes → Bytes) (bs : Nat) : Nat → Bytes → R Bytes
  | 0, src => if src.length = 0 then .ok [] else .panic
  | fuel + 1, src =>
    if src.length = 0 then .ok []
    else do
      let blk ← goSlice src 0 bs
      let rest ← goSlice src bs src.length
      let out ← cryptLoop f bs fuel rest
      pure (f blk ++ out)

/-- `ecbEncrypter.cryptBlocks` / `ecbDecrypter.cryptBlocks` with block function `f`
    (`fail` = "not full blocks" or "output smaller than input"). -/
def cryptBlocks (f : Bytes → Bytes) (bs : Nat) (dstLen : Nat) (src : Bytes) : R Bytes :=
  if bs = 0 then .panic
  else if src.length % bs ≠ 0 then .fail
  else if dstLen < src.length then .fail
  else cryptLoop f bs src.length src

/-- `EncryptECB(key, data)` (`fail` = the error of `aes.NewCipher`). -/
def encryptECB (newCipher : Bytes → Option Block) (key data : Bytes) : R Bytes :=
  match newCipher key with
  | none => .fail
  | some block => do
    let dataPadding ← pkcs5Padding data block.blockSize
    cryptBlocks block.encrypt block.blockSize dataPadding.length dataPadding

/-- `DecryptECB(key, data)`. -/
def decryptECB (newCipher : Bytes → Option Block) (key data : Bytes) : R Bytes :=
  match newCipher key with
  | none => .fail
  | some block => do
    let d ← cryptBlocks block.decrypt block.blockSize data.length data
    pkcs5UnPadding d

/-! ### models/namespace.go -/

/-- `base64.StdEncoding`: `decodeString` is what `DecodeString` returns as
    bytes; `decrypt` discards its error. -/
structure Base64 where
  encodeToString : Bytes → Bytes
  decodeString : Bytes → Bytes

/-- `decrypt(key, data)`. -/
def decrypt (nc : Bytes → Option Block) (b64 : Base64) (key data : Bytes) : R Bytes :=
  decryptECB nc key (b64.decodeString data)

/-- `encrypt(key, data)`. -/
def encrypt (nc : Bytes → Option Block) (b64 : Base64) (key data : Bytes) : R Bytes := do
  let tmp ← encryptECB nc key data
  pure (b64.encodeToString tmp)

/-- The credential fields of a `models.User` or `models.Slice`. -/
structure Cred where
  userName : Bytes
  password : Bytes
  deriving Repr, BEq, DecidableEq

/-- `models.Namespace`: the fields the storage code reads, and the `rest`. -/
structure Namespace (ρ : Type) where
  isEncrypt : Bool
  name : Bytes
  users : List Cred
  slices : List Cred
  rest : ρ
  deriving DecidableEq

/-- `for i := range xs { xs[i].UserName, err = f(xs[i].UserName); …; xs[i].Password, err = f(…) }`. -/
def cryptCreds (f : Bytes → R Bytes) : List Cred → R (List Cred)
  | [] => .ok []
  | c :: cs => do
    let u ← f c.userName
    let p ← f c.password
    let cs' ← cryptCreds f cs
    pure ({ userName := u, password := p } :: cs')

/-- `Namespace.Encrypt(key)`. -/
def Namespace.encrypt {ρ : Type} (nc : Bytes → Option Block) (b64 : Base64) (key : Bytes) (n : Namespace ρ) :
    R (Namespace ρ) := do
  let users ← cryptCreds (NsStore.encrypt nc b64 key) n.users
  let slices ← cryptCreds (NsStore.encrypt nc b64 key) n.slices
  pure { n with isEncrypt := true, users := users, slices := slices }

/-- `Namespace.Decrypt(key)`. -/
def Namespace.decrypt {ρ : Type} (nc : Bytes → Option Block) (b64 : Base64) (key : Bytes) (n : Namespace ρ) :
    R (Namespace ρ) :=
  if !n.isEncrypt then .ok n
  else do
    let users ← cryptCreds (NsStore.decrypt nc b64 key) n.users
    let slices ← cryptCreds (NsStore.decrypt nc b64 key) n.slices
    pure { n with users := users, slices := slices }

def trimCred (u : Cred) : Cred :=
  { userName := IPAllow.trimSpace u.userName, password := IPAllow.trimSpace u.password }

/-- `verifyUsers` / `User.verify` on the credential fields: names and passwords
    must not be empty, both are trimmed, a trimmed name must not repeat. -/
def verifyUsersFrom (prev : List Cred) : List Cred → Option (List Cred)
  | [] => some []
  | u :: rest =>
    if u.userName = [] then none
    else if u.password = [] then none
    else if prev.any (fun p => p.userName == (trimCred u).userName) then none
    else (verifyUsersFrom (prev ++ [trimCred u]) rest).map (trimCred u :: ·)

def verifyUsers (us : List Cred) : Option (List Cred) :=
  if us.isEmpty then none else verifyUsersFrom [] us

/-- `verifySlices` / `Slice.verify` on the credential fields. -/
def verifySlices (ss : List Cred) : Bool :=
  !ss.isEmpty && ss.all (fun s => s.userName ≠ [])

/-- `Namespace.Verify()`; `verifyRest name rest` stands for every check and
    normalisation that does not read a credential field (`fail` = an error). -/
def Namespace.verify {ρ : Type} (verifyRest : Bytes → ρ → Option ρ) (n : Namespace ρ) : R (Namespace ρ) :=
  if n.name = [] then .fail
  else match verifyUsers n.users with
    | none => .fail
    | some us =>
      if !verifySlices n.slices then .fail
      else match verifyRest n.name n.rest with
        | none => .fail
        | some r => .ok { n with users := us, rest := r }

/-! ### path/filepath on components -/

def slash : UInt8 := 0x2f
def dot : Bytes := [0x2e]
def dotdot : Bytes := [0x2e, 0x2e]

/-- `strings.Split(p, "/")`. -/
def splitSlash (p : Bytes) : List Bytes := IPAllow.splitOn slash p

/-- `strings.Join(cs, "/")`. -/
def joinSlash : List Bytes → Bytes
  | [] => []
  | [c] => c
  | c :: cs => c ++ slash :: joinSlash cs

/-- One component in `filepath.Clean`: state = number of leading `..` kept and
    the stack of real components (innermost first). -/
def cleanStep (rooted : Bool) (st : Nat × List Bytes) (c : Bytes) : Nat × List Bytes :=
  if c = [] ∨ c = dot then st
  else if c = dotdot then
    match st.2 with
    | _ :: tl => (st.1, tl)
    | [] => if rooted then st else (st.1 + 1, [])
  else (st.1, c :: st.2)

/-- Text of a cleaned path. -/
def render (rooted : Bool) (ups : Nat) (comps : List Bytes) : Bytes :=
  if rooted then slash :: joinSlash comps
  else if ups = 0 ∧ comps = [] then dot
  else joinSlash (List.replicate ups dotdot ++ comps)

/-- `filepath.Clean` (Unix). -/
def filepathClean (p : Bytes) : Bytes :=
  if p = [] then dot
  else
    let rooted := p.head? == some slash
    let st := (splitSlash p).foldl (cleanStep rooted) (0, [])
    render rooted st.1 st.2.reverse

/-- `filepath.Join`. -/
def filepathJoin (elem : List Bytes) : Bytes :=
  match elem.dropWhile (· == []) with
  | [] => []
  | es => filepathClean (joinSlash es)

/-- `filepath.Rel("/", p)` for an absolute `p` (it cannot fail). -/
def relRoot (p : Bytes) : Bytes :=
  let t := filepathClean p
  if t = [slash] then dot else t.drop 1

/-! ### models/store.go -/

/-- `encoding/json` on a namespace; `ω` is what travels to the coordinator
    (the JSON text). -/
structure Codec (ρ : Type) (ω : Type) where
  encode : Namespace ρ → ω
  decode : ω → Option (Namespace ρ)

/-- What a coordinator client holds: path ↦ data, newest first. -/
abbrev Client (ω : Type) := List (Bytes × ω)

def Client.read {ω : Type} (c : Client ω) (path : Bytes) : Option ω :=
  (c.find? (fun kv => kv.1 == path)).map (·.2)

def namespaceDir : Bytes := [0x6e, 0x61, 0x6d, 0x65, 0x73, 0x70, 0x61, 0x63, 0x65]  -- "namespace"

/-- `Store.NamespacePath(name)`. -/
def namespacePath (pfx name : Bytes) : Bytes := filepathJoin [pfx, namespaceDir, name]

/-- `Store.UpdateNamespace(p)` on a client whose `Update` succeeds. -/
def updateNamespace {ρ ω : Type} (codec : Codec ρ ω) (c : Client ω) (pfx : Bytes) (p : Namespace ρ) : Client ω :=
  (namespacePath pfx p.name, codec.encode p) :: c

/-- `Store.LoadNamespace(key, name)` (`fail` = any of its errors). -/
def loadNamespace {ρ ω : Type} (codec : Codec ρ ω) (verifyRest : Bytes → ρ → Option ρ)
    (nc : Bytes → Option Block) (b64 : Base64) (c : Client ω) (pfx key name : Bytes) : R (Namespace ρ) :=
  match c.read (namespacePath pfx name) with
  | none => .fail
  | some b =>
    match codec.decode b with
    | none => .fail
    | some p => do
      let p ← p.verify verifyRest
      p.decrypt nc b64 key

/-! ### models/local_client.go -/

inductive PathErr where
  | empty | traversal | chars | tooLong | noFile
  deriving Repr, BEq, DecidableEq

inductive PathR where
  | ok (p : Bytes)
  | err (e : PathErr)
  deriving Repr, BEq, DecidableEq

/-- `strings.Contains(s, pat)`. -/
def containsSub (pat : Bytes) : Bytes → Bool
  | [] => pat.isEmpty
  | c :: cs => pat.isPrefixOf (c :: cs) || containsSub pat cs

/-- The characters of `strings.ContainsAny(cleanPath, "<>\"|?*")`. -/
def forbiddenChars : Bytes := [0x3c, 0x3e, 0x22, 0x7c, 0x3f, 0x2a]

/-- The length limit of `safeJoinPath`. -/
def maxPathLen : Nat := 1024

/-- `LocalClient.safeJoinPath`. -/
def safeJoinPath (path : Bytes) : PathR :=
  if path = [] then .err .empty
  else
    let path := if path.head? == some slash then relRoot path else path
    let cleanPath := filepathClean path
    if cleanPath = dotdot ∨ (dotdot ++ [slash]).isPrefixOf cleanPath
        ∨ containsSub (slash :: dotdot ++ [slash]) cleanPath then .err .traversal
    else if cleanPath.any (fun c => forbiddenChars.contains c) then .err .chars
    else if cleanPath.length > maxPathLen then .err .tooLong
    else .ok cleanPath

/-- `LocalClient.FullNamespacePath` (after fix 539bc23: a path that cleans to `.` is refused). -/
def fullNamespacePath (storagePath fileSuffix path : Bytes) : PathR :=
  match safeJoinPath path with
  | .err e => .err e
  | .ok relPath =>
    if relPath = dot then .err .noFile
    else .ok (filepathJoin [storagePath, relPath] ++ fileSuffix)

/-- `LocalClient.FullDirPath`. -/
def fullDirPath (storagePath path : Bytes) : PathR :=
  match safeJoinPath path with
  | .err e => .err e
  | .ok relPath => .ok (filepathJoin [storagePath, relPath])

end GaeaVerif.NsStore
