import GaeaVerif.Model.InsertPlan
import GaeaVerif.Model.ShardPlace
/-
  C03, "where lookups will find it": the value a backend column holds for a
  sharding literal, and the two kingshard placement functions the models of
  C08/C09 (Model/ShardPlace.lean) do not contain.

  util/types.go          GetValueExprResult              (`keyOf`)
  proxy/router/shard.go  HashValue, HashShard.FindForKey, ModShard.FindForKey
  util/hack/hack.go      Abs
  hash/crc32             ChecksumIEEE                    (bitwise, reflected 0xEDB88320)

  Specification side (MySQL, not code of the repository):
  * `mysqlInt s`: the integer MySQL stores in an integer column for the string
    `s` when `s` has the syntax of an integer (white space, an optional sign,
    digits, white space); strict mode takes such a string without a warning.
    Strings of another syntax are not modelled (fractions and exponents are
    rounded; anything else is refused in strict mode).
  * `storedKeys rt val`: the sharding literal `val` written as a literal of the
    other type: for the integer n the string of its decimal digits (what a
    string column holds for it), for a string MySQL reads as the integer n the
    number n (what an integer column holds for it).  A later point query on the
    stored value is written with one of these.  Calendar rules take the type of
    the literal as the type of the column (a date string or a unix time): no
    other spelling is considered for them.
  Core Lean only.
-/
namespace GaeaVerif.InsertStored
open GaeaVerif GaeaVerif.ShardGo GaeaVerif.ShardPlace GaeaVerif.Insert

/-- `util.GetValueExprResult` on a literal the planner places: the key handed
    to `FindTableIndex` -/
def keyOf : LitVal → Key
  | .int v => .int64 v
  | .uint v => .uint64 v
  | .str s => .str s
  | .other => .other

/-- what the parser can deliver: `KindInt64` literals are not negative (a sign
    is a unary operator), `KindUint64` literals are below 2^64 -/
def LitVal.wf : LitVal → Prop
  | .int v => 0 ≤ v ∧ v < 2 ^ 63
  | .uint v => v < 2 ^ 64
  | _ => True

/-- MySQL: the integer read from a string that has the syntax of an integer -/
def mysqlInt (s : GoStr) : Option Int := parseBigDec (trimSpace s)

/-- the integer `n` as the parser delivers it when it is written as a literal -/
def intKey (n : Int) : Option Key :=
  if -2 ^ 63 ≤ n ∧ n < 2 ^ 63 then some (.int64 n)
  else if 2 ^ 63 ≤ n ∧ n < 2 ^ 64 then some (.uint64 n.toNat)
  else none

def isDateRule (rt : String) : Bool := rt == "date_year" || rt == "date_month" || rt == "date_day"

/-- the value of the literal as a column of the other type holds it -/
def storedKeys (rt : String) (val : LitVal) : List Key :=
  if isDateRule rt then []
  else
    match val with
    | .int v => [.str (fmtInt v)]
    | .uint v => [.str (fmtNat v)]
    | .str s =>
      match mysqlInt s with
      | some n => (intKey n).toList
      | none => []
    | .other => []

/-! ### crc32.ChecksumIEEE -/

def crcStep (c : Nat) : Nat := if c % 2 = 1 then (c / 2) ^^^ 0xEDB88320 else c / 2

def crcByte (c b : Nat) : Nat := crcStep (crcStep (crcStep (crcStep (crcStep (crcStep (crcStep (crcStep (c ^^^ b))))))))

/-- `crc32.ChecksumIEEE` of the bytes -/
def crc32 (s : GoStr) : Nat := (s.foldl crcByte 0xFFFFFFFF) ^^^ 0xFFFFFFFF

/-! ### the kingshard `hash` and `mod` rules -/

/-- `HashValue` (shard.go): `uint64(val)` of an integer, the number of a
    string of digits, the CRC32 of any other string -/
def HashValue : Key → Out Nat
  | .int v => .ok (v % 2 ^ 64).toNat
  | .int64 v => .ok (v % 2 ^ 64).toNat
  | .uint64 v => .ok v
  | .str s =>
    match parseUint64 s with
    | some v => .ok v
    | none => .ok (crc32 s)
  | .bytes s => .ok (crc32 s)
  | .other => .err .keyPanic

/-- `HashShard.FindForKey`: `int(h % uint64(s.ShardNum))` -/
def HashShard.FindForKey (shardNum : Nat) (key : Key) : Out Int :=
  match HashValue key with
  | .ok h => if shardNum = 0 then .panic else .ok ((h % shardNum : Nat) : Int)
  | .err k => .err k
  | .panic => .panic

/-- `hack.Abs` on an int64 -/
def hackAbs (n : Int) : Int := wrap64 (if n < 0 then -n else n)

/-- `ModShard.FindForKey`: `hack.Abs(NumValue(key) % int64(m.ShardNum))`
    (Go's `%` truncates towards zero) -/
def ModShard.FindForKey (shardNum : Nat) (key : Key) : Out Int :=
  match NumValue key with
  | .ok v => if shardNum = 0 then .panic else .ok (hackAbs (Int.tmod v shardNum))
  | .err k => .err k
  | .panic => .panic

end GaeaVerif.InsertStored
