import GaeaVerif.Model.Go
/-
  Model of /repo/util/time_wheel.go (C37), the idle-session timer of the proxy
  (proxy/server: `tw.Add(sessionTimeout, cc, cc.Close)` on connect and after
  every packet read, `tw.Remove(cc)` when the session ends).

  * `newTimeWheel`, `calculateRound`, `calculateIndex`, `add`, `remove`,
    `handleTick`            — the functions of the same names
  * `apiAdd`, `apiRemove`   — the exported `Add` / `Remove` (parameter check,
                              non-blocking / blocking send on `pipelineC`)
  * `drain`, `loopBody`     — one iteration of `start()` after its sleep: the
                              pipeline is drained (at most `drainLimit` items),
                              then `handleTick` runs

  `time.Duration` values are `Int` nanoseconds; `int(d.Seconds())` is the
  truncated quotient by 10^9 (exact below 2^22 s, see the assumptions); Go's
  `/` and `%` on `int` are truncated division with an explicit `panic` for a
  zero divisor; `tw.buckets[i]` panics outside `[0, bucketsNum)`.  The buckets
  (`[]map[interface{}]*Task`) are one association list of (bucket index, task)
  pairs, `bucketIndexes` an association list.  Go's random map iteration order
  in `handleTick` is the list order here; callers compare fired registrations
  as sets per tick.  Callbacks are identified by a registration number `reg`.
  Core Lean only.
-/
namespace GaeaVerif.TimeWheel
open GaeaVerif

/-- `Task` (the callback is represented by the registration number). -/
structure Task where
  delay : Int
  key : Nat
  round : Int
  reg : Nat
  deriving Repr, DecidableEq

/-- `PipeLineItem` with key "add" / "del" (`Stop` is not modelled). -/
inductive Item where
  | add (t : Task)
  | del (key : Nat)
  deriving Repr, DecidableEq

structure TimeWheel where
  tick : Int
  bucketsNum : Int
  /-- `buckets[i][task.key] = task` for every pair `(i, task)`. -/
  buckets : List (Int × Task)
  bucketIndexes : List (Nat × Int)
  currentIndex : Int
  /-- buffered channel: oldest item first -/
  pipelineC : List Item
  /-- `cap(pipelineC)` -/
  pipelineCap : Nat
  deriving Repr, DecidableEq

/-- Go `a / b` on `int`. -/
def goDiv (a b : Int) : R Int := if b = 0 then .panic else .ok (a.tdiv b)
/-- Go `a % b` on `int`. -/
def goMod (a b : Int) : R Int := if b = 0 then .panic else .ok (a.tmod b)

/-- `int(d.Seconds())`. -/
def seconds (d : Int) : Int := d.tdiv 1000000000

/-- `NewTimeWheel` (`none` = an error is returned); the channel capacity is a
    parameter here, the source constant is supplied by the callers. -/
def newTimeWheel (cap : Nat) (tick : Int) (bucketsNum : Int) : Option TimeWheel :=
  if bucketsNum ≤ 0 then none
  else if seconds tick < 1 then none
  else some { tick := tick, bucketsNum := bucketsNum, buckets := [], bucketIndexes := [],
              currentIndex := 0, pipelineC := [], pipelineCap := cap }

/-! Go maps as association lists. -/

def mapLookup (m : List (Nat × Int)) (k : Nat) : Option Int :=
  match m with
  | [] => none
  | (k', v) :: rest => if k' = k then some v else mapLookup rest k

def mapDelete (m : List (Nat × Int)) (k : Nat) : List (Nat × Int) := m.filter (fun e => e.1 ≠ k)

def mapSet (m : List (Nat × Int)) (k : Nat) (v : Int) : List (Nat × Int) := (k, v) :: mapDelete m k

/-- `delete(tw.buckets[i], key)`. -/
def bucketDelete (bs : List (Int × Task)) (i : Int) (key : Nat) : List (Int × Task) :=
  bs.filter (fun e => ¬ (e.1 = i ∧ e.2.key = key))

/-- `tw.buckets[i][task.key] = task`. -/
def bucketSet (bs : List (Int × Task)) (i : Int) (task : Task) : List (Int × Task) :=
  (i, task) :: bucketDelete bs i task.key

/-- Is `tw.buckets[i]` a valid index expression? -/
def validIndex (tw : TimeWheel) (i : Int) : Bool := decide (0 ≤ i ∧ i < tw.bucketsNum)

/-- `calculateRound`. -/
def calculateRound (tw : TimeWheel) (delay : Int) : R Int := do
  let delaySeconds := seconds delay
  let tickSeconds := seconds tw.tick
  let q ← goDiv delaySeconds tickSeconds
  goDiv q tw.bucketsNum

/-- `calculateIndex`. -/
def calculateIndex (tw : TimeWheel) (delay : Int) : R Int := do
  let delaySeconds := seconds delay
  let tickSeconds := seconds tw.tick
  let q ← goDiv delaySeconds tickSeconds
  goMod (tw.currentIndex + q) tw.bucketsNum

/-- `if originIndex, ok := tw.bucketIndexes[key]; ok { delete(tw.buckets[originIndex], key) }`
    in `add`: the buckets afterwards. -/
def deleteOrigin (tw : TimeWheel) (key : Nat) : R (List (Int × Task)) :=
  match mapLookup tw.bucketIndexes key with
  | some originIndex =>
    if validIndex tw originIndex then R.ok (bucketDelete tw.buckets originIndex key) else R.panic
  | none => R.ok tw.buckets

/-- `add`. -/
def add (tw : TimeWheel) (task : Task) : R TimeWheel := do
  let round ← calculateRound tw task.delay
  let index ← calculateIndex tw task.delay
  let task := { task with round := round }
  let buckets1 ← deleteOrigin tw task.key
  if validIndex tw index then
    R.ok { tw with bucketIndexes := mapSet tw.bucketIndexes task.key index,
                   buckets := bucketSet buckets1 index task }
  else R.panic

/-- `remove`. -/
def remove (tw : TimeWheel) (key : Nat) : R TimeWheel :=
  match mapLookup tw.bucketIndexes key with
  | some index =>
    if validIndex tw index then
      R.ok { tw with bucketIndexes := mapDelete tw.bucketIndexes key,
                     buckets := bucketDelete tw.buckets index key }
    else R.panic
  | none => R.ok tw

/-- `handleTick`: the new wheel and the registrations whose callbacks are
    started (`go bucket[k].callback()`). -/
def handleTick (tw : TimeWheel) : R (TimeWheel × List Nat) :=
  if validIndex tw tw.currentIndex then
    let cur := tw.currentIndex
    let fired := tw.buckets.filter (fun e => e.1 = cur ∧ ¬ e.2.round > 0)
    let buckets' := tw.buckets.filterMap (fun e =>
      if e.1 = cur then
        (if e.2.round > 0 then some (e.1, { e.2 with round := e.2.round - 1 }) else none)
      else some e)
    let idx' := tw.bucketIndexes.filter (fun e => ¬ fired.any (fun f => f.2.key = e.1))
    let next := if cur = tw.bucketsNum - 1 then 0 else cur + 1
    R.ok ({ tw with buckets := buckets', bucketIndexes := idx', currentIndex := next },
          fired.map (fun e => e.2.reg))
  else R.panic

/-- Outcome of the exported calls. -/
inductive ApiOut where
  | ok          -- `nil` is returned (also when the item was dropped)
  | invalid     -- `errors.New("invalid params")`
  | blocked     -- the send would block (channel full): the caller is stuck
  deriving Repr, DecidableEq

/-- `Add`: parameter check, then a non-blocking send — when the channel is
    full the registration is silently dropped. -/
def apiAdd (tw : TimeWheel) (delay : Int) (key reg : Nat) : TimeWheel × ApiOut :=
  if delay ≤ 0 then (tw, .invalid)
  else if tw.pipelineC.length < tw.pipelineCap then
    ({ tw with pipelineC := tw.pipelineC ++ [.add { delay := delay, key := key, round := 0, reg := reg }] }, .ok)
  else (tw, .ok)

/-- `Remove`: a blocking send. -/
def apiRemove (tw : TimeWheel) (key : Nat) : TimeWheel × ApiOut :=
  if tw.pipelineC.length < tw.pipelineCap then
    ({ tw with pipelineC := tw.pipelineC ++ [.del key] }, .ok)
  else (tw, .blocked)

/-- `switch item.key { case "add": tw.add(…); case "del": tw.remove(…) }`. -/
def applyItem (tw : TimeWheel) : Item → R TimeWheel
  | .add t => add tw t
  | .del k => remove tw k

/-- The drain loop of `start()` on the queued items: they are received and
    applied in order while fewer than `limit` have been handled; returns the
    wheel and the items left in the channel. -/
def drainItems (limit : Nat) (tw : TimeWheel) : List Item → Nat → R (TimeWheel × List Item)
  | [], _ => R.ok (tw, [])
  | item :: rest, count =>
    if count < limit then
      match applyItem tw item with
      | .ok tw' => drainItems limit tw' rest (count + 1)
      | .fail => .fail
      | .panic => .panic
    else R.ok (tw, item :: rest)

def drain (limit : Nat) (tw : TimeWheel) : R TimeWheel :=
  match drainItems limit tw tw.pipelineC 0 with
  | .ok (tw', rest) => .ok { tw' with pipelineC := rest }
  | .fail => .fail
  | .panic => .panic

/-- One iteration of the loop of `start()` after `time.Sleep(tw.tick)`. -/
def loopBody (limit : Nat) (tw : TimeWheel) : R (TimeWheel × List Nat) :=
  match drain limit tw with
  | .ok tw' => handleTick tw'
  | .fail => .fail
  | .panic => .panic

/-! ### histories -/

/-- What the sessions and the ticker do, in the order in which it happens. -/
inductive Op where
  | add (delay : Int) (key reg : Nat)   -- `tw.Add(delay, key, callback)`
  | remove (key : Nat)                  -- `tw.Remove(key)`
  | tick                                -- the ticker goroutine wakes up
  deriving Repr, DecidableEq

inductive Out where
  | api (o : ApiOut)
  | fired (regs : List Nat)
  deriving Repr, DecidableEq

def step (limit : Nat) (tw : TimeWheel) : Op → R (TimeWheel × Out)
  | .add delay key reg => let (tw', o) := apiAdd tw delay key reg; .ok (tw', .api o)
  | .remove key => let (tw', o) := apiRemove tw key; .ok (tw', .api o)
  | .tick =>
    match loopBody limit tw with
    | .ok (tw', regs) => .ok (tw', .fired regs)
    | .fail => .fail
    | .panic => .panic

def run (limit : Nat) (tw : TimeWheel) : List Op → R (TimeWheel × List Out)
  | [] => .ok (tw, [])
  | op :: ops =>
    match step limit tw op with
    | .ok (tw1, o) =>
      (match run limit tw1 ops with
       | .ok (tw2, os) => .ok (tw2, o :: os)
       | .fail => .fail
       | .panic => .panic)
    | .fail => .fail
    | .panic => .panic

end GaeaVerif.TimeWheel
