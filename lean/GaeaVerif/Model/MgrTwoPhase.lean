import GaeaVerif.Model.MgrReload
/-
  Model of the control plane's two-phase namespace change
  (/repo/cc/service/service.go: `ModifyNamespace`, `rollbackNamespace`,
  `DelNamespace`; /repo/cc/proxy/proxy.go: `PrepareConfig`, `CommitConfig`,
  `DelNamespace`; /repo/proxy/server/admin.go + server.go: `prepareConfig`,
  `commitConfig`, `deleteNamespace`, `Server.ReloadNamespacePrepare`) against
  `k` proxies, each running the reload manager of `Model/MgrReload.lean`.

  The coordinator store is a table name ↦ version.  Every request to a proxy
  has a scripted fate (`Fault`): delivered and answered, not delivered (cc
  sees an error), or delivered with the answer lost (cc sees an error — this
  is what a timeout is to cc).  Within one phase cc talks to the proxies
  concurrently, but the proxies share nothing except the store, which is not
  written during a phase, so a phase is modelled proxy by proxy.  Core Lean only.
-/
namespace GaeaVerif.MgrTwoPhase
open GaeaVerif.MgrReload

/-- `PREPARE_RETRY_TIMES`, `COMMIT_RETRY_TIMES` of cc/service/service.go
    (tied to the source by `Gen.ccPrepareRetryTimes` / `Gen.ccCommitRetryTimes`
    in Props/C32.lean). -/
def prepareRetryTimes : Nat := 3
def commitRetryTimes : Nat := 1

/-- Fate of one request to a proxy. -/
inductive Fault where
  | ok     -- performed, answer received
  | fail   -- not performed, cc gets an error (refused, connection dropped before the handler ran)
  | lost   -- performed, cc gets an error (answer lost / timeout)
  deriving Repr, DecidableEq

/-- Kind of configuration handed to `ModifyNamespace`. -/
inductive Kind where
  | good
  | invalid       -- rejected by `Namespace.Verify` in cc
  | unbuildable   -- accepted by `Verify`, rejected by the proxies' `NewNamespace`
  deriving Repr, DecidableEq

/-- Scripted fates for one proxy during one `ModifyNamespace`: the prepare
    attempts in order, and the commit. Missing entries mean `ok`. -/
structure PF where
  p : List Fault
  c : Fault
  deriving Repr

def PF.none : PF := { p := [], c := .ok }

structure World where
  store : Table
  proxies : List Manager

/-- Result reported by the control plane. -/
inductive Res where
  | ok
  | errVerify
  | errPrepare    -- "prepareConfig error …, rollback success"
  | errCommit     -- "commitConfig error …, rollback success"
  | errDelete
  deriving Repr, DecidableEq

/-- One admin request on a proxy under a fate: the new manager and whether cc
    sees an error. -/
def rpc (f : Fault) (m : Manager) (op : Manager → Manager × Out) : Manager × Bool :=
  match f with
  | .fail => (m, true)
  | .ok => let r := op m; (r.1, r.2 != .ok)
  | .lost => let r := op m; (r.1, true)

/-- `AdminServer.prepareConfig` → `Server.ReloadNamespacePrepare`: load the
    namespace from the store, then `Manager.ReloadNamespacePrepare`. -/
def proxyPrepare (store : Table) (n : Name) (buildable : Bool) (m : Manager) : Manager × Out :=
  match store n with
  | none => (m, .errBuild)           -- store.LoadNamespace error: nothing touched
  | some v => ReloadNamespacePrepare m n v buildable

/-- The prepare loop of `ModifyNamespace` for one proxy: up to `fuel` attempts,
    stop at the first success; the error of the last attempt is kept. -/
def prepareRetry (store : Table) (n : Name) (buildable : Bool) : Nat → List Fault → Manager → Manager × Bool
  | 0, _, m => (m, false)            -- `var err error` stays nil when the loop body never runs
  | fuel + 1, fs, m =>
    let r := rpc (fs.headD .ok) m (proxyPrepare store n buildable)
    if !r.2 then (r.1, false)
    else if fuel = 0 then (r.1, true)
    else prepareRetry store n buildable fuel fs.tail r.1

/-- Prepare phase over all proxies. -/
def prepareAll (store : Table) (n : Name) (buildable : Bool) : List Manager → List PF → List (Manager × Bool)
  | [], _ => []
  | m :: ms, fs =>
    prepareRetry store n buildable prepareRetryTimes (fs.headD PF.none).p m :: prepareAll store n buildable ms fs.tail

/-- The commit loop for one proxy (`COMMIT_RETRY_TIMES` = 1 attempt). -/
def commitRetry (n : Name) : Nat → Fault → Manager → Manager × Bool
  | 0, _, m => (m, false)
  | fuel + 1, f, m =>
    let r := rpc f m (fun m => ReloadNamespaceCommit m n)
    if !r.2 then (r.1, false)
    else if fuel = 0 then (r.1, true)
    else commitRetry n fuel .ok r.1

/-- Commit phase over all proxies. -/
def commitAll (n : Name) : List Manager → List PF → List (Manager × Bool)
  | [], _ => []
  | m :: ms, fs => commitRetry n commitRetryTimes (fs.headD PF.none).c m :: commitAll n ms fs.tail

/-- `rollbackNamespace`: store only. -/
def rollbackNamespace (store : Table) (n : Name) (exist : Option Ver) : Table :=
  match exist with
  | none => store.erase n
  | some e => store.set n e

/-- `ModifyNamespace`. -/
def ModifyNamespace (w : World) (n : Name) (v : Ver) (kind : Kind) (fs : List PF) : World × Res :=
  if kind = .invalid then (w, .errVerify) else
  let existNamespace := w.store n
  let store1 := w.store.set n v                         -- storeConn.UpdateNamespace
  let prep := prepareAll store1 n (kind != .unbuildable) w.proxies fs
  let proxies1 := prep.map (·.1)
  if prep.any (·.2) then
    ({ store := rollbackNamespace store1 n existNamespace, proxies := proxies1 }, .errPrepare)
  else
    let com := commitAll n proxies1 fs
    let proxies2 := com.map (·.1)
    if com.any (·.2) then
      ({ store := rollbackNamespace store1 n existNamespace, proxies := proxies2 }, .errCommit)
    else
      ({ store := store1, proxies := proxies2 }, .ok)

/-- The proxy loop of `DelNamespace`: sequential, returns at the first error. -/
def delLoop (n : Name) : List Manager → List Fault → List Manager × Bool
  | [], _ => ([], false)
  | m :: ms, fs =>
    let r := rpc (fs.headD .ok) m (fun m => DeleteNamespace m n)
    if r.2 then (r.1 :: ms, true)
    else
      let rest := delLoop n ms fs.tail
      (r.1 :: rest.1, rest.2)

/-- `DelNamespace` (as repaired by the `fix:` commit "restore the stored
    namespace when DelNamespace fails on a proxy"): remember the stored
    configuration, delete it from the store, then from the proxies one by one;
    at the first error put the stored configuration back and return. -/
def DelNamespace (w : World) (n : Name) (fs : List Fault) : World × Res :=
  let existNamespace := w.store n
  let store1 := w.store.erase n
  let r := delLoop n w.proxies fs
  if r.2 then
    ({ store := (match existNamespace with
                 | some e => store1.set n e
                 | none => store1), proxies := r.1 }, .errDelete)
  else
    ({ store := store1, proxies := r.1 }, .ok)

/-- `DelNamespace` before the repair: no rollback of the store. -/
def Pinned.DelNamespace (w : World) (n : Name) (fs : List Fault) : World × Res :=
  let store1 := w.store.erase n
  let r := delLoop n w.proxies fs
  ({ store := store1, proxies := r.1 }, if r.2 then .errDelete else .ok)

/-! ### two concurrent changes (no injected fault), requests in an explicit order -/

/-- One request of a pair of concurrent changes: of the second change?, to
    which proxy, commit (or prepare)? -/
structure Tok where
  second : Bool
  proxy : Nat
  commit : Bool
  deriving Repr

structure PairState where
  proxies : List Manager
  prepErr : Bool × Bool     -- a prepare of the first / second change failed
  comErr : Bool × Bool

def sel {α : Type} (b : Bool) (p : α × α) : α := if b then p.2 else p.1
def upd {α : Type} (b : Bool) (p : α × α) (x : α) : α × α := if b then (p.1, x) else (x, p.2)

/-- Namespace of the first (`false`) or second (`true`) change of a pair. -/
def nm (na nb : Name) (second : Bool) : Name := if second then nb else na

def pairStep (store : Table) (na nb : Name) (s : PairState) (t : Tok) : PairState :=
  let n := nm na nb t.second
  match s.proxies[t.proxy]? with
  | none => s
  | some m =>
    if t.commit then
      if sel t.second s.prepErr then s     -- the change was abandoned after its prepare phase
      else
        let r := rpc .ok m (fun m => ReloadNamespaceCommit m n)
        { s with proxies := s.proxies.set t.proxy r.1, comErr := upd t.second s.comErr (sel t.second s.comErr || r.2) }
    else
      let r := rpc .ok m (proxyPrepare store n true)
      { s with proxies := s.proxies.set t.proxy r.1, prepErr := upd t.second s.prepErr (sel t.second s.prepErr || r.2) }

/-- Two `ModifyNamespace` calls for different namespaces running concurrently;
    `sched` is the order in which their requests are served by the proxies. -/
def ModifyPair (w : World) (na : Name) (va : Ver) (nb : Name) (vb : Ver) (sched : List Tok) : World × Res × Res :=
  let ea := w.store na
  let eb := w.store nb
  let store1 := (w.store.set na va).set nb vb
  let s := sched.foldl (pairStep store1 na nb) { proxies := w.proxies, prepErr := (false, false), comErr := (false, false) }
  let ra := if s.prepErr.1 then Res.errPrepare else if s.comErr.1 then Res.errCommit else Res.ok
  let rb := if s.prepErr.2 then Res.errPrepare else if s.comErr.2 then Res.errCommit else Res.ok
  let store2 := if ra = .ok then store1 else rollbackNamespace store1 na ea
  let store3 := if rb = .ok then store2 else rollbackNamespace store2 nb eb
  ({ store := store3, proxies := s.proxies }, ra, rb)

end GaeaVerif.MgrTwoPhase
