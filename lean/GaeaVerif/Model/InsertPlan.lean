import GaeaVerif.Model.ShardLayout
import GaeaVerif.Model.Route
/-
  Model of the planning of INSERT / REPLACE on sharded and global tables (C03):

  proxy/plan/plan_insert.go  HandleInsertStmt, precheckInsertStmt,
                             handleInsertGlobalSequenceValue,
                             handleInsertColumnNames, handleInsertOnDuplicate,
                             handleInsertValues, generateGlobalShardingSQLs
  proxy/plan/plan.go         generateMultiShardingSQLs, generateShardingSQLs
                             (in Model/ShardLayout.lean)

  As in the routing model of C01 the planner is parametric in the rule's
  placement function: every literal carries the outcome of
  `rule.FindTableIndex(v)` on its value.  A cell of a row is what the parser
  delivers for it: a `*driver.ValueExpr` (literal or NULL), the function call
  `nextval()`, or any other expression node (signed number, arithmetic,
  function call, column …).  The model is the code after the `fix:` commits
  d687a71 (non-literal sharding values are rejected) and e8a3dcf (every row
  must have one value per column); `pinned := true` gives the code before them.
  Core Lean only.
-/
namespace GaeaVerif.Insert
open GaeaVerif GaeaVerif.Layout

/-- outcome of `rule.FindTableIndex(v)` -/
inductive Place where
  | ok (i : Int)
  | err
  | panic
  deriving DecidableEq, Repr

inductive Cell where
  /-- `*driver.ValueExpr` that is not NULL; `txt` is its restored text -/
  | lit (txt : String) (place : Place)
  /-- `*driver.ValueExpr` of kind NULL -/
  | null
  /-- `*ast.FuncCallExpr` whose name is `nextval` -/
  | nextval
  /-- every other expression node -/
  | expr (txt : String)
  deriving DecidableEq, Repr

abbrev Row := List Cell

/-- a configured global sequence (`sequence.Sequence`) -/
structure Seq where
  /-- `GetPKName()` -/
  pk : String
  /-- the value the first `NextSeq()` returns; later calls count up -/
  start : Int
  /-- the call (0-based) at which `NextSeq()` reports an error -/
  failAt : Option Nat
  /-- `FindTableIndex(start + n)` for n = 0, 1, … -/
  places : List Place
  deriving Repr

structure Stmt where
  /-- `stmt.Select != nil` -/
  hasSelect : Bool
  /-- `len(stmt.Setlist) != 0` -/
  setMode : Bool
  /-- lower-cased column names: `stmt.Columns` (VALUES form) or the columns of
      `stmt.Setlist` (SET form) -/
  cols : List String
  /-- `stmt.Lists`; in the SET form the one row of `stmt.Setlist` expressions -/
  rows : List Row
  /-- lower-cased column names of `stmt.OnDuplicate` -/
  onDup : List String
  /-- the table name as written: schema ("" if none) and name -/
  schema : String
  table : String
  deriving Repr, DecidableEq

/-- what the plan reads from the rule of the table -/
structure TableRule where
  layout : Rule
  /-- `GetShardingColumn()` -/
  shardCol : String
  deriving Repr

/-- the statement sent to one physical table -/
structure Out where
  /-- name chain of the table in the rewritten statement -/
  table : Chain
  /-- the column list of the rewritten statement (lower-cased names, qualifiers removed) -/
  cols : List String
  rows : List Row
  deriving DecidableEq, Repr

/-- `precheckInsertStmt` (`pinned`: only the first row is compared with the columns) -/
def precheckInsertStmt (pinned : Bool) (s : Stmt) : R Unit :=
  if s.hasSelect then .fail
  else if s.setMode then .ok ()
  else if s.cols.length = 0 then .fail
  else if pinned then
    match s.rows with
    | [] => .panic
    | r :: _ => if s.cols.length ≠ r.length then .fail else .ok ()
  else if s.rows.all (fun r => s.cols.length = r.length) then .ok () else .fail

/-- index of the first column equal to `c` (the `break` loop of the sequence code) -/
def firstIndex (c : String) : List String → Option Nat
  | [] => none
  | x :: xs => if x = c then some 0 else (firstIndex c xs).map (· + 1)

/-- index of the last column equal to `c` (the loop of `handleInsertColumnNames`
    keeps overwriting `shardingColumnIndex`) -/
def lastIndex (c : String) : List String → Option Nat
  | [] => none
  | x :: xs =>
    match lastIndex c xs with
    | some i => some (i + 1)
    | none => if x = c then some 0 else none

/-- `seq.NextSeq()` at call number `n`: the new cell, or `none` on error -/
def nextSeq (q : Seq) (n : Nat) : Option Cell :=
  if q.failAt = some n then none
  else some (.lit (toString (q.start + n)) (q.places.getD n .err))

/-- `xs[i] = v` on a row -/
def setCell (row : Row) (i : Nat) (c : Cell) : Row := row.set i c

/-- the cells the sequence code replaces: `nextval()` and NULL -/
def wantsSeq : Cell → Bool
  | .nextval => true
  | .null => true
  | _ => false

/-- put a finished row in front of the rows still to come -/
def consRow (row : Row) : R (List Row × Nat) → R (List Row × Nat)
  | .ok (rs, m) => .ok (row :: rs, m)
  | .fail => .fail
  | .panic => .panic

/-- the per-row loop of `handleInsertGlobalSequenceValue` (VALUES form); the
    counter is the number of `NextSeq()` calls made so far -/
def seqRows (q : Seq) (seqIndex : Nat) : List Row → Nat → R (List Row × Nat)
  | [], n => .ok ([], n)
  | row :: rest, n =>
    match row[seqIndex]? with
    | none => .panic
    | some c =>
      if wantsSeq c then
        match nextSeq q n with
        | none => .fail
        | some c' => consRow (setCell row seqIndex c') (seqRows q seqIndex rest (n + 1))
      else consRow row (seqRows q seqIndex rest n)

/-- the assignment loop of `handleInsertGlobalSequenceValue` (SET form): the
    first assignment to the sequence column whose value is `nextval()` gets the
    next id -/
def seqAssignments (q : Seq) : List String → Row → R Row
  | c :: cs, v :: vs =>
    if c = q.pk ∧ v = .nextval then
      match nextSeq q 0 with
      | none => .fail
      | some v' => .ok (v' :: vs)
    else
      match seqAssignments q cs vs with
      | .ok r => .ok (v :: r)
      | .fail => .fail
      | .panic => .panic
  | _, vs => .ok vs

/-- `handleInsertGlobalSequenceValue`: the statement with the sequence values
    filled in -/
def handleInsertGlobalSequenceValue (seq : Option Seq) (s : Stmt) : R Stmt :=
  match seq with
  | none => .ok s
  | some q =>
    if s.setMode then
      match s.rows with
      | [row] =>
        match seqAssignments q s.cols row with
        | .ok row' => .ok { s with rows := [row'] }
        | .fail => .fail
        | .panic => .panic
      | _ => .ok s
    else
      let (cols, rows, seqIndex) :=
        match firstIndex q.pk s.cols with
        | some i => (s.cols, s.rows, i)
        | none => (s.cols ++ [q.pk], s.rows.map (· ++ [Cell.nextval]), s.cols.length)
      match seqRows q seqIndex rows 0 with
      | .ok (rows', _) => .ok { s with cols := cols, rows := rows' }
      | .fail => .fail
      | .panic => .panic

/-- `handleInsertColumnNames`: the sharding column index -/
def handleInsertColumnNames (t : TableRule) (s : Stmt) : R Nat :=
  match lastIndex t.shardCol s.cols with
  | some i => .ok i
  | none => .fail

/-- `handleInsertOnDuplicate` -/
def handleInsertOnDuplicate (t : TableRule) (s : Stmt) : R Unit :=
  if s.onDup.contains t.shardCol then .fail else .ok ()

/-- `newStmtMap` / `routeIdxs` / `p.rewriteStmts` of `handleInsertValues`: the
    rows collected per routed index, in order of first appearance -/
def addRow (i : Int) (row : Row) : List (Int × List Row) → List (Int × List Row)
  | [] => [(i, [row])]
  | (j, rs) :: rest => if j = i then (j, rs ++ [row]) :: rest else (j, rs) :: addRow i row rest

/-- the loop of `handleInsertValues` over `stmt.Lists` (VALUES form) -/
def splitRows (pinned : Bool) (sci : Nat) : List Row → List (Int × List Row) → R (List (Int × List Row))
  | [], acc => .ok acc
  | row :: rest, acc =>
    match row[sci]? with
    | none => .panic
    | some (.lit _ (.ok i)) => splitRows pinned sci rest (addRow i row acc)
    | some (.lit _ .err) => .fail
    | some (.lit _ .panic) => .panic
    | some .null => .fail
    | some _ => if pinned then splitRows pinned sci rest acc else .fail

/-- what `Restore` writes for the statement sent to table `index` -/
def restoreInsert (t : TableRule) (s : Stmt) (rows : List Row) (index : Int) : R Out :=
  match restoreTableName t.layout s.schema s.table "" index with
  | .ok (c :: _) => .ok { table := c, cols := s.cols, rows := rows }
  | .ok [] => .fail
  | .fail => .fail
  | .panic => .panic

/-- `handleInsertValues` followed by `generateMultiShardingSQLs` -/
def handleInsertValues (pinned : Bool) (t : TableRule) (s : Stmt) (sci : Nat) : R (List (Target Out)) :=
  if s.setMode then
    match s.rows with
    | [row] =>
      match row[sci]? with
      | none => .panic
      | some (.lit _ (.ok i)) =>
        generateMultiShardingSQLs t.layout (restoreInsert t s) [[row]] (Route.interList t.layout.idxs [i])
      | some (.lit _ .err) => .fail
      | some (.lit _ .panic) => .panic
      | some .null => .fail
      | some _ =>
        if pinned then generateMultiShardingSQLs t.layout (restoreInsert t s) [[row]] t.layout.idxs
        else .fail
    | _ => .fail
  else
    match splitRows pinned sci s.rows [] with
    | .ok groups =>
      generateMultiShardingSQLs t.layout (restoreInsert t s) (groups.map (·.2)) (groups.map (·.1))
    | .fail => .fail
    | .panic => .panic

/-- `generateGlobalShardingSQLs`: the whole statement for every copy -/
def generateGlobalShardingSQLs (t : TableRule) (s : Stmt) : R (List (Target Out)) :=
  generateShardingSQLs t.layout (restoreInsert t s s.rows) t.layout.idxs

/-- `HandleInsertStmt` -/
def handleInsertStmt (pinned : Bool) (t : TableRule) (seq : Option Seq) (s : Stmt) : R (List (Target Out)) :=
  match precheckInsertStmt pinned s with
  | .fail => .fail
  | .panic => .panic
  | .ok () =>
    match handleInsertGlobalSequenceValue seq s with
    | .fail => .fail
    | .panic => .panic
    | .ok s' =>
      if t.layout.kind = .global then generateGlobalShardingSQLs t s'
      else
        match handleInsertColumnNames t s' with
        | .fail => .fail
        | .panic => .panic
        | .ok sci =>
          match handleInsertOnDuplicate t s' with
          | .fail => .fail
          | .panic => .panic
          | .ok () => handleInsertValues pinned t s' sci

end GaeaVerif.Insert
