import GaeaVerif.Model.ShardLayout
import GaeaVerif.Model.Route
import GaeaVerif.Model.ShardGo
/-
  Model of the planning of INSERT / REPLACE on sharded and global tables (C03):

  proxy/plan/plan_insert.go  HandleInsertStmt, precheckInsertStmt,
                             handleInsertGlobalSequenceValue,
                             handleInsertColumnNames, handleInsertOnDuplicate,
                             handleInsertValues, getInsertShardingValue,
                             looksLikeNumber, generateGlobalShardingSQLs
  proxy/plan/plan.go         generateMultiShardingSQLs, generateShardingSQLs
                             (in Model/ShardLayout.lean)

  As in the routing model of C01 the planner is parametric in the rule's
  placement function: every literal carries the outcome of
  `rule.FindTableIndex(v)` on its value.  A cell of a row is what the parser
  delivers for it: a `*driver.ValueExpr` (literal or NULL), the function call
  `nextval()`, or any other expression node (signed number, arithmetic,
  function call, column …).  A literal also carries its value as the parser
  delivers it (`n.Kind()`, `GetInt64/GetUint64/GetString`): the kind decides
  whether the planner places it at all.  The model is the code after the
  `fix:` commits d687a71 (non-literal sharding values are rejected), e8a3dcf
  (every row must have one value per column), 40aac80 (only integer and string
  literals are placed) and e5ce616 (on a hash rule a string MySQL reads as a
  number but the rule hashes as text is refused); the switches of `Pin` give
  the code before them.
  Core Lean only.
-/
namespace GaeaVerif.Insert
open GaeaVerif GaeaVerif.Layout GaeaVerif.ShardGo

/-- which `fix:` commits are *not* yet applied (`{}`: the code as it is now) -/
structure Pin where
  /-- before d687a71 / e8a3dcf -/
  rows : Bool := false
  /-- before 40aac80 -/
  lits : Bool := false
  /-- before e5ce616 -/
  hashStr : Bool := false
  deriving DecidableEq, Repr

/-- the code of the repository as it is now -/
def head : Pin := {}
/-- the pinned tree -/
def pinned : Pin := { rows := true, lits := true, hashStr := true }

@[simp] theorem head_rows : head.rows = false := rfl
@[simp] theorem head_lits : head.lits = false := rfl
@[simp] theorem head_hashStr : head.hashStr = false := rfl

/-- the value of a `*driver.ValueExpr` that is not NULL, by `n.Kind()` -/
inductive LitVal where
  /-- `KindInt64` (also TRUE / FALSE) -/
  | int (v : Int)
  /-- `KindUint64` -/
  | uint (v : Nat)
  /-- `KindString` / `KindBytes`: the bytes of `GetString()` -/
  | str (s : GoStr)
  /-- every other kind: hexadecimal and bit literals (`KindBinaryLiteral`),
      decimals (`KindMysqlDecimal`), floats (`KindFloat64`) -/
  | other
  deriving DecidableEq, Repr

/-- outcome of `rule.FindTableIndex(v)` -/
inductive Place where
  | ok (i : Int)
  | err
  | panic
  deriving DecidableEq, Repr

inductive Cell where
  /-- `*driver.ValueExpr` that is not NULL; `txt` is its restored text, `place`
      the outcome of `FindTableIndex` on what `GetValueExprResult` gives for it -/
  | lit (txt : String) (val : LitVal) (place : Place)
  /-- `*driver.ValueExpr` of kind NULL -/
  | null
  /-- `*ast.FuncCallExpr` whose name is `nextval` -/
  | nextval
  /-- every other expression node -/
  | expr (txt : String)
  deriving DecidableEq, Repr

abbrev Row := List Cell

/-- a configured global sequence (`sequence.Sequence`) -/
structure Seq where
  /-- `GetPKName()` -/
  pk : String
  /-- the value the first `NextSeq()` returns; later calls count up -/
  start : Int
  /-- the call (0-based) at which `NextSeq()` reports an error -/
  failAt : Option Nat
  /-- `FindTableIndex(start + n)` for n = 0, 1, … -/
  places : List Place
  deriving Repr

structure Stmt where
  /-- `stmt.Select != nil` -/
  hasSelect : Bool
  /-- `len(stmt.Setlist) != 0` -/
  setMode : Bool
  /-- lower-cased column names: `stmt.Columns` (VALUES form) or the columns of
      `stmt.Setlist` (SET form) -/
  cols : List String
  /-- `stmt.Lists`; in the SET form the one row of `stmt.Setlist` expressions -/
  rows : List Row
  /-- lower-cased column names of `stmt.OnDuplicate` -/
  onDup : List String
  /-- the table name as written: schema ("" if none) and name -/
  schema : String
  table : String
  /-- the kind of statement: REPLACE or INSERT, IGNORE, priority, whether an
      ON DUPLICATE KEY UPDATE clause follows (kept by every rewritten statement) -/
  flags : String := ""
  deriving Repr, DecidableEq

/-- what the plan reads from the rule of the table -/
structure TableRule where
  layout : Rule
  /-- `GetShardingColumn()` -/
  shardCol : String
  /-- `GetType()`: "hash", "mod", "range", "date_year", …, "mycat_murmur" (a
      linked rule reports the type of its parent) -/
  ruleType : String := ""
  deriving Repr

/-- the statement sent to one physical table -/
structure Out where
  /-- name chain of the table in the rewritten statement -/
  table : Chain
  /-- the column list of the rewritten statement (lower-cased names, qualifiers removed) -/
  cols : List String
  rows : List Row
  /-- `newStmt := *p.stmt`: the kind of statement is that of the original -/
  flags : String := ""
  deriving DecidableEq, Repr

/-- `precheckInsertStmt` (`pinned`: only the first row is compared with the columns) -/
def precheckInsertStmt (pin : Pin) (s : Stmt) : R Unit :=
  if s.hasSelect then .fail
  else if s.setMode then .ok ()
  else if s.cols.length = 0 then .fail
  else if pin.rows then
    match s.rows with
    | [] => .panic
    | r :: _ => if s.cols.length ≠ r.length then .fail else .ok ()
  else if s.rows.all (fun r => s.cols.length = r.length) then .ok () else .fail

/-- index of the first column equal to `c` (the `break` loop of the sequence code) -/
def firstIndex (c : String) : List String → Option Nat
  | [] => none
  | x :: xs => if x = c then some 0 else (firstIndex c xs).map (· + 1)

/-- index of the last column equal to `c` (the loop of `handleInsertColumnNames`
    keeps overwriting `shardingColumnIndex`) -/
def lastIndex (c : String) : List String → Option Nat
  | [] => none
  | x :: xs =>
    match lastIndex c xs with
    | some i => some (i + 1)
    | none => if x = c then some 0 else none

/-- `seq.NextSeq()` at call number `n`: the new cell, or `none` on error -/
def nextSeq (q : Seq) (n : Nat) : Option Cell :=
  if q.failAt = some n then none
  else some (.lit (toString (q.start + n)) (.int (q.start + n)) (q.places.getD n .err))

/-- `xs[i] = v` on a row -/
def setCell (row : Row) (i : Nat) (c : Cell) : Row := row.set i c

/-- the cells the sequence code replaces: `nextval()` and NULL -/
def wantsSeq : Cell → Bool
  | .nextval => true
  | .null => true
  | _ => false

/-- put a finished row in front of the rows still to come -/
def consRow (row : Row) : R (List Row × Nat) → R (List Row × Nat)
  | .ok (rs, m) => .ok (row :: rs, m)
  | .fail => .fail
  | .panic => .panic

/-- the per-row loop of `handleInsertGlobalSequenceValue` (VALUES form); the
    counter is the number of `NextSeq()` calls made so far -/
def seqRows (q : Seq) (seqIndex : Nat) : List Row → Nat → R (List Row × Nat)
  | [], n => .ok ([], n)
  | row :: rest, n =>
    match row[seqIndex]? with
    | none => .panic
    | some c =>
      if wantsSeq c then
        match nextSeq q n with
        | none => .fail
        | some c' => consRow (setCell row seqIndex c') (seqRows q seqIndex rest (n + 1))
      else consRow row (seqRows q seqIndex rest n)

/-- the assignment loop of `handleInsertGlobalSequenceValue` (SET form): the
    first assignment to the sequence column whose value is `nextval()` gets the
    next id -/
def seqAssignments (q : Seq) : List String → Row → R Row
  | c :: cs, v :: vs =>
    if c = q.pk ∧ v = .nextval then
      match nextSeq q 0 with
      | none => .fail
      | some v' => .ok (v' :: vs)
    else
      match seqAssignments q cs vs with
      | .ok r => .ok (v :: r)
      | .fail => .fail
      | .panic => .panic
  | _, vs => .ok vs

/-- `handleInsertGlobalSequenceValue`: the statement with the sequence values
    filled in -/
def handleInsertGlobalSequenceValue (seq : Option Seq) (s : Stmt) : R Stmt :=
  match seq with
  | none => .ok s
  | some q =>
    if s.setMode then
      match s.rows with
      | [row] =>
        match seqAssignments q s.cols row with
        | .ok row' => .ok { s with rows := [row'] }
        | .fail => .fail
        | .panic => .panic
      | _ => .ok s
    else
      let (cols, rows, seqIndex) :=
        match firstIndex q.pk s.cols with
        | some i => (s.cols, s.rows, i)
        | none => (s.cols ++ [q.pk], s.rows.map (· ++ [Cell.nextval]), s.cols.length)
      match seqRows q seqIndex rows 0 with
      | .ok (rows', _) => .ok { s with cols := cols, rows := rows' }
      | .fail => .fail
      | .panic => .panic

/-- `handleInsertColumnNames`: the sharding column index -/
def handleInsertColumnNames (t : TableRule) (s : Stmt) : R Nat :=
  match lastIndex t.shardCol s.cols with
  | some i => .ok i
  | none => .fail

/-- `handleInsertOnDuplicate` -/
def handleInsertOnDuplicate (t : TableRule) (s : Stmt) : R Unit :=
  if s.onDup.contains t.shardCol then .fail else .ok ()

/-- `newStmtMap` / `routeIdxs` / `p.rewriteStmts` of `handleInsertValues`: the
    rows collected per routed index, in order of first appearance -/
def addRow (i : Int) (row : Row) : List (Int × List Row) → List (Int × List Row)
  | [] => [(i, [row])]
  | (j, rs) :: rest => if j = i then (j, rs ++ [row]) :: rest else (j, rs) :: addRow i row rest

/-! ### `getInsertShardingValue`: which literals the planner asks the rule to place -/

/-- `strconv.ParseUint(s, 10, 64)` -/
def parseUint64 (s : GoStr) : Option Nat :=
  match parseUDec s with
  | some n => if n < 2 ^ 64 then some n else none
  | none => none

/-- an optional sign in front -/
def dropSign : GoStr → GoStr
  | 43 :: r => r
  | 45 :: r => r
  | s => s

/-- `looksLikeNumber`: white space, an optional sign, digits with an optional
    fraction (at least one digit in all), an optional exponent, white space;
    `strings.Trim(s, " \t\n\v\f\r")` is `trimSpace` -/
def looksLikeNumber (s : GoStr) : Bool :=
  let t := dropSign (trimSpace s)
  let intDigits := t.takeWhile isDigit
  let r1 := t.dropWhile isDigit
  let fr : GoStr × GoStr :=
    match r1 with
    | 46 :: r => (r.takeWhile isDigit, r.dropWhile isDigit)
    | _ => ([], r1)
  if intDigits.length + fr.1.length = 0 then false
  else
    match fr.2 with
    | [] => true
    | c :: r =>
      if c = 101 || c = 69 then
        let r3 := dropSign r
        !(r3.takeWhile isDigit).isEmpty && (r3.dropWhile isDigit).isEmpty
      else false

/-- the test of e5ce616 on a string key of a hash rule: a string of digits that
    `HashValue` reads as a number, or a string MySQL does not read as a number -/
def hashStringOk (s : GoStr) : Bool := (parseUint64 s).isSome || !looksLikeNumber s

/-- `getInsertShardingValue` gives a value (and not an error) for the literal -/
def shardingValueOk (pin : Pin) (ruleType : String) : LitVal → Bool
  | .other => pin.lits
  | .str s => pin.hashStr || ruleType != "hash" || hashStringOk s
  | _ => true

/-- the loop of `handleInsertValues` over `stmt.Lists` (VALUES form) -/
def splitRows (pin : Pin) (rt : String) (sci : Nat) : List Row → List (Int × List Row) → R (List (Int × List Row))
  | [], acc => .ok acc
  | row :: rest, acc =>
    match row[sci]? with
    | none => .panic
    | some (.lit _ val (.ok i)) =>
      if shardingValueOk pin rt val then splitRows pin rt sci rest (addRow i row acc) else .fail
    | some (.lit _ _ .err) => .fail
    | some (.lit _ val .panic) => if shardingValueOk pin rt val then .panic else .fail
    | some .null => .fail
    | some _ => if pin.rows then splitRows pin rt sci rest acc else .fail

/-- what `Restore` writes for the statement sent to table `index` -/
def restoreInsert (t : TableRule) (s : Stmt) (rows : List Row) (index : Int) : R Out :=
  match restoreTableName t.layout s.schema s.table "" index with
  | .ok (c :: _) => .ok { table := c, cols := s.cols, rows := rows, flags := s.flags }
  | .ok [] => .fail
  | .fail => .fail
  | .panic => .panic

/-- `handleInsertValues` followed by `generateMultiShardingSQLs` -/
def handleInsertValues (pin : Pin) (t : TableRule) (s : Stmt) (sci : Nat) : R (List (Target Out)) :=
  if s.setMode then
    match s.rows with
    | [row] =>
      match row[sci]? with
      | none => .panic
      | some (.lit _ val (.ok i)) =>
        if shardingValueOk pin t.ruleType val then
          generateMultiShardingSQLs t.layout (restoreInsert t s) [[row]] (Route.interList t.layout.idxs [i])
        else .fail
      | some (.lit _ _ .err) => .fail
      | some (.lit _ val .panic) => if shardingValueOk pin t.ruleType val then .panic else .fail
      | some .null => .fail
      | some _ =>
        if pin.rows then generateMultiShardingSQLs t.layout (restoreInsert t s) [[row]] t.layout.idxs
        else .fail
    | _ => .fail
  else
    match splitRows pin t.ruleType sci s.rows [] with
    | .ok groups =>
      generateMultiShardingSQLs t.layout (restoreInsert t s) (groups.map (·.2)) (groups.map (·.1))
    | .fail => .fail
    | .panic => .panic

/-- `generateGlobalShardingSQLs`: the whole statement for every copy -/
def generateGlobalShardingSQLs (t : TableRule) (s : Stmt) : R (List (Target Out)) :=
  generateShardingSQLs t.layout (restoreInsert t s s.rows) t.layout.idxs

/-- `HandleInsertStmt` -/
def handleInsertStmt (pin : Pin) (t : TableRule) (seq : Option Seq) (s : Stmt) : R (List (Target Out)) :=
  match precheckInsertStmt pin s with
  | .fail => .fail
  | .panic => .panic
  | .ok () =>
    match handleInsertGlobalSequenceValue seq s with
    | .fail => .fail
    | .panic => .panic
    | .ok s' =>
      if t.layout.kind = .global then generateGlobalShardingSQLs t s'
      else
        match handleInsertColumnNames t s' with
        | .fail => .fail
        | .panic => .panic
        | .ok sci =>
          match handleInsertOnDuplicate t s' with
          | .fail => .fail
          | .panic => .panic
          | .ok () => handleInsertValues pin t s' sci

end GaeaVerif.Insert
