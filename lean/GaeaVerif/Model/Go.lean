/-
  Shared vocabulary for models of Go code: byte strings, an outcome type with
  an explicit `panic` (the model never silently totalises an out-of-range
  index or slice), Go's index and slice expressions on `[]byte`, and the
  conversions between Go's fixed-width integer types that the modelled code
  performs.  Core Lean only.
-/
namespace GaeaVerif

abbrev Bytes := List UInt8

/-- Outcome of a modelled Go function: a value, a reported failure, or a
    run-time panic. -/
inductive R (α : Type) where
  | ok (a : α)
  | fail
  | panic
  deriving Repr, BEq, DecidableEq

namespace R

@[inline] def bind {α β : Type} (x : R α) (f : α → R β) : R β :=
  match x with
  | ok a => f a
  | fail => fail
  | panic => panic

instance : Monad R where
  pure := ok
  bind := bind

@[simp] theorem bind_ok {α β : Type} (a : α) (f : α → R β) : (ok a >>= f) = f a := rfl
@[simp] theorem bind_fail {α β : Type} (f : α → R β) : ((fail : R α) >>= f) = fail := rfl
@[simp] theorem bind_panic {α β : Type} (f : α → R β) : ((panic : R α) >>= f) = panic := rfl
@[simp] theorem pure_eq {α : Type} (a : α) : (pure a : R α) = ok a := rfl

def isPanic {α : Type} : R α → Bool
  | panic => true
  | _ => false

end R

/-- Go's `d[i]` on a byte slice: panics outside `[0, len)`. -/
def goIdx (d : Bytes) (i : Int) : R UInt8 :=
  if 0 ≤ i ∧ i < d.length then .ok (d.getD i.toNat 0) else .panic

/-- Go's `d[lo:hi]` on a byte slice (capacity = length): panics unless
    `0 ≤ lo ≤ hi ≤ len`. -/
def goSlice (d : Bytes) (lo hi : Int) : R Bytes :=
  if 0 ≤ lo ∧ lo ≤ hi ∧ hi ≤ d.length then .ok ((d.drop lo.toNat).take (hi - lo).toNat) else .panic

/-- `int(u)` for a `uint64` value `u < 2^64` on a 64-bit platform. -/
def u64ToInt (u : Nat) : Int := if u < 2 ^ 63 then (u : Int) else (u : Int) - 2 ^ 64

/-- Little-endian value of a byte list. -/
def leNat : Bytes → Nat
  | [] => 0
  | b :: bs => b.toNat + 256 * leNat bs

/-- The `n` low bytes of `i`, little-endian (`byte(i)`, `byte(i>>8)`, …). -/
def leBytes (i : Nat) : Nat → Bytes
  | 0 => []
  | n + 1 => UInt8.ofNat (i % 256) :: leBytes (i / 256) n

end GaeaVerif
