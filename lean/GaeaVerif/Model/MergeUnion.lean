import GaeaVerif.Model.Merge
/-
  Model of UNION over sharded SELECTs (C02):
  proxy/plan/plan_union.go   UnionPlan.ExecuteIn, MergeUnionResult, mergeMultiResultSet,
                             removeDuplicateValues, handleUnionOrderBy / sortResult,
                             extractOrderByInfo / getOrderByColumnIndex,
                             handleUnionLimit / limitResult / extractLimitInfo
  proxy/plan/plan.go         newEmptyResultset (field names; types are left zero)
  Every SELECT of the UNION is planned and executed like a stand-alone
  statement (`executeIn`); the results carry their field names and MySQL type
  codes, which `mergeMultiResultSet` compares.  Core Lean only.
-/
namespace GaeaVerif.Merge

/-- name (select alias, else column) and MySQL type code of a result field -/
structure FieldMeta where
  name : Option Nat
  ty : Nat
  deriving DecidableEq, Repr

structure UResult where
  fields : List FieldMeta
  rows : List Row
  deriving Repr

/-- type codes the backend reports: BIGINT 8, DECIMAL 246, VAR_STRING 253 -/
def Ty.code : Ty → Nat
  | .int => 8
  | .dec _ => 246
  | .str => 253

def itemTy (schema : List Ty) : Item → Nat
  | .col c => match schema[c]? with
    | some t => t.code
    | none => 0
  | .agg .count _ _ => 8
  | .agg .sum _ _ => 246
  | .agg _ (some c) _ => match schema[c]? with
    | some t => t.code
    | none => 0
  | .agg _ none _ => 8
  | .const _ => 8

def fieldName (f : Field) : Option Nat :=
  match f.asName with
  | some a => some a
  | none => match f.expr with
    | .col n => some n
    | _ => none

/-- the fields of the result of one SELECT: as the backend reports them
    (`*` expanded, typed), or, when the statement is routed to no sub-table, as
    `newEmptyResultset` makes them up (not expanded, type code 0) -/
def fieldsOf (schema : List Ty) (q : Query) (ntables : Nat) : List FieldMeta :=
  if ntables = 0 then q.fields.map fun f => { name := fieldName f, ty := 0 }
  else match compileFields schema q.fields with
    | none => []
    | some items => items.map fun it =>
        { name := match it.2 with
            | some a => some a
            | none => match it.1 with
              | .col c => some c
              | _ => none,
          ty := itemTy schema it.1 }

/-- `removeDuplicateValues` -/
def removeDuplicateValues (colCnt : Nat) : List (List UInt8) → List Row → R (List Row)
  | _, [] => .ok []
  | seen, row :: rows =>
    if colCnt > row.length then .fail else
    let mk := generateMapKey (row.take colCnt)
    if seen.contains mk then removeDuplicateValues colCnt seen rows
    else match removeDuplicateValues colCnt (mk :: seen) rows with
      | .ok rest => .ok (row :: rest)
      | e => e

/-- the loop of `UnionPlan.mergeMultiResultSet`; `distinct[i]` belongs to the (i+1)-th result -/
def unionLoop : UResult → List UResult → List Bool → R UResult
  | acc, [], _ => .ok acc
  | acc, r :: rs, flags =>
    if r.fields.length ≠ acc.fields.length then .fail
    else if (r.fields.zip acc.fields).any (fun p => p.1.ty ≠ p.2.ty) then .fail
    else
      let distinct := flags.headD false
      if distinct then
        match removeDuplicateValues acc.fields.length [] (acc.rows ++ r.rows) with
        | .ok rows => unionLoop { acc with rows := rows } rs flags.tail
        | .fail => .fail
        | .panic => .panic
      else unionLoop { acc with rows := acc.rows ++ r.rows } rs flags.tail

/-- `getOrderByColumnIndex` -/
def unionOrderIndex (fields : List FieldMeta) : By → Option Nat
  | .name n => fields.findIdx? (fun f => f.name = some n)
  | .pos n => if 1 ≤ n ∧ n ≤ fields.length then some (n - 1) else none
  | .agg _ _ _ => none

def unionOrderIndexes (fields : List FieldMeta) : List By → Option (List Nat)
  | [] => some []
  | b :: bs =>
    match unionOrderIndex fields b, unionOrderIndexes fields bs with
    | some i, some is => some (i :: is)
    | _, _ => none

/-- `UnionPlan.mergeMultiResultSet` -/
def unionMergeMulti (rs : List UResult) (distinct : List Bool) : R UResult :=
  match rs with
  | [] => .ok { fields := [], rows := [] }
  | [r] => .ok r
  | r :: rest => unionLoop r rest distinct

/-- `sortResult` / `extractOrderByInfo` -/
def unionSort (merged : UResult) (order : List (By × Bool)) : R (List Row) :=
  if order.isEmpty then .ok merged.rows else
  match unionOrderIndexes merged.fields (order.map (·.1)) with
  | none => .fail
  | some idxs => sortRows ((idxs.map fun (i : Nat) => (i : Int)).zip (order.map (·.2))) merged.rows

/-- `limitResult` -/
def unionLimit (lim : Lim) (rows : List Row) : List Row :=
  match lim with
  | .none => rows
  | .count c => (rows.drop 0).take c
  | .offCount o c => (rows.drop o).take c

/-- `MergeUnionResult` -/
def mergeUnionResult (rs : List UResult) (distinct : List Bool) (order : List (By × Bool)) (lim : Lim) : R UResult :=
  match unionMergeMulti rs distinct with
  | .fail => .fail
  | .panic => .panic
  | .ok merged =>
    match unionSort merged order with
    | .fail => .fail
    | .panic => .panic
    | .ok rows =>
      let rows := unionLimit lim rows
      -- GenerateSelectResultRowData
      if rows.all (fun row => row.length == merged.fields.length) then .ok { merged with rows := rows }
      else .fail

/-- the sub-plans of `UnionPlan.ExecuteIn`, one after the other -/
def unionSubs (schema : List Ty) : List (Query × List (List Row)) → R (List UResult)
  | [] => .ok []
  | (q, tables) :: rest =>
    match executeIn schema q tables with
    | .ok r =>
      match unionSubs schema rest with
      | .ok rs => .ok ({ fields := fieldsOf schema q tables.length, rows := r.rows } :: rs)
      | .fail => .fail
      | .panic => .panic
    | .fail => .fail
    | .panic => .panic

/-- `UnionPlan.ExecuteIn`: every SELECT with the rows of its routed sub-tables -/
def executeUnion (schema : List Ty) (sels : List (Query × List (List Row))) (distinct : List Bool)
    (order : List (By × Bool)) (lim : Lim) : R UResult :=
  match unionSubs schema sels with
  | .ok rs => mergeUnionResult rs distinct order lim
  | .fail => .fail
  | .panic => .panic

end GaeaVerif.Merge
