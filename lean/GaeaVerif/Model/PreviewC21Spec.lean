import GaeaVerif.Model.PreviewC21
/-
  Reference semantics for C21: the first keyword of a statement as MySQL reads
  it — after white space, `/* … */`, `-- …` and `# …` comments, and inside a
  leading `/*!NNNNN … */` executable comment — and the set of keywords that
  start a statement which changes data or schema.  Used by the property oracle
  and stated against in `Props/C21`.  Core Lean only.
-/
namespace GaeaVerif.PreviewC21
open GaeaVerif GaeaVerif.LexC17

/-- Leading trivia of a statement. -/
inductive Trivia where
  | ws (bs : Bytes)                   -- ASCII white space, non-empty
  | cblock (body : Bytes)             -- /* body */, body does not start with `!`
  | cdash (body : Bytes)              -- "--" body "\n": body empty or starting with a blank
  | chash (body : Bytes)              -- "#" body "\n"
  | xopen (version : Bytes) (blanks : Bytes)   -- "/*!" [M]NNNNN[N] blanks: start of an executable comment
  deriving DecidableEq, Repr

def Trivia.render : Trivia → Bytes
  | .ws bs => bs
  | .cblock body => 0x2F :: 0x2A :: body ++ [0x2A, 0x2F]
  | .cdash body => 0x2D :: 0x2D :: body ++ [0x0A]
  | .chash body => 0x23 :: body ++ [0x0A]
  | .xopen v bl => 0x2F :: 0x2A :: 0x21 :: v ++ bl

def renderTrivia (ts : List Trivia) : Bytes := (ts.map Trivia.render).flatten

/-- ASCII white space as `unicode.IsSpace` and MySQL agree on it. -/
def isAsciiWs (b : UInt8) : Bool := b.toNat = 0x20 || (0x09 ≤ b.toNat && b.toNat ≤ 0x0D)

def isVersion (v : Bytes) : Bool :=
  v = [] ||
  (let d := match v with | m :: t => if m.toNat = 0x4D then t else v | [] => v
   (d.length = 5 || d.length = 6) && d.all isDigitB)

def Trivia.ok : Trivia → Bool
  | .ws bs => bs ≠ [] && bs.all isAsciiWs
  | .cblock body => blockFree body && (match body with | b :: _ => b.toNat ≠ 0x21 | [] => true)
  | .cdash body => (match body with | b :: _ => isAsciiWs b && b.toNat ≠ 0x0A | [] => true) && body.all (·.toNat ≠ 0x0A)
  | .chash body => body.all (·.toNat ≠ 0x0A)
  | .xopen v bl => isVersion v && bl.all (fun b => b.toNat = 0x20 || b.toNat = 0x09)
where
  /-- `/* body */` closes exactly at its end -/
  blockFree (body : Bytes) : Bool := !hasSS (body ++ [0x2A])
  hasSS : Bytes → Bool
    | a :: b :: t => (a.toNat = 0x2A && b.toNat = 0x2F) || hasSS (b :: t)
    | _ => false

/-- Keywords that start a statement which can modify data or schema:
    insert, replace, update, delete, create, alter, drop, truncate, rename, load (as code points). -/
def writeKeywords : List (List Nat) :=
  [[105, 110, 115, 101, 114, 116],
   [114, 101, 112, 108, 97, 99, 101],
   [117, 112, 100, 97, 116, 101],
   [100, 101, 108, 101, 116, 101],
   [99, 114, 101, 97, 116, 101],
   [97, 108, 116, 101, 114],
   [100, 114, 111, 112],
   [116, 114, 117, 110, 99, 97, 116, 101],
   [114, 101, 110, 97, 109, 101],
   [108, 111, 97, 100]]

def asciiLower (b : UInt8) : Nat := if 0x41 ≤ b.toNat ∧ b.toNat ≤ 0x5A then b.toNat + 32 else b.toNat

def isAsciiLetterB (b : UInt8) : Bool := isLetter b.toNat

/-- Skip the leading trivia of a text (executable reference: what MySQL skips
    before the first keyword). -/
def skipTrivia : Nat → Bytes → Option Bytes
  | 0, _ => none
  | fuel + 1, l =>
    match l with
    | [] => some []
    | b :: t =>
      if isAsciiWs b then skipTrivia fuel t
      else if b.toNat = 0x23 then
        match indexSub [0x0A] t with
        | some i => skipTrivia fuel (t.drop (i + 1))
        | none => some []
      else if b.toNat = 0x2D ∧ startsDash t = true then
        match indexSub [0x0A] t with
        | some i => skipTrivia fuel (t.drop (i + 1))
        | none => some []
      else if b.toNat = 0x2F ∧ startsStar t = true then
        let t' := t.drop 1
        if startsBang t' then
          -- executable comment: its content is code
          skipTrivia fuel (l.drop (specCodeStartLen l))
        else
          match indexSub cStarSlash t' with
          | some i => skipTrivia fuel (t'.drop (i + 2))
          | none => none
      else some l
where
  startsDash (t : Bytes) : Bool :=
    match t with
    | d :: t' => d.toNat = 0x2D && (match t' with | s :: _ => isAsciiWs s || s.toNat < 0x20 | [] => true)
    | [] => false
  startsStar (t : Bytes) : Bool := match t with | a :: _ => a.toNat = 0x2A | [] => false
  startsBang (t : Bytes) : Bool := match t with | a :: _ => a.toNat = 0x21 | [] => false

/-- The first keyword of a statement, in lower case: the maximal run of ASCII
    letters after the leading trivia, provided it is not part of a longer
    identifier. -/
def firstKeyword (text : Bytes) : Option (List Nat) :=
  match skipTrivia (text.length + 1) text with
  | none => none
  | some l =>
    let word := l.takeWhile isAsciiLetterB
    if word = [] then none
    else
      match l.drop word.length with
      | n :: _ => if isDigit n.toNat || n.toNat = 0x5F || n.toNat = 0x24 || n.toNat ≥ 0x80 then none
                  else some (word.map asciiLower)
      | [] => some (word.map asciiLower)

/-- Could the statement modify data or schema (the kinds C21 lists)? -/
def isWrite (text : Bytes) : Bool :=
  match firstKeyword text with
  | some k => writeKeywords.contains k
  | none => false

end GaeaVerif.PreviewC21
