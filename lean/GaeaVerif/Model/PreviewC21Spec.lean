import GaeaVerif.Model.PreviewC21
/-
  Reference semantics for C21: the first keyword of a statement as MySQL reads
  it — after white space, `/* … */`, `-- …` and `# …` comments, and inside a
  leading `/*!NNNNN … */` executable comment — and the set of keywords that
  start a statement which changes data or schema.  Used by the property oracle
  and stated against in `Props/C21`.  Core Lean only.
-/
namespace GaeaVerif.PreviewC21
open GaeaVerif GaeaVerif.LexC17

/-- Leading trivia of a statement. -/
inductive Trivia where
  | ws (bs : Bytes)                   -- ASCII white space and semicolons (empty statements), non-empty
  | cblock (body : Bytes)             -- /* body */, body does not start with `!`
  | cdash (body : Bytes)              -- "--" body "\n": body empty or starting with a blank
  | chash (body : Bytes)              -- "#" body "\n"
  | xopen (version : Bytes) (blanks : Bytes)   -- "/*!" [M]NNNNN[N] blanks: start of an executable comment
  deriving DecidableEq, Repr

def Trivia.render : Trivia → Bytes
  | .ws bs => bs
  | .cblock body => 0x2F :: 0x2A :: body ++ [0x2A, 0x2F]
  | .cdash body => 0x2D :: 0x2D :: body ++ [0x0A]
  | .chash body => 0x23 :: body ++ [0x0A]
  | .xopen v bl => 0x2F :: 0x2A :: 0x21 :: v ++ bl

def renderTrivia (ts : List Trivia) : Bytes := (ts.map Trivia.render).flatten

/-- ASCII white space as `unicode.IsSpace` and MySQL agree on it. -/
def isAsciiWs (b : UInt8) : Bool := b.toNat = 0x20 || (0x09 ≤ b.toNat && b.toNat ≤ 0x0D)

def isVersion (v : Bytes) : Bool :=
  v = [] ||
  (let d := match v with | m :: t => if m.toNat = 0x4D then t else v | [] => v
   (d.length = 5 || d.length = 6) && d.all isDigitB)

def Trivia.ok : Trivia → Bool
  | .ws bs => bs ≠ [] && bs.all (fun b => isAsciiWs b || b.toNat = 0x3B)
  | .cblock body => blockFree body && (match body with | b :: _ => b.toNat ≠ 0x21 | [] => true)
  | .cdash body => (match body with | b :: _ => isAsciiWs b && b.toNat ≠ 0x0A | [] => true) && body.all (·.toNat ≠ 0x0A)
  | .chash body => body.all (·.toNat ≠ 0x0A)
  | .xopen v bl => isVersion v && bl.all (fun b => b.toNat = 0x20 || b.toNat = 0x09)
where
  /-- `/* body */` closes exactly at its end -/
  blockFree (body : Bytes) : Bool := !hasSS (body ++ [0x2A])
  hasSS : Bytes → Bool
    | a :: b :: t => (a.toNat = 0x2A && b.toNat = 0x2F) || hasSS (b :: t)
    | _ => false

/-- Keywords that start a statement which can modify data or schema:
    insert, replace, update, delete, create, alter, drop, truncate, rename, load (as code points). -/
def writeKeywords : List (List Nat) :=
  [[105, 110, 115, 101, 114, 116],
   [114, 101, 112, 108, 97, 99, 101],
   [117, 112, 100, 97, 116, 101],
   [100, 101, 108, 101, 116, 101],
   [99, 114, 101, 97, 116, 101],
   [97, 108, 116, 101, 114],
   [100, 114, 111, 112],
   [116, 114, 117, 110, 99, 97, 116, 101],
   [114, 101, 110, 97, 109, 101],
   [108, 111, 97, 100]]

def asciiLower (b : UInt8) : Nat := if 0x41 ≤ b.toNat ∧ b.toNat ≤ 0x5A then b.toNat + 32 else b.toNat

def isAsciiLetterB (b : UInt8) : Bool := isLetter b.toNat

/-- Skip the leading trivia of a text (executable reference: what MySQL skips
    before the first keyword).  The result also says whether an executable
    comment `/*! … */` is open where the first keyword stands. -/
def skipTrivia : Nat → Bool → Bytes → Option (Bool × Bytes)
  | 0, _, _ => none
  | fuel + 1, inExec, l =>
    match l with
    | [] => some (inExec, [])
    | b :: t =>
      if isAsciiWs b || b.toNat = 0x3B then skipTrivia fuel inExec t
      else if b.toNat = 0x23 then
        match indexSub [0x0A] t with
        | some i => skipTrivia fuel inExec (t.drop (i + 1))
        | none => some (inExec, [])
      else if b.toNat = 0x2D ∧ startsDash t = true then
        match indexSub [0x0A] t with
        | some i => skipTrivia fuel inExec (t.drop (i + 1))
        | none => some (inExec, [])
      else if b.toNat = 0x2F ∧ startsStar t = true then
        let t' := t.drop 1
        if startsBang t' then
          -- executable comment: its content is code
          skipTrivia fuel true (l.drop (specCodeStartLen l))
        else
          match indexSub cStarSlash t' with
          | some i => skipTrivia fuel inExec (t'.drop (i + 2))
          | none => none
      else some (inExec, l)
where
  startsDash (t : Bytes) : Bool :=
    match t with
    | d :: t' => d.toNat = 0x2D && (match t' with | s :: _ => isAsciiWs s || s.toNat < 0x20 | [] => true)
    | [] => false
  startsStar (t : Bytes) : Bool := match t with | a :: _ => a.toNat = 0x2A | [] => false
  startsBang (t : Bytes) : Bool := match t with | a :: _ => a.toNat = 0x21 | [] => false

/-- The first keyword of a statement, in lower case, the text after it, and
    whether an executable comment is open there: the maximal run of ASCII
    letters after the leading trivia, provided it is not part of a longer
    identifier. -/
def firstKeywordRest (text : Bytes) : Option (List Nat × Bytes × Bool) :=
  match skipTrivia (text.length + 1) false text with
  | none => none
  | some (inExec, l) =>
    let word := l.takeWhile isAsciiLetterB
    if word = [] then none
    else
      match l.drop word.length with
      | n :: t => if isDigit n.toNat || n.toNat = 0x5F || n.toNat = 0x24 || n.toNat ≥ 0x80 then none
                  else some (word.map asciiLower, n :: t, inExec)
      | [] => some (word.map asciiLower, [], inExec)

def firstKeyword (text : Bytes) : Option (List Nat) := (firstKeywordRest text).map (·.1)

/-! ### statements that lead to another statement

  `CALL p()` and `EXECUTE s` run code the proxy does not see: their effect is
  unknown, so they *could* modify.  `PREPARE s FROM '…'` is the first half of
  executing `…`.  `WITH … <statement>` is `<statement>`.  The reading of a WITH
  statement is that of the backend, which the proxy does not know exactly:
  whether a backslash escapes inside quotes (sql_mode) and whether a
  `/*!NNNNN … */` comment is code (server version); the statement could modify
  if it does under any of these readings. -/

def kwCall : List Nat := [99, 97, 108, 108]
def kwExecute : List Nat := [101, 120, 101, 99, 117, 116, 101]
def kwPrepare : List Nat := [112, 114, 101, 112, 97, 114, 101]
def kwWith : List Nat := [119, 105, 116, 104]
def kwAs : List Nat := [97, 115]
def kwRecursive : List Nat := [114, 101, 99, 117, 114, 115, 105, 118, 101]
def kwFrom : List Nat := [102, 114, 111, 109]

/-- Keywords the read-only check refuses (theorem `readonly_rejects`): the ten
    write keywords and the three whose effect the proxy cannot know. -/
def refusedKeywords : List (List Nat) := writeKeywords ++ [kwCall, kwPrepare, kwExecute]

/-- A backend's way of reading a text. -/
structure Reading where
  nbe : Bool        -- NO_BACKSLASH_ESCAPES: a backslash inside quotes is an ordinary character
  execCode : Bool   -- the content of `/*! … */` is code (else the whole is a comment)
  deriving DecidableEq, Repr

/-- A quoted text from its opening quote `q` on: its content and what follows
    the closing quote (a doubled quote and, unless `nbe`, a backslash escape
    stand for one character). -/
def readQuoted (nbe : Bool) (q : UInt8) : Nat → Bytes → Option (Bytes × Bytes)
  | 0, _ => none
  | _ + 1, [] => none
  | fuel + 1, c :: t =>
    if c = q then
      match t with
      | c2 :: t2 => if c2 = q then (readQuoted nbe q fuel t2).map fun r => (q :: r.1, r.2) else some ([], t)
      | [] => some ([], [])
    else if c.toNat = 0x5C ∧ ¬ nbe ∧ q.toNat ≠ 0x60 then
      match t with
      | e :: t2 => (readQuoted nbe q fuel t2).map fun r => (e :: r.1, r.2)
      | [] => none
    else (readQuoted nbe q fuel t).map fun r => (c :: r.1, r.2)

def startsSlash (t : Bytes) : Bool := match t with | s :: _ => s.toNat = 0x2F | [] => false

/-- A position in a text as the backend's scanner has it: whether an
    executable comment is open, and the unread text. -/
abbrev Pos := Bool × Bytes

/-- White space and comments between the tokens of a WITH clause, as the
    backend skips them.  When the content of `/*! … */` is code, its opener is a
    blank that opens it and `*/` is a blank that closes it (only while one is
    open: elsewhere `*` and `/` are operators).  `none`: an unclosed comment. -/
def skipBlanks (rd : Reading) : Nat → Pos → Option Pos
  | 0, _ => none
  | fuel + 1, (inExec, l) =>
    match l with
    | [] => some (inExec, [])
    | b :: t =>
      if isAsciiWs b then skipBlanks rd fuel (inExec, t)
      else if b.toNat = 0x23 ∨ (b.toNat = 0x2D ∧ skipTrivia.startsDash t = true) then
        match indexSub [0x0A] t with
        | some i => skipBlanks rd fuel (inExec, t.drop (i + 1))
        | none => some (inExec, [])
      else if b.toNat = 0x2F ∧ skipTrivia.startsStar t = true then
        let t' := t.drop 1
        if skipTrivia.startsBang t' ∧ rd.execCode = true then skipBlanks rd fuel (true, l.drop (specCodeStartLen l))
        else
          match indexSub cStarSlash t' with
          | some i => skipBlanks rd fuel (inExec, t'.drop (i + 2))
          | none => none
      else if b.toNat = 0x2A ∧ inExec = true ∧ startsSlash t = true then
        skipBlanks rd fuel (false, t.drop 1)
      else some (inExec, l)

def blanks (rd : Reading) (p : Pos) : Option Pos := skipBlanks rd (p.2.length + 1) p

/-- From just after an opening parenthesis: the position after the parenthesis
    that closes it (quotes and comments inside are skipped). -/
def skipGroup (rd : Reading) : Nat → Nat → Pos → Option Pos
  | 0, _, _ => none
  | fuel + 1, depth, p =>
    match blanks rd p with
    | none => none
    | some (_, []) => none
    | some (inExec, c :: t) =>
      if c.toNat = 0x27 ∨ c.toNat = 0x22 ∨ c.toNat = 0x60 then
        match readQuoted rd.nbe c (t.length + 1) t with
        | some (_, after) => skipGroup rd fuel depth (inExec, after)
        | none => none
      else if c.toNat = 0x28 then skipGroup rd fuel (depth + 1) (inExec, t)
      else if c.toNat = 0x29 then (if depth = 0 then some (inExec, t) else skipGroup rd fuel (depth - 1) (inExec, t))
      else skipGroup rd fuel depth (inExec, t)

def group (rd : Reading) (p : Pos) : Option Pos := skipGroup rd (p.2.length + 1) 0 p

def isIdentB (c : UInt8) : Bool :=
  isLetter c.toNat || isDigit c.toNat || c.toNat = 0x5F || c.toNat = 0x24 || decide (0x80 ≤ c.toNat)

/-- A name (bare or quoted) at the start of `l`: its lower-cased bare spelling (`[]` for a quoted name) and the rest. -/
def readName (rd : Reading) (l : Bytes) : Option (List Nat × Bytes) :=
  match l with
  | c :: t =>
    if c.toNat = 0x60 ∨ c.toNat = 0x22 then (readQuoted rd.nbe c (t.length + 1) t).map fun r => ([], r.2)
    else
      let w := l.takeWhile isIdentB
      if w = [] then none else some (w.map asciiLower, l.drop w.length)
  | [] => none

/-- The common table expressions `name [(columns)] AS (query) [, …]` and then the main statement. -/
def readCtes (rd : Reading) : Nat → Pos → Option Bytes
  | 0, _ => none
  | fuel + 1, p =>
    match blanks rd p with
    | none => none
    | some (e1, l1) =>
      match readName rd l1 with
      | none => none
      | some (_, l2) =>
        match blanks rd (e1, l2) with
        | none => none
        | some (e3, l3) =>
          -- optional column list
          let afterCols : Option Pos :=
            match l3 with
            | c :: t => if c.toNat = 0x28 then (group rd (e3, t)).bind (blanks rd) else some (e3, l3)
            | [] => some (e3, l3)
          match afterCols with
          | none => none
          | some (e4, l4) =>
            match readName rd l4 with
            | none => none
            | some (w, l5) =>
              if w ≠ kwAs then none
              else
                match blanks rd (e4, l5) with
                | some (e6, c :: t) =>
                  if c.toNat ≠ 0x28 then none
                  else
                    match (group rd (e6, t)).bind (blanks rd) with
                    | none => none
                    | some (_, []) => none
                    | some (e7, d :: t') => if d.toNat = 0x2C then readCtes rd fuel (e7, t') else some (d :: t')
                | _ => none

/-- The statement a text `WITH [RECURSIVE] …` (given from after the word WITH) leads to, under a reading. -/
def withMainSpec (rd : Reading) (inExec : Bool) (afterWith : Bytes) : Option Bytes :=
  match blanks rd (inExec, afterWith) with
  | none => none
  | some (e, l) =>
    let l' :=
      match readName rd l with
      | some (w, r) => if w = kwRecursive then r else l
      | none => l
    readCtes rd (l'.length + 1) (e, l')

/-- What `PREPARE name FROM …` (given from after the word PREPARE) prepares. -/
inductive Prepared where
  | text (sql : Bytes)
  | variable
  | malformed

def preparedOf (afterPrepare : Bytes) : Prepared :=
  let rd : Reading := ⟨false, true⟩
  match blanks rd (true, afterPrepare) with
  | some (_, l) =>
    match readName rd l with
    | some (_, l2) =>
      match (blanks rd (true, l2)).bind (fun p => readName rd p.2) with
      | some (w, l3) =>
        if w ≠ kwFrom then .malformed
        else
          match blanks rd (true, l3) with
          | some (_, c :: t) =>
            if c.toNat = 0x40 then .variable
            else if c.toNat = 0x27 ∨ c.toNat = 0x22 then
              match readQuoted false c (t.length + 1) t with
              | some (body, _) => .text body
              | none => .malformed
            else .malformed
          | _ => .malformed
      | none => .malformed
    | none => .malformed
  | none => .malformed

/-- The readings a backend may have of a WITH statement that is not itself
    inside an executable comment; inside one (`/*!40101 with … */`, which the
    proxy hands to its own grammar) the content is code. -/
def readings (inExec : Bool) : List Reading :=
  if inExec then [⟨false, true⟩, ⟨true, true⟩] else [⟨false, true⟩, ⟨false, false⟩, ⟨true, true⟩, ⟨true, false⟩]

/-- Could the statement modify data or schema?  Its first keyword is one of the
    write keywords, or CALL / EXECUTE (unknown effect), or it is a PREPARE of
    such a statement (or of a text the proxy does not see), or a WITH that leads
    to such a statement under one of the backend's readings. -/
def couldModify : Nat → Bytes → Bool
  | 0, _ => false
  | fuel + 1, text =>
    match firstKeywordRest text with
    | none => false
    | some (k, rest, inExec) =>
      if writeKeywords.contains k then true
      else if k = kwCall ∨ k = kwExecute then true
      else if k = kwPrepare then
        match preparedOf rest with
        | .text sql => couldModify fuel sql
        | .variable => true
        | .malformed => false
      else if k = kwWith then
        (readings inExec).any fun rd =>
          match withMainSpec rd inExec rest with
          | some main => couldModify fuel main
          | none => false
      else false

/-- Could the statement modify data or schema (the kinds C21 lists)? -/
def isWrite (text : Bytes) : Bool := couldModify (text.length + 1) text

end GaeaVerif.PreviewC21
