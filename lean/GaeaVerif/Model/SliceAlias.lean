/-
  C07 — the route result of a statement and the rule's list of sub tables share memory.

  proxy/plan/plan.go  StmtInfo.checkStmtRouteResult:  s.result.indexes = rule.GetSubTableIndexes()
  proxy/router/rule.go BaseRule.GetSubTableIndexes:    return r.subTableIndexes          (no copy)
  proxy/plan/util.go   makeLeList / makeGeList / makeLtList / makeGtList / makeBetweenList
                       return sub-slices of the list they are given (no copy); unionList returns
                       one of its arguments when the other is empty (no copy); interList and the
                       general case of unionList build their result in a new array
  proxy/plan/route_result.go  RouteResult.Inter / Union: r.indexes = interList / unionList(r.indexes, …)

  So `RouteResult.indexes` of a session may at any time be the rule's own array or a window of
  it.  This file models Go slices over a heap of arrays (a slice is array, offset, length,
  capacity; `append` writes in place while the capacity lasts — whoever shares the array sees
  the write) and transliterates the functions above on it; Props/C07.lean proves that every
  sequence of Inter / Union steps leaves all arrays that existed before untouched, and that the
  in-place idioms `append(indexes[:0], x)` / `append(makeLtList(…), x)` do not.
  Core Lean only.
-/
namespace GaeaVerif.SliceAlias

/-- backing arrays by identity -/
abbrev Heap := List (List Int)

structure Slice where
  arr : Nat
  off : Nat
  len : Nat
  cap : Nat      -- counted from `off`
  deriving Repr, DecidableEq

/-- the nil slice -/
def Slice.nil : Slice := ⟨0, 0, 0, 0⟩

def Heap.get (h : Heap) (s : Slice) (i : Nat) : Int := (h.getD s.arr []).getD (s.off + i) 0

def Heap.read (h : Heap) (s : Slice) : List Int := (List.range s.len).map (h.get s)

def Heap.setAt (h : Heap) (a i : Nat) (x : Int) : Heap := h.set a ((h.getD a []).set i x)

/-- a new array holding `xs`, with room for `cap` elements -/
def Heap.alloc (h : Heap) (xs : List Int) (cap : Nat) : Heap × Slice :=
  (h ++ [xs ++ List.replicate (cap - xs.length) 0], ⟨h.length, 0, xs.length, max cap xs.length⟩)

/-- s[a:b] — same array, the capacity reaches to the end of the original one -/
def Slice.sub (s : Slice) (a b : Nat) : Slice := ⟨s.arr, s.off + a, b - a, s.cap - a⟩

/-- append(s, x) -/
def append1 (h : Heap) (s : Slice) (x : Int) : Heap × Slice :=
  if s.len < s.cap then (h.setAt s.arr (s.off + s.len) x, { s with len := s.len + 1 })
  else h.alloc (h.read s ++ [x]) (2 * s.cap + 1)

/-- append(s, xs...) -/
def appendAll (h : Heap) (s : Slice) : List Int → Heap × Slice
  | [] => (h, s)
  | x :: xs => appendAll (append1 h s x).1 (append1 h s x).2 xs

/-- the loop of interList (util.go): `fuel` bounds the iterations by len(l1)+len(l2) -/
def interLoop (l1 l2 : Slice) : Nat → Heap → Slice → Nat → Nat → Heap × Slice
  | 0, h, l3, _, _ => (h, l3)
  | fuel + 1, h, l3, i, j =>
    if i < l1.len ∧ j < l2.len then
      if h.get l1 i = h.get l2 j then
        interLoop l1 l2 fuel (append1 h l3 (h.get l1 i)).1 (append1 h l3 (h.get l1 i)).2 (i + 1) (j + 1)
      else if h.get l1 i < h.get l2 j then interLoop l1 l2 fuel h l3 (i + 1) j
      else interLoop l1 l2 fuel h l3 i (j + 1)
    else (h, l3)

/-- util.go interList -/
def interList (h : Heap) (l1 l2 : Slice) : Heap × Slice :=
  if l1.len = 0 ∨ l2.len = 0 then h.alloc [] 0
  else interLoop l1 l2 (l1.len + l2.len) (h.alloc [] (l1.len + l2.len)).1 (h.alloc [] (l1.len + l2.len)).2 0 0

/-- the loop of unionList; returns the indexes reached as well -/
def unionLoop (l1 l2 : Slice) : Nat → Heap → Slice → Nat → Nat → Heap × Slice × Nat × Nat
  | 0, h, l3, i, j => (h, l3, i, j)
  | fuel + 1, h, l3, i, j =>
    if i < l1.len ∧ j < l2.len then
      if h.get l1 i < h.get l2 j then
        unionLoop l1 l2 fuel (append1 h l3 (h.get l1 i)).1 (append1 h l3 (h.get l1 i)).2 (i + 1) j
      else if h.get l1 i > h.get l2 j then
        unionLoop l1 l2 fuel (append1 h l3 (h.get l2 j)).1 (append1 h l3 (h.get l2 j)).2 i (j + 1)
      else
        unionLoop l1 l2 fuel (append1 h l3 (h.get l1 i)).1 (append1 h l3 (h.get l1 i)).2 (i + 1) (j + 1)
    else (h, l3, i, j)

/-- util.go unionList: an empty argument hands the other one back as it is -/
def unionList (h : Heap) (l1 l2 : Slice) : Heap × Slice :=
  if l1.len = 0 then (h, l2)
  else if l2.len = 0 then (h, l1)
  else
    let a := h.alloc [] (l1.len + l2.len)
    let r := unionLoop l1 l2 (l1.len + l2.len) a.1 a.2 0 0
    if r.2.2.1 ≠ l1.len then appendAll r.1 r.2.1 (r.1.read (l1.sub r.2.2.1 l1.len))
    else if r.2.2.2 ≠ l2.len then appendAll r.1 r.2.1 (r.1.read (l2.sub r.2.2.2 l2.len))
    else (r.1, r.2.1)

/-- position of the first element equal to `v` -/
def Heap.find (h : Heap) (s : Slice) (v : Int) : Option Nat := (h.read s).idxOf? v

/-- util.go makeLeList / makeGeList / makeLtList / makeGtList: windows of the list they are given -/
def makeLeList (h : Heap) (v : Int) (s : Slice) : Slice :=
  match h.find s v with | some k => s.sub 0 (k + 1) | none => Slice.nil
def makeGeList (h : Heap) (v : Int) (s : Slice) : Slice :=
  match h.find s v with | some k => s.sub k s.len | none => Slice.nil
def makeLtList (h : Heap) (v : Int) (s : Slice) : Slice :=
  match h.find s v with | some k => s.sub 0 k | none => Slice.nil
def makeGtList (h : Heap) (v : Int) (s : Slice) : Slice :=
  match h.find s v with | some k => s.sub (k + 1) s.len | none => Slice.nil

/-- what a routing step combines the route result with -/
inductive Arg
  | whole                       -- rule.GetSubTableIndexes()
  | le (v : Int) | ge (v : Int) | lt (v : Int) | gt (v : Int)   -- makeXxList(v, rule.GetSubTableIndexes())
  | window (a b : Nat)          -- any window of the rule's list (makeBetweenList …)
  | fresh (xs : List Int)       -- []int{idx}, makeList(a, b), the sorted indexes of an IN list: a new array
  deriving Repr

inductive Op
  | inter (a : Arg)      -- RouteResult.Inter
  | union (a : Arg)      -- RouteResult.Union
  deriving Repr

def evalArg (h : Heap) (rule : Slice) : Arg → Heap × Slice
  | .whole => (h, rule)
  | .le v => (h, makeLeList h v rule)
  | .ge v => (h, makeGeList h v rule)
  | .lt v => (h, makeLtList h v rule)
  | .gt v => (h, makeGtList h v rule)
  | .window a b => (h, rule.sub a b)
  | .fresh xs => h.alloc xs xs.length

/-- one Inter / Union of the route result `idx` of a statement on the table of `rule` -/
def stepOp (h : Heap) (rule idx : Slice) : Op → Heap × Slice
  | .inter a => interList (evalArg h rule a).1 idx (evalArg h rule a).2
  | .union a => unionList (evalArg h rule a).1 idx (evalArg h rule a).2

/-- the route result of a statement: it starts as the rule's own list (checkStmtRouteResult) -/
def runOps (h : Heap) (rule : Slice) : Slice → List Op → Heap × Slice
  | idx, [] => (h, idx)
  | idx, op :: ops => runOps (stepOp h rule idx op).1 rule (stepOp h rule idx op).2 ops

/-- the arrays that existed (the first `n`) are what they were -/
def Frame (n : Nat) (h h' : Heap) : Prop := h.length ≤ h'.length ∧ ∀ a, a < n → h'.getD a [] = h.getD a []

end GaeaVerif.SliceAlias
