import GaeaVerif.Model.Merge
import GaeaVerif.Model.MergeLead
/-
  C02: the decidable class of statements covered by the theorems of
  Props/C02.lean (definitions only, so that the driver can report which
  generated statements fall into it).  Core Lean only.
-/
namespace GaeaVerif.Merge

/-- the aggregate functions the proofs cover: DISTINCT only with MAX / MIN, SUM only of numeric columns -/
def Item.aggOK (schema : List Ty) : Item → Bool
  | .agg k none d => k == .count && !d
  | .agg k (some c) d =>
    (!d || k == .max || k == .min) && (match schema[c]? with
      | some t => !(k == .sum && t == .str)
      | none => false)
  | _ => true

def aggPosFrom : Nat → List Item → List (Nat × AggKind)
  | _, [] => []
  | i, .agg k _ _ :: r => (i, k) :: aggPosFrom (i + 1) r
  | i, .col _ :: r => aggPosFrom (i + 1) r
  | i, .const _ :: r => aggPosFrom (i + 1) r

/-- positions and kinds of the aggregate items of a select list, ascending -/
def aggPositions (items : List Item) : List (Nat × AggKind) := aggPosFrom 0 items

/-- the number of extra leading positions of the merged rows (`deltaColumnCount`) -/
def planDelta (p : Plan) (cq' : CQ) : Int := (cq'.items.length : Int) - (p.columnCount : Int)

/-- the item at a (shifted) column of the shard select list -/
def itemAt (items : List Item) (c : Int) : Option Item := if 0 ≤ c then items[c.toNat]? else none

def sortCols (p : Plan) (cq' : CQ) : List Int := p.orderByColumn.map (· + planDelta p cq')
def groupCols' (p : Plan) (cq' : CQ) : List Int := p.groupByColumn.map (· + planDelta p cq')

def planOK (schema : List Ty) (p : Plan) (cq cq' : CQ) : Bool :=
  decide (cq.items.length ≤ cq'.items.length) &&
  decide (cq'.items.take cq.items.length = cq.items) &&
  decide (cq'.keys = cq.keys) &&
  decide (cq'.group = cq.group) &&
  decide (cq'.distinct = cq.distinct) &&
  decide (p.distinct = cq.distinct) &&
  decide (p.hasGroupBy = cq.group.isSome) &&
  decide (p.orderByDirections = cq.dirs) &&
  decide ((sortCols p cq').map (itemAt cq'.items) = cq.keys.map fun k => some k.1) &&
  (match cq.group with
    | none => true
    | some g => decide ((groupCols' p cq').map (itemAt cq'.items) = g.map fun c => some (Item.col c))) &&
  decide ((p.originColumnCount : Int) + planDelta p cq' = cq.items.length) &&
  decide (p.aggs = aggPositions cq'.items) &&
  cq'.items.all (fun it => it.aggOK schema) &&
  (match cq.limit with
    | none => decide (p.count = -1) && decide (cq'.limit = none)
    | some (o, c) => decide (p.offset = o) && decide (p.count = c) &&
        (decide (cq'.limit = some (0, o + c)) || decide (cq'.limit = none)))

/-- every ORDER BY expression is one of the selected expressions -/
def keysSelected (cq : CQ) : Bool := cq.keys.all fun k => cq.items.contains k.1

/-- every hidden column of the per-table statement repeats a selected expression -/
def hiddenSelected (cq cq' : CQ) : Bool := (cq'.items.drop cq.items.length).all fun it => cq.items.contains it

/-- the class of statements the merge theorems cover (besides the plan invariant):
    projections (SELECT DISTINCT: hidden columns only as copies of selected ones);
    aggregate functions without GROUP BY (with or without DISTINCT); GROUP BY
    without the per-table LIMIT, or with it when ORDER BY starts with all GROUP BY
    columns; SELECT DISTINCT over GROUP BY when ORDER BY names selected expressions only -/
def classOK (p : Plan) (cq cq' : CQ) : Bool :=
  if !cq.aggregated then
    !cq'.aggregated && (!cq.distinct || hiddenSelected cq cq')
  else match cq.group with
    | none => cq'.aggregated && cq'.items.any Item.isAgg && cq'.items.all Item.isAgg &&
              decide (p.originColumnCount = cq.items.length)
    | some g =>
      (decide (cq'.limit = none) || leadCovers g cq.keys) && (!cq.distinct || keysSelected cq)

/-- **The supported class** (decidable): the statement compiles; if it has to
    be merged from several sub-tables (or none), the planner's rewriting
    satisfies the plan invariant and the statement is of one of the proved
    shapes.  A statement the planner rejects is supported (it is only
    executed when it is routed to one sub-table, unchanged). -/
def Supported (schema : List Ty) (q : Query) : Bool :=
  match compile schema q with
  | none => false
  | some cq =>
    match rewrite q with
    | .ok p =>
      match compile schema p.shardQ with
      | some cq' => planOK schema p cq cq' && classOK p cq cq'
      | none => false
    | _ => true

end GaeaVerif.Merge
