import GaeaVerif.Model.ShardLayout
/-
  Model of the planning of statements that involve only global tables (C04):

  proxy/plan/plan.go          postHandleGlobalTableRouteResultInQuery (one random
                              copy), postHandleGlobalTableRouteResultInModify
                              (every copy), generateShardingSQLs, and
                              getSettedRuleFromTable / GetSettedRuleFromColumnInfo
                              (which qualified column names get a decorator)
  proxy/plan/plan_insert.go   generateGlobalShardingSQLs
  proxy/plan/plan_select.go   the places where HandleSelectStmt installs
                              decorators; createSelectFieldFromByItem and
                              handleExtraFieldList (fields appended for
                              GROUP BY / ORDER BY columns)
  proxy/plan/plan_update.go, plan_delete.go   the same for UPDATE / DELETE
  proxy/plan/decorator_table_name.go, decorator_column_name.go   Restore
                              (in Model/ShardLayout.lean)
  proxy/router/rule.go, router.go   layout of a global rule (Model/ShardLayout.lean)

  A statement is its *name skeleton*: the table and column names in text
  order, each with the syntactic position it occurs in.  The position decides
  whether the planner wraps the name in a decorator (whose `Restore` rewrites
  the database name) or leaves it as written.  Core Lean only.
-/
namespace GaeaVerif.Global
open GaeaVerif GaeaVerif.Layout

/-- where a name occurs -/
inductive Pos where
  /-- table reference of FROM / JOIN / UPDATE / DELETE FROM / INSERT INTO
      (`rewriteTableNameInTableSource`, `handleInsertTableRefs`): `TableNameDecorator` -/
  | tableRef
  /-- column anywhere inside a select field (`handleFieldList`: `ColumnNameRewriteVisitor`) -/
  | selField
  /-- `t.*` / `db.t.*` in the field list (`WildCardField`: never visited) -/
  | selWildcard
  /-- column that is an operand of `= != < <= > >=`, IN or BETWEEN in WHERE / ON
      (`NeedCreateColumnNameExprDecoratorInCondition`, the IN / BETWEEN decorators) -/
  | condOperand
  /-- column below any other root of a condition (LIKE, IS NULL, NOT …): the
      `default` branch of `handleComparisonExpr` runs the rewrite visitor, whose
      panic nobody recovers -/
  | condOther
  /-- column inside a function call or arithmetic that is compared with a value
      (`abs(c) = 1`): `handleBinaryOperationExprMathCompare` returns the
      expression untouched -/
  | condNested
  /-- ORDER BY / GROUP BY item (`createSelectFieldFromByItem`,
      `handleUpdateOrderBy`, `handleDeleteOrderBy`) -/
  | byItem
  /-- UPDATE … SET column (`handleUpdateAssignmentList`: looked up, then the
      qualifiers are removed) -/
  | setColumn
  /-- column in the value of an UPDATE assignment: not visited -/
  | setValue
  /-- column list / SET column / ON DUPLICATE KEY UPDATE column of an INSERT into
      a global table (`removeInsertColumnQualifiers`: the qualifiers are removed;
      before the `fix:` commit 116abc1 the name was left as written) -/
  | insColumn
  /-- the select field appended for a GROUP BY / ORDER BY column
      (`createSelectFieldFromByItem` keeps the undecorated `columnExpr` for it) -/
  | byAppended
  deriving DecidableEq, Repr

structure Name where
  pos : Pos
  /-- schema qualifier as written ("" if none) -/
  schema : String
  /-- table reference: the table name; column: the table qualifier ("" if none; may be an alias) -/
  table : String
  /-- column name (`*` for a wildcard field, "" for a table reference) -/
  name : String
  /-- alias of a table reference ("" if none) -/
  alias : String
  /-- `selField`: the column is the whole field expression -/
  whole : Bool
  deriving DecidableEq, Repr

inductive StmtKind where
  | select | update | delete | insert
  deriving DecidableEq, Repr

/-- the names of a statement: text order is `fields ++ from ++ tail` (the
    planner handles `from` before `fields`) -/
structure Stmt where
  kind : StmtKind
  /-- SELECT: the names of the field list -/
  fields : List Name
  /-- the table references (with the names of JOIN … ON conditions) -/
  «from» : List Name
  /-- everything after: SET, WHERE, GROUP BY, ORDER BY, column list … -/
  tail : List Name
  deriving DecidableEq, Repr

/-- what the plan knows after the table references were handled -/
structure Env where
  /-- `router.ValidDBInRules` -/
  validDBs : List String
  /-- `globalTableRules` / `tableAlias`: name, alias and rule of every table reference -/
  tables : List (String × String × Rule)
  deriving Repr

/-- `getSettedRuleFromTable`: the rule a table qualifier stands for (table name
    first, then alias) -/
def lookupTable (tables : List (String × String × Rule)) (q : String) : Option Rule :=
  match tables.find? (fun t => t.1 == q) with
  | some t => some t.2.2
  | none =>
    match tables.find? (fun t => t.2.1 != "" && t.2.1 == q) with
    | some t => some t.2.2
    | none => none

/-- outcome of looking a column name up -/
inductive Lookup where
  /-- no qualifier (and no sharded table in the statement): left as written -/
  | plain
  | rule (r : Rule)
  /-- "db … not found in router" / "rule not found" -/
  | error
  deriving Repr

/-- `GetSettedRuleFromColumnInfo` for a statement whose tables are all global -/
def resolve (env : Env) (n : Name) : Lookup :=
  if n.schema = "" ∧ n.table = "" then .plain
  else if n.schema ≠ "" ∧ ¬ env.validDBs.contains n.schema then .error
  else
    match lookupTable env.tables n.table with
    | some r => .rule r
    | none => .error

/-- a name printed as written -/
def plainChain (n : Name) : Chain :=
  (if n.schema = "" then [] else [n.schema]) ++ (if n.table = "" then [] else [n.table]) ++ [n.name]

/-- What `Restore` prints for one name when the statement is rendered for table
    index `i`.  `fail` = the planner returned an error when it met the name,
    `panic` = it panicked. -/
def restoreName (pinned : Bool) (env : Env) (n : Name) (i : Int) : R (List Chain) :=
  match n.pos with
  | .tableRef =>
    match lookupTable env.tables n.table with
    | some r => restoreTableName r n.schema n.table n.alias i
    | none => .fail
  | .selWildcard => .ok [plainChain n]
  | .condNested => .ok [plainChain n]
  | .setValue => .ok [plainChain n]
  | .insColumn => if pinned then .ok [plainChain n] else .ok [[n.name]]
  | .byAppended => .ok [plainChain n]
  | .setColumn =>
    match resolve env n with
    | .error => .fail
    | _ => .ok [[n.name]]
  | _ =>   -- selField, condOperand, condOther, byItem
    match resolve env n with
    | .plain => .ok [plainChain n]
    | .rule r => (restoreColumnName r n.schema n.table n.name false i).bind fun c => .ok [c]
    | .error => .fail

/-- the planning pass over one name: does looking it up fail, and how -/
def checkName (env : Env) (n : Name) : R Unit :=
  match n.pos with
  | .selField | .condOperand | .byItem | .setColumn =>
    match resolve env n with
    | .error => .fail
    | _ => .ok ()
  | .condOther =>
    match resolve env n with
    | .error => .panic
    | _ => .ok ()
  | _ => .ok ()

/-- the planning pass: the first name (in the planner's order) that cannot be
    looked up decides between error and panic -/
def checkNames (env : Env) : List Name → R Unit
  | [] => .ok ()
  | n :: ns =>
    match checkName env n with
    | .ok () => checkNames env ns
    | .fail => .fail
    | .panic => .panic

/-- `handleExtraFieldList`: a field appended for a GROUP BY / ORDER BY column is
    dropped again when the select list has that column as a plain, unqualified
    field of its own -/
def hasPlainField (fields : List Name) (c : String) : Bool :=
  fields.any fun f => f.pos == .selField && f.whole && f.schema == "" && f.table == "" && f.name == c

/-- `handleGroupBy` / `handleOrderBy` + `handleExtraFieldList`: the fields
    appended to the select list, printed as written (`createSelectFieldFromByItem`
    keeps the undecorated `columnExpr` for the field) -/
def appendedFields (s : Stmt) : List Name :=
  if s.kind = .select then
    (s.tail.filter fun n => n.pos == .byItem && !hasPlainField s.fields n.name).map
      fun n => { n with pos := .byAppended }
  else []

/-- the names in text order, appended fields included -/
def textNames (s : Stmt) : List Name := s.fields ++ appendedFields s ++ s.«from» ++ s.tail

def restoreAll (pinned : Bool) (env : Env) : List Name → Int → R (List Chain)
  | [], _ => .ok []
  | n :: ns, i =>
    match restoreName pinned env n i with
    | .ok cs =>
      match restoreAll pinned env ns i with
      | .ok rest => .ok (cs ++ rest)
      | .fail => .fail
      | .panic => .panic
    | .fail => .fail
    | .panic => .panic

/-- the table references of the statement with their rules (`rules[k]` is the
    rule of the k-th table reference) -/
def mkEnv (validDBs : List String) (rules : List Rule) (s : Stmt) : Env :=
  { validDBs := validDBs,
    tables := ((s.«from».filter fun n => n.pos == .tableRef).zip rules).map fun (n, r) => (n.table, n.alias, r) }

/-- `postHandleGlobalTableRouteResultInQuery` (a SELECT goes to the table index
    `rand.Intn(tableLen)`; `rand.Intn(0)` panics) and
    `postHandleGlobalTableRouteResultInModify` / `generateGlobalShardingSQLs`
    (a write goes to every table index of the rule) -/
def globalRouteIndexes (kind : StmtKind) (r : Rule) (pick : Nat) : R (List Int) :=
  if kind = .select then
    if r.idxs.length = 0 then .panic else .ok [((pick % r.idxs.length : Nat) : Int)]
  else .ok r.idxs

/-- the order in which the planner meets the names: table references (with ON
    conditions) first, then the field list, then the rest -/
def planOrder (s : Stmt) : List Name := s.«from» ++ s.fields ++ s.tail

/-- Planning of a statement over global tables only.
    `pinned`: the planner before the `fix:` commit 116abc1;
    `first`: which of the statement's global tables the `for … range
    p.globalTableRules { …; break }` loop happens to pick; `pick`: the value of
    `rand.Intn(tableLen)`. -/
def planGlobal (pinned : Bool) (validDBs : List String) (rules : List Rule) (s : Stmt) (first pick : Nat) :
    R (List (Target (List Chain))) :=
  let env := mkEnv validDBs rules s
  match checkNames env (planOrder s) with
  | .fail => .fail
  | .panic => .panic
  | .ok () =>
    match rules[first]? with
    | none => .fail
    | some r =>
      match globalRouteIndexes s.kind r pick with
      | .ok is => generateShardingSQLs r (restoreAll pinned env (textNames s)) is
      | .fail => .fail
      | .panic => .panic

end GaeaVerif.Global
