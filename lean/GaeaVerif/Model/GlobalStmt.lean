import GaeaVerif.Model.ShardLayout
/-
  Model of the planning of statements that involve only global tables (C04):

  proxy/plan/plan.go          postHandleGlobalTableRouteResultInQuery (one random
                              copy), postHandleGlobalTableRouteResultInModify
                              (every copy), generateShardingSQLs, and
                              getSettedRuleFromTable / GetSettedRuleFromColumnInfo
                              (which qualified column names get a decorator)
  proxy/plan/plan_insert.go   generateGlobalShardingSQLs
  proxy/plan/plan_select.go   the places where HandleSelectStmt installs
                              decorators (handleFieldList with the wildcard
                              fields, handleComparisonExpr and callees with
                              rewriteColumnNamesInExpr); createSelectFieldFromByItem
                              and handleExtraFieldList (fields appended for
                              GROUP BY / ORDER BY columns)
  proxy/plan/plan_update.go, plan_delete.go   the same for UPDATE / DELETE
                              (handleUpdateAssignmentList: column and value)
  proxy/plan/decorator_table_name.go, decorator_column_name.go,
  decorator_wildcard_field.go   Restore (in Model/ShardLayout.lean)
  proxy/router/rule.go, router.go   layout of a global rule (Model/ShardLayout.lean)

  A statement is its *name skeleton*: the table and column names in text
  order, each with the syntactic position it occurs in.  The position decides
  whether the planner wraps the name in a decorator (whose `Restore` rewrites
  the database name) or leaves it as written.  Core Lean only.
-/
namespace GaeaVerif.Global
open GaeaVerif GaeaVerif.Layout

/-- where a name occurs -/
inductive Pos where
  /-- table reference of FROM / JOIN / UPDATE / DELETE FROM / INSERT INTO
      (`rewriteTableNameInTableSource`, `handleInsertTableRefs`): `TableNameDecorator` -/
  | tableRef
  /-- column anywhere inside a select field (`handleFieldList`: `ColumnNameRewriteVisitor`) -/
  | selField
  /-- `t.*` / `db.t.*` in the field list (`handleFieldList`:
      `WildCardFieldDecorator`, looked up and written like a column; before the
      `fix:` commit 81799b0 the `WildCardField` was never visited) -/
  | selWildcard
  /-- column that is an operand of `= != < <= > >=`, IN or BETWEEN in WHERE / ON
      (`NeedCreateColumnNameExprDecoratorInCondition`, the IN / BETWEEN decorators) -/
  | condOperand
  /-- column below any other root of a condition (LIKE, IS NULL, NOT …): the
      `default` branch of `handleComparisonExpr` runs the rewrite visitor; a
      column it cannot look up is an error (before the `fix:` commit 706cba5 a
      panic nobody recovered) -/
  | condOther
  /-- a column that is itself a condition (`WHERE flag`, `a = 1 AND flag`): the
      `default` branch of `handleComparisonExpr` puts the node the visitor returns
      in its place (before the `fix:` commit 706cba5 the column was looked up, the
      decorator thrown away) -/
  | condRoot
  /-- column inside a function call or arithmetic that is compared (`abs(c) = 1`):
      `handleBinaryOperationExprMathCompare` runs `rewriteColumnNamesInExpr` on
      the operand (the rewrite visitor; its panic is returned as an error);
      before the `fix:` commit 98a59c2 the expression was returned untouched -/
  | condNested
  /-- column below an operand, not itself a column or a literal, of another
      binary operator at the root of a condition (arithmetic, XOR, `<=>`):
      `handleBinaryOperationExprOther` runs `rewriteColumnNamesInExpr` on it
      (untouched before the `fix:` commit 5569888) -/
  | condBinopNested
  /-- column in the value list of `column IN (…)` (`handlePatternInExpr`:
      `rewriteColumnNamesInExpr`; untouched before the `fix:` commit 159d8de) -/
  | condInItem
  /-- column anywhere in `expr IN (…)` whose left side is not a column (same commit) -/
  | condInNested
  /-- column in a bound of BETWEEN (`handleBetweenExpr`: `rewriteColumnNamesInExpr`;
      untouched before the `fix:` commit 4d9baa7) -/
  | condBetweenBound
  /-- column in the left side, not itself a column, of BETWEEN (same commit) -/
  | condBetweenNested
  /-- column in HAVING (`handleHaving`: the rewrite visitor, its panic recovered) -/
  | having
  /-- ORDER BY / GROUP BY item (`createSelectFieldFromByItem`,
      `handleUpdateOrderBy`, `handleDeleteOrderBy`) -/
  | byItem
  /-- UPDATE … SET column (`handleUpdateAssignmentList`: looked up, then the
      qualifiers are removed) -/
  | setColumn
  /-- column in the value of an UPDATE assignment
      (`handleUpdateAssignmentList`: `rewriteColumnNamesInExpr`; not visited
      before the `fix:` commit 5e2a917) -/
  | setValue
  /-- column list / SET column / ON DUPLICATE KEY UPDATE column of an INSERT into
      a global table (`removeInsertColumnQualifiers`: the qualifiers are removed;
      before the `fix:` commit 116abc1 the name was left as written) -/
  | insColumn
  /-- the select field appended for a GROUP BY / ORDER BY column
      (`createSelectFieldFromByItem`: the decorator of the item itself; before
      the `fix:` commit 646f58e the undecorated `columnExpr`) -/
  | byAppended
  /-- column below an aggregate function that is a GROUP BY / ORDER BY item of a
      SELECT (`createSelectFieldFromByItem`: `rewriteColumnNamesInExpr`; used as
      written before the `fix:` commit 983b024) -/
  | byExpr
  /-- the same column in the select field appended for that item (the field is
      the item's expression) -/
  | byExprAppended
  /-- column in a value of an INSERT into a global table (VALUES rows, SET and
      ON DUPLICATE KEY UPDATE values; `removeInsertColumnQualifiers`: the
      qualifiers are removed; left as written before the `fix:` commit 25a2427) -/
  | insValue
  deriving DecidableEq, Repr

structure Name where
  pos : Pos
  /-- schema qualifier as written ("" if none) -/
  schema : String
  /-- table reference: the table name; column: the table qualifier ("" if none; may be an alias) -/
  table : String
  /-- column name (`*` for a wildcard field, "" for a table reference) -/
  name : String
  /-- alias of a table reference ("" if none) -/
  alias : String
  /-- `selField`: the column is the whole field expression -/
  whole : Bool
  deriving DecidableEq, Repr

inductive StmtKind where
  | select | update | delete | insert
  deriving DecidableEq, Repr

/-- the names of a statement: text order is `fields ++ from ++ tail` (the
    planner handles `from` before `fields`) -/
structure Stmt where
  kind : StmtKind
  /-- SELECT: the names of the field list -/
  fields : List Name
  /-- the table references (with the names of JOIN … ON conditions) -/
  «from» : List Name
  /-- everything after: SET, WHERE, GROUP BY, ORDER BY, column list … -/
  tail : List Name
  deriving DecidableEq, Repr

/-- what the plan knows after the table references were handled -/
structure Env where
  /-- `router.ValidDBInRules` -/
  validDBs : List String
  /-- `StmtInfo.db`: the session's current database ("" if none) -/
  sess : String
  /-- `globalTableRules` / `tableAlias`: name, alias and rule of every table reference -/
  tables : List (String × String × Rule)
  deriving Repr

/-- `getSettedRuleFromTable`: the rule a table qualifier stands for (table name
    first, then alias) -/
def lookupTable (tables : List (String × String × Rule)) (q : String) : Option Rule :=
  match tables.find? (fun t => t.1 == q) with
  | some t => some t.2.2
  | none =>
    match tables.find? (fun t => t.2.1 != "" && t.2.1 == q) with
    | some t => some t.2.2
    | none => none

/-- outcome of looking a column name up -/
inductive Lookup where
  /-- no qualifier (and no sharded table in the statement): left as written -/
  | plain
  | rule (r : Rule)
  /-- "db … not found in router" / "rule not found" -/
  | error
  deriving Repr

/-- `GetSettedRuleFromColumnInfo` for a statement whose tables are all global
    (`checkAndGetDB`: a schema qualifier must be a database of the router; without
    one a session database must be selected) -/
def resolve (env : Env) (n : Name) : Lookup :=
  if n.schema = "" ∧ n.table = "" then .plain
  else if n.schema ≠ "" ∧ ¬ env.validDBs.contains n.schema then .error
  else if n.schema = "" ∧ env.sess = "" then .error
  else
    match lookupTable env.tables n.table with
    | some r => .rule r
    | none => .error

/-- a name printed as written -/
def plainChain (n : Name) : Chain :=
  (if n.schema = "" then [] else [n.schema]) ++ (if n.table = "" then [] else [n.table]) ++ [n.name]

/-- positions the planner left as written, without looking the name up, before
    the `fix:` commits 81799b0 (wildcard field), 98a59c2 (nested condition column),
    5e2a917 (SET value), 646f58e (appended field), 5569888 (other binary
    operators), 159d8de (IN), 4d9baa7 (BETWEEN), 983b024 (aggregate by-item) -/
def pinnedUntouched : Pos → Bool
  | .selWildcard | .condNested | .setValue | .byAppended | .condBinopNested | .condInItem | .condInNested
  | .condBetweenBound | .condBetweenNested | .byExpr | .byExprAppended => true
  | _ => false

/-- What `Restore` prints for one name when the statement is rendered for table
    index `i`.  `fail` = the planner returned an error when it met the name,
    `panic` = it panicked.
    `pinned`: the planner before the `fix:` commits 116abc1 (insert columns),
    25a2427 (insert values), 706cba5 (condition root column) and those of
    `pinnedUntouched`: those positions were printed as written. -/
def restoreName (pinned : Bool) (env : Env) (n : Name) (i : Int) : R (List Chain) :=
  match n.pos with
  | .tableRef =>
    match lookupTable env.tables n.table with
    | some r => restoreTableName r n.schema n.table n.alias i
    | none => .fail
  | .insColumn | .insValue => if pinned then .ok [plainChain n] else .ok [[n.name]]
  | .setColumn =>
    match resolve env n with
    | .error => .fail
    | _ => .ok [[n.name]]
  | p =>   -- every other position holds a column (or wildcard) that is looked up and decorated
    if pinned ∧ (pinnedUntouched p ∨ p = .condRoot) then .ok [plainChain n]
    else
      match resolve env n with
      | .plain => .ok [plainChain n]
      | .rule r => (restoreColumnName r n.schema n.table n.name false i).bind fun c => .ok [c]
      | .error => .fail

/-- the planning pass over one name: does looking it up fail, and how.
    (`byAppended` / `byExprAppended` names are not in the planner's order: the
    appended field is the expression of its by-item.) -/
def checkName (pinned : Bool) (env : Env) (n : Name) : R Unit :=
  match n.pos with
  | .tableRef | .insColumn | .insValue | .byAppended | .byExprAppended => .ok ()
  | .condOther | .condRoot =>
    match resolve env n with
    | .error => if pinned then .panic else .fail
    | _ => .ok ()
  | p =>
    if pinned ∧ pinnedUntouched p then .ok () else
    match resolve env n with
    | .error => .fail
    | _ => .ok ()

/-- the planning pass: the first name (in the planner's order) that cannot be
    looked up decides between error and panic -/
def checkNames (pinned : Bool) (env : Env) : List Name → R Unit
  | [] => .ok ()
  | n :: ns =>
    match checkName pinned env n with
    | .ok () => checkNames pinned env ns
    | .fail => .fail
    | .panic => .panic

/-- `handleExtraFieldList`: a field appended for a GROUP BY / ORDER BY column is
    dropped again when the select list has that column as a plain, unqualified
    field of its own -/
def hasPlainField (fields : List Name) (c : String) : Bool :=
  fields.any fun f => f.pos == .selField && f.whole && f.schema == "" && f.table == "" && f.name == c

/-- `handleGroupBy` / `handleOrderBy` + `handleExtraFieldList`: the fields
    appended to the select list (`createSelectFieldFromByItem`: the field shares
    the decorator / the expression of the item; `handleExtraFieldList` looks
    through the decorator and drops a column the select list already has; an
    aggregate function is never dropped) -/
def appendedFields (s : Stmt) : List Name :=
  if s.kind = .select then
    (s.tail.filter fun n => (n.pos == .byItem && !hasPlainField s.fields n.name) || n.pos == .byExpr).map
      fun n => { n with pos := if n.pos == .byItem then .byAppended else .byExprAppended }
  else []

/-- the names in text order, appended fields included -/
def textNames (s : Stmt) : List Name := s.fields ++ appendedFields s ++ s.«from» ++ s.tail

def restoreAll (pinned : Bool) (env : Env) : List Name → Int → R (List Chain)
  | [], _ => .ok []
  | n :: ns, i =>
    match restoreName pinned env n i with
    | .ok cs =>
      match restoreAll pinned env ns i with
      | .ok rest => .ok (cs ++ rest)
      | .fail => .fail
      | .panic => .panic
    | .fail => .fail
    | .panic => .panic

/-- the table references of the statement with their rules (`rules[k]` is the
    rule of the k-th table reference) -/
def mkEnv (validDBs : List String) (sess : String) (rules : List Rule) (s : Stmt) : Env :=
  { validDBs := validDBs, sess := sess,
    tables := ((s.«from».filter fun n => n.pos == .tableRef).zip rules).map fun (n, r) => (n.table, n.alias, r) }

/-- `postHandleGlobalTableRouteResultInQuery` (a SELECT goes to the table index
    `rand.Intn(tableLen)`; `rand.Intn(0)` panics) and
    `postHandleGlobalTableRouteResultInModify` / `generateGlobalShardingSQLs`
    (a write goes to every table index of the rule) -/
def globalRouteIndexes (kind : StmtKind) (r : Rule) (pick : Nat) : R (List Int) :=
  if kind = .select then
    if r.idxs.length = 0 then .panic else .ok [((pick % r.idxs.length : Nat) : Int)]
  else .ok r.idxs

/-- the order in which the planner meets the names: table references (with ON
    conditions) first, then the field list, then the rest -/
def planOrder (s : Stmt) : List Name := s.«from» ++ s.fields ++ s.tail

/-- Planning of a statement over global tables only.
    `pinned`: the planner before the `fix:` commits listed at `restoreName`;
    `sess`: the session's current database;
    `first`: which of the statement's global tables the `for … range
    p.globalTableRules { …; break }` loop happens to pick; `pick`: the value of
    `rand.Intn(tableLen)`. -/
def planGlobal (pinned : Bool) (validDBs : List String) (sess : String) (rules : List Rule) (s : Stmt)
    (first pick : Nat) : R (List (Target (List Chain))) :=
  let env := mkEnv validDBs sess rules s
  match checkNames pinned env (planOrder s) with
  | .fail => .fail
  | .panic => .panic
  | .ok () =>
    match rules[first]? with
    | none => .fail
    | some r =>
      match globalRouteIndexes s.kind r pick with
      | .ok is => generateShardingSQLs r (restoreAll pinned env (textNames s)) is
      | .fail => .fail
      | .panic => .panic

end GaeaVerif.Global
