/-
  Model of the backend-connection bookkeeping of a client session (C18, C19,
  C23):

    proxy/server/executor.go         getBackendConn(s), getBackendNoKsConn, getBackendKsConn,
                                     getTransactionConn, recycleBackendConn, recycleContinueConn,
                                     forgetKsConn, recycleBackendConns, txConnLost, handleBegin,
                                     commit, rollback, rollbackSavepoint, handleSavepoint,
                                     handleKsQuit, ExecuteSQL, ExecuteSQLs, executeUnshardSQLInSlice,
                                     executeShardSQLInSlice / executeMultipleSQLInSlice,
                                     executeCompleteSQLInSlice, executeSingleSQLInSlice, handleShow,
                                     ExecuteCommand
    proxy/server/executor_handle.go  handleSetAutoCommit, handleKeepSessionPing, handleFieldList,
                                     doQuery (as far as it decides master/replica)
    proxy/server/session.go          Run (one iteration = one step), execCommand, writeResponse,
                                     clearKsConns, shouldClearKsAndCloseSession, Close
    backend/slice.go                 GetConn / getNormalConnection / handleSlaveWithFallback

  The backend is the `World`: a ledger of every connection ever handed out by
  a pool (closed? how many times returned? used after it was returned?
  returned while a statement was in flight? handed out while another
  connection of its slice was out?) and the trace of backend events
  of the current command.  `Ctx` carries what the code cannot control: the
  faults of the backend during this command and the order in which Go's map
  iteration visits the slices (theorems quantify over both).

  One `step` = one iteration of Session.Run (one client command, a client
  disconnect, or - between commands - a reload of the namespace).

  The model is the code as repaired by the fix commits caa28c2 (rollback
  recycles closed connections), 7a39468 (ping failure forgets the pinned
  connections), 3388583 (no connection is returned to the caller after a failed
  set-up), 75817c9 (forgetKsConn), 40b3331 (nsChangeIndexOld is refreshed once
  the stale connections are dropped), e307c15 (a statement timeout on the
  sharded path closes the connection), 5a42848 (a transaction that lost a
  connection keeps it until Session.Run closes the session after the response:
  txConnLost; this replaces recycleTx of c894770) and the keep-session repair
  (pinned connections are master connections for every user).
  Not modelled: prepared statements, multi-statements, EXPLAIN plans, a reload
  of the namespace during a command.
  Core Lean only.
-/
namespace GaeaVerif.SessionConns

/-! ## Inputs -/

/-- read/write-splitting user, write user without splitting, read-only user -/
inductive User where
  | rw | w | r
  deriving DecidableEq, Repr

structure Cfg where
  /-- namespace `set_for_keep_session` -/
  ks : Bool
  user : User
  /-- `fallback_to_master_on_slave_fail` -/
  fb : Bool
  deriving DecidableEq, Repr

/-- kinds of backend calls a fault can hit -/
inductive FK where
  | gm | gs | u | x | s | b | c | r | a | y | p | f | m | n
  deriving DecidableEq, Repr

inductive Mode where
  /-- the call returns an error -/
  | e
  /-- (statements) no answer until the connection is closed -/
  | t
  /-- (statements) the result is streamed: more rows are pending -/
  | more
  /-- (statements) a further result follows (SERVER_MORE_RESULTS_EXISTS: a stored
      procedure call, a multi-statement), no rows pending -/
  | mres
  /-- the call returns an error and the connection is found closed afterwards
      (DirectConnection: broken pipe, the reconnect attempts fail) -/
  | z
  deriving DecidableEq, Repr

structure Fault where
  k : FK
  slice : Nat
  mode : Mode
  deriving DecidableEq, Repr

/-- plain read, read with master hint, locking read, write -/
inductive QK where
  | r | h | l | w
  deriving DecidableEq, Repr

inductive Body where
  | qu (k : QK)
  | qs (k : QK) (slices : List Nat)
  | show | fl | begin | commit | rollback
  | ac (v : Bool)
  | sp (n : Nat) | rel (n : Nat) | rbt (n : Nat)
  | ping | quit | disc | nsc
  deriving DecidableEq, Repr

structure Op where
  body : Body
  /-- order in which map iteration visits slices during this command -/
  ord : List Nat
  faults : List Fault
  deriving Repr

structure Ctx where
  cfg : Cfg
  ord : List Nat
  faults : List Fault

/-! ## The backend world -/

inductive CK where
  | U | X | S | B | C | R | A0 | A1 | Y | P | F | M | N
  deriving DecidableEq, Repr

def CK.fk : CK → FK
  | .U => .u | .X => .x | .S => .s | .B => .b | .C => .c | .R => .r
  | .A0 => .a | .A1 => .a | .Y => .y | .P => .p | .F => .f | .M => .m | .N => .n

inductive Res where
  | ok | e | t | more | mres | z
  deriving DecidableEq, Repr

def Res.isOk : Res → Bool
  | .ok => true
  | .more => true
  | .mres => true
  | _ => false

inductive Event where
  | get (master : Bool) (slice : Nat) (conn : Option Nat)
  | call (k : CK) (conn : Nat) (r : Res)
  | close (conn : Nat)
  | recycle (conn : Nat)
  deriving DecidableEq, Repr

structure Conn where
  slice : Nat
  master : Bool
  closed : Bool := false
  /-- how many times it was given back to its pool -/
  returns : Nat := 0
  /-- rows of a streamed result are pending -/
  more : Bool := false
  /-- a further result is pending (`MoreResultsExist`) -/
  moreRes : Bool := false
  /-- a statement was sent and its answer has not been read -/
  inflight : Bool := false
  /-- a backend call (or close) happened after it was given back -/
  uar : Bool := false
  /-- it was given back while a statement was in flight -/
  rif : Bool := false
  /-- it was handed out while another connection of the same slice was still out -/
  dup : Bool := false
  deriving DecidableEq, Repr

structure World where
  conns : List Conn := []
  /-- events of the current command, newest first -/
  trace : List Event := []
  deriving Repr

def fault (ctx : Ctx) (k : FK) (slice : Nat) : Option Mode :=
  (ctx.faults.find? fun f => f.k == k && f.slice == slice).map (·.mode)

def World.emit (e : Event) (w : World) : World := { w with trace := e :: w.trace }

/-- `ConnectionPool.Get` of the master / replica pool of a slice: a new connection, or an error. -/
def poolGet (ctx : Ctx) (master : Bool) (slice : Nat) (w : World) : World × Option Nat :=
  if fault ctx (if master then .gm else .gs) slice = some .e then
    (w.emit (.get master slice none), none)
  else
    let id := w.conns.length
    let dup := w.conns.any fun c => c.slice == slice && c.returns == 0
    let w' : World := { w with conns := w.conns ++ [({ slice := slice, master := master, dup := dup } : Conn)] }
    (w'.emit (.get master slice (some id)), some id)

/-- outcome of a backend call: an error on a closed connection, else what the faults say -/
def callRes (ctx : Ctx) (k : CK) (c : Conn) : Res :=
  if c.closed then .e else
  match fault ctx k.fk c.slice with
  | some .e => .e
  | some .t => if k = .X then .t else .ok
  | some .more => if k = .X then .more else .ok
  | some .mres => if k = .X then .mres else .ok
  | some .z => .z
  | none => .ok

def Conn.afterCall (k : CK) (r : Res) (c : Conn) : Conn :=
  { c with
    uar := c.uar || decide (c.returns > 0)
    inflight := if r = .z then false else c.inflight || (r == .t)
    closed := c.closed || (r == .z)
    more := if k = .X ∧ r = .more then true else if k = .M ∧ r = .ok then false else c.more
    moreRes := if k = .X ∧ r = .mres then true else if k = .N ∧ r = .ok then false else c.moreRes }

/-- one backend call on connection `id` -/
def call (ctx : Ctx) (k : CK) (id : Nat) (w : World) : World × Res :=
  match w.conns[id]? with
  | none => (w, .e)
  | some c =>
    let r := callRes ctx k c
    let w' : World := { w with conns := w.conns.set id (c.afterCall k r) }
    (w'.emit (.call k id r), r)

def Conn.afterClose (c : Conn) : Conn :=
  { c with closed := true, inflight := false, uar := c.uar || decide (c.returns > 0) }

/-- `PooledConnect.Close` -/
def close (id : Nat) (w : World) : World :=
  match w.conns[id]? with
  | none => w
  | some c => World.emit (.close id) { w with conns := w.conns.set id c.afterClose }

/-- `pooledConnectImpl.Recycle`: the slot goes back to the pool; a connection
    with pending rows or results is closed first. -/
def Conn.afterRecycle (c : Conn) : Conn :=
  { c with
    returns := c.returns + 1
    rif := c.rif || c.inflight
    closed := c.closed || c.more || c.moreRes
    inflight := if c.more || c.moreRes then false else c.inflight }

def recycle (id : Nat) (w : World) : World :=
  match w.conns[id]? with
  | none => w
  | some c => World.emit (.recycle id) { w with conns := w.conns.set id c.afterRecycle }

def isClosed (id : Nat) (w : World) : Bool :=
  match w.conns[id]? with
  | some c => c.closed
  | none => false

/-- `MoreRowsExist()` -/
def moreRows (id : Nat) (w : World) : Bool :=
  match w.conns[id]? with
  | some c => c.more
  | none => false

/-- `MoreResultsExist()` -/
def moreResults (id : Nat) (w : World) : Bool :=
  match w.conns[id]? with
  | some c => c.moreRes
  | none => false

/-- `MoreRowsExist() || MoreResultsExist()` -/
def morePending (id : Nat) (w : World) : Bool := moreRows id w || moreResults id w

/-- backend/slice.go `GetConn` for a normal user: `getconnectionMode`,
    `handleDirectMaster`, `handleSlaveWithFallback`, `handleSlaveStrict` -/
def sliceGetConn (ctx : Ctx) (fromSlave : Bool) (slice : Nat) (w : World) : World × Option Nat :=
  if !fromSlave then poolGet ctx true slice w
  else if ctx.cfg.fb then
    match poolGet ctx false slice w with
    | (w, some c) => (w, some c)
    | (w, none) => poolGet ctx true slice w
  else poolGet ctx false slice w

/-- `for _, pc := range conns { body }` where the body may report success or
    failure of its backend call (`none`: nothing to report); `merge` is how the
    loop accumulates them (`and`: any failure is remembered, `last`: the last
    report decides, as in `err = pc.Rollback()`). -/
def eachConn (body : Nat → World → World × Option Bool) (merge : Bool → Bool → Bool) :
    List Nat → World × Bool → World × Bool
  | [], p => p
  | c :: cs, (w, ok) =>
    match body c w with
    | (w', some r) => eachConn body merge cs (w', merge ok r)
    | (w', none) => eachConn body merge cs (w', ok)

def mergeAnd (old new : Bool) : Bool := old && new
def mergeLast (_old new : Bool) : Bool := new

/-- `ksConn.Close(); ksConn.Recycle()` -/
def closeRecycle (c : Nat) (w : World) : World := recycle c (close c w)

/-! ## Go maps keyed by slice -/

abbrev CMap := List (Nat × Nat)

def CMap.get? (m : CMap) (k : Nat) : Option Nat :=
  match m with
  | [] => none
  | (k', v) :: rest => if k' = k then some v else CMap.get? rest k

def CMap.put (m : CMap) (k v : Nat) : CMap := m.filter (fun e => e.1 != k) ++ [(k, v)]

def CMap.vals (m : CMap) : List Nat := m.map (·.2)

/-- position of a slice in the visiting order (slices not mentioned come last) -/
def rank (ord : List Nat) (k : Nat) : Nat := ord.idxOf k

def insertBy (key : Nat → Nat) (e : Nat × Nat) : CMap → CMap
  | [] => [e]
  | x :: xs => if key e.1 < key x.1 then e :: x :: xs else x :: insertBy key e xs

/-- stable insertion sort of the entries by `key` of the slice -/
def sortBy (key : Nat → Nat) (m : CMap) : CMap := m.foldr (insertBy key) []

/-- `for k, v := range m` under the visiting order `ord` -/
def iterOrder (ord : List Nat) (m : CMap) : CMap := sortBy (rank ord) m

/-- entries by ascending slice (canonical order of events of parallel workers) -/
def bySlice (m : CMap) : CMap := sortBy id m

/-! ## The session -/

structure St where
  /-- `status & ServerStatusAutocommit` -/
  autocommit : Bool := true
  /-- `status & ServerStatusInTrans` -/
  inTrans : Bool := false
  txConns : CMap := []
  ksConns : CMap := []
  continueConn : Option Nat := none
  savepoints : List Nat := []
  closed : Bool := false
  /-- `nsChangeIndexOld`, change index of the context namespace, of the manager's current namespace -/
  nsOld : Nat := 0
  nsCtx : Nat := 0
  nsCur : Nat := 0
  w : World := {}
  deriving Repr

def St.isInTransaction (s : St) : Bool := s.inTrans || !s.autocommit

/-- closes and recycles connections one after the other -/
def closeRecycleAll (cs : List Nat) (w : World) : World :=
  cs.foldl (fun w c => closeRecycle c w) w

/-- session.go `clearKsConns(nsChangeIndexOld)` -/
def clearKsConns (ctx : Ctx) (s : St) : St :=
  if ctx.cfg.ks && decide (s.nsCur > s.nsOld) && !s.isInTransaction then
    { s with w := closeRecycleAll (iterOrder ctx.ord s.ksConns).vals s.w, ksConns := [] }
  else s

/-- session.go `shouldClearKsAndCloseSession(nsChangeIndexOld)` -/
def shouldClear (ctx : Ctx) (s : St) : Bool :=
  ctx.cfg.ks && s.isInTransaction && decide (s.nsCtx > s.nsOld)

/-- `getTransactionConn` -/
def getTransactionConn (ctx : Ctx) (slice : Nat) (s : St) : St × Option Nat × Bool :=
  match s.txConns.get? slice with
  | some c => (s, some c, false)
  | none =>
    match poolGet ctx true slice s.w with
    | (w, none) => ({ s with w := w }, none, true)
    | (w, some c) =>
      let (w, r) := call ctx .Y c w
      if !r.isOk then ({ s with w := recycle c (close c w) }, none, true) else
      let (w, r) := if s.autocommit then call ctx .B c w else call ctx .A0 c w
      if !r.isOk then ({ s with w := recycle c (close c w) }, none, true) else
      let w := s.savepoints.foldl (fun w _ => (call ctx .S c w).1) w
      ({ s with w := w, txConns := s.txConns.put slice c }, some c, false)

/-- `getBackendKsConn` -/
def getBackendKsConn (ctx : Ctx) (slice : Nat) (s : St) : St × Option Nat × Bool :=
  match s.ksConns.get? slice with
  | some c => (s, some c, false)
  | none =>
    match sliceGetConn ctx false slice s.w with
    | (w, none) => ({ s with w := w }, none, true)
    | (w, some c) =>
      let (w, r) := if !s.autocommit then call ctx .A0 c w else (w, .ok)
      if !r.isOk then ({ s with w := recycle c (close c w) }, none, true) else
      let (w, r) := if s.isInTransaction then call ctx .B c w else (w, .ok)
      if !r.isOk then ({ s with w := recycle c (close c w) }, none, true) else
      ({ s with w := w, ksConns := s.ksConns.put slice c }, some c, false)

/-- `getBackendNoKsConn` -/
def getBackendNoKsConn (ctx : Ctx) (fromSlave : Bool) (slice : Nat) (s : St) : St × Option Nat × Bool :=
  if !s.isInTransaction then
    match sliceGetConn ctx fromSlave slice s.w with
    | (w, none) => ({ s with w := w }, none, true)
    | (w, some c) => ({ s with w := w }, some c, false)
  else getTransactionConn ctx slice s

/-- `getBackendConn` -/
def getBackendConn (ctx : Ctx) (fromSlave : Bool) (slice : Nat) (s : St) : St × Option Nat × Bool :=
  if ctx.cfg.ks then getBackendKsConn ctx slice s else getBackendNoKsConn ctx fromSlave slice s

/-- `forgetKsConn` -/
def forgetKsConn (c : Nat) (s : St) : St := { s with ksConns := s.ksConns.filter (fun e => e.2 != c) }

/-- `recycleBackendConn`: a closed connection of an open transaction stays with
    the session (which `Session.Run` closes after the response, see `txConnLost`) -/
def recycleBackendConn (ctx : Ctx) (pc : Option Nat) (s : St) : St :=
  match pc with
  | none => s
  | some c =>
    if isClosed c s.w then
      if s.isInTransaction then s else
      let s := forgetKsConn c s
      { s with w := recycle c s.w }
    else if s.continueConn.isSome && morePending c s.w then s
    else if ctx.cfg.ks then clearKsConns ctx s
    else if s.isInTransaction then s
    else { s with w := recycle c s.w }

/-- `recycleContinueConn` -/
def recycleContinueConn (ctx : Ctx) (pc : Option Nat) (s : St) : St :=
  match pc with
  | none => s
  | some c =>
    if isClosed c s.w then
      if s.isInTransaction then s else
      let s := forgetKsConn c s
      { s with w := recycle c s.w }
    else if ctx.cfg.ks then clearKsConns ctx s
    else if s.isInTransaction then s
    else { s with w := recycle c s.w }

/-- `executeSingleSQLInSlice`: `initBackendConn` (USE db; charset and session
    variables cause no backend call here), then the statement -/
def executeSingleSQLInSlice (ctx : Ctx) (c : Nat) (w : World) : World × Res :=
  let (w, r) := call ctx .U c w
  if !r.isOk then (w, .e) else call ctx .X c w

/-- `executeUnshardSQLInSlice`: on a statement timeout the connection is closed -/
def executeUnshardSQLInSlice (ctx : Ctx) (c : Nat) (w : World) : World × Res :=
  let (w, r) := executeSingleSQLInSlice ctx c w
  if r = .t then (close c w, .e) else (w, r)

/-- `ExecuteSQL`; the Boolean tells success.  `GetConnectionID` on a closed
    connection panics; the panic is recovered in handleQuery after the deferred
    recycleBackendConn ran. -/
def executeSQL (ctx : Ctx) (fromSlave : Bool) (slice : Nat) (s : St) : St × Bool :=
  let (s, pc, err) := getBackendConn ctx fromSlave slice s
  if err then (recycleBackendConn ctx pc s, false) else
  match pc with
  | none => (s, false)
  | some c =>
    if isClosed c s.w then (recycleBackendConn ctx (some c) s, false) else
    let (w, r) := executeUnshardSQLInSlice ctx c s.w
    let s := { s with w := w }
    if !r.isOk then (recycleBackendConn ctx (some c) s, false) else
    let s := if morePending c s.w then { s with continueConn := some c } else s
    (recycleBackendConn ctx (some c) s, true)

inductive Got where
  | ok | err | panic
  deriving DecidableEq, Repr

/-- `getBackendConns`: slices in visiting order -/
def getBackendConns (ctx : Ctx) (fromSlave : Bool) : List Nat → St → CMap → St × CMap × Got
  | [], s, pcs => (s, pcs, .ok)
  | sl :: rest, s, pcs =>
    match getBackendConn ctx fromSlave sl s with
    | (s, _, true) => (s, pcs, .err)
    | (s, none, false) => (s, pcs, .err)
    | (s, some c, false) =>
      if isClosed c s.w then (s, pcs, .panic) else
      getBackendConns ctx fromSlave rest s (pcs.put sl c)

/-- `executeCompleteSQLInSlice`: the statement; then, when it answered with a
    result set (`rs`: a read) and the connection has rows pending
    (`MoreRowsExist`: of this result, or left over from an earlier one whose
    fetch failed), they are fetched into the same result (the fake answers one
    `FetchMoreRows`, after which nothing is pending) -/
def executeCompleteSQLInSlice (ctx : Ctx) (rs : Bool) (c : Nat) (w : World) : World × Res :=
  let (w, r) := executeSingleSQLInSlice ctx c w
  if r.isOk && rs && moreRows c w then
    let (w, r) := call ctx .M c w
    (w, if r.isOk then .ok else .e)
  else (w, r)

/-- `executeMultipleSQLInSlice` (one statement): on a statement timeout the
    connection is closed, as in `executeUnshardSQLInSlice` -/
def executeMultipleSQLInSlice (ctx : Ctx) (rs : Bool) (c : Nat) (w : World) : World × Res :=
  let (w, r) := executeCompleteSQLInSlice ctx rs c w
  if r = .t then (close c w, .e) else (w, r)

/-- `executeShardSQLInSlice`: one statement per slice, the slices in parallel;
    canonical order of the events: by slice. -/
def execShard (ctx : Ctx) (rs : Bool) : List Nat → World → World × Bool
  | [], w => (w, true)
  | c :: cs, w =>
    let (w, r) := executeMultipleSQLInSlice ctx rs c w
    let (w, ok) := execShard ctx rs cs w
    (w, r.isOk && ok)

/-- `recycleBackendConns(pcs, false)` -/
def recycleBackendConns (ctx : Ctx) (pcs : CMap) (s : St) : St :=
  if s.isInTransaction || ctx.cfg.ks then s
  else { s with w := (iterOrder ctx.ord pcs).vals.foldl (fun w c => recycle c w) s.w }

def dedup : List Nat → List Nat
  | [] => []
  | x :: xs => if xs.contains x then dedup xs else x :: dedup xs

/-- `ExecuteSQLs` (`rs`: the statements answer with result sets) -/
def executeSQLs (ctx : Ctx) (fromSlave : Bool) (rs : Bool) (slices : List Nat) (s : St) : St × Bool :=
  if slices.isEmpty then (s, false) else
  let keys := (iterOrder ctx.ord ((dedup slices).map fun k => (k, 0))).map (·.1)
  match getBackendConns ctx fromSlave keys s [] with
  | (s, _, .panic) => (s, false)
  | (s, pcs, .err) => (recycleBackendConns ctx pcs s, false)
  | (s, pcs, .ok) =>
    let (w, ok) := execShard ctx rs (bySlice pcs).vals s.w
    (recycleBackendConns ctx pcs { s with w := w }, ok)

/-- early-exit loop of `handleBegin` -/
def beginAll (ctx : Ctx) : List Nat → World → World × Bool
  | [], w => (w, true)
  | c :: cs, w =>
    let (w, r) := call ctx .B c w
    if r.isOk then beginAll ctx cs w else (w, false)

/-- `handleBegin` -/
def handleBegin (ctx : Ctx) (s : St) : St × Bool :=
  let (w, ok) := beginAll ctx (iterOrder ctx.ord s.txConns).vals s.w
  if !ok then ({ s with w := w }, false) else
  let (w, ok) := beginAll ctx (iterOrder ctx.ord s.ksConns).vals w
  if !ok then ({ s with w := w }, false) else
  ({ s with w := w, inTrans := true, savepoints := [] }, true)

def commitTx (ctx : Ctx) (c : Nat) (w : World) : World × Option Bool :=
  let (w, r) := call ctx .C c w
  (recycle c w, some r.isOk)

def commitKs (ctx : Ctx) (c : Nat) (w : World) : World × Option Bool :=
  let (w, r) := call ctx .C c w
  (w, some r.isOk)

/-- `commit` -/
def commit (ctx : Ctx) (s : St) : St × Bool :=
  let p := eachConn (commitTx ctx) mergeAnd (iterOrder ctx.ord s.txConns).vals (s.w, true)
  let p := eachConn (commitKs ctx) mergeAnd (iterOrder ctx.ord s.ksConns).vals p
  ({ s with inTrans := false, w := p.1, txConns := [], savepoints := [] }, p.2)

def rollbackTx (ctx : Ctx) (c : Nat) (w : World) : World × Option Bool :=
  if isClosed c w then (recycle c w, none) else
  let (w, r) := call ctx .R c w
  (recycle c w, some r.isOk)

def rollbackKs (ctx : Ctx) (c : Nat) (w : World) : World × Option Bool :=
  if isClosed c w then (w, none) else
  let (w, r) := call ctx .R c w
  (w, some r.isOk)

/-- `rollback`: `err = pc.Rollback()`, the last call decides -/
def rollback (ctx : Ctx) (s : St) : St × Bool :=
  let p := eachConn (rollbackTx ctx) mergeLast (iterOrder ctx.ord s.txConns).vals (s.w, true)
  let p := eachConn (rollbackKs ctx) mergeLast (iterOrder ctx.ord s.ksConns).vals p
  ({ s with inTrans := false, w := p.1, txConns := [], savepoints := [] }, p.2)

def savepointOn (ctx : Ctx) (c : Nat) (w : World) : World × Option Bool :=
  let (w, r) := call ctx .S c w
  (w, some r.isOk)

/-- `_, err = pc.Execute(savepoint statement)` over connections, the last call decides -/
def savepointAll (ctx : Ctx) (cs : List Nat) (p : World × Bool) : World × Bool :=
  eachConn (savepointOn ctx) mergeLast cs p

/-- `rollbackSavepoint` -/
def rollbackSavepoint (ctx : Ctx) (n : Nat) (s : St) : St × Bool :=
  let p := savepointAll ctx (iterOrder ctx.ord s.txConns).vals (s.w, true)
  let (w, ok) := savepointAll ctx (iterOrder ctx.ord s.ksConns).vals p
  let s := { s with w := w }
  if ok && s.isInTransaction && s.savepoints.contains n then
    ({ s with savepoints := s.savepoints.take (s.savepoints.idxOf n) }, ok)
  else (s, ok)

/-- `handleSavepoint` (release = false / true) -/
def handleSavepoint (ctx : Ctx) (release : Bool) (n : Nat) (s : St) : St × Bool :=
  let (w, ok) := savepointAll ctx (iterOrder ctx.ord s.txConns).vals (s.w, true)
  let s := { s with w := w }
  if ok && s.isInTransaction then
    if release then
      if s.savepoints.contains n then ({ s with savepoints := s.savepoints.take (s.savepoints.idxOf n + 1) }, ok)
      else (s, ok)
    else ({ s with savepoints := s.savepoints.filter (fun x => x != n) ++ [n] }, ok)
  else (s, ok)

def autocommitOnTx (ctx : Ctx) (c : Nat) (w : World) : World × Option Bool :=
  let (w, r) := call ctx .A1 c w
  (recycle c w, some r.isOk)

def autocommitOnKs (ctx : Ctx) (c : Nat) (w : World) : World × Option Bool :=
  let (w, r) := call ctx .A1 c w
  (w, some r.isOk)

def autocommitOffKs (ctx : Ctx) (c : Nat) (w : World) : World × Option Bool :=
  let (w, r) := call ctx .A0 c w
  (w, some r.isOk)

/-- `handleSetAutoCommit` -/
def handleSetAutoCommit (ctx : Ctx) (v : Bool) (s : St) : St × Bool :=
  if v then
    let p := eachConn (autocommitOnTx ctx) mergeAnd (iterOrder ctx.ord s.txConns).vals (s.w, true)
    let p := eachConn (autocommitOnKs ctx) mergeAnd (iterOrder ctx.ord s.ksConns).vals p
    ({ s with autocommit := true, inTrans := false, w := p.1, txConns := [] }, p.2)
  else
    let p := eachConn (autocommitOffKs ctx) mergeAnd (iterOrder ctx.ord s.ksConns).vals (s.w, true)
    ({ s with autocommit := false, w := p.1 }, p.2)

/-- first loop of `handleKeepSessionPing`: stops at, and closes, the first connection whose ping fails -/
def pingAll (ctx : Ctx) : List Nat → World → World × Bool
  | [], w => (w, true)
  | c :: cs, w =>
    let (w, r) := call ctx .P c w
    if r.isOk then pingAll ctx cs w else (close c w, false)

/-- body of the second loop of `handleKeepSessionPing` -/
def pingDrop (inTx : Bool) (c : Nat) (w : World) : World :=
  recycle c (if inTx then close c w else w)

/-- `handleKeepSessionPing` (false = mysql.ErrBadConn) -/
def handleKeepSessionPing (ctx : Ctx) (s : St) : St × Bool :=
  let (w, ok) := pingAll ctx (iterOrder ctx.ord s.ksConns).vals s.w
  if ok then ({ s with w := w }, true) else
  let w := (iterOrder ctx.ord s.ksConns).vals.foldl (fun w c => pingDrop s.isInTransaction c w) w
  ({ s with w := w, ksConns := [] }, false)

/-- `handleKsQuit` -/
def handleKsQuit (ctx : Ctx) (s : St) : St :=
  { s with w := closeRecycleAll (iterOrder ctx.ord s.ksConns).vals s.w, ksConns := [] }

/-- `Session.Close` -/
def sessionClose (ctx : Ctx) (s : St) : St :=
  if s.closed then s else
  handleKsQuit ctx (rollback ctx { s with closed := true }).1

/-- `checkExecuteFromSlave` on the statements of the menu (check_select_lock = true) -/
def checkExecuteFromSlave (user : User) (k : QK) : Bool :=
  match k with
  | .w => false
  | _ =>
    match user with
    | .r => true
    | .w => false
    | .rw => k == .r

/-- what the client is answered: OK, error, a result set, nothing, or an error
    that closes the session without an answer (mysql.ErrBadConn) -/
inductive Resp where
  | ok | err | res | none | badconn
  deriving DecidableEq, Repr

/-- `handleFieldList` -/
def handleFieldList (ctx : Ctx) (s : St) : St × Bool :=
  match getBackendConn ctx (ctx.cfg.user != .w) 0 s with
  | (s, _, true) => (s, false)
  | (s, none, false) => (s, false)
  | (s, some c, false) =>
    let (w, r) := call ctx .U c s.w
    if !r.isOk then (recycleBackendConn ctx (some c) { s with w := w }, false) else
    let (w, r) := call ctx .F c w
    (recycleBackendConn ctx (some c) { s with w := w }, r.isOk)

/-- `ExecuteCommand` (ComQuery / ComPing / ComFieldList / ComQuit) down to the plans' ExecuteIn -/
def executeCommand (ctx : Ctx) (b : Body) (s : St) : St × Resp :=
  let yes (r : Resp) (p : St × Bool) : St × Resp := (p.1, if p.2 then r else .err)
  match b with
  | .qu k =>
    if ctx.cfg.user == .r && k == .w then (s, .err) else
    yes (if k == .w then .ok else .res) (executeSQL ctx (checkExecuteFromSlave ctx.cfg.user k) 0 s)
  | .qs k slices =>
    if ctx.cfg.user == .r && k == .w then (s, .err) else
    yes (if k == .w then .ok else .res) (executeSQLs ctx (checkExecuteFromSlave ctx.cfg.user k) (k != .w) slices s)
  | .show => yes .res (executeSQL ctx (ctx.cfg.user != .w) 0 s)
  | .fl => yes .res (handleFieldList ctx s)
  | .begin => yes .ok (handleBegin ctx s)
  | .commit => yes .ok (commit ctx s)
  | .rollback => yes .ok (rollback ctx s)
  | .ac v => yes .ok (handleSetAutoCommit ctx v s)
  | .sp n => yes .ok (handleSavepoint ctx false n s)
  | .rel n => yes .ok (handleSavepoint ctx true n s)
  | .rbt n => yes .ok (rollbackSavepoint ctx n s)
  | .ping =>
    if ctx.cfg.ks then
      let (s, ok) := handleKeepSessionPing ctx s
      (s, if ok then .ok else .badconn)
    else (s, .ok)
  | .quit => ((rollback ctx s).1, .none)
  | .disc => (s, .none)
  | .nsc => (s, .none)

/-- `writeOKResultStream`: the pending rows are fetched (the fake answers one
    `FetchMoreRows`, after which no rows are pending); then, unless that failed,
    the further results are read (one `ReadMoreResult`, after which none is
    pending) -/
def streamRest (ctx : Ctx) (c : Nat) (w : World) : World :=
  let (w, ok) :=
    if moreRows c w then
      let (w, r) := call ctx .M c w
      (w, r.isOk)
    else (w, true)
  if ok && moreResults c w then (call ctx .N c w).1 else w

/-- the deferred function of `writeResponse`, first half (fix 7cb439b): a
    `continueConn` that still has rows or results pending after
    `writeOKResultStream` - the stream was given up - is closed, pinned or not -/
def closeGivenUp (c : Nat) (w : World) : World :=
  if morePending c w then close c w else w

/-- `writeResponse`: a result (`RespResult`, shown to the client as a result set
    or as OK) is streamed when `continueConn` is set (`streamRest`); afterwards
    (deferred) a connection whose stream was given up is closed (`closeGivenUp`;
    `continueConn` is only ever set together with a result response, see
    `executeCommand`, so the close is modelled on that branch), then
    `recycleContinueConn`.  The Boolean is false when the response
    could not be delivered (mysql.ErrBadConn: no packet). -/
def writeResponse (ctx : Ctx) (r : Resp) (s : St) : St × Bool :=
  let s :=
    match s.continueConn with
    | some c =>
      if r == .res || r == .ok then { s with w := closeGivenUp c (streamRest ctx c s.w) } else s
    | none => s
  let s := recycleContinueConn ctx s.continueConn s
  ({ s with continueConn := none }, r != .badconn)

/-- `SessionExecutor.txConnLost`: the open transaction holds a connection that is closed -/
def txConnLost (s : St) : Bool :=
  s.isInTransaction && (s.txConns.vals ++ s.ksConns.vals).any fun c => isClosed c s.w

/-- one iteration of `Session.Run` for a client command -/
def runCommand (ctx : Ctx) (b : Body) (s : St) : St × Resp :=
  let s := { s with nsCtx := s.nsCur }
  let s := clearKsConns ctx s
  let s := if !s.isInTransaction then { s with nsOld := s.nsCtx } else s
  let (s, r) := if shouldClear ctx s then (s, Resp.err) else executeCommand ctx b s
  let (s, delivered) := writeResponse ctx r s
  if !delivered then (sessionClose ctx (clearKsConns ctx s), .none) else
  let s := if b == .quit || shouldClear ctx s || txConnLost s then sessionClose ctx s else s
  ({ s with nsOld := s.nsCtx }, r)

/-- one step: a command, a disconnect, or a namespace reload between commands -/
def step (cfg : Cfg) (s : St) (op : Op) : St × Resp :=
  let ctx : Ctx := { cfg := cfg, ord := op.ord, faults := op.faults }
  let s := { s with w := { s.w with trace := [] } }
  if s.closed then (s, .none) else
  match op.body with
  | .nsc => ({ s with nsCur := s.nsCur + 1 }, .ok)
  | .disc => (sessionClose ctx (clearKsConns ctx s), .none)
  | b => runCommand ctx b s

def run (cfg : Cfg) (ops : List Op) : St := ops.foldl (fun s op => (step cfg s op).1) {}

end GaeaVerif.SessionConns
