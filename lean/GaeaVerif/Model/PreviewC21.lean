import GaeaVerif.Model.LexC17
import GaeaVerif.Model.UnicodeC21
import GaeaVerif.Model.StmtBind
/-
  Model for C21 (read-only users cannot change data or schema):
  `parser.Preview`, `parser.PreviewSpecialComment`, `StripLeadingComments`,
  `SplitMarginComments`, `PreviewMainStatement`, `withMainStatement`
  (/repo/parser/analyzer.go, comments.go) with the Go `strings`/`unicode`
  functions they use, and `isSQLNotAllowedByUser`, `checkSQLAllowed`, `doQuery`,
  `handleStmtExecute` with the binding of parameters (`Stmt.GetRewriteSQL`, from
  `Model/StmtBind`) (/repo/proxy/server/executor.go, executor_handle.go,
  executor_stmt.go).

  Modelled as of the repaired code (fix: commits "read-only users may not run
  REPLACE, DDL or LOAD DATA", "Preview ends the first word at any character that
  cannot continue a keyword", "StripLeadingComments also strips # comments",
  "the read-only check looks inside a leading /*! ... */ comment", "read-only
  users may not CALL stored procedures", "read-only users may not PREPARE or
  EXECUTE statements in the text protocol", "the read-only check follows WITH to
  the statement it leads to", "Preview skips the semicolons of empty statements in
  front of a statement", "Preview reads a byte that is no valid UTF-8 ... as the
  scanner of the grammar does", "a plan built from the parsed tree goes through
  the read-only check with the type of that tree").
  The keyword tables are parameters (`Tables`): the driver uses the hand-written
  `tables` below, the theorems use the tables the translator extracts from the
  source (`Gen.c21…`), and `Props/C21` proves the two equal.  Core Lean only.
-/
namespace GaeaVerif.PreviewC21
open GaeaVerif GaeaVerif.LexC17

/-! ### Go library functions -/

/-- `unicode.IsLetter` over a range table (lo, hi, stride). -/
def inRanges (tbl : List (Nat × Nat × Nat)) (r : Nat) : Bool :=
  tbl.any fun (lo, hi, st) => lo ≤ r && r ≤ hi && (r - lo) % st = 0

def isLetterU (r : Nat) : Bool := inRanges UnicodeC21.letterRanges r

/-- `b&0xC0 != 0x80` (`utf8.RuneStart`). -/
def runeStart (b : UInt8) : Bool := !(0x80 ≤ b.toNat && b.toNat ≤ 0xBF)

/-- `utf8.DecodeLastRuneInString`. -/
def decodeLastRune (s : Bytes) : Nat × Nat :=
  let n := s.length
  if n = 0 then (runeError, 0)
  else
    let last := s.getD (n - 1) 0
    if last.toNat < 0x80 then (last.toNat, 1)
    else
      let start :=
        match ([2, 3, 4].filter (· ≤ n)).find? (fun k => runeStart (s.getD (n - k) 0)) with
        | some k => n - k
        | none => if n ≤ 4 then 0 else n - 5
      let d := decodeRune (s.drop start)
      if start + d.2 ≠ n then (runeError, 1) else d

/-- `strings.TrimLeftFunc(s, f)`. -/
def trimLeftFunc (f : Nat → Bool) : Nat → Bytes → Bytes
  | 0, s => s
  | fuel + 1, s =>
    match s with
    | [] => []
    | _ :: _ =>
      let d := decodeRune s
      if f d.1 then trimLeftFunc f fuel (s.drop d.2) else s

/-- `strings.TrimRightFunc(s, f)`: runes are taken off the end while `f` holds. -/
def trimRightFunc (f : Nat → Bool) : Nat → Bytes → Bytes
  | 0, s => s
  | fuel + 1, s =>
    match s with
    | [] => []
    | _ :: _ =>
      let d := decodeLastRune s
      if f d.1 then trimRightFunc f fuel (s.take (s.length - d.2)) else s

/-- `strings.TrimFunc(s, f)`. -/
def trimFunc (f : Nat → Bool) (s : Bytes) : Bytes :=
  let l := trimLeftFunc f s.length s
  trimRightFunc f l.length l

/-- `strings.IndexFunc(s, f)` (`none` = -1). -/
def indexFunc (f : Nat → Bool) : Nat → Bytes → Option Nat
  | 0, _ => none
  | fuel + 1, s =>
    match s with
    | [] => none
    | _ :: _ =>
      let d := decodeRune s
      if f d.1 then some 0 else (indexFunc f fuel (s.drop d.2)).map (d.2 + ·)

/-- `strings.LastIndexFunc(s, f)`: start of the last rune satisfying `f`. -/
def lastIndexFunc (f : Nat → Bool) : Nat → Bytes → Option Nat
  | 0, _ => none
  | fuel + 1, s =>
    match s with
    | [] => none
    | _ :: _ =>
      let d := decodeLastRune s
      if f d.1 then some (s.length - d.2) else lastIndexFunc f fuel (s.take (s.length - d.2))

def isPrefixB (p s : Bytes) : Bool := s.take p.length == p

/-- `strings.Index(s, sub)` for a non-empty `sub`. -/
def indexSub (sub : Bytes) : Bytes → Option Nat
  | [] => none
  | s@(_ :: t) => if isPrefixB sub s then some 0 else (indexSub sub t).map (· + 1)

/-- `strings.LastIndex(s, sub)` for a non-empty `sub`. -/
def lastIndexSub (sub : Bytes) (s : Bytes) : Option Nat :=
  ((List.range (s.length + 1)).reverse.find? fun i => isPrefixB sub (s.drop i) && i + sub.length ≤ s.length)

/-- The runes of a string as `range s` yields them (invalid bytes give U+FFFD). -/
def runes : Nat → Bytes → List Nat
  | 0, _ => []
  | fuel + 1, s =>
    match s with
    | [] => []
    | _ :: _ => let d := decodeRune s; d.1 :: runes fuel (s.drop d.2)

/-- `unicode.ToLower`, exact wherever the result is an ASCII letter (the only
    runes ≥ 0x80 whose lower case is ASCII are U+0130 and U+212A, see
    `Gen.c21LowerToAscii`); other non-ASCII runes stay non-ASCII. -/
def lowerRune (r : Nat) : Nat :=
  if 0x41 ≤ r ∧ r ≤ 0x5A then r + 32 else if r = 0x130 then 0x69 else if r = 0x212A then 0x6B else r

/-- `strings.ToLower(s)` as code points. -/
def toLower (s : Bytes) : List Nat := (runes s.length s).map lowerRune

def cSlashStarBang : Bytes := [0x2F, 0x2A, 0x21]
def cStarSlash : Bytes := [0x2A, 0x2F]
def cSlashStar : Bytes := [0x2F, 0x2A]

/-! ### comments.go -/

def isNonSpace (r : Nat) : Bool := !isSpace r

/-- `hasCommentPrefix`. -/
def hasCommentPrefix (sql : Bytes) : Bool :=
  match sql with
  | a :: b :: _ =>
    (a.toNat = 0x2F && b.toNat = 0x2A) || (a.toNat = 0x2D && b.toNat = 0x2D) || a.toNat = 0x23
  | _ => false

/-- `len(sql) > 2 && sql[2] == '!'`. -/
def thirdIsBang (sql : Bytes) : Bool :=
  match sql with
  | _ :: _ :: c :: _ => c.toNat = 0x21
  | _ => false

/-- `r == ';' || unicode.IsSpace(r)`. -/
def isLeadBlank (r : Nat) : Bool := r = 0x3B || isSpace r

/-- The `for len(sql) > 0` loop of `trimLeadingBlanks`: a byte that is no valid
    UTF-8 is read as the character of that value (`peek` of the scanner). -/
def trimLeadLoop : Nat → Bytes → Bytes
  | 0, s => s
  | fuel + 1, s =>
    match s with
    | [] => []
    | _ :: _ =>
      let pk := peek s
      if isLeadBlank pk.1 then trimLeadLoop fuel (s.drop pk.2) else s

/-- `trimLeadingBlanks`: white space at both ends and, in front, the semicolons of empty statements. -/
def trimLeadingBlanks (s : Bytes) : Bytes :=
  let l := trimLeadLoop s.length s
  trimRightFunc isSpace l.length l

/-- The `for hasCommentPrefix(sql)` loop of `StripLeadingComments`. -/
def stripLoop : Nat → Bytes → Bytes
  | 0, sql => sql
  | fuel + 1, sql =>
    if hasCommentPrefix sql then
      match sql with
      | a :: _ =>
        if a.toNat = 0x2F then
          match indexSub cStarSlash (sql.drop 2) with
          | none => sql
          | some index =>
            if thirdIsBang sql then sql
            else stripLoop fuel (trimLeadingBlanks (sql.drop (index + 4)))
        else
          match indexSub [0x0A] sql with
          | none => []
          | some index => stripLoop fuel (trimLeadingBlanks (sql.drop (index + 1)))
      | [] => sql
    else sql

/-- `StripLeadingComments`. -/
def stripLeadingComments (sql : Bytes) : Bytes :=
  stripLoop (sql.length + 1) (trimLeadingBlanks sql)

/-- `leadingCommentEnd`. -/
def leadingCommentEndLoop (text : Bytes) : Nat → Nat → Bool → Nat × Bool
  | 0, pos, has => (pos, has)
  | fuel + 1, pos, has =>
    if pos < text.length then
      match indexFunc isNonSpace (text.length + 1) (text.drop pos) with
      | none => (pos, has)
      | some off =>
        let pos := pos + off
        let remaining := text.drop pos
        if remaining.length < 4 ∨ remaining.take 2 ≠ cSlashStar then (pos, has)
        else
          match indexSub cStarSlash (remaining.drop 2) with
          | none => (pos, has)
          | some i => leadingCommentEndLoop text fuel (pos + 4 + i) true
    else (pos, has)

def leadingCommentEnd (text : Bytes) : Nat :=
  let r := leadingCommentEndLoop text (text.length + 1) 0 false
  if r.2 then r.1 else 0

/-- `trailingCommentStart`. -/
def trailingCommentStartLoop (text : Bytes) : Nat → Nat → Bool → Nat × Bool
  | 0, reducedLen, has => (reducedLen, has)
  | fuel + 1, reducedLen, has =>
    if reducedLen > 0 then
      match lastIndexFunc isNonSpace (text.length + 1) (text.take reducedLen) with
      | none => (reducedLen, has)
      | some i =>
        let reducedLen := i + 1
        if reducedLen < 4 ∨ (text.take reducedLen).drop (reducedLen - 2) ≠ cStarSlash then (reducedLen, has)
        else
          match lastIndexSub cSlashStar (text.take (reducedLen - 2)) with
          | none => (reducedLen, has)
          | some start => trailingCommentStartLoop text fuel start true
    else (reducedLen, has)

def trailingCommentStart (text : Bytes) : Nat :=
  let r := trailingCommentStartLoop text (text.length + 1) text.length false
  if r.2 then r.1 else text.length

/-- The `query` result of `SplitMarginComments`. -/
def splitMarginQuery (sql : Bytes) : Bytes :=
  let trailingStart := trailingCommentStart sql
  let leadingEnd := leadingCommentEnd (sql.take trailingStart)
  trimFunc (fun c => isSpace c || c = 0x3B) ((sql.take trailingStart).drop leadingEnd)

/-! ### analyzer.go -/

/-- The keyword tables of `Preview` and the statement kinds the read-only check names. -/
structure Tables where
  sw1 : List (List Nat × Nat)   -- first `switch loweredFirstWord`
  sw2 : List (List Nat × Nat)   -- `switch strings.ToLower(trimmedNoComments)`
  sw3 : List (List Nat × Nat)   -- second `switch loweredFirstWord`
  unknown : Nat                  -- StmtUnknown
  comment : Nat                  -- StmtComment
  withK : Nat                    -- StmtWith
  notAllowed : List Nat          -- kinds isSQLNotAllowedByUser rejects for a read-only user
  deriving Repr

def lookup (tbl : List (List Nat × Nat)) (w : List Nat) : Option Nat :=
  (tbl.find? fun e => e.1 == w).map (·.2)

/-- `isWordEnd` of Preview: white space or a character that cannot continue a keyword. -/
def isWordEnd (r : Nat) : Bool := isSpace r || !isIdentChar r

/-- The first word `Preview` looks at. -/
def firstWord (trimmed : Bytes) : Bytes :=
  let fw := trimLeftFunc (fun r => !isLetterU r) trimmed.length trimmed
  match indexFunc isWordEnd (fw.length + 1) fw with
  | some e => fw.take e
  | none => fw

/-- `Preview` after `StripLeadingComments`. -/
def previewTrimmed (T : Tables) (trimmed : Bytes) : Nat :=
  if isPrefixB cSlashStarBang trimmed then T.comment
  else
    let lw := toLower (firstWord trimmed)
    match lookup T.sw1 lw with
    | some k => k
    | none =>
      match lookup T.sw2 (toLower (splitMarginQuery trimmed)) with
      | some k => k
      | none =>
        match lookup T.sw3 lw with
        | some k => k
        | none => T.unknown

/-- `parser.Preview`. -/
def preview (T : Tables) (sql : Bytes) : Nat := previewTrimmed T (stripLeadingComments sql)

/-- The loop of `PreviewSpecialComment`: drop `/*!`, the version number and the blanks after it. -/
def specialLoop : Nat → Bytes → Bytes
  | 0, t => t
  | fuel + 1, t =>
    if isPrefixB cSlashStarBang t then specialLoop fuel (stripLeadingComments (t.drop (specCodeStartLen t)))
    else t

/-- `parser.PreviewSpecialComment`. -/
def previewSpecialComment (T : Tables) (sql : Bytes) : Nat :=
  let t := stripLeadingComments sql
  preview T (specialLoop (t.length + 1) t)

/-! ### `withMainStatement` / `PreviewMainStatement` -/

/-- `isIdentByte`. -/
def isIdentByte (c : UInt8) : Bool :=
  isLetter c.toNat || isDigit c.toNat || c.toNat = 0x5F || c.toNat = 0x24 || decide (0x80 ≤ c.toNat)

/-- `c == ' ' || ('\t' <= c && c <= '\r')`. -/
def isWsByte (c : UInt8) : Bool := c.toNat = 0x20 || (0x09 ≤ c.toNat && c.toNat ≤ 0x0D)

/-- `sql[i+1] == '-' && (i+2 == len(sql) || sql[i+2] <= ' ' || sql[i+2] == 0x7f)` on the text after the first dash. -/
def dashComment (t : Bytes) : Bool :=
  match t with
  | d :: t' => d.toNat = 0x2D && (match t' with | x :: _ => decide (x.toNat ≤ 0x20) || x.toNat = 0x7F | [] => true)
  | [] => false

def startsStar (t : Bytes) : Bool := match t with | a :: _ => a.toNat = 0x2A | [] => false

def isQuoteByte (c : UInt8) : Bool := c.toNat = 0x27 || c.toNat = 0x22 || c.toNat = 0x60

/-- `word == 2 && sql[i]|0x20 == 'a' && sql[i+1]|0x20 == 's'`. -/
def isAsWord (word : Nat) (s : Bytes) : Bool :=
  word = 2 &&
  (match s with
   | a :: b :: _ => (a.toNat = 0x41 || a.toNat = 0x61) && (b.toNat = 0x53 || b.toNat = 0x73)
   | _ => false)

/-- The loop of `withMainStatement` on the unread text `sql[i:]` (the code never
    looks behind `i`); `none` = `ok == false`. -/
def withMainLoop : Nat → Nat → Bool → Bytes → Option Bytes
  | 0, _, _, _ => none
  | fuel + 1, depth, closed, s =>
    match s with
    | [] => none
    | c :: t =>
      if isWsByte c then withMainLoop fuel depth closed t
      else if c.toNat = 0x23 ∨ (c.toNat = 0x2D ∧ dashComment t = true) then
        match indexSub [0x0A] s with
        | none => none
        | some e => withMainLoop fuel depth closed (s.drop (e + 1))
      else if c.toNat = 0x2F ∧ startsStar t = true then
        let u := t.drop 1
        if isPrefixB [0x21] u || isPrefixB [0x4D, 0x21] u then none
        else
          match indexSub cStarSlash u with
          | none => none
          | some e => withMainLoop fuel depth closed (u.drop (e + 2))
      else
        let word := spanLen isIdentByte s
        if closed ∧ c.toNat ≠ 0x2C ∧ isAsWord word s = false then some s
        else if word > 0 then withMainLoop fuel depth false (s.drop word)
        else if isQuoteByte c then
          match indexSub [c] t with
          | none => none
          | some e =>
            if (t.take e).any (·.toNat = 0x5C) then none else withMainLoop fuel depth false (t.drop (e + 1))
        else if c.toNat = 0x28 then withMainLoop fuel (depth + 1) false t
        else if c.toNat = 0x29 then
          if depth = 0 then none else withMainLoop fuel (depth - 1) (decide (depth - 1 = 0)) t
        else withMainLoop fuel depth false t

/-- `withMainStatement`. -/
def withMainStatement (sql : Bytes) : Option Bytes := withMainLoop (sql.length + 1) 0 false sql

/-- `specCodeStart.ReplaceAllString(t, "")`: the anchored pattern only matches a text that starts with `/*!`. -/
def dropSpecCodeStart (t : Bytes) : Bytes :=
  if isPrefixB cSlashStarBang t then t.drop (specCodeStartLen t) else t

/-- The `for` loop of `PreviewMainStatement` (every round shortens the text). -/
def previewMainLoop (T : Tables) : Nat → Bytes → Nat
  | 0, sql => preview T sql
  | fuel + 1, sql =>
    let stmtType := preview T sql
    if stmtType = T.comment then previewMainLoop T fuel (dropSpecCodeStart (stripLeadingComments sql))
    else if stmtType = T.withK then
      let t := stripLeadingComments sql
      match withMainStatement (trimLeftFunc (fun r => !isLetterU r) t.length t) with
      | none => T.withK
      | some main => previewMainLoop T fuel main
    else stmtType

/-- `parser.PreviewMainStatement`. -/
def previewMainStatement (T : Tables) (sql : Bytes) : Nat := previewMainLoop T (sql.length + 1) sql

/-! ### proxy/server -/

/-- `isSQLNotAllowedByUser` (`allowWrite` = `Namespace.IsAllowWrite(user)`). -/
def isSQLNotAllowedByUser (T : Tables) (allowWrite : Bool) (stmtType : Nat) : Bool :=
  if allowWrite then false else T.notAllowed.contains stmtType

/-- `checkSQLAllowed` with an empty SQL blacklist: `true` = the read-only error is returned. -/
def checkSQLAllowed (T : Tables) (allowWrite : Bool) (sql : Bytes) : Bool :=
  let stmtType := preview T sql
  let checkedType := if stmtType = T.comment ∨ stmtType = T.withK then previewMainStatement T sql else stmtType
  isSQLNotAllowedByUser T allowWrite checkedType

/-- Outcome of `doQuery`: rejected by the read-only check before anything else
    happens, or handed on (to the plan builder and the backend, `rest`). -/
inductive QueryOut where
  | rejected
  | passed (ok : Bool)
  deriving DecidableEq, Repr

/-- `doQuery`: the check is its first statement; then `getPlan` builds the plan,
    either from the text (`planned sql = none`: the fast path forwards it, or the
    grammar does not parse it) or from the tree the parser builds, in which case
    the kind of that tree (`stmtTypeOfNode`, `planned sql = some kind`) goes
    through `isSQLNotAllowedByUser` as well.  `rest sql` stands for everything
    after that (plan, backend execution) and says whether that returned without
    error. -/
def doQuery (T : Tables) (allowWrite : Bool) (planned : Bytes → Option Nat) (rest : Bytes → Bool) (sql : Bytes) : QueryOut :=
  if checkSQLAllowed T allowWrite sql then .rejected
  else
    match planned sql with
    | some kind => if isSQLNotAllowedByUser T allowWrite kind then .rejected else .passed (rest sql)
    | none => .passed (rest sql)

def QueryOut.noError : QueryOut → Bool
  | .passed true => true
  | _ => false

/-- `handleQuery` (after the QPS limiter): trailing `;` trimmed, then
    `doMultiStmts` for a multi-statement client, `doQuery` otherwise.  The
    result is the list of (text, outcome) pairs of the `doQuery` calls made. -/
def handleQuery (T : Tables) (allowWrite multi : Bool) (planned : Bytes → Option Nat) (rest : Bytes → Bool) (sql : Bytes) :
    List (Bytes × QueryOut) :=
  let sql := trimRightSemi sql
  let dq := fun s => (doQuery T allowWrite planned rest s).noError
  if multi then
    (doMultiStmts dq sql).executed.map fun s => (s, doQuery T allowWrite planned rest s)
  else [(sql, doQuery T allowWrite planned rest sql)]

/-- `handleStmtExecute` for a prepared statement whose bound text is
    `executeSQL`: "execute sql using ComQuery". -/
def handleStmtExecute (T : Tables) (allowWrite multi : Bool) (planned : Bytes → Option Nat) (rest : Bytes → Bool)
    (executeSQL : Bytes) : List (Bytes × QueryOut) :=
  handleQuery T allowWrite multi planned rest executeSQL

/-- `handleStmtExecute` for a prepared statement with parameters: the text
    `GetRewriteSQL` makes of the statement's items and the bound arguments
    (`Model/StmtBind`) goes through `handleQuery`; an error of the rewriting is
    returned before anything is executed. -/
def handleStmtExecuteBound (T : Tables) (allowWrite multi : Bool) (planned : Bytes → Option Nat) (rest : Bytes → Bool)
    (nbe : Bool) (sqlItems : List Bytes) (args : List StmtBind.Arg) : Option (List (Bytes × QueryOut)) :=
  match StmtBind.getRewriteSQL nbe sqlItems args with
  | .ok executeSQL => some (handleQuery T allowWrite multi planned rest executeSQL)
  | _ => none

/-! ### the tables of the modelled source -/

/-- Code points of an ASCII word (used by the oracle; the tables below spell them out so that `decide` can evaluate). -/
def w (s : String) : List Nat := s.toList.map Char.toNat

/-- The tables as they are in the modelled source: select→0, stream→1, insert→2, replace→3, update→4, delete→5, savepoint→16, lock→21, unlock→22; begin→7, start transaction→7, commit→8, rollback→9; create→6, alter→6, rename→6, drop→6, truncate→6, flush→23, set→10, show→11, use→12, explain→18, analyze→13, describe→13, desc→13, repair→13, optimize→13, release→20, rollback→19, kill→31, load→32, call→24, prepare→28, execute→29, with→33;
    StmtUnknown = 14, StmtComment = 15, StmtWith = 33; rejected for read-only users: StmtDelete, StmtInsert, StmtUpdate,
    StmtReplace, StmtDDL, StmtLoad, StmtCallProc, StmtPrepare, StmtExecute, StmtWith. -/
def tables : Tables where
  sw1 := [
    ([115, 101, 108, 101, 99, 116], 0),
    ([115, 116, 114, 101, 97, 109], 1),
    ([105, 110, 115, 101, 114, 116], 2),
    ([114, 101, 112, 108, 97, 99, 101], 3),
    ([117, 112, 100, 97, 116, 101], 4),
    ([100, 101, 108, 101, 116, 101], 5),
    ([115, 97, 118, 101, 112, 111, 105, 110, 116], 16),
    ([108, 111, 99, 107], 21),
    ([117, 110, 108, 111, 99, 107], 22)]
  sw2 := [
    ([98, 101, 103, 105, 110], 7),
    ([115, 116, 97, 114, 116, 32, 116, 114, 97, 110, 115, 97, 99, 116, 105, 111, 110], 7),
    ([99, 111, 109, 109, 105, 116], 8),
    ([114, 111, 108, 108, 98, 97, 99, 107], 9)]
  sw3 := [
    ([99, 114, 101, 97, 116, 101], 6),
    ([97, 108, 116, 101, 114], 6),
    ([114, 101, 110, 97, 109, 101], 6),
    ([100, 114, 111, 112], 6),
    ([116, 114, 117, 110, 99, 97, 116, 101], 6),
    ([102, 108, 117, 115, 104], 23),
    ([115, 101, 116], 10),
    ([115, 104, 111, 119], 11),
    ([117, 115, 101], 12),
    ([101, 120, 112, 108, 97, 105, 110], 18),
    ([97, 110, 97, 108, 121, 122, 101], 13),
    ([100, 101, 115, 99, 114, 105, 98, 101], 13),
    ([100, 101, 115, 99], 13),
    ([114, 101, 112, 97, 105, 114], 13),
    ([111, 112, 116, 105, 109, 105, 122, 101], 13),
    ([114, 101, 108, 101, 97, 115, 101], 20),
    ([114, 111, 108, 108, 98, 97, 99, 107], 19),
    ([107, 105, 108, 108], 31),
    ([108, 111, 97, 100], 32),
    ([99, 97, 108, 108], 24),
    ([112, 114, 101, 112, 97, 114, 101], 28),
    ([101, 120, 101, 99, 117, 116, 101], 29),
    ([119, 105, 116, 104], 33)]
  unknown := 14
  comment := 15
  withK := 33
  notAllowed := [5, 2, 4, 3, 6, 32, 24, 28, 29, 33]

end GaeaVerif.PreviewC21
