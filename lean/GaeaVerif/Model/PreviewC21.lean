import GaeaVerif.Model.LexC17
import GaeaVerif.Model.UnicodeC21
/-
  Model for C21 (read-only users cannot change data or schema):
  `parser.Preview`, `parser.PreviewSpecialComment`, `StripLeadingComments`,
  `SplitMarginComments` (/repo/parser/analyzer.go, comments.go) with the Go
  `strings`/`unicode` functions they use, and `isSQLNotAllowedByUser`,
  `checkSQLAllowed`, `doQuery`, `handleStmtExecute`
  (/repo/proxy/server/executor.go, executor_handle.go, executor_stmt.go).

  Modelled as of the repaired code (fix: commits "read-only users may not run
  REPLACE, DDL or LOAD DATA", "Preview ends the first word at any character that
  cannot continue a keyword", "StripLeadingComments also strips # comments",
  "the read-only check looks inside a leading /*! ... */ comment").
  The keyword tables are parameters (`Tables`): the driver uses the hand-written
  `tables` below, the theorems use the tables the translator extracts from the
  source (`Gen.c21…`), and `Props/C21` proves the two equal.  Core Lean only.
-/
namespace GaeaVerif.PreviewC21
open GaeaVerif GaeaVerif.LexC17

/-! ### Go library functions -/

/-- `unicode.IsLetter` over a range table (lo, hi, stride). -/
def inRanges (tbl : List (Nat × Nat × Nat)) (r : Nat) : Bool :=
  tbl.any fun (lo, hi, st) => lo ≤ r && r ≤ hi && (r - lo) % st = 0

def isLetterU (r : Nat) : Bool := inRanges UnicodeC21.letterRanges r

/-- `b&0xC0 != 0x80` (`utf8.RuneStart`). -/
def runeStart (b : UInt8) : Bool := !(0x80 ≤ b.toNat && b.toNat ≤ 0xBF)

/-- `utf8.DecodeLastRuneInString`. -/
def decodeLastRune (s : Bytes) : Nat × Nat :=
  let n := s.length
  if n = 0 then (runeError, 0)
  else
    let last := s.getD (n - 1) 0
    if last.toNat < 0x80 then (last.toNat, 1)
    else
      let start :=
        match ([2, 3, 4].filter (· ≤ n)).find? (fun k => runeStart (s.getD (n - k) 0)) with
        | some k => n - k
        | none => if n ≤ 4 then 0 else n - 5
      let d := decodeRune (s.drop start)
      if start + d.2 ≠ n then (runeError, 1) else d

/-- `strings.TrimLeftFunc(s, f)`. -/
def trimLeftFunc (f : Nat → Bool) : Nat → Bytes → Bytes
  | 0, s => s
  | fuel + 1, s =>
    match s with
    | [] => []
    | _ :: _ =>
      let d := decodeRune s
      if f d.1 then trimLeftFunc f fuel (s.drop d.2) else s

/-- `strings.TrimRightFunc(s, f)`: runes are taken off the end while `f` holds. -/
def trimRightFunc (f : Nat → Bool) : Nat → Bytes → Bytes
  | 0, s => s
  | fuel + 1, s =>
    match s with
    | [] => []
    | _ :: _ =>
      let d := decodeLastRune s
      if f d.1 then trimRightFunc f fuel (s.take (s.length - d.2)) else s

/-- `strings.TrimFunc(s, f)`. -/
def trimFunc (f : Nat → Bool) (s : Bytes) : Bytes :=
  let l := trimLeftFunc f s.length s
  trimRightFunc f l.length l

/-- `strings.IndexFunc(s, f)` (`none` = -1). -/
def indexFunc (f : Nat → Bool) : Nat → Bytes → Option Nat
  | 0, _ => none
  | fuel + 1, s =>
    match s with
    | [] => none
    | _ :: _ =>
      let d := decodeRune s
      if f d.1 then some 0 else (indexFunc f fuel (s.drop d.2)).map (d.2 + ·)

/-- `strings.LastIndexFunc(s, f)`: start of the last rune satisfying `f`. -/
def lastIndexFunc (f : Nat → Bool) : Nat → Bytes → Option Nat
  | 0, _ => none
  | fuel + 1, s =>
    match s with
    | [] => none
    | _ :: _ =>
      let d := decodeLastRune s
      if f d.1 then some (s.length - d.2) else lastIndexFunc f fuel (s.take (s.length - d.2))

def isPrefixB (p s : Bytes) : Bool := s.take p.length == p

/-- `strings.Index(s, sub)` for a non-empty `sub`. -/
def indexSub (sub : Bytes) : Bytes → Option Nat
  | [] => none
  | s@(_ :: t) => if isPrefixB sub s then some 0 else (indexSub sub t).map (· + 1)

/-- `strings.LastIndex(s, sub)` for a non-empty `sub`. -/
def lastIndexSub (sub : Bytes) (s : Bytes) : Option Nat :=
  ((List.range (s.length + 1)).reverse.find? fun i => isPrefixB sub (s.drop i) && i + sub.length ≤ s.length)

/-- The runes of a string as `range s` yields them (invalid bytes give U+FFFD). -/
def runes : Nat → Bytes → List Nat
  | 0, _ => []
  | fuel + 1, s =>
    match s with
    | [] => []
    | _ :: _ => let d := decodeRune s; d.1 :: runes fuel (s.drop d.2)

/-- `unicode.ToLower`, exact wherever the result is an ASCII letter (the only
    runes ≥ 0x80 whose lower case is ASCII are U+0130 and U+212A, see
    `Gen.c21LowerToAscii`); other non-ASCII runes stay non-ASCII. -/
def lowerRune (r : Nat) : Nat :=
  if 0x41 ≤ r ∧ r ≤ 0x5A then r + 32 else if r = 0x130 then 0x69 else if r = 0x212A then 0x6B else r

/-- `strings.ToLower(s)` as code points. -/
def toLower (s : Bytes) : List Nat := (runes s.length s).map lowerRune

def cSlashStarBang : Bytes := [0x2F, 0x2A, 0x21]
def cStarSlash : Bytes := [0x2A, 0x2F]
def cSlashStar : Bytes := [0x2F, 0x2A]

/-! ### comments.go -/

def isNonSpace (r : Nat) : Bool := !isSpace r

/-- `hasCommentPrefix`. -/
def hasCommentPrefix (sql : Bytes) : Bool :=
  match sql with
  | a :: b :: _ =>
    (a.toNat = 0x2F && b.toNat = 0x2A) || (a.toNat = 0x2D && b.toNat = 0x2D) || a.toNat = 0x23
  | _ => false

/-- `len(sql) > 2 && sql[2] == '!'`. -/
def thirdIsBang (sql : Bytes) : Bool :=
  match sql with
  | _ :: _ :: c :: _ => c.toNat = 0x21
  | _ => false

/-- The `for hasCommentPrefix(sql)` loop of `StripLeadingComments`. -/
def stripLoop : Nat → Bytes → Bytes
  | 0, sql => sql
  | fuel + 1, sql =>
    if hasCommentPrefix sql then
      match sql with
      | a :: _ =>
        if a.toNat = 0x2F then
          match indexSub cStarSlash (sql.drop 2) with
          | none => sql
          | some index =>
            if thirdIsBang sql then sql
            else stripLoop fuel (trimFunc isSpace (sql.drop (index + 4)))
        else
          match indexSub [0x0A] sql with
          | none => []
          | some index => stripLoop fuel (trimFunc isSpace (sql.drop (index + 1)))
      | [] => sql
    else sql

/-- `StripLeadingComments`. -/
def stripLeadingComments (sql : Bytes) : Bytes :=
  stripLoop (sql.length + 1) (trimFunc isSpace sql)

/-- `leadingCommentEnd`. -/
def leadingCommentEndLoop (text : Bytes) : Nat → Nat → Bool → Nat × Bool
  | 0, pos, has => (pos, has)
  | fuel + 1, pos, has =>
    if pos < text.length then
      match indexFunc isNonSpace (text.length + 1) (text.drop pos) with
      | none => (pos, has)
      | some off =>
        let pos := pos + off
        let remaining := text.drop pos
        if remaining.length < 4 ∨ remaining.take 2 ≠ cSlashStar then (pos, has)
        else
          match indexSub cStarSlash (remaining.drop 2) with
          | none => (pos, has)
          | some i => leadingCommentEndLoop text fuel (pos + 4 + i) true
    else (pos, has)

def leadingCommentEnd (text : Bytes) : Nat :=
  let r := leadingCommentEndLoop text (text.length + 1) 0 false
  if r.2 then r.1 else 0

/-- `trailingCommentStart`. -/
def trailingCommentStartLoop (text : Bytes) : Nat → Nat → Bool → Nat × Bool
  | 0, reducedLen, has => (reducedLen, has)
  | fuel + 1, reducedLen, has =>
    if reducedLen > 0 then
      match lastIndexFunc isNonSpace (text.length + 1) (text.take reducedLen) with
      | none => (reducedLen, has)
      | some i =>
        let reducedLen := i + 1
        if reducedLen < 4 ∨ (text.take reducedLen).drop (reducedLen - 2) ≠ cStarSlash then (reducedLen, has)
        else
          match lastIndexSub cSlashStar (text.take (reducedLen - 2)) with
          | none => (reducedLen, has)
          | some start => trailingCommentStartLoop text fuel start true
    else (reducedLen, has)

def trailingCommentStart (text : Bytes) : Nat :=
  let r := trailingCommentStartLoop text (text.length + 1) text.length false
  if r.2 then r.1 else text.length

/-- The `query` result of `SplitMarginComments`. -/
def splitMarginQuery (sql : Bytes) : Bytes :=
  let trailingStart := trailingCommentStart sql
  let leadingEnd := leadingCommentEnd (sql.take trailingStart)
  trimFunc (fun c => isSpace c || c = 0x3B) ((sql.take trailingStart).drop leadingEnd)

/-! ### analyzer.go -/

/-- The keyword tables of `Preview` and the statement kinds the read-only check names. -/
structure Tables where
  sw1 : List (List Nat × Nat)   -- first `switch loweredFirstWord`
  sw2 : List (List Nat × Nat)   -- `switch strings.ToLower(trimmedNoComments)`
  sw3 : List (List Nat × Nat)   -- second `switch loweredFirstWord`
  unknown : Nat                  -- StmtUnknown
  comment : Nat                  -- StmtComment
  notAllowed : List Nat          -- kinds isSQLNotAllowedByUser rejects for a read-only user
  deriving Repr

def lookup (tbl : List (List Nat × Nat)) (w : List Nat) : Option Nat :=
  (tbl.find? fun e => e.1 == w).map (·.2)

/-- `isWordEnd` of Preview: white space or a character that cannot continue a keyword. -/
def isWordEnd (r : Nat) : Bool := isSpace r || !isIdentChar r

/-- The first word `Preview` looks at. -/
def firstWord (trimmed : Bytes) : Bytes :=
  let fw := trimLeftFunc (fun r => !isLetterU r) trimmed.length trimmed
  match indexFunc isWordEnd (fw.length + 1) fw with
  | some e => fw.take e
  | none => fw

/-- `Preview` after `StripLeadingComments`. -/
def previewTrimmed (T : Tables) (trimmed : Bytes) : Nat :=
  if isPrefixB cSlashStarBang trimmed then T.comment
  else
    let lw := toLower (firstWord trimmed)
    match lookup T.sw1 lw with
    | some k => k
    | none =>
      match lookup T.sw2 (toLower (splitMarginQuery trimmed)) with
      | some k => k
      | none =>
        match lookup T.sw3 lw with
        | some k => k
        | none => T.unknown

/-- `parser.Preview`. -/
def preview (T : Tables) (sql : Bytes) : Nat := previewTrimmed T (stripLeadingComments sql)

/-- The loop of `PreviewSpecialComment`: drop `/*!`, the version number and the blanks after it. -/
def specialLoop : Nat → Bytes → Bytes
  | 0, t => t
  | fuel + 1, t =>
    if isPrefixB cSlashStarBang t then specialLoop fuel (stripLeadingComments (t.drop (specCodeStartLen t)))
    else t

/-- `parser.PreviewSpecialComment`. -/
def previewSpecialComment (T : Tables) (sql : Bytes) : Nat :=
  let t := stripLeadingComments sql
  preview T (specialLoop (t.length + 1) t)

/-! ### proxy/server -/

/-- `isSQLNotAllowedByUser` (`allowWrite` = `Namespace.IsAllowWrite(user)`). -/
def isSQLNotAllowedByUser (T : Tables) (allowWrite : Bool) (stmtType : Nat) : Bool :=
  if allowWrite then false else T.notAllowed.contains stmtType

/-- `checkSQLAllowed` with an empty SQL blacklist: `true` = the read-only error is returned. -/
def checkSQLAllowed (T : Tables) (allowWrite : Bool) (sql : Bytes) : Bool :=
  let stmtType := preview T sql
  let checkedType := if stmtType = T.comment then previewSpecialComment T sql else stmtType
  isSQLNotAllowedByUser T allowWrite checkedType

/-- Outcome of `doQuery`: rejected by the read-only check before anything else
    happens, or handed on (to the plan builder and the backend, `rest`). -/
inductive QueryOut where
  | rejected
  | passed (ok : Bool)
  deriving DecidableEq, Repr

/-- `doQuery`: the check is its first statement; `rest sql` stands for
    everything after it (planning, backend execution) and says whether that
    returned without error. -/
def doQuery (T : Tables) (allowWrite : Bool) (rest : Bytes → Bool) (sql : Bytes) : QueryOut :=
  if checkSQLAllowed T allowWrite sql then .rejected else .passed (rest sql)

def QueryOut.noError : QueryOut → Bool
  | .passed true => true
  | _ => false

/-- `handleQuery` (after the QPS limiter): trailing `;` trimmed, then
    `doMultiStmts` for a multi-statement client, `doQuery` otherwise.  The
    result is the list of (text, outcome) pairs of the `doQuery` calls made. -/
def handleQuery (T : Tables) (allowWrite multi : Bool) (rest : Bytes → Bool) (sql : Bytes) :
    List (Bytes × QueryOut) :=
  let sql := trimRightSemi sql
  let dq := fun s => (doQuery T allowWrite rest s).noError
  if multi then
    (doMultiStmts dq sql).executed.map fun s => (s, doQuery T allowWrite rest s)
  else [(sql, doQuery T allowWrite rest sql)]

/-- `handleStmtExecute` for a prepared statement whose bound text is
    `executeSQL`: "execute sql using ComQuery". -/
def handleStmtExecute (T : Tables) (allowWrite multi : Bool) (rest : Bytes → Bool) (executeSQL : Bytes) :
    List (Bytes × QueryOut) :=
  handleQuery T allowWrite multi rest executeSQL

/-! ### the tables of the modelled source -/

/-- Code points of an ASCII word (used by the oracle; the tables below spell them out so that `decide` can evaluate). -/
def w (s : String) : List Nat := s.toList.map Char.toNat

/-- The tables as they are in the modelled source: select→0, stream→1, insert→2, replace→3, update→4, delete→5, savepoint→16, lock→21, unlock→22; begin→7, start transaction→7, commit→8, rollback→9; create→6, alter→6, rename→6, drop→6, truncate→6, flush→23, set→10, show→11, use→12, explain→18, analyze→13, describe→13, desc→13, repair→13, optimize→13, release→20, rollback→19, kill→31, load→32;
    StmtUnknown = 14, StmtComment = 15; rejected for read-only users: StmtDelete, StmtInsert, StmtUpdate,
    StmtReplace, StmtDDL, StmtLoad. -/
def tables : Tables where
  sw1 := [
    ([115, 101, 108, 101, 99, 116], 0),
    ([115, 116, 114, 101, 97, 109], 1),
    ([105, 110, 115, 101, 114, 116], 2),
    ([114, 101, 112, 108, 97, 99, 101], 3),
    ([117, 112, 100, 97, 116, 101], 4),
    ([100, 101, 108, 101, 116, 101], 5),
    ([115, 97, 118, 101, 112, 111, 105, 110, 116], 16),
    ([108, 111, 99, 107], 21),
    ([117, 110, 108, 111, 99, 107], 22)]
  sw2 := [
    ([98, 101, 103, 105, 110], 7),
    ([115, 116, 97, 114, 116, 32, 116, 114, 97, 110, 115, 97, 99, 116, 105, 111, 110], 7),
    ([99, 111, 109, 109, 105, 116], 8),
    ([114, 111, 108, 108, 98, 97, 99, 107], 9)]
  sw3 := [
    ([99, 114, 101, 97, 116, 101], 6),
    ([97, 108, 116, 101, 114], 6),
    ([114, 101, 110, 97, 109, 101], 6),
    ([100, 114, 111, 112], 6),
    ([116, 114, 117, 110, 99, 97, 116, 101], 6),
    ([102, 108, 117, 115, 104], 23),
    ([115, 101, 116], 10),
    ([115, 104, 111, 119], 11),
    ([117, 115, 101], 12),
    ([101, 120, 112, 108, 97, 105, 110], 18),
    ([97, 110, 97, 108, 121, 122, 101], 13),
    ([100, 101, 115, 99, 114, 105, 98, 101], 13),
    ([100, 101, 115, 99], 13),
    ([114, 101, 112, 97, 105, 114], 13),
    ([111, 112, 116, 105, 109, 105, 122, 101], 13),
    ([114, 101, 108, 101, 97, 115, 101], 20),
    ([114, 111, 108, 108, 98, 97, 99, 107], 19),
    ([107, 105, 108, 108], 31),
    ([108, 111, 97, 100], 32)]
  unknown := 14
  comment := 15
  notAllowed := [5, 2, 4, 3, 6, 32]

end GaeaVerif.PreviewC21
