/-
  C07 — sessions planning concurrently against one namespace router.
  A transition system: every session has a private state `P` (its statement,
  its plan under construction), all sessions share one routing state `S`.
  One atomic step of session `i` reads the shared state and its own private
  state, updates the private state and may write the shared state.
  Core Lean only.
-/
namespace GaeaVerif.Noninterf

/-- one atomic step: (optional write to the shared state, new private state) -/
abbrev Step (S P : Type) := S → P → Option S × P

structure Sys (S P : Type) where
  shared : S
  priv : Nat → P

/-- session `i` takes one step -/
def Sys.stepOf {S P : Type} (step : Step S P) (sys : Sys S P) (i : Nat) : Sys S P :=
  let r := step sys.shared (sys.priv i)
  { shared := r.1.getD sys.shared
    priv := fun j => if j = i then r.2 else sys.priv j }

/-- an interleaving: the list of session ids in the order they step -/
def Sys.run {S P : Type} (step : Step S P) (sys : Sys S P) (sched : List Nat) : Sys S P :=
  sched.foldl (Sys.stepOf step) sys

/-- session `i` running alone for `n` steps on shared state `s` -/
def alone {S P : Type} (step : Step S P) (s : S) : Nat → P → P
  | 0, p => p
  | n + 1, p => alone step s n (step s p).2

/-- the planning code never writes the shared routing state -/
def NoWrites {S P : Type} (step : Step S P) : Prop := ∀ s p, (step s p).1 = none

/-- two accesses conflict if they touch the shared state and one is a write -/
def Conflict {S P : Type} (step : Step S P) (s : S) (p q : P) : Prop :=
  (step s p).1 ≠ none ∨ (step s q).1 ≠ none

end GaeaVerif.Noninterf
