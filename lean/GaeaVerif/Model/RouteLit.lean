import GaeaVerif.Model.Route
import GaeaVerif.Model.InsertStored
import GaeaVerif.Spec.ShardCalendar
/-
  C01: the literals of a comparison with the sharding column, by kind and value.

  Code side
    proxy/plan/plan_select.go  getShardingCompareValue (fix commits 1707815,
                               d3d5b3a, 79ccd38)      `compareValue`
    util/types.go              GetValueExprResult      (the `Key` of an integer / string literal)
    proxy/plan/plan_insert.go  looksLikeNumber         (Model/InsertPlan.lean)

  Specification side (MySQL, not code of the repository): `den ct q` is the
  value the literal `q` denotes when MySQL compares it with a column of type
  `ct`, and how that value is compared with the value of a row (`Route.Sem`):
    * integer column: an integer literal is itself; a hexadecimal or bit
      literal of at most 8 bytes is the big-endian number of its bytes (MySQL
      reads a binary string as a number when it is compared with a number); a
      decimal literal is compared exactly (a value with a fraction lies
      strictly between two integers); a string with the syntax of an integer
      (white space, sign, digits, white space) is that integer, with a
      fraction and / or an exponent of at most three digits that decimal
      value (MySQL compares through doubles; the values of this model are
      exact); NULL is NULL.  Float literals, strings MySQL reads with a
      "Truncated incorrect DOUBLE value" warning, and binary strings of more
      than 8 bytes are left open (`rank = none`): the theorems then hold for
      every truth value of the comparison.
    * string column (binary collation, no pad): a string, hexadecimal or bit
      literal is its bytes; number literals are compared as doubles after
      converting the *row* (left open).
    * DATETIME column: a string in one of the spellings of C09
      ('YYYY-MM-DD', 'YYYY-MM-DD hh:mm:ss') is that date-time, packed as the
      number YYYYMMDDhhmmss; everything else is left open.
  Row values live in `Int`: integers as themselves, date-times packed, byte
  strings through the injective `encodeStr`.
  Core Lean only.
-/
namespace GaeaVerif.RouteLit
open GaeaVerif GaeaVerif.ShardGo GaeaVerif.ShardPlace GaeaVerif.Route GaeaVerif.Insert GaeaVerif.InsertStored

/-- A literal as the parser delivers it (`ValueExpr.Kind()` and its value). -/
inductive SqlLit where
  /-- `KindInt64` (also TRUE / FALSE) -/
  | int (v : Int)
  /-- `KindUint64` -/
  | uint (v : Nat)
  /-- `KindString` / `KindBytes`: the bytes of `GetString()` -/
  | str (s : GoStr)
  /-- `KindBinaryLiteral` from `0x…` / `x'…'`: its bytes -/
  | hex (bs : GoStr)
  /-- `KindBinaryLiteral` from `0b…` / `b'…'`: its bytes -/
  | bit (bs : GoStr)
  /-- `KindMysqlDecimal`: the value `digits / 10 ^ scale` (a sign is a unary operator, not part of the literal) -/
  | dec (digits scale : Nat)
  /-- `KindFloat64`: the IEEE 754 bits -/
  | float (bits : Nat)
  /-- `KindNull` -/
  | null
  deriving DecidableEq, Repr

/-- what the parser can deliver -/
def SqlLit.wf : SqlLit → Prop
  | .int v => 0 ≤ v ∧ v < 2 ^ 63
  | .uint v => v < 2 ^ 64
  | .str s => ∀ b ∈ s, b < 256
  | .hex s => ∀ b ∈ s, b < 256
  | .bit s => ∀ b ∈ s, b < 256
  | _ => True

/-- How `getShardingCompareValue` treats the strings of a rule type. -/
inductive Fam where
  /-- `hash`: `HashValue` reads a string of digits as a number and hashes any other string -/
  | hash
  /-- `mod`, `range`, `mycat_long`, `mycat_padding_mod`: `NumValue` (strconv.ParseInt) -/
  | num
  /-- `mycat_mod`: `big.Int.SetString` -/
  | big
  /-- `mycat_string`, `mycat_murmur`: the text of the key is hashed -/
  | text
  /-- `date_year`, `date_month`, `date_day` -/
  | date
  /-- global and default rules -/
  | other
  deriving DecidableEq, Repr

/-- `rule.GetType()` (a linked rule answers with the type of its parent) -/
def Fam.ofType : String → Fam
  | "hash" => .hash
  | "mod" => .num
  | "range" => .num
  | "mycat_long" => .num
  | "mycat_padding_mod" => .num
  | "mycat_mod" => .big
  | "mycat_string" => .text
  | "mycat_murmur" => .text
  | "date_year" => .date
  | "date_month" => .date
  | "date_day" => .date
  | _ => .other

/-- `getShardingCompareValue`: the key handed to `FindTableIndex`
    (`util.GetValueExprResult` of an integer or string literal), `none` when
    the literal is reported as not routable. -/
def compareValue (fam : Fam) : SqlLit → Option Key
  | .int v => some (.int64 v)
  | .uint v => some (.uint64 v)
  | .str s =>
    match fam with
    | .hash => if (parseUint64 s).isNone && looksLikeNumber s then none else some (.str s)
    | .num => if (parseInt64 s).isNone then none else some (.str s)
    | .big => if (parseBigDec s).isNone then none else some (.str s)
    | _ => some (.str s)
  | _ => none

/-- the literal is not handed to the rule -/
def isWide (fam : Fam) (q : SqlLit) : Bool := (compareValue fam q).isNone

/-! #### `getShardingCompareValue` as tables (tied to the source by `harness/extract/c01.go`) -/

/-- the `Kind…` constants of the first `case` of `switch x.Kind()`: the kinds
    whose value is handed to the rule (every constructor of `SqlLit` that
    `compareValue` does not answer `none` for outright) -/
def SqlLit.goKinds : SqlLit → List String
  | .int _ => ["KindInt64"]
  | .uint _ => ["KindUint64"]
  | .str _ => ["KindString", "KindBytes"]
  | _ => []

/-- one literal of every kind -/
def SqlLit.samples : List SqlLit := [.int 0, .uint 0, .str [], .hex [], .bit [], .dec 0 0, .float 0, .null]

/-- the kinds handed to the rule, in the order of the source -/
def routedKinds : List String :=
  (SqlLit.samples.filter fun q => (compareValue .other q).isSome).flatMap SqlLit.goKinds

/-- the `case` of `switch rule.GetType()` a family stands for: the rule type
    constants and the test (source text) after which a string is not routed by -/
def Fam.goCase : Fam → Option (List String × String)
  | .hash => some (["HashRuleType"], "_, err := strconv.ParseUint(s, 10, 64); err != nil && looksLikeNumber(s)")
  | .num => some (["ModRuleType", "RangeRuleType", "MycatLongRuleType", "MycatPaddingModRuleType"],
      "_, err := strconv.ParseInt(s, 10, 64); err != nil")
  | .big => some (["MycatModRuleType"], "_, ok := new(big.Int).SetString(s, 10); !ok")
  | _ => none

/-- what the model does with a string where the source runs the test of `Fam.goCase`:
    `strconv.ParseUint` / `strconv.ParseInt` / `big.Int.SetString` are
    `parseUint64` / `parseInt64` / `parseBigDec` -/
def Fam.stringTest (fam : Fam) (s : GoStr) : Bool :=
  match fam with
  | .hash => (parseUint64 s).isNone && looksLikeNumber s
  | .num => (parseInt64 s).isNone
  | .big => (parseBigDec s).isNone
  | _ => false

def Fam.all : List Fam := [.hash, .num, .big, .text, .date, .other]

/-- the rule-type switch, in the order of the source -/
def stringRules : List (List String × String) := Fam.all.filterMap Fam.goCase

/-! ### what a literal denotes -/

inductive ColType where
  /-- an integer column (BIGINT, signed or unsigned; also a unix time of a calendar rule) -/
  | int
  /-- a string column compared byte by byte -/
  | str
  /-- a DATETIME column -/
  | datetime
  deriving DecidableEq, Repr

structure Den where
  rank : Option Int
  sem : Sem := .exact
  deriving DecidableEq, Repr

/-- not a value this model determines -/
def Den.open : Den := { rank := none }

/-- big-endian number of a byte string -/
def beVal (bs : GoStr) : Nat := bs.foldl (fun acc b => acc * 256 + b) 0

/-- byte strings as integers, injectively (bytes below 256): a string column
    only asks whether two values are equal -/
def encodeStr : GoStr → Nat
  | [] => 0
  | b :: s => (b + 1) + 257 * encodeStr s

/-- left inverse of `encodeStr` -/
def decodeStr : Nat → Nat → GoStr
  | 0, _ => []
  | fuel + 1, n => if n = 0 then [] else (n % 257 - 1) :: decodeStr fuel (n / 257)

/-- the value `±digits / 10 ^ scale` as compared with an integer -/
def decDen (neg : Bool) (digits scale : Nat) : Den :=
  let q : Int := digits / 10 ^ scale
  if digits % 10 ^ scale = 0 then { rank := some (if neg then -q else q) }
  else { rank := some (if neg then -q - 1 else q), sem := .frac }

/-- an exponent `e[+-]digits` of at most three digits (a longer one is left open) -/
def mysqlExponent : GoStr → Option Int
  | c :: r =>
    if c = 101 || c = 69 then
      let neg := r.head? == some 45
      let d := dropSign r
      if d ≠ [] ∧ d.all isDigit ∧ d.length ≤ 3 then some (if neg then -(digitsVal d 0 : Int) else digitsVal d 0) else none
    else none
  | [] => none

/-- white space, an optional sign, digits with an optional fraction (at least
    one digit), an optional exponent, white space — the syntax of
    `looksLikeNumber` — as `(negative, digits, scale)`: the value
    `±digits / 10 ^ scale` -/
def mysqlDecimal (s : GoStr) : Option (Bool × Nat × Nat) :=
  let t := trimSpace s
  let neg := t.head? == some 45
  let r := dropSign t
  let ip := r.takeWhile isDigit
  let r1 := r.dropWhile isDigit
  let fr : GoStr × GoStr :=
    match r1 with
    | 46 :: f => (f.takeWhile isDigit, f.dropWhile isDigit)
    | _ => ([], r1)
  if ip.length + fr.1.length = 0 then none
  else
    let digits := digitsVal (ip ++ fr.1) 0
    let scale : Int := fr.1.length
    match fr.2 with
    | [] => some (neg, digits, fr.1.length)
    | rest =>
      match mysqlExponent rest with
      | some e =>
        if e ≥ scale then some (neg, digits * 10 ^ (e - scale).toNat, 0) else some (neg, digits, (scale - e).toNat)
      | none => none

/-- a string compared with an integer column -/
def strNum (s : GoStr) : Den :=
  match mysqlInt s with
  | some n => { rank := some n }
  | none =>
    match mysqlDecimal s with
    | some (neg, digits, scale) => decDen neg digits scale
    | none => Den.open

/-- `YYYYMMDDhhmmss` -/
def packDT (c : CalendarSpec.DateTime) : Int :=
  ((((c.year * 100 + c.month) * 100 + c.day) * 100 + c.hour) * 100 + c.minute) * 100 + c.second

/-- **What MySQL compares the column with.** -/
def den (ct : ColType) : SqlLit → Den
  | .null => { rank := none, sem := .null }
  | .int v =>
    match ct with
    | .int => { rank := some v }
    | _ => Den.open
  | .uint v =>
    match ct with
    | .int => { rank := some v }
    | _ => Den.open
  | .str s =>
    match ct with
    | .int => strNum s
    | .str => { rank := some (encodeStr s) }
    | .datetime => { rank := (CalendarSpec.parseSpelling s).map packDT }
  | .hex bs =>
    match ct with
    | .int => if bs.length ≤ 8 then { rank := some (beVal bs) } else Den.open
    | .str => { rank := some (encodeStr bs) }
    | .datetime => Den.open
  | .bit bs =>
    match ct with
    | .int => if bs.length ≤ 8 then { rank := some (beVal bs) } else Den.open
    | .str => { rank := some (encodeStr bs) }
    | .datetime => Den.open
  | .dec d sc =>
    match ct with
    | .int => decDen false d sc
    | _ => Den.open
  | .float _ => Den.open

/-- The literal of `Model/Route.lean` for the SQL literal `q` of a statement on
    a rule of family `fam` whose sharding column has type `ct`; `place` and
    `eqStart` are the answers of `FindTableIndex` / `EqualStart` on the compare
    value (not consulted for a literal that is not routable). -/
def mkLit (fam : Fam) (ct : ColType) (q : SqlLit) (place : Option Int) (eqStart : Bool) : Lit :=
  if isWide fam q then
    { rank := (den ct q).rank, sem := (den ct q).sem, place := none, eqStart := false, wide := true }
  else
    { rank := (den ct q).rank, sem := (den ct q).sem, place := place, eqStart := eqStart, wide := false }

/-- the literal, with the rule's answers computed by a placement model
    `find` / `eqs` (the form the theorems instantiate) -/
def litOf (fam : Fam) (ct : ColType) (find : Key → Out Int) (eqs : Key → Int → Bool) (q : SqlLit) : Lit :=
  match compareValue fam q with
  | none => mkLit fam ct q none false
  | some key =>
    match find key with
    | .ok i => mkLit fam ct q (some i) (eqs key i)
    | _ => mkLit fam ct q none false

end GaeaVerif.RouteLit
