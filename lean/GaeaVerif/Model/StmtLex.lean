import GaeaVerif.Model.Go
/-
  Lexical layer of MySQL statement text — the *specification* side of C14, C15
  and C16 ("what the SQL grammar sees").  Written token by token, following the
  MySQL manual (9.1.1 String Literals, 9.2 Schema Object Names, 9.7 Comments)
  and the lexer of /repo/parser (lexer.go: scanString, scanQuotedIdent,
  startWithSharp, startWithDash, startWithSlash), which the correspondence
  check uses as the oracle for this file:

  * `'…'` and `"…"` string literals: inside, a backslash escapes the next byte
    (unless sql_mode has NO_BACKSLASH_ESCAPES) and a doubled quote stands for
    the quote; the literal ends at the first quote that is neither;
  * `` `…` `` quoted identifiers: a doubled back-quote stands for a back-quote,
    no backslash escapes;
  * `# …` and `-- …` comments up to the end of the line; `--` starts a comment
    only if a white-space or control character follows;
  * `/* … */` comments up to the first `*/` after the opener;
  * `/*! … */`: MySQL-specific code.  Its body is SQL (it is lexed as such), so
    it is not a comment for the purposes of parameter markers;
  * `?` anywhere else is a parameter marker.

  Core Lean only.  Nothing here is a model of Gaea code.
-/
namespace GaeaVerif.StmtLex
open GaeaVerif

def cBackslash : UInt8 := 0x5c
def cSQuote : UInt8 := 0x27
def cDQuote : UInt8 := 0x22
def cBQuote : UInt8 := 0x60
def cHash : UInt8 := 0x23
def cDash : UInt8 := 0x2d
def cSlash : UInt8 := 0x2f
def cStar : UInt8 := 0x2a
def cBang : UInt8 := 0x21
def cQMark : UInt8 := 0x3f
def cNewline : UInt8 := 0x0a

/-- May this byte follow `--` to start a comment (white space or control character)? -/
def isSpaceOrControl (c : UInt8) : Bool := c ≤ 0x20 || c == 0x7f

/-- Lexical elements.  Every constructor remembers the raw bytes it covers. -/
inductive Tok where
  /-- `q body q`: a string literal delimited by `q`; `body` is raw (escapes unprocessed). -/
  | str (q : UInt8) (body : Bytes)
  /-- `` ` body ` `` -/
  | qident (body : Bytes)
  /-- `# …` or `-- …` including the terminating newline, if any. -/
  | lineComment (raw : Bytes)
  /-- `/* body */` -/
  | blockComment (body : Bytes)
  /-- `/*!` -/
  | verOpen
  /-- the `*/` that closes a `/*!` -/
  | verClose
  /-- a parameter marker `?` -/
  | param
  /-- any other byte -/
  | other (b : UInt8)
  deriving Repr, BEq, DecidableEq

/-- The text a token stands for. -/
def Tok.raw : Tok → Bytes
  | .str q body => q :: body ++ [q]
  | .qident body => cBQuote :: body ++ [cBQuote]
  | .lineComment raw => raw
  | .blockComment body => cSlash :: cStar :: body ++ [cStar, cSlash]
  | .verOpen => [cSlash, cStar, cBang]
  | .verClose => [cStar, cSlash]
  | .param => [cQMark]
  | .other b => [b]

def Tok.len (t : Tok) : Nat := t.raw.length

def rawOf (ts : List Tok) : Bytes := ts.flatMap Tok.raw

/-- The rest of a string literal after its opening quote `q`:
    `(raw body, text after the closing quote)`; `none` if unterminated.
    `nbe` = sql_mode contains NO_BACKSLASH_ESCAPES. -/
def scanStr (nbe : Bool) (q : UInt8) : Bytes → Option (Bytes × Bytes)
  | [] => none
  | [c] => if c = q ∧ (nbe ∨ c ≠ cBackslash) then some ([], []) else none
  | c :: d :: rest =>
    if c = cBackslash ∧ ¬ nbe then
      (scanStr nbe q rest).map fun (b, r) => (c :: d :: b, r)
    else if c = q then
      if d = q then (scanStr nbe q rest).map fun (b, r) => (c :: d :: b, r)
      else some ([], d :: rest)
    else (scanStr nbe q (d :: rest)).map fun (b, r) => (c :: b, r)

/-- The rest of a quoted identifier after its opening back-quote. -/
def scanQIdent : Bytes → Option (Bytes × Bytes)
  | [] => none
  | [c] => if c = cBQuote then some ([], []) else none
  | c :: d :: rest =>
    if c = cBQuote then
      if d = cBQuote then (scanQIdent rest).map fun (b, r) => (c :: d :: b, r)
      else some ([], d :: rest)
    else (scanQIdent (d :: rest)).map fun (b, r) => (c :: b, r)

/-- The rest of a line comment: `(bytes up to and including the newline, text after it)`;
    the whole text if there is no newline. -/
def scanLine : Bytes → Bytes × Bytes
  | [] => ([], [])
  | c :: rest =>
    if c = cNewline then ([c], rest)
    else (c :: (scanLine rest).1, (scanLine rest).2)

/-- The rest of a block comment after its opener `/*`:
    `(body, text after the first "*/")`; `none` if unterminated. -/
def scanBlock : Bytes → Option (Bytes × Bytes)
  | [] => none
  | [_] => none
  | c :: d :: rest =>
    if c = cStar ∧ d = cSlash then some ([], rest)
    else (scanBlock (d :: rest)).map fun (b, r) => (c :: b, r)

/-- Does `--` (the first dash already consumed, `rest` begins at the second)
    start a comment? -/
def dashComment : Bytes → Bool
  | d :: e :: _ => d == cDash && isSpaceOrControl e
  | _ => false

/-- The lexer, with fuel (any fuel larger than the length of the text is enough:
    `lex`).  `ver` = inside `/*! … */`.  `none`: unterminated literal, quoted
    identifier or block comment. -/
def lexF (nbe : Bool) : Nat → Bool → Bytes → Option (List Tok)
  | 0, _, _ => none
  | _ + 1, ver, [] => if ver then none else some []
  | n + 1, ver, c :: rest =>
    if c = cSQuote ∨ c = cDQuote then
      match scanStr nbe c rest with
      | some (body, rest') => (lexF nbe n ver rest').map (Tok.str c body :: ·)
      | none => none
    else if c = cBQuote then
      match scanQIdent rest with
      | some (body, rest') => (lexF nbe n ver rest').map (Tok.qident body :: ·)
      | none => none
    else if c = cHash ∨ (c = cDash ∧ dashComment rest = true) then
      (lexF nbe n ver (scanLine rest).2).map (Tok.lineComment (c :: (scanLine rest).1) :: ·)
    else if c = cSlash ∧ rest.head? = some cStar then
      if rest.tail.head? = some cBang then
        (lexF nbe n true rest.tail.tail).map (Tok.verOpen :: ·)
      else
        match scanBlock rest.tail with
        | some (body, rest') => (lexF nbe n ver rest').map (Tok.blockComment body :: ·)
        | none => none
    else if c = cStar ∧ ver = true ∧ rest.head? = some cSlash then
      (lexF nbe n false rest.tail).map (Tok.verClose :: ·)
    else if c = cQMark then
      (lexF nbe n ver rest).map (Tok.param :: ·)
    else
      (lexF nbe n ver rest).map (Tok.other c :: ·)

/-- Token list of a statement text (`none`: something is unterminated). -/
def lex (nbe : Bool) (text : Bytes) : Option (List Tok) := lexF nbe (text.length + 1) false text

/-- Byte offsets of the parameter markers of a token list that starts at offset `pos`. -/
def paramOffsets : Nat → List Tok → List Nat
  | _, [] => []
  | pos, .param :: ts => pos :: paramOffsets (pos + 1) ts
  | pos, t :: ts => paramOffsets (pos + t.len) ts

/-- **The SQL grammar's placeholders** of a statement text (default sql_mode). -/
def placeholders (text : Bytes) : Option (List Nat) := (lex false text).map (paramOffsets 0)

/-- Reference semantics of `sqlItems`: the text from `sub` on, cut at the marker
    offsets, with a `?` item for each marker and no empty last piece. -/
def cutItems (text : Bytes) (sub : Nat) : List Nat → List Bytes
  | [] => if sub ≠ text.length then [text.drop sub] else []
  | o :: os => (text.drop sub).take (o - sub) :: [cQMark] :: cutItems text (o + 1) os

/-! ### Values of string literals (used by C15) -/

/-- The character an escape sequence `\e` denotes (MySQL manual, table 9.1;
    `\%` and `\_` keep the backslash, handled in `strValue`). -/
def escapeChar (e : UInt8) : UInt8 :=
  if e = 0x30 then 0x00        -- \0
  else if e = 0x62 then 0x08   -- \b
  else if e = 0x6e then 0x0a   -- \n
  else if e = 0x72 then 0x0d   -- \r
  else if e = 0x74 then 0x09   -- \t
  else if e = 0x5a then 0x1a   -- \Z
  else e

/-- The byte string denoted by the raw body of a string literal delimited by `q`. -/
def strValue (nbe : Bool) (q : UInt8) : Bytes → Bytes
  | [] => []
  | [c] => [c]
  | c :: d :: rest =>
    if c = cBackslash ∧ ¬ nbe then
      if d = 0x25 ∨ d = 0x5f then c :: d :: strValue nbe q rest   -- \% and \_ are kept as they are
      else escapeChar d :: strValue nbe q rest
    else if c = q ∧ d = q then q :: strValue nbe q rest
    else c :: strValue nbe q (d :: rest)

end GaeaVerif.StmtLex
