import GaeaVerif.Model.FastPathC06
/-
  C22 — read/write splitting:

    /repo/proxy/server/executor.go         checkExecuteFromSlave, handleShow (flag part),
                                           getBackendConn / getBackendNoKsConn /
                                           getBackendKsConn, isInTransaction, isAutoCommit,
                                           canHandleWithoutPlan, isSQLNotAllowedByUser
    /repo/proxy/server/executor_handle.go  doQuery (the route a statement takes to a
                                           backend connection)
    /repo/proxy/server/namespace.go        NewNamespace (CheckSelectLock), IsAllowWrite,
                                           IsRWSplit
    /repo/backend/slice.go                 getconnectionMode, getNormalConnection,
                                           ShouldFallbackToMasterOnSlaveFail

  Core Lean only.
-/
namespace GaeaVerif.RwSplit
open GaeaVerif GaeaVerif.Tok GaeaVerif.FastPath

/-- `models.ReadOnly`, `models.ReadWrite`, `models.ReadWriteSplit`. -/
def rwReadOnly : Nat := 1
def rwReadWrite : Nat := 2
def rwSplitOn : Nat := 1

/-- User and namespace settings the decision reads. -/
structure Cfg where
  /-- `UserProperty.RWFlag` of the session's user -/
  rwFlag : Nat
  /-- `UserProperty.RWSplit` -/
  rwSplit : Nat
  /-- `Namespace.CheckSelectLock` -/
  checkSelectLock : Bool
  deriving Repr, DecidableEq

/-- `Namespace.IsAllowWrite(user)`. -/
def Cfg.allowWrite (c : Cfg) : Bool := c.rwFlag == rwReadWrite
/-- `Namespace.IsRWSplit(user)`. -/
def Cfg.isRWSplit (c : Cfg) : Bool := c.rwSplit == rwSplitOn

/-- `NewNamespace`: `CheckSelectLock = true; if cfg.CheckSelectLock { CheckSelectLock = cfg.CheckSelectLock }`. -/
def newNamespaceCheckSelectLock (configured : Bool) : Bool :=
  if configured then configured else true

def readonlyVariable : Str := "read_only".toList
def atAt : Str := "@@".toList
def atReadonly : Str := "@@read_only".toList
def atGlobalReadonly : Str := "@@global.read_only".toList

/-- The five keyword pairs `checkExecuteFromSlave` accepts as the end of a
    locking read: (second-to-last word, last word), lower-cased. -/
def isLockPair (secondLast last : Str) : Bool :=
  let l := String.ofList last
  let s := String.ofList secondLast
  (l == "update" && s == "for") ||
  (l == "mode" && s == "share") ||
  (l == "share" && s == "for") ||
  (l == "nowait" && (s == "share" || s == "update")) ||
  (l == "locked" && s == "skip")

/-- The lock-clause test on the last two words (`words[n-2]`, `words[n-1]`, `n ≥ 2`). -/
def endsWithLockClause (words : List Str) : Bool :=
  match words.reverse with
  | last :: secondLast :: _ => isLockPair (toLower secondLast) (toLower last)
  | _ => false

/-- The words the lock-clause test looks at:
    `strings.FieldsFunc(parser.TrimTrailingComments(sql), parser.IsSqlSep)`. -/
def lockWords (sql : Str) : List Str := fieldsFunc isSqlSep (trimTrailingComments sql)

/-- The read_only probes: `SHOW … read_only …`, `@@read_only`, `@@global.read_only`. -/
def isReadOnlyProbe (stmtType : Nat) (sql : Str) : Bool :=
  (stmtType == stmtShow && containsSub readonlyVariable (toLower sql)) ||
  (containsSub atAt sql &&
    (containsSub atReadonly (toLower sql) || containsSub atGlobalReadonly (toLower sql)))

/-- Some token is the master hint. -/
def hasMasterHint (tokens : List Str) : Bool := tokens.any fun t => lowerEqual t masterHint

/-- `checkExecuteFromSlave(reqCtx, c, sql)`: `stmtType` and `tokens` are what the
    request context holds (`parser.Preview(sql)`, `parser.Tokenize(sql)`). -/
def checkExecuteFromSlave (c : Cfg) (stmtType : Nat) (tokens : List Str) (sql : Str) : Bool :=
  if stmtType != stmtSelect && stmtType != stmtShow then false
  else if !c.allowWrite then true
  else if c.checkSelectLock && endsWithLockClause (lockWords sql) then false
  else if isReadOnlyProbe stmtType sql then false
  else if hasMasterHint tokens then false
  else c.isRWSplit

/-- `checkExecuteFromSlave` of the pinned tree (before the four repairs): the
    lock clause and the hint are looked for at fixed positions of `tokens`, and a
    statement of fewer than two tokens is sent to a replica.  Kept for the
    witness theorems. -/
def checkExecuteFromSlavePinned (c : Cfg) (stmtType : Nat) (tokens : List Str) (sql : Str) : Bool :=
  if stmtType != stmtSelect && stmtType != stmtShow then false
  else if !c.allowWrite then true
  else if c.checkSelectLock && tokens.length < 2 then true
  else if c.checkSelectLock && endsWithLockClause tokens then false
  else if isReadOnlyProbe stmtType sql then false
  else if tokens.length > 1 && lowerEqual (tokens.getD 1 []) masterHint then false
  else if tokens.length > 1 && lowerEqual (tokens.getLastD []) masterHint then false
  else c.isRWSplit

/-- The flag `handleShow` leaves in the request context for a SHOW other than
    `show databases`: it asks `checkExecuteFromSlave` (the statement kind in the
    request context is SHOW, the tokens are `Tokenize(sql)`). -/
def handleShowFlag (c : Cfg) (tokens : List Str) (sql : Str) : Bool :=
  checkExecuteFromSlave c stmtShow tokens sql

/-- `handleShow` of the pinned tree had its own decision (`prev` = the flag on
    entry, `false` for a fresh context): it compared the text with `read_only`
    case-sensitively and ignored the master hint.  Kept for the witness theorems. -/
def handleShowFlagPinned (c : Cfg) (prev : Bool) (sql : Str) : Bool :=
  let f := if !c.allowWrite || c.isRWSplit then true else prev
  if containsSub readonlyVariable sql && c.allowWrite then false else f

/-! ### from the flag to a backend node -/

/-- Session state read by `getBackendConn`. -/
structure Sess where
  keepSession : Bool
  /-- `status & ServerStatusInTrans > 0` -/
  inTrans : Bool
  /-- `status & ServerStatusAutocommit > 0` -/
  autocommit : Bool
  deriving Repr, DecidableEq

/-- `SessionExecutor.isInTransaction`. -/
def Sess.isInTransaction (s : Sess) : Bool := s.inTrans || !s.autocommit

/-- The slice's replicas and its fallback switch. -/
structure Slice where
  /-- the slice has a replica that is up -/
  slaveUp : Bool
  /-- `ShouldFallbackToMasterOnSlaveFail()` -/
  fallback : Bool
  deriving Repr, DecidableEq

/-- `ShouldFallbackToMasterOnSlaveFail`: "off" (any case) disables, anything else enables. -/
def shouldFallback (v : Str) : Bool := !(String.ofList (toLower v) == "off")

inductive Mode where
  | directMaster | slaveFallbackMaster | directSlave
  deriving Repr, DecidableEq

/-- `getconnectionMode`. -/
def getconnectionMode (fromSlave fallbackToMaster : Bool) : Mode :=
  if !fromSlave then .directMaster
  else if fallbackToMaster then .slaveFallbackMaster
  else .directSlave

/-- Where a connection comes from. -/
inductive Node where
  | master | slave | none
  deriving Repr, DecidableEq

/-- `Slice.getNormalConnection` for a normal user, the master being up:
    the node class that hands out the connection (`none`: an error, no connection). -/
def getNormalConnection (sl : Slice) (fromSlave : Bool) : Node :=
  match getconnectionMode fromSlave sl.fallback with
  | .directMaster => .master
  | .slaveFallbackMaster => if sl.slaveUp then .slave else .master
  | .directSlave => if sl.slaveUp then .slave else .none

/-- `getBackendConn` on a session without cached transaction / keep-session
    connections: the node class the connection is taken from, and the value the
    request context's flag has afterwards (`getBackendKsConn` overwrites it:
    a keep-session connection is pinned for the whole session and its
    transactions run on it, so it is taken from the master for every user). -/
def getBackendConn (_c : Cfg) (s : Sess) (sl : Slice) (fromSlave : Bool) : Node × Bool :=
  if s.keepSession then (getNormalConnection sl false, false)
  else if !s.isInTransaction then (getNormalConnection sl fromSlave, fromSlave)
  else (.master, fromSlave)

/-- `getBackendConn` of the pinned tree (before fix cb8bfb6): `getBackendKsConn`
    asked for a replica whenever the user was read-only, whatever the
    transaction state.  Kept for the witness theorem. -/
def getBackendConnPinned (c : Cfg) (s : Sess) (sl : Slice) (fromSlave : Bool) : Node × Bool :=
  if s.keepSession then
    let f := c.rwFlag == rwReadOnly
    (getNormalConnection sl f, f)
  else if !s.isInTransaction then (getNormalConnection sl fromSlave, fromSlave)
  else (.master, fromSlave)

/-- `canHandleWithoutPlan`, as far as this model follows it: SHOW is followed
    (`handleShow`), the other kinds (SET, BEGIN, USE, KILL …) do not take a
    backend connection for the statement itself and are not modelled. -/
def otherWithoutPlan : List Nat := [10, 7, 8, 9, 16, 12, 20, 19, 21, 31]

/-- Outcome of `doQuery` for one statement on a namespace without shard rules. -/
inductive Route where
  /-- the statement reaches a backend node (or fails to get a connection: `Node.none`);
      `flag` is the request context's fromSlave flag afterwards -/
  | conn (node : Node) (flag : Bool)
  /-- answered by the proxy itself without a backend connection -/
  | local (flag : Bool)
  /-- fails before a backend connection is taken -/
  | failed (flag : Bool)
  /-- outside this model: statements the parser has to plan, statement kinds
      handled without a plan other than SHOW, and data-changing statements of
      read-only users (C21) -/
  | unmodelled
  deriving Repr, DecidableEq

/-- `parser.StmtDDL`, `parser.StmtLoad` (rejected for read-only users since the C21 repair of
    `isSQLNotAllowedByUser`). -/
def stmtDDL : Nat := 6
def stmtLoad : Nat := 32

/-- Kinds whose fate for a read-only user is decided by C21's check of the *text*:
    `parser.StmtCallProc`, `StmtPrepare`, `StmtExecute` are refused outright, `StmtWith`
    and `StmtComment` (`/*!NNNNN … */`) are followed to the statement they lead to
    (`PreviewMainStatement`, modelled in `Model/PreviewC21.lean`). For read-only users
    they are outside this model, like the data-changing kinds. -/
def roTextDecided : List Nat := [24, 28, 29, 33, 15]

def isWriteKind (stmtType : Nat) : Bool :=
  stmtType == stmtInsert || stmtType == stmtUpdate || stmtType == stmtDelete || stmtType == stmtReplace ||
  stmtType == stmtDDL || stmtType == stmtLoad || roTextDecided.contains stmtType

def kwDatabases : Str := "databases".toList

/-- `doQuery` on a namespace without shard rules whose physical databases are
    the logical ones, for a normal (not admin / statistic / monitor) user, a
    fresh request context and a session database that is allowed. -/
def doQuery (c : Cfg) (s : Sess) (sl : Slice) (db : Str) (stmtType : Nat) (sql : Str) : R Route :=
  match tokenize sql with
  | .panic => .panic
  | .fail => .fail
  | .ok tokens =>
    if !c.allowWrite && isWriteKind stmtType then .ok .unmodelled
    else if stmtType == stmtShow then
      match tokens with
      | [] => .ok (.failed false)
      | _ =>
        if tokens.length == 2 && toLower (tokens.getD 1 []) == kwDatabases then .ok (.local false)
        else
          let f := handleShowFlag c tokens sql
          let (n, f') := getBackendConn c s sl f
          .ok (.conn n f')
    else if otherWithoutPlan.contains stmtType then .ok .unmodelled
    else
      match preDecide .cur { rules := [], phyDBs := [(db, db)] } db stmtType sql tokens with
      | .no => .ok .unmodelled
      | .unshard _ =>
        let f := checkExecuteFromSlave c stmtType tokens sql
        let (n, f') := getBackendConn c s sl f
        .ok (.conn n f')

/-! ### multi-statement packets

  `doMultiStmts` runs every piece of a multi-statement COM_QUERY through
  `doQuery` with the SAME request context: the flag a piece leaves there is
  what the next piece finds.  `doQuery` writes the flag explicitly in both
  directions before it takes a connection (`if checkExecuteFromSlave … {
  SetFromSlave(true) } else { SetFromSlave(false) }`, `handleShow` likewise), so
  the incoming value only survives where no connection is taken. -/

/-- `doQuery` on a request context whose fromSlave flag is `f0` on entry
    (`doQuery` itself is the case of a fresh context, `f0 = false`). -/
def doQueryFrom (f0 : Bool) (c : Cfg) (s : Sess) (sl : Slice) (db : Str) (stmtType : Nat) (sql : Str) : R Route :=
  match tokenize sql with
  | .panic => .panic
  | .fail => .fail
  | .ok tokens =>
    if !c.allowWrite && isWriteKind stmtType then .ok .unmodelled
    else if stmtType == stmtShow then
      match tokens with
      | [] => .ok (.failed f0)
      | _ =>
        if tokens.length == 2 && toLower (tokens.getD 1 []) == kwDatabases then .ok (.local f0)
        else
          let f := handleShowFlag c tokens sql
          let (n, f') := getBackendConn c s sl f
          .ok (.conn n f')
    else if otherWithoutPlan.contains stmtType then .ok .unmodelled
    else
      match preDecide .cur { rules := [], phyDBs := [(db, db)] } db stmtType sql tokens with
      | .no => .ok .unmodelled
      | .unshard _ =>
        let f := checkExecuteFromSlave c stmtType tokens sql
        let (n, f') := getBackendConn c s sl f
        .ok (.conn n f')

/-- what the outside sees of a route: where the statement ran -/
inductive Where where
  | master | slave | local | failed | unmodelled
  deriving Repr, DecidableEq

def Route.where_ : Route → Where
  | .conn .master _ => .master
  | .conn .slave _ => .slave
  | .conn .none _ => .failed
  | .local _ => .local
  | .failed _ => .failed
  | .unmodelled => .unmodelled

/-- the flag a route leaves in the request context (`none`: the packet stops here) -/
def Route.next : Route → Option Bool
  | .conn .none _ => none
  | .conn _ f => some f
  | .local f => some f
  | .failed _ => none
  | .unmodelled => none

/-- `doMultiStmts`: the pieces one after the other on one request context; an
    error ends the packet (and the model stops at a piece it does not follow). -/
def doMulti (c : Cfg) (s : Sess) (sl : Slice) (db : Str) : Bool → List (Nat × Str) → List Where
  | _, [] => []
  | f0, (st, sql) :: rest =>
    match doQueryFrom f0 c s sl db st sql with
    | .ok r =>
      match r.next with
      | some f => r.where_ :: doMulti c s sl db f rest
      | none => [r.where_]
    | _ => []

/-- the same packet with every piece sent alone, on a fresh request context -/
def doAlone (c : Cfg) (s : Sess) (sl : Slice) (db : Str) : List (Nat × Str) → List Where
  | [] => []
  | (st, sql) :: rest =>
    match doQuery c s sl db st sql with
    | .ok r =>
      match r.next with
      | some _ => r.where_ :: doAlone c s sl db rest
      | none => [r.where_]
    | _ => []

end GaeaVerif.RwSplit
