/-
  Model for C20 — session settings of pooled backend connections.

  Transliterates
    mysql/variables.go            SessionVariables: Set, Delete, SetEqualsWith,
                                  GetUnusedAndClear, keepAcknowledged, Acknowledge,
                                  RestoreAcknowledged (which replaced `Reset`), the
                                  verify functions
    backend/direct_connection.go  SetCharset, SetSessionVariables,
                                  SyncSessionVariables, WriteSetStatement (as
                                  repaired by the `fix:` commits: the record is put
                                  back to the acknowledged settings when the backend
                                  rejects the statement; `tx_read_only` is reset
                                  under the name it was set with; a name the
                                  statement assigns is not reset by it; of the two
                                  spellings of `transaction_read_only` a >= 8.0.3
                                  backend is sent one assignment only),
                                  appendSetCharset / appendSetVariable /
                                  appendSetVariableToDefault
    proxy/server/executor.go      InitializeSessionVariables, the
                                  SyncSessionVariables step of getTransactionConn,
                                  set*SessionVariable
    proxy/server/executor_handle.go  handleSet / handleSetVariable
  plus a backend session (charset, collation, variable ↦ value text; absent =
  server default) that applies a SET statement atomically — evaluating each
  value, which may be an expression over literals, user variables, session and
  global system variables — or rejects it as a whole, and the system of
  several clients sharing a small pool.

  Go maps are association lists read with "last entry wins" (`AMap.get`); `put`
  removes older entries and appends, so the loops of the Go code (whose
  iteration order is unspecified) can be written as left folds.  Core Lean only.
-/
namespace GaeaVerif.SessVars

/-! ### association lists as Go maps -/

abbrev AMap (β : Type) := List (String × β)

namespace AMap
variable {β : Type}

/-- `m[k]` (comma-ok form): the last entry for `k`. -/
def get : AMap β → String → Option β
  | [], _ => none
  | (k', v) :: m, k => (get m k).or (if k' = k then some v else none)

/-- `delete(m, k)`. -/
def del (m : AMap β) (k : String) : AMap β := m.filter (fun p => !(p.1 == k))

/-- `m[k] = v`. -/
def put (m : AMap β) (k : String) (v : β) : AMap β := del m k ++ [(k, v)]

def has (m : AMap β) (k : String) : Bool := (get m k).isSome

def keys (m : AMap β) : List String := m.map (·.1)

end AMap

/-! ### mysql/variables.go -/

/-- The dynamic types a `Variable` value has in the modelled code:
    `string`, `int64`, `types.UserVariablesType`. -/
inductive Val where
  | str (s : String)
  | int (i : Int)
  | user (s : String)
  deriving DecidableEq, Repr, Inhabited

/-- The verify function attached to a variable name by `variableVerifyFuncMap`
    (`dflt` = `verifyDefault`, for names not in the map). -/
inductive Verify where
  | sqlMode | onOff | timeZone | integer | string | dflt
  deriving DecidableEq, Repr, Inhabited

/-- Outcome of code that may return an error or panic. -/
inductive Res (α : Type) where
  | ok (a : α)
  | err (kind : String)
  | panic
  deriving Repr, DecidableEq

/-- `strings.Trim(s, cutset)` on characters. -/
def trimSet (cut : List Char) (s : String) : String :=
  let l := s.toList.dropWhile (fun c => cut.contains c)
  String.ofList (l.reverse.dropWhile (fun c => cut.contains c)).reverse

/-- `strings.ToLower` (ASCII; written over the character list so that it
    evaluates inside proofs). -/
def lower (s : String) : String := String.ofList (s.toList.map Char.toLower)

/-- `strings.HasPrefix(key, "@")`. -/
def isUserVarName (key : String) : Bool :=
  match key.toList with
  | '@' :: _ => true
  | _ => false

/-- `strings.Split(s, ":")` on characters. -/
def splitColon (cs : List Char) : List (List Char) :=
  match cs with
  | [] => [[]]
  | c :: rest =>
    match splitColon rest with
    | [] => [[]]
    | first :: more => if c == ':' then [] :: first :: more else (c :: first) :: more

/-- `formatVariableName`: trim quotes and back-quotes, lower-case (ASCII). -/
def formatVariableName (name : String) : String :=
  lower (trimSet ['\'', '`', '"'] name)

def isDigits (l : List Char) : Bool := !l.isEmpty && l.all Char.isDigit

def digitsVal (l : List Char) : Nat := l.foldl (fun a c => a * 10 + (c.toNat - '0'.toNat)) 0

/-- `strconv.ParseInt(s, 10, 64)` / `strconv.Atoi(s)`: optional sign, decimal
    digits, range of int64. -/
def parseInt64L (l : List Char) : Option Int :=
  let (neg, ds) := match l with
    | '-' :: r => (true, r)
    | '+' :: r => (false, r)
    | _ => (false, l)
  if isDigits ds then
    let n : Int := digitsVal ds
    let v := if neg then -n else n
    if -(2 : Int) ^ 63 ≤ v ∧ v < (2 : Int) ^ 63 then some v else none
  else none

def parseInt64 (s : String) : Option Int := parseInt64L s.toList

/-- `verifyTimeZone`. `values[0][0]` panics on an empty hour part. -/
def verifyTimeZone (value : String) : Res Unit :=
  match splitColon value.toList with
  | [h, m] =>
    match h with
    | [] => .panic
    | c :: _ =>
      if c != '+' && c != '-' then .err "tz-format" else
      match parseInt64L h with
      | none => .err "tz-hour"
      | some hour =>
        match parseInt64L m with
        | none => .err "tz-minute"
        | some minute =>
          let direct := if hour < 0 then hour * 60 - minute else hour * 60 + minute
          if direct < -779 || direct > 780 then .err "tz-limit" else .ok ()
  | _ => .err "tz-format"

/-- The verify functions (`verifySQLMode`, `verifyOnOffInteger`, …). -/
def runVerify : Verify → Val → Res Unit
  | .sqlMode, .str _ => .ok ()
  | .sqlMode, _ => .err "type"
  | .onOff, .int i => if i != 0 && i != 1 then .err "onoff" else .ok ()
  | .onOff, _ => .err "type"
  | .timeZone, .str s => verifyTimeZone s
  | .timeZone, _ => .err "type"
  | .integer, .int _ => .ok ()
  | .integer, _ => .err "type"
  | .string, .str _ => .ok ()
  | .string, _ => .err "type"
  | .dflt, _ => .ok ()

/-- `SessionVariables`. Only the names of `unused` are ever read.  `acked` is
    the copy of the variables a backend acknowledged last, put aside at the
    first change after that acknowledgement (`none` = nothing changed since). -/
structure SessionVariables where
  variables : AMap Val := []
  unused : AMap Val := []
  acked : Option (AMap Val) := none
  deriving Repr, Inhabited, DecidableEq

/-- `variableVerifyFuncMap` as (name, verifier); the driver passes the table
    extracted from the source. -/
abbrev VerifyMap := AMap Verify

namespace SessionVariables

/-- `keepAcknowledged()`: the first change after an acknowledgement puts a
    copy of the variables aside. -/
def keepAcknowledged (s : SessionVariables) : SessionVariables :=
  { s with acked := some (s.acked.getD s.variables) }

/-- `Set(key, value)`: `keepAcknowledged`, then verify with the function of the
    formatted name, then store (an existing `Variable` keeps its verify
    function, which is the one of the same name).  (When the verify function
    refuses the value the Go code has already put the copy aside; that copy
    equals the variables, so keeping or dropping it cannot be told apart, and
    the model returns the error alone.) -/
def set (vm : VerifyMap) (s : SessionVariables) (key : String) (value : Val) : Res SessionVariables :=
  let formatKey := formatVariableName key
  let verify := (AMap.get vm formatKey).getD .dflt
  match runVerify verify value with
  | .ok () => .ok { s.keepAcknowledged with variables := AMap.put s.variables formatKey value }
  | .err k => .err k
  | .panic => .panic

/-- `Delete(key)`. -/
def delete (s : SessionVariables) (key : String) : SessionVariables :=
  { s.keepAcknowledged with variables := AMap.del s.variables (formatVariableName key) }

/-- `Acknowledge()`: a backend has accepted the variables as they are now. -/
def acknowledge (s : SessionVariables) : SessionVariables := { s with acked := none }

/-- `RestoreAcknowledged()`: back to what a backend acknowledged last. -/
def restoreAcknowledged (s : SessionVariables) : SessionVariables :=
  match s.acked with
  | some a => { s with variables := a, acked := none }
  | none => s

/-- The variables a backend acknowledged last. -/
def ackedVariables (s : SessionVariables) : AMap Val := s.acked.getD s.variables

/-- Body of the first loop of `SetEqualsWith`: copy one destination variable
    if it differs or is missing; the flag records a change. -/
def setEqualsStep (acc : AMap Val × Bool) (p : String × Val) : AMap Val × Bool :=
  match AMap.get acc.1 p.1 with
  | some v0 => if v0 != p.2 then (AMap.put acc.1 p.1 p.2, true) else acc
  | none => (AMap.put acc.1 p.1 p.2, true)

/-- `SetEqualsWith(dst)`: make `s.variables` equal to `dst.variables`, moving
    what disappears to `unused`; reports whether anything changed.  (The error
    returns of the Go function are unreachable: every value copied was accepted
    by the verify function of the same name when it was stored in `dst`.) -/
def setEqualsWith (s dst : SessionVariables) : SessionVariables × Bool :=
  if s.variables.isEmpty && !dst.variables.isEmpty then
    ({ s with variables := dst.variables.foldl (fun m p => AMap.put m p.1 p.2) s.variables }, true)
  else if !s.variables.isEmpty && dst.variables.isEmpty then
    ({ s with variables := [], unused := s.variables.foldl (fun u p => AMap.put u p.1 p.2) s.unused }, true)
  else
    -- first loop: copy what differs or is missing
    let r := dst.variables.foldl setEqualsStep (s.variables, false)
    -- second loop: what the destination does not have is no longer used
    let gone := r.1.filter (fun p => !(AMap.has dst.variables p.1))
    let kept := r.1.filter (fun p => AMap.has dst.variables p.1)
    ({ s with variables := kept, unused := gone.foldl (fun u p => AMap.put u p.1 p.2) s.unused },
      r.2 || !gone.isEmpty)

/-- `GetUnusedAndClear`. -/
def getUnusedAndClear (s : SessionVariables) : AMap Val × SessionVariables :=
  (s.unused, { s with unused := [] })

end SessionVariables

/-! ### charset tables of mysql/charset.go -/

structure Tables where
  charsetIds : AMap Nat                 -- CharsetIds: charset ↦ default collation id
  charsets : AMap String                -- Charsets: charset ↦ default collation name
  collations : List (Nat × String)      -- Collations: id ↦ name
  collationNames : AMap Nat             -- CollationNames: name ↦ id
  collationNameToCharset : AMap String  -- CollationNameToCharset: name ↦ charset
  deriving Repr, Inhabited

def Tables.collationName (t : Tables) (id : Nat) : Option String :=
  (t.collations.find? (fun p => p.1 == id)).map (·.2)

/-! ### values that are expressions

A SET statement may assign a value the proxy cannot evaluate (`CONCAT(…)`,
`@y`, `@@GLOBAL.x`, `a+b`).  The proxy records the text the parser restores
(`Expr.raw`, `Expr.lowered`) and sends it on; the backend evaluates it when it
applies the statement.  `parseText`/`evalText` are the part of MySQL the
backend session of this model has: literals, `NULL`, user variables, session
and global system variables, `CONCAT` of two arguments and `+`. -/

inductive Expr where
  | int (i : Int)
  | str (s : String)
  | null
  | uvar (n : String)                 -- @n
  | svar (explicit : Bool) (n : String)  -- @@n / @@SESSION.n
  | gvar (n : String)                 -- @@GLOBAL.n
  | cat (a b : Expr)                  -- CONCAT(a, b)
  | add (a b : Expr)                  -- a+b
  deriving DecidableEq, Repr, Inhabited

namespace Expr

/-- `Restore` with `RestoreStringSingleQuotes` (user variables, `sql_mode`,
    string variables set to an expression). -/
def raw : Expr → String
  | .int i => toString i
  | .str s => "'" ++ s ++ "'"
  | .null => "NULL"
  | .uvar n => "@" ++ n
  | .svar false n => "@@" ++ n
  | .svar true n => "@@SESSION." ++ n
  | .gvar n => "@@GLOBAL." ++ n
  | .cat a b => "CONCAT(" ++ a.raw ++ ", " ++ b.raw ++ ")"
  | .add a b => a.raw ++ "+" ++ b.raw

/-- `Restore` with `RestoreKeyWordLowercase | RestoreNameLowercase`, then
    `strings.ToLower` (`getVariableExprResult`). -/
def lowered : Expr → String
  | .int i => toString i
  | .str s => lower s
  | .null => "null"
  | .uvar n => "@" ++ lower n
  | .svar false n => "@@" ++ lower n
  | .svar true n => "@@session." ++ lower n
  | .gvar n => "@@global." ++ lower n
  | .cat a b => "concat(" ++ a.lowered ++ ", " ++ b.lowered ++ ")"
  | .add a b => a.lowered ++ "+" ++ b.lowered

/-- A literal: what the proxy can take as it stands. -/
def isLit : Expr → Bool
  | .int _ | .str _ | .null => true
  | _ => false

/-- The value does not depend on the session the expression is evaluated in. -/
def sessionFree : Expr → Bool
  | .uvar _ | .svar _ _ => false
  | .cat a b | .add a b => a.sessionFree && b.sessionFree
  | _ => true

end Expr

def isNameChar (c : Char) : Bool := c.isAlphanum || c == '_'

/-- `"abc…"` is a prefix: the rest. -/
def stripPrefix (pre : List Char) (cs : List Char) : Option (List Char) :=
  if pre.isPrefixOf cs then some (cs.drop pre.length) else none

def parseName (cs : List Char) (mk : String → Expr) : Option (Expr × List Char) :=
  let n := cs.takeWhile isNameChar
  if n.isEmpty then none else some (mk (String.ofList n), cs.drop n.length)

/-- Sum of terms; a term is a literal, `NULL`, a variable or `CONCAT(e, e)`. -/
def parseE : Nat → List Char → Option (Expr × List Char)
  | 0, _ => none
  | fuel + 1, cs =>
    let term : Option (Expr × List Char) :=
      match cs with
      | '\'' :: r =>
        let body := r.takeWhile (· != '\'')
        match r.drop body.length with
        | '\'' :: r' => some (.str (String.ofList body), r')
        | _ => none
      | '@' :: '@' :: r =>
        match stripPrefix "GLOBAL.".toList r with
        | some r' => parseName r' .gvar
        | none =>
          match stripPrefix "SESSION.".toList r with
          | some r' => parseName r' (.svar true)
          | none => parseName r (.svar false)
      | '@' :: r => parseName r .uvar
      | 'N' :: 'U' :: 'L' :: 'L' :: r =>
        match r with
        | c :: _ => if isNameChar c then none else some (.null, r)
        | [] => some (.null, r)
      | 'C' :: 'O' :: 'N' :: 'C' :: 'A' :: 'T' :: '(' :: r =>
        match parseE fuel r with
        | some (a, ',' :: ' ' :: r1) =>
          match parseE fuel r1 with
          | some (b, ')' :: r2) => some (.cat a b, r2)
          | _ => none
        | _ => none
      | _ =>
        let (neg, ds0) := match cs with
          | '-' :: r => (true, r)
          | _ => (false, cs)
        let ds := ds0.takeWhile Char.isDigit
        if ds.isEmpty then none
        else
          let n : Int := digitsVal ds
          some (.int (if neg then -n else n), ds0.drop ds.length)
    match term with
    | some (a, '+' :: r) =>
      match parseE fuel r with
      | some (b, r') => some (.add a b, r')
      | none => none
    | other => other

/-- The expression a value text is, when it is one. -/
def parseText (t : String) : Option Expr :=
  match parseE (t.length + 1) t.toList with
  | some (e, []) => some e
  | _ => none

/-- A value of the backend's little expression language. -/
inductive V where
  | int (i : Int)
  | str (s : String)
  | null
  deriving DecidableEq, Repr, Inhabited

def V.text : V → String
  | .int i => toString i
  | .str s => "'" ++ s ++ "'"
  | .null => "NULL"

def V.plain : V → String
  | .int i => toString i
  | .str s => s
  | .null => ""

/-- The value a stored variable text stands for (a bare word is a string). -/
def valOfText (t : String) : V :=
  match parseText t with
  | some (.int i) => .int i
  | some (.str s) => .str s
  | some .null => .null
  | _ => .str t

def lookupV (m : AMap String) (k : String) : Option V := (AMap.get m k).map valOfText

/-- Evaluation in a session with variables `vars` on a server with global
    variables `g`. -/
def evalExpr (g vars : AMap String) : Expr → V
  | .int i => .int i
  | .str s => .str s
  | .null => .null
  | .uvar n => (lookupV vars ("@" ++ n)).getD .null
  | .svar _ n => ((lookupV vars n).or (lookupV g n)).getD .null
  | .gvar n => (lookupV g n).getD .null
  | .cat a b =>
    match evalExpr g vars a, evalExpr g vars b with
    | .null, _ => .null
    | _, .null => .null
    | x, y => .str (x.plain ++ y.plain)
  | .add a b =>
    match evalExpr g vars a, evalExpr g vars b with
    | .int x, .int y => .int (x + y)
    | _, _ => .null

/-- What a session stores when it is assigned the text `t`: a literal and
    anything that is not an expression of the little language is kept as
    written, an expression is replaced by its value. -/
def evalText (g vars : AMap String) (t : String) : String :=
  match parseText t with
  | some e => if e.isLit then t else (evalExpr g vars e).text
  | none => t

/-- The value of the text does not depend on the session it is evaluated in
    (no user variable, no session system variable). -/
def sessionFreeB (t : String) : Bool :=
  match parseText t with
  | some e => e.sessionFree
  | none => true

/-! ### backend session -/

/-- What a MySQL session holds: absent variable = server default. Values are
    kept as the text of the value the SET statement assigned.  `globals` are the
    server's global variables (never changed: the proxy refuses SET GLOBAL). -/
structure Backend where
  charset : String
  collation : String
  vars : AMap String := []
  globals : AMap String := []
  deriving Repr, Inhabited, DecidableEq

/-- One element of a SET statement. -/
inductive Item where
  | names (charset collation : String)
  | assign (key text : String)
  deriving Repr, DecidableEq, Inhabited

/-- Does a variable that has been given the value `text` stand at its default?
    (`x = DEFAULT`, and `@u = NULL` for user variables.) -/
def isReset (key text : String) : Bool :=
  lower text == "default" || (isUserVarName key && text == "NULL")

def Backend.applyItem (b : Backend) : Item → Backend
  | .names cs coll => { b with charset := cs, collation := coll }
  | .assign k txt =>
    let v := evalText b.globals b.vars txt
    if isReset k v then { b with vars := AMap.del b.vars k }
    else { b with vars := AMap.put b.vars k v }

/-- A SET statement is applied left to right, as a whole. -/
def Backend.apply (b : Backend) (items : List Item) : Backend := items.foldl Backend.applyItem b

/-- Scripted reaction of the backend to the SET statement of an operation. -/
inductive Fault where
  | none
  | rejSqlMode   -- ERROR 1231 "Variable 'sql_mode' can't be set to the value of …"
  | rejOther     -- any other error (1193 unknown system variable …)
  deriving DecidableEq, Repr, Inhabited

/-! ### backend/direct_connection.go -/

/-- The proxy's belief about one backend connection (`charset`, `collation`,
    `sessionVariables`) and the settings the backend acknowledged last
    (`acked*`, added by the `fix:` commit). -/
structure Conn where
  charset : String
  collation : Nat
  sv : SessionVariables := {}
  ackedCharset : String
  ackedCollation : Nat
  ackedVariables : SessionVariables := {}
  /-- `dc.versionCompare == nil || dc.versionCompare.LessThanMySQLVersion80` -/
  coll247 : Bool := true
  /-- `dc.versionCompare != nil && !dc.versionCompare.LessThanMySQLVersion803` -/
  v803 : Bool := false
  closed : Bool := false
  deriving Repr, Inhabited

/-- `NewDirectConnection`: the state after the handshake. -/
def Conn.new (charset : String) (collation : Nat) (coll247 v803 : Bool) : Conn :=
  { charset := charset, collation := collation, ackedCharset := charset, ackedCollation := collation,
    coll247 := coll247, v803 := v803 }

/-- The collation `SetCharset` goes for: the requested one, or the default
    collation of the charset when none is given or the server is too old for it
    (`mysql.CollationNames[mysql.Charsets[charset]]`, 0 when unknown). -/
def effectiveCollation (t : Tables) (coll247 : Bool) (charset : String) (collation : Nat) : Nat :=
  if collation == 0 || (collation > 247 && coll247) then
    (AMap.get t.collationNames ((AMap.get t.charsets charset).getD "")).getD 0
  else collation

/-- `SetCharset(charset, collation)`: `none` = error, `some changed`. -/
def setCharset (t : Tables) (c : Conn) (charset0 : String) (collation0 : Nat) : Conn × Option Bool :=
  let charset := trimSet ['"', '\'', '`'] charset0
  let collation := effectiveCollation t c.coll247 charset collation0
  if c.charset == charset && c.collation == collation then (c, some false)
  else if !(AMap.has t.charsetIds charset) then (c, none)
  else if (t.collationName collation).isNone then (c, none)
  else ({ c with charset := charset, collation := collation }, some true)

/-- `SetSessionVariables(frontend)`. -/
def setSessionVariables (c : Conn) (frontend : SessionVariables) : Conn × Bool :=
  let r := c.sv.setEqualsWith frontend
  ({ c with sv := r.1 }, r.2)

def appendSetCharset (buf : String) (charset collation : String) : String :=
  (if buf.length != 0 then buf ++ "," else buf ++ "SET NAMES '") ++ charset ++ "' COLLATE '" ++ collation ++ "'"

/-- The value text `appendSetVariable` writes. -/
def valueText (key : String) : Val → String
  | .str v => if lower v == "default" || key == "sql_mode" then v else "'" ++ v ++ "'"
  | .user v => v
  | .int i => toString i

def appendSetVariable (buf : String) (key : String) (value : Val) : String :=
  (if buf.length != 0 then buf ++ "," else buf ++ "SET ") ++ key ++ " = " ++ valueText key value

/-- The text `appendSetVariableToDefault` assigns. -/
def defaultText (key : String) : String := if isUserVarName key then "NULL" else "DEFAULT"

def appendSetVariableToDefault (buf : String) (key : String) : String :=
  (if buf.length != 0 then buf ++ "," else buf ++ "SET ") ++ key ++ " = " ++ defaultText key

/-- `backendVariableName`: the name a variable goes by on this backend —
    `tx_read_only` is called `transaction_read_only` from MySQL 8.0.3 on. -/
def wireKey (v803 : Bool) (key : String) : String :=
  if key == "tx_read_only" && v803 then "transaction_read_only" else key

/-- The variables of `vars` that `WriteSetStatement` writes as assignments: a
    variable whose backend name differs from its own is left out when the
    record also holds a variable of that backend name (which is then the one
    that is sent). -/
def sentVars (v803 : Bool) (vars : AMap Val) : AMap Val :=
  vars.filter (fun p => !(wireKey v803 p.1 != p.1 && AMap.has vars (wireKey v803 p.1)))

/-- The settings `vars` as the assignments a backend with flag `v803` is sent:
    (backend name, value text). -/
def wireVars (v803 : Bool) (vars : AMap Val) : AMap String :=
  (sentVars v803 vars).map (fun p => (wireKey v803 p.1, valueText (wireKey v803 p.1) p.2))

/-- The assignments of the statement `WriteSetStatement` builds, as
    (backend name, value text): every recorded variable that is sent, then a
    reset for every unused one whose backend name the statement does not assign. -/
def setAssigns (c : Conn) (unused : AMap Val) : AMap String :=
  let assigned := (sentVars c.v803 c.sv.variables).map (fun p => wireKey c.v803 p.1)
  wireVars c.v803 c.sv.variables
    ++ (unused.filter (fun p => !(assigned.contains (wireKey c.v803 p.1)))).map
        (fun p => (wireKey c.v803 p.1, defaultText (wireKey c.v803 p.1)))

/-- The elements of the statement `WriteSetStatement` builds. -/
def setItems (c : Conn) (collName : String) (unused : AMap Val) : List Item :=
  Item.names c.charset collName :: (setAssigns c unused).map (fun p => Item.assign p.1 p.2)

/-- The text `WriteSetStatement` builds. -/
def setText (c : Conn) (collName : String) (unused : AMap Val) : String :=
  let assigned := (sentVars c.v803 c.sv.variables).map (fun p => wireKey c.v803 p.1)
  let buf := appendSetCharset "" c.charset collName
  let buf := (sentVars c.v803 c.sv.variables).foldl (fun b p => appendSetVariable b (wireKey c.v803 p.1) p.2) buf
  (unused.filter (fun p => !(assigned.contains (wireKey c.v803 p.1)))).foldl
    (fun b p => appendSetVariableToDefault b (wireKey c.v803 p.1)) buf

/-- Result of `WriteSetStatement`. -/
inductive WriteRes where
  | ok (stmt : String)
  | rejected (stmt : String) (sqlModeErr : Bool)
  | invalidCollation
  deriving Repr, DecidableEq, Inhabited

/-- `restoreAckedSession`: back to the settings the backend acknowledged last
    (`Clone` copies the maps). -/
def restoreAckedSession (c : Conn) : Conn :=
  { c with charset := c.ackedCharset, collation := c.ackedCollation, sv := c.ackedVariables }

/-- `WriteSetStatement()` against a backend that reacts with `f`. -/
def writeSetStatement (t : Tables) (c : Conn) (b : Backend) (f : Fault) : Conn × Backend × WriteRes :=
  match t.collationName c.collation with
  | none => (restoreAckedSession c, b, .invalidCollation)
  | some collName =>
    let r := c.sv.getUnusedAndClear
    let c' := { c with sv := r.2 }
    let text := setText c collName r.1
    match f with
    | .none =>
      ({ c' with ackedCharset := c'.charset, ackedCollation := c'.collation, ackedVariables := c'.sv },
        b.apply (setItems c collName r.1), .ok text)
    | .rejSqlMode => (restoreAckedSession c', b, .rejected text true)
    | .rejOther => (restoreAckedSession c', b, .rejected text false)

/-! ### proxy/server: client session -/

/-- What the proxy records for a client session (`se.charset`,
    `se.collation`, `se.sessionVariables`). -/
structure Client where
  charset : String
  collation : Nat
  vars : SessionVariables := {}
  deriving Repr, Inhabited

/-- A connection slot of the pool with the backend session behind it. -/
structure Slot where
  conn : Conn
  be : Backend
  deriving Repr, Inhabited

/-- Outcome of `InitializeSessionVariables`. -/
inductive InitRes where
  | ok (stmt : Option String)        -- settings in place (statement sent, if any)
  | errCharset                       -- SetCharset failed
  | errSet (stmt : Option String)    -- WriteSetStatement failed
  deriving Repr, DecidableEq, Inhabited

def InitRes.isOk : InitRes → Bool
  | .ok _ => true
  | _ => false

/-- `InitializeSessionVariables(pc, charset, collation, sessionVariables)`
    (proxy/server/executor.go) with the backend reacting with `f` to the SET
    statement, if one is sent.  When the settings are in place the client's
    variables are acknowledged; on a failed statement they are put back to
    those acknowledged last (`RestoreAcknowledged`); the connection stays in use
    (`WriteSetStatement` has put its record back to what the backend holds). -/
def initializeSessionVariables (t : Tables) (s : Slot) (cl : Client) (f : Fault) :
    Slot × Client × InitRes :=
  match setCharset t s.conn cl.charset cl.collation with
  | (_, none) => (s, cl, .errCharset)
  | (c1, some charsetChanged) =>
    let r := setSessionVariables c1 cl.vars
    if charsetChanged || r.2 then
      match writeSetStatement t r.1 s.be f with
      | (c3, b3, .ok stmt) => ({ conn := c3, be := b3 }, { cl with vars := cl.vars.acknowledge }, .ok (some stmt))
      | (c3, b3, .rejected stmt _) =>
        ({ conn := c3, be := b3 }, { cl with vars := cl.vars.restoreAcknowledged }, .errSet (some stmt))
      | (c3, b3, .invalidCollation) =>
        ({ conn := c3, be := b3 }, { cl with vars := cl.vars.restoreAcknowledged }, .errSet none)
    else ({ conn := r.1, be := s.be }, { cl with vars := cl.vars.acknowledge }, .ok none)

/-- `SyncSessionVariables(frontend)` as `getTransactionConn` uses it: on an
    error the connection is closed (and recycled).  The client's record is
    neither acknowledged nor put back on this path (in the real code the
    statement of the transaction is prepared by `InitializeSessionVariables`
    on the same connection right after). -/
def syncSessionVariables (t : Tables) (s : Slot) (cl : Client) (f : Fault) : Slot × InitRes :=
  let r := setSessionVariables s.conn cl.vars
  if r.2 then
    match writeSetStatement t r.1 s.be f with
    | (c3, b3, .ok stmt) => ({ conn := c3, be := b3 }, .ok (some stmt))
    | (c3, b3, .rejected stmt _) => ({ conn := { c3 with closed := true }, be := b3 }, .errSet (some stmt))
    | (c3, b3, .invalidCollation) => ({ conn := { c3 with closed := true }, be := b3 }, .errSet none)
  else ({ conn := r.1, be := s.be }, .ok none)

/-! ### proxy/server/executor_handle.go: SET handling -/

/-- The value of a SET assignment as the parser hands it over: a literal, or
    an expression (`expr e`: `e` has a function call, a variable or an operator
    on top — a value only the backend can compute). -/
inductive Lit where
  | int (i : Int)        -- 5, -5
  | word (w : String)    -- ON, DEFAULT, NULL, utf8
  | str (s : String)     -- 'text' (no quote or backslash inside)
  | expr (e : Expr)      -- CONCAT('a', @y), @@GLOBAL.x, @x+1
  deriving Repr, DecidableEq, Inhabited

/-- `getVariableExprResult`: restored without quotes, lower-cased. -/
def varResult : Lit → String
  | .int i => toString i
  | .word w => lower w
  | .str s => lower s
  | .expr e => e.lowered

/-- `getSqlModeExprResult` / `getUserVariableExprResult`: quotes kept, case
    kept (`NULL` and `DEFAULT` are restored in upper case). -/
def rawResult : Lit → String
  | .int i => toString i
  | .word w => if lower w == "null" then "NULL" else if lower w == "default" then "DEFAULT" else w
  | .str s => "'" ++ s ++ "'"
  | .expr e => e.raw

/-- `isLiteralExpr`. -/
def Lit.isLiteral : Lit → Bool
  | .expr _ => false
  | _ => true

/-- `getStringVariableExprResult`: a literal as a string without quotes in
    lower case, an expression as it is written (a `UserVariablesType`). -/
def strResult (l : Lit) : Val := if l.isLiteral then .str (varResult l) else .user (rawResult l)

/-- One `ast.VariableAssignment`. `name` is `v.Name` ("SetNAMES" for SET NAMES). -/
structure Assign where
  name : String
  isGlobal : Bool := false
  isSystem : Bool := true
  value : Lit
  extend : Option Lit := none
  deriving Repr, Inhabited

/-- The parts of the proxy configuration `handleSetVariable` reads. -/
structure Cfg where
  tables : Tables
  verifyMap : VerifyMap
  defaultCharset : String
  defaultCollation : Nat
  /-- namespace `allowed_session_variables`: name ↦ "int" | "string" | "bool" | … -/
  allowed : AMap String := []
  /-- `!proxy.ServerVersionCompareStatus.LessThanMySQLVersion803` -/
  proxy803 : Bool := false
  deriving Repr, Inhabited

def liftSet (cl : Client) : Res SessionVariables → Res Client
  | .ok sv => .ok { cl with vars := sv }
  | .err k => .err k
  | .panic => .panic

/-- `setIntSessionVariable`. -/
def setIntSessionVariable (cfg : Cfg) (cl : Client) (name valueStr : String) : Res Client :=
  if lower valueStr == "default" then .ok { cl with vars := cl.vars.delete name }
  else match parseInt64 valueStr with
    | none => .err "parse-int"
    | some v => liftSet cl (cl.vars.set cfg.verifyMap name (.int v))

/-- `setStringSessionVariable` (only a Go `string` can ask for the default). -/
def setStringSessionVariable (cfg : Cfg) (cl : Client) (name : String) (value : Val) : Res Client :=
  match value with
  | .str valueStr =>
    if lower valueStr == "default" then .ok { cl with vars := cl.vars.delete name }
    else liftSet cl (cl.vars.set cfg.verifyMap name value)
  | _ => liftSet cl (cl.vars.set cfg.verifyMap name value)

/-- `setUserSessionVariable`: the value is a `UserVariablesType`, so the
    `valueStr.(string)` test never succeeds and nothing is ever deleted; the
    error of `Set` is dropped. -/
def setUserSessionVariable (cfg : Cfg) (cl : Client) (name : String) (value : String) : Res Client :=
  match cl.vars.set cfg.verifyMap ("@" ++ name) (.user value) with
  | .ok sv => .ok { cl with vars := sv }
  | .err _ => .ok cl
  | .panic => .panic

/-- `getOnOffVariable`. -/
def getOnOffVariable (v : String) : Option String :=
  if v == "1" || v == "on" then some "1" else if v == "0" || v == "off" then some "0" else none

/-- The `case` of the `switch name` in `handleSetVariable` that a (lower-cased)
    variable name selects. -/
inductive SetCase where
  | characterSet | groupConcatMaxLen | lockWaitTimeout | setNames | sqlMode | sqlSafeUpdates | timeZone
  | maxAllowedPacket | ignored | sqlSelectLimit | transaction | txReadOnly | dflt
  deriving DecidableEq, Repr, Inhabited

def setCase (name : String) : SetCase :=
  if name == "character_set_results" || name == "character_set_client" || name == "character_set_connection" then .characterSet
  else if name == "group_concat_max_len" then .groupConcatMaxLen
  else if name == "lock_wait_timeout" then .lockWaitTimeout
  else if name == "setnames" then .setNames
  else if name == "sql_mode" then .sqlMode
  else if name == "sql_safe_updates" then .sqlSafeUpdates
  else if name == "time_zone" then .timeZone
  else if name == "max_allowed_packet" then .maxAllowedPacket
  else if name == "wait_timeout" || name == "interactive_timeout" || name == "net_write_timeout" || name == "net_read_timeout" then .ignored
  else if name == "sql_select_limit" then .sqlSelectLimit
  else if name == "transaction" then .transaction
  else if name == "tx_read_only" || name == "transaction_read_only" then .txReadOnly
  else .dflt

/-- `SET NAMES charset [COLLATE collation]`. -/
def handleSetNames (cfg : Cfg) (cl : Client) (v : Assign) : Res Client :=
  let charset0 := varResult v.value
  let charset := if charset0 == "default" then cfg.defaultCharset else charset0
  match v.extend with
  | some e =>
    let collationName := varResult e
    match AMap.get cfg.tables.collationNames collationName with
    | none => .err "unknown-charset"
    | some cid =>
      match AMap.get cfg.tables.collationNameToCharset collationName with
      | none => .err "unknown-charset"
      | some toCharset =>
        if toCharset != charset then .err "unknown-charset"
        else .ok { cl with charset := charset, collation := cid }
  | none =>
    match AMap.get cfg.tables.charsetIds charset with
    | none => .err "unknown-charset"
    | some cid => .ok { cl with charset := charset, collation := cid }

/-- The `default:` case: a user variable, or a variable the namespace allows. -/
def handleSetOther (cfg : Cfg) (cl : Client) (name : String) (v : Assign) : Res Client :=
  if !v.isSystem && !v.isGlobal then setUserSessionVariable cfg cl name (rawResult v.value)
  else
    match AMap.get cfg.allowed name with
    | some "int" => setIntSessionVariable cfg cl name (varResult v.value)
    | some "string" => setStringSessionVariable cfg cl name (strResult v.value)
    | some "bool" =>
      match getOnOffVariable (varResult v.value) with
      | none => .err "wrong-value"
      | some x => setIntSessionVariable cfg cl name x
    | _ => .ok cl    -- unsupported variables are ignored (and logged)

/-- `handleSetVariable` (the cases that touch the session settings; `autocommit`
    and the general-log switch are not part of this model). -/
def handleSetVariable (cfg : Cfg) (cl : Client) (v : Assign) : Res Client :=
  if v.isGlobal then .err "global" else
  let name := lower v.name
  match setCase name with
  | .characterSet =>
    let charset := varResult v.value
    if charset == "null" then .ok cl
    else if charset == "default" then .ok { cl with charset := cfg.defaultCharset, collation := cfg.defaultCollation }
    else liftSet cl (cl.vars.set cfg.verifyMap name (strResult v.value))
  | .groupConcatMaxLen => setIntSessionVariable cfg cl "group_concat_max_len" (varResult v.value)
  | .lockWaitTimeout => setIntSessionVariable cfg cl name (varResult v.value)
  | .setNames => handleSetNames cfg cl v
  | .sqlMode => setStringSessionVariable cfg cl "sql_mode" (.str (rawResult v.value))
  | .sqlSafeUpdates =>
    match getOnOffVariable (varResult v.value) with
    | none => .err "wrong-value"
    | some x => setIntSessionVariable cfg cl "sql_safe_updates" x
  | .timeZone => setStringSessionVariable cfg cl "time_zone" (.str (varResult v.value))
  | .maxAllowedPacket => .err "read-only"
  | .ignored => .ok cl
  | .sqlSelectLimit => setIntSessionVariable cfg cl "sql_select_limit" (varResult v.value)
  | .transaction => .err "set-transaction"
  | .txReadOnly =>
    match getOnOffVariable (varResult v.value) with
    | none => .err "wrong-value"
    | some x =>
      if name == "tx_read_only" && cfg.proxy803 then setIntSessionVariable cfg cl "transaction_read_only" x
      else setIntSessionVariable cfg cl name x
  | .dflt => handleSetOther cfg cl name v

/-- `handleSet`: the assignments one after the other, stopping at the first
    error (what was assigned before it stays). -/
def handleSet (cfg : Cfg) (cl : Client) : List Assign → Client × Res Unit
  | [] => (cl, .ok ())
  | v :: vs =>
    match handleSetVariable cfg cl v with
    | .ok cl' => handleSet cfg cl' vs
    | .err k => (cl, .err k)
    | .panic => (cl, .panic)

/-! ### the system: clients sharing a pool -/

structure Sys where
  clients : List Client
  slots : List Slot
  deriving Repr, Inhabited

/-- A pool slot after `Recycle`: a closed connection is dropped and the pool
    opens a new one on demand (same pool configuration, same server). -/
def recycle (fresh : Slot) (s : Slot) : Slot := if s.conn.closed then fresh else s

inductive Op where
  /-- client `c` sends one SET statement -/
  | set (c : Nat) (assigns : List Assign)
  /-- client `c` is given connection `k`, `initBackendConn` prepares it, the
      statement executes, the connection is recycled -/
  | run (c k : Nat) (f : Fault)
  /-- client `c` opens a transaction on connection `k`
      (`getTransactionConn`: `SyncSessionVariables`), the connection is
      recycled at the end of the (empty) transaction -/
  | sync (c k : Nat) (f : Fault)
  deriving Repr, Inhabited

/-- What an operation shows. -/
inductive Out where
  | bad                                   -- no such client / connection
  | set (r : Res Unit)
  /-- `exec = some b`: the client's statement executed, on a backend session in state `b` -/
  | run (r : InitRes) (exec : Option Backend)
  | sync (r : InitRes)
  deriving Repr, Inhabited, DecidableEq

/-- The connection the pool opens for slot `k`: initial belief of the slot's
    configuration, server defaults. -/
abbrev Fresh := Nat → Slot

def step (cfg : Cfg) (fresh : Fresh) (s : Sys) : Op → Sys × Out
  | .set c assigns =>
    match s.clients[c]? with
    | none => (s, .bad)
    | some cl =>
      let r := handleSet cfg cl assigns
      ({ s with clients := s.clients.set c r.1 }, .set r.2)
  | .run c k f =>
    match s.clients[c]?, s.slots[k]? with
    | some cl, some sl =>
      let r := initializeSessionVariables cfg.tables sl cl f
      let exec := if r.2.2.isOk then some r.1.be else none
      ({ clients := s.clients.set c r.2.1, slots := s.slots.set k (recycle (fresh k) r.1) }, .run r.2.2 exec)
    | _, _ => (s, .bad)
  | .sync c k f =>
    match s.clients[c]?, s.slots[k]? with
    | some cl, some sl =>
      let r := syncSessionVariables cfg.tables sl cl f
      ({ s with slots := s.slots.set k (recycle (fresh k) r.1) }, .sync r.2)
    | _, _ => (s, .bad)

/-- Run a history; the outputs in order. -/
def runOps (cfg : Cfg) (fresh : Fresh) : Sys → List Op → Sys × List Out
  | s, [] => (s, [])
  | s, op :: ops =>
    let r := step cfg fresh s op
    let rest := runOps cfg fresh r.1 ops
    (rest.1, r.2 :: rest.2)

/-! ### the property's reference semantics -/

/-- The value text a backend session (of a server with flag `v803` and global
    variables `g`) must hold for its variable `k` when the settings are `vars`
    (`none` = server default): the value of what the client set it to.  When both
    spellings of `transaction_read_only` are set, a ≥ 8.0.3 backend holds the
    one recorded under its own name (`wireVars`). -/
def expectedVar (v803 : Bool) (g : AMap String) (vars : AMap Val) (k : String) : Option String :=
  match AMap.get (wireVars v803 vars) k with
  | some txt =>
    let v := evalText g [] txt
    if isReset k v then none else some v
  | none => none

/-- The backend variables `bvars` are what the settings `vars` ask for: every
    variable whose value does not read the session holds that value, and no
    variable is set that the settings do not mention.  (The value of an
    expression that reads the session — `@x = @y`, `sql_mode =
    CONCAT(@@sql_mode, …)` — is whatever the pooled connection made of it: the
    listed finding `set-expression-reads-session-state`.) -/
def VarsMatch (v803 : Bool) (g : AMap String) (vars : AMap Val) (bvars : AMap String) : Prop :=
  ∀ k, match AMap.get (wireVars v803 vars) k with
    | some txt => sessionFreeB txt = true → AMap.get bvars k = expectedVar v803 g vars k
    | none => AMap.get bvars k = none

/-- Backend session `b` carries exactly the settings of `cl`
    (for a connection with version flags `coll247`, `v803`). -/
def Matches (t : Tables) (coll247 v803 : Bool) (b : Backend) (cl : Client) : Prop :=
  b.charset = trimSet ['"', '\'', '`'] cl.charset ∧
  t.collationName (effectiveCollation t coll247 (trimSet ['"', '\'', '`'] cl.charset) cl.collation) = some b.collation ∧
  VarsMatch v803 b.globals cl.vars.variables b.vars

/-- No value of the settings reads the session it is evaluated in. -/
def SessionFreeVars (v803 : Bool) (vars : AMap Val) : Prop :=
  ∀ k txt, AMap.get (wireVars v803 vars) k = some txt → sessionFreeB txt = true

end GaeaVerif.SessVars
