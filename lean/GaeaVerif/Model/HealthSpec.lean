import GaeaVerif.Model.Health
/-
  Executable reference semantics of properties C27 and C28: what the property
  texts demand of the *observed node statuses* along a history of health-check
  rounds, fuse events and clock advances.  The judges below see only

    * the input history (configuration, clock, scripts of the check connection,
      whether the fuse strategy fired), and
    * the observed statuses (replica up?, master up?) after every event,

  never the strategy's internal counters.  They keep their own ghost variables
  (time of the last successful probe, time of the latest fuse, required and
  observed number of consecutive successful rounds).  The drivers Drv/C27 and
  Drv/C28 run them on the implementation's output (the property oracle);
  Props/C27 and Props/C28 prove that the model satisfies them on every history.
  Core Lean only.
-/
namespace GaeaVerif.Health

/-- Observed statuses after an event. Without a master node `master` is `true`. -/
structure Obs where
  rep : Bool
  master : Bool
  deriving DecidableEq, Repr

def St.obs (s : St) : Obs := ⟨s.rep.up, s.master.up⟩

/-- A successful probe: the check connection was obtained and passed
    (health SQL, or `CheckRepeat + 1` pings and `select 1`s). -/
def probeOk (c : Cfg) (p : Probe) : Bool := checkInstanceStatus c.healthSql p

/-- What `show slave status` says about the replica, as far as the property
    text goes: lag over the limit or a thread stopped = `bad`; the check is
    disabled, not permitted or all is well = `good`; anything the text does not
    speak about (query failure, values of an unexpected type) = `unspecified`. -/
inductive Sync where
  | good | bad | unspecified
  deriving DecidableEq, Repr

def threadStopped : RawVal → Bool
  | .str s => !(s == "Yes")
  | _ => false

def threadRunning : RawVal → Bool
  | .str s => s == "Yes"
  | _ => false

/-- The row of `show slave status`. -/
def rowSpec (sbm : Int) (lag io sql : RawVal) : Sync :=
  if threadStopped io || threadStopped sql then .bad
  else match lag with
    | .u64 n =>
      if (n : Int) > sbm then .bad
      else if threadRunning io && threadRunning sql then .good
      else .unspecified
    | _ => .unspecified

def syncSpec (sbm : Int) (q : SlaveQ) : Sync :=
  if sbm == 0 then .good
  else if sbm < 0 then .unspecified
  else match q with
    | .noPriv => .good
    | .empty => .good
    | .err => .unspecified
    | .nilRes => .unspecified
    | .row lag io sql => rowSpec sbm lag io sql

/-! ## C28 -/

inductive Viol28 where
  | statusChangedWithoutEvent
  | masterNotDownAfterNoAlive
  | masterNotRestoredAfterProbe
  | masterUpWithoutProbe
  | masterDownWithoutCause
  | replicaNotDownAfterNoAlive
  | replicaSyncFailureNotMarkedDown
  | replicaSyncIgnoredMasterDown
  | replicaNotRestoredAfterProbe
  | replicaUpWithoutProbe
  | replicaUpWithoutProbeMasterDown
  | replicaDownWithoutCause
  | fuseDidNotMarkDown
  | statusChangedByUntriggeredFuse
  deriving DecidableEq, Repr

def Viol28.name : Viol28 → String
  | .statusChangedWithoutEvent => "status-changed-without-event"
  | .masterNotDownAfterNoAlive => "master-not-down-after-no-alive"
  | .masterNotRestoredAfterProbe => "master-not-restored-after-probe"
  | .masterUpWithoutProbe => "master-up-without-probe"
  | .masterDownWithoutCause => "master-down-without-cause"
  | .replicaNotDownAfterNoAlive => "replica-not-down-after-no-alive"
  | .replicaSyncFailureNotMarkedDown => "replica-sync-failure-not-marked-down"
  | .replicaSyncIgnoredMasterDown => "replica-sync-ignored-master-down"
  | .replicaNotRestoredAfterProbe => "replica-not-restored-after-probe"
  | .replicaUpWithoutProbe => "replica-up-without-probe"
  | .replicaUpWithoutProbeMasterDown => "replica-up-without-probe-master-down"
  | .replicaDownWithoutCause => "replica-down-without-cause"
  | .fuseDidNotMarkDown => "fuse-did-not-mark-down"
  | .statusChangedByUntriggeredFuse => "status-changed-by-untriggered-fuse"

/-- Ghost state of the C28 judge. -/
structure G28 where
  rep : Bool          -- observed statuses before the event
  master : Bool
  lastOkR : Int       -- time of the replica's last successful probe (or creation)
  lastOkM : Int
  deriving DecidableEq, Repr

def G28.init (t0 : Int) : G28 := ⟨true, true, t0, t0⟩

/-- The master is down (or there is none) as far as an observer can tell. -/
def obsMasterDown (c : Cfg) (master : Bool) : Bool := !c.hasMaster || !master

/-- C28 on a master round. -/
def judgeMaster28 (c : Cfg) (g : G28) (now : Int) (p : Probe) (o : Obs) : List Viol28 × G28 :=
  let ok := probeOk c p
  let lastOk := if c.hasMaster && ok then now else g.lastOkM
  let g' : G28 := { g with rep := o.rep, master := o.master, lastOkM := lastOk }
  let vr := if o.rep != g.rep then [Viol28.statusChangedWithoutEvent] else []
  if !c.hasMaster then (vr, g') else
  let vm :=
    if now - lastOk ≥ c.downAfter then
      (if o.master then [Viol28.masterNotDownAfterNoAlive] else [])
    else if !g.master && ok then
      (if !o.master then [Viol28.masterNotRestoredAfterProbe] else [])
    else if !g.master && o.master then [Viol28.masterUpWithoutProbe]
    else if g.master && !o.master then [Viol28.masterDownWithoutCause]
    else []
  (vr ++ vm, g')

/-- C28 on a replica round. -/
def judgeReplica28 (c : Cfg) (g : G28) (now : Int) (p : Probe) (q : SlaveQ) (o : Obs) : List Viol28 × G28 :=
  let ok := probeOk c p
  let lastOk := if ok then now else g.lastOkR
  let g' : G28 := { g with rep := o.rep, master := o.master, lastOkR := lastOk }
  let vm := if o.master != g.master then [Viol28.statusChangedWithoutEvent] else []
  let md := obsMasterDown c g.master
  let sync := if ok then syncSpec c.sbm q else Sync.good   -- no connection: nothing is known
  let vr :=
    if now - lastOk ≥ c.downAfter then
      (if o.rep then [Viol28.replicaNotDownAfterNoAlive] else [])
    else if sync == .bad then
      (if o.rep then [if md then Viol28.replicaSyncIgnoredMasterDown else Viol28.replicaSyncFailureNotMarkedDown] else [])
    else if sync == .unspecified then []
    else if !g.rep then
      (if ok then
        (if c.policy == .none && !o.rep then [Viol28.replicaNotRestoredAfterProbe] else [])
       else
        (if o.rep then [if md then Viol28.replicaUpWithoutProbeMasterDown else Viol28.replicaUpWithoutProbe] else []))
    else
      (if !o.rep then [Viol28.replicaDownWithoutCause] else [])
  (vm ++ vr, g')

/-- C28 on a TryFuse call. -/
def judgeFuse28 (c : Cfg) (g : G28) (connErr trig : Bool) (o : Obs) : List Viol28 × G28 :=
  let g' : G28 := { g with rep := o.rep, master := o.master }
  let vm := if o.master != g.master then [Viol28.statusChangedWithoutEvent] else []
  let vr :=
    if c.policy != .none && connErr && trig then
      (if o.rep then [Viol28.fuseDidNotMarkDown] else [])
    else if o.rep != g.rep then [Viol28.statusChangedByUntriggeredFuse]
    else []
  (vm ++ vr, g')

def judgeStep28 (c : Cfg) (g : G28) (e : Ev) (o : Obs) : List Viol28 × G28 :=
  match e with
  | .master now p => judgeMaster28 c g now p o
  | .replica now p q => judgeReplica28 c g now p q o
  | .fuse _ ce tr => judgeFuse28 c g ce tr o
  | .tick _ =>
    (if o.rep != g.rep || o.master != g.master then [Viol28.statusChangedWithoutEvent] else [],
     { g with rep := o.rep, master := o.master })

/-- All violations of C28 along a history with its observed statuses. -/
def judge28 (c : Cfg) (g : G28) : List Ev → List Obs → List Viol28
  | e :: es, o :: os =>
    let (v, g') := judgeStep28 c g e o
    v ++ judge28 c g' es os
  | _, _ => []

/-! ## C27 -/

inductive Viol27 where
  | hardRestoredInCooldown
  | hardRestoredInCooldownMasterDown
  | hardNotRestoredAfterCooldown
  | gradualRestoredBeforePenalty
  | gradualRestoredBeforePenaltyMasterDown
  | gradualNotRestoredAfterPenalty
  deriving DecidableEq, Repr

def Viol27.name : Viol27 → String
  | .hardRestoredInCooldown => "hard-restored-in-cooldown"
  | .hardRestoredInCooldownMasterDown => "hard-restored-in-cooldown-master-down"
  | .hardNotRestoredAfterCooldown => "hard-not-restored-after-cooldown"
  | .gradualRestoredBeforePenalty => "gradual-restored-before-penalty"
  | .gradualRestoredBeforePenaltyMasterDown => "gradual-restored-before-penalty-master-down"
  | .gradualNotRestoredAfterPenalty => "gradual-not-restored-after-penalty"

/-- Ghost state of the C27 judge. -/
structure G27 where
  rep : Bool          -- observed statuses before the event
  master : Bool
  lastOkR : Int       -- time of the replica's last successful probe (or creation)
  /-- the replica is down and the circuit breaker hit it since it was last up -/
  fusedDown : Bool
  /-- time of the latest fuse that counts for a replica taken down by the breaker -/
  fusedAt : Int
  /-- time of the latest firing of the breaker on this replica, whatever its status -/
  lastTrig : Int
  /-- gradual policy: number of recoveries that went wrong in a row (+ 3) -/
  n : Int
  /-- gradual policy: consecutive successful rounds required before the restore -/
  need : Int
  /-- gradual policy: consecutive successful rounds seen since `need` was set, counting the
      rounds whose replication answer the property text does not classify -/
  good : Int
  /-- gradual policy: the same count without the unclassified rounds -/
  sure : Int
  /-- gradual policy: time of the latest restore (or creation) -/
  lastRec : Int
  deriving DecidableEq, Repr

def G27.init (t0 : Int) : G27 :=
  { rep := true, master := true, lastOkR := t0, fusedDown := false, fusedAt := 0, lastTrig := 0,
    n := initErrorRecoveryCount, need := 0, good := 0, sure := 0, lastRec := t0 }

/-- Has the recovery condition of the policy been met at time `now`? -/
def recoveryDue (c : Cfg) (g : G27) (now : Int) : Bool :=
  match c.policy with
  | .none => true
  | .hard => now ≥ g.fusedAt + c.cooling
  | .gradual => g.good ≥ g.need

def earlyViol (c : Cfg) (md : Bool) : Viol27 :=
  match c.policy, md with
  | .gradual, false => .gradualRestoredBeforePenalty
  | .gradual, true => .gradualRestoredBeforePenaltyMasterDown
  | _, false => .hardRestoredInCooldown
  | _, true => .hardRestoredInCooldownMasterDown

/-- Bookkeeping common to all events once the new statuses are known. -/
def G27.observe (g : G27) (now : Int) (o : Obs) : G27 :=
  let g := if !g.rep && o.rep then { g with lastRec := now, need := 0, good := 0, sure := 0 } else g
  { g with rep := o.rep, master := o.master, fusedDown := g.fusedDown && !o.rep }

/-- Safety half of C27 at any event: a replica taken down by the breaker is
    not up again before its recovery condition holds. -/
def judgeEarly27 (c : Cfg) (g : G27) (now : Int) (o : Obs) : List Viol27 :=
  if g.fusedDown && !g.rep && o.rep && !recoveryDue c g now then [earlyViol c (obsMasterDown c g.master)] else []

/-- C27 on a replica round. -/
def judgeReplica27 (c : Cfg) (g : G27) (now : Int) (p : Probe) (q : SlaveQ) (o : Obs) : List Viol27 × G27 :=
  let ok := probeOk c p
  let lastOk := if ok then now else g.lastOkR
  let g := { g with lastOkR := lastOk }
  -- a round counts whatever the master's state (the text makes no exception for a master
  -- outage); a round whose `show slave status` answer is bad while the master is down is
  -- left open like an unclassified one (no restore demanded, none forbidden: C28 lists it)
  let md := obsMasterDown c g.master
  let live := ok && decide (now - lastOk < c.downAfter)
  let goodRound := live && (syncSpec c.sbm q == .good)
  let maybeRound := live && (syncSpec c.sbm q == .unspecified || (md && syncSpec c.sbm q == .bad))
  if !(g.fusedDown && !g.rep) then ([], g.observe now o) else
  match c.policy with
  | .none => ([], g.observe now o)
  | .hard =>
    let vs := judgeEarly27 c g now o
    let vl := if goodRound && decide (now ≥ g.lastTrig + c.cooling) && !o.rep then [Viol27.hardNotRestoredAfterCooldown] else []
    (vs ++ vl, g.observe now o)
  | .gradual =>
    -- a failed probe breaks the run of consecutive successes
    let g := if !ok then { g with need := penalty g.n, good := 0, sure := 0 } else g
    let vs := judgeEarly27 c g now o
    let vl := if goodRound && decide (g.sure ≥ g.need) && !o.rep then [Viol27.gradualNotRestoredAfterPenalty] else []
    let g := if goodRound then { g with good := g.good + 1, sure := g.sure + 1 }
             else if maybeRound then { g with good := g.good + 1 } else g
    (vs ++ vl, g.observe now o)

/-- C27 on a TryFuse call. -/
def judgeFuse27 (c : Cfg) (g : G27) (now : Int) (connErr trig : Bool) (o : Obs) : List Viol27 × G27 :=
  let vs := judgeEarly27 c g now o
  if !(c.policy != .none && connErr && trig) then (vs, g.observe now o) else
  let g1 := { g with lastTrig := now }
  let g2 :=
    if g.rep then
      -- the breaker takes the replica down
      let g1 := { g1 with fusedDown := true, fusedAt := now }
      if c.policy == .gradual then
        (if now - g.lastRec ≤ pingPeriod * 2 then
          { g1 with n := g.n + 1, need := penalty (g.n + 1), good := 0, sure := 0 }
         else { g1 with n := initErrorRecoveryCount, need := 0, good := 0, sure := 0 })
      else g1
    else if g.fusedDown && c.policy == .hard then { g1 with fusedAt := now }
    else g1
  (vs, g2.observe now o)

def judgeStep27 (c : Cfg) (g : G27) (e : Ev) (o : Obs) : List Viol27 × G27 :=
  match e with
  | .replica now p q => judgeReplica27 c g now p q o
  | .fuse now ce tr => judgeFuse27 c g now ce tr o
  | .master now _ => (judgeEarly27 c g now o, g.observe now o)
  | .tick now => (judgeEarly27 c g now o, g.observe now o)

/-- All violations of C27 along a history with its observed statuses. -/
def judge27 (c : Cfg) (g : G27) : List Ev → List Obs → List Viol27
  | e :: es, o :: os =>
    let (v, g') := judgeStep27 c g e o
    v ++ judge27 c g' es os
  | _, _ => []

end GaeaVerif.Health
