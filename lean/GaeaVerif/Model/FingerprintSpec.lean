/-
  Reference semantics of property C36 (the SQL blacklist ignores literals,
  spacing, case and comments), used by the property oracle of Drv/C36.lean.

  A case is a list of segments `(kind, a, b)`: token by token and gap by gap
  the text of a blacklisted statement A and of a checked statement B.  The
  functions below recognise the token classes, decide from the segments
  whether B is a *variant* of A (same token skeleton up to literal values and
  keyword case) or a *structural mutant*, and name the lexical features of the
  pair (where a comment sits, how a literal is spelt, …) so that a violation
  can be reported under a narrow class.  Core Lean only.
-/
namespace GaeaVerif.FingerprintSpec

inductive Kind where
  | kw | id | op | lit | gap
  deriving DecidableEq, Repr, Inhabited

structure Seg where
  kind : Kind
  a : List Char
  b : List Char
  deriving Repr, Inhabited

def isWs (c : Char) : Bool :=
  c = ' ' || c = '\t' || c = '\n' || c = '\r' || c = Char.ofNat 11 || c = Char.ofNat 12
def isAlpha (c : Char) : Bool := ('a' ≤ c && c ≤ 'z') || ('A' ≤ c && c ≤ 'Z')
def isDigit (c : Char) : Bool := '0' ≤ c && c ≤ '9'
def isHex (c : Char) : Bool := isDigit c || ('a' ≤ c && c ≤ 'f') || ('A' ≤ c && c ≤ 'F')
def isIdentChar (c : Char) : Bool := isAlpha c || isDigit c || c = '_'
def lower (w : List Char) : List Char := w.map Char.toLower

def validKw (w : List Char) : Bool := !w.isEmpty && w.all isAlpha

def validId (w : List Char) : Bool :=
  match w with
  | [] => false
  | '`' :: rest =>
    match rest.reverse with
    | '`' :: mid => !mid.isEmpty && mid.all (· ≠ '`')
    | _ => false
  | c :: rest => (isAlpha c || c = '_') && rest.all isIdentChar

def opTable : List (List Char) :=
  [['='], ['<'], ['>'], ['<', '='], ['>', '='], ['<', '>'], ['!', '='], [','], ['('], [')'], ['.'], ['*'], [';']]

def validOp (w : List Char) : Bool := opTable.contains w

/-- Body of a quoted string after the opening quote `q`: returns whether it is
    closed exactly at the end of the text, and whether a doubled quote occurs. -/
def strBody (q : Char) : List Char → Bool → Option Bool
  | [], _ => none
  | c :: rest, dbl =>
    if c = '\\' then
      match rest with
      | [] => none
      | _ :: rest' => strBody q rest' dbl
    else if c = q then
      match rest with
      | [] => some dbl
      | c' :: rest' => if c' = q then strBody q rest' true else none
    else strBody q rest dbl
termination_by l => l.length

/-- Digits with at most one dot, at least one digit. -/
def decimalBody (w : List Char) : Bool :=
  w.all (fun c => isDigit c || c = '.') && w.any isDigit && (w.filter (· = '.')).length ≤ 1

/-- Lexical features of a literal, `none` if the text is not a literal. -/
def litFeatures (w : List Char) : Option (List String) :=
  let signed := match w with | '-' :: _ => true | '+' :: _ => true | _ => false
  let w1 := if signed then w.drop 1 else w
  let sf := if signed then ["lit-signed"] else []
  match w1 with
  | [] => none
  | '\'' :: rest => if signed then none else (strBody '\'' rest false).map fun d => if d then ["lit-doubled-quote"] else []
  | '"' :: rest => if signed then none else (strBody '"' rest false).map fun d => if d then ["lit-doubled-quote"] else []
  | '0' :: 'x' :: rest => if !rest.isEmpty && rest.all isHex then some sf else none
  | '0' :: 'b' :: rest => if !rest.isEmpty && rest.all (fun c => c = '0' || c = '1') then some sf else none
  | c :: _ =>
    if isDigit c || c = '.' then
      let mant := w1.takeWhile (fun c => isDigit c || c = '.')
      let rest := w1.dropWhile (fun c => isDigit c || c = '.')
      let dotf := if c = '.' then ["lit-leading-dot"] else []
      if !decimalBody mant then none
      else match rest with
        | [] => some (sf ++ dotf)
        | e :: ex =>
          if e = 'e' || e = 'E' then
            match ex with
            | '+' :: ds => if !ds.isEmpty && ds.all isDigit then some (sf ++ dotf ++ ["lit-exponent-plus"]) else none
            | '-' :: ds => if !ds.isEmpty && ds.all isDigit then some (sf ++ dotf) else none
            | ds => if !ds.isEmpty && ds.all isDigit then some (sf ++ dotf) else none
          else none
    else
      -- prefixed strings: x'..' b'..' n'..' _charset'..'
      let pre := w1.takeWhile (fun c => isIdentChar c)
      let rest := w1.dropWhile (fun c => isIdentChar c)
      if signed || pre.isEmpty then none
      else match rest with
        | '\'' :: body => (strBody '\'' body false).map fun d => "lit-prefixed-string" :: (if d then ["lit-doubled-quote"] else [])
        | _ => none

/-- One piece of a gap. -/
inductive Piece where
  | ws
  | mlc (hasSlash : Bool)
  | dash
  | hash
  deriving DecidableEq, Repr

/-- Skip to the end of a `/* … */` comment; returns the rest and whether the
    body contains a `/`. -/
def skipMlc : List Char → Bool → Option (List Char × Bool)
  | [], _ => none
  | '*' :: '/' :: rest, sl => some (rest, sl)
  | c :: rest, sl => skipMlc rest (sl || c = '/')

def skipLine : List Char → List Char
  | [] => []
  | '\n' :: rest => rest
  | _ :: rest => skipLine rest

/-- Split a gap into white space and comments; `none` if something else occurs
    (an unterminated or executable `/*!` comment, `--` without a blank after it …). -/
def gapPieces (fuel : Nat) (l : List Char) : Option (List Piece) :=
  match fuel with
  | 0 => if l.isEmpty then some [] else none
  | fuel + 1 =>
    match l with
    | [] => some []
    | '/' :: '*' :: rest =>
      match rest with
      | '!' :: _ => none
      | _ =>
        match skipMlc rest false with
        | none => none
        | some (rest', sl) => (gapPieces fuel rest').map (Piece.mlc sl :: ·)
    | '-' :: '-' :: c :: rest =>
      if isWs c then (gapPieces fuel (skipLine (c :: rest))).map (Piece.dash :: ·) else none
    | '#' :: rest => (gapPieces fuel (skipLine rest)).map (Piece.hash :: ·)
    | c :: rest => if isWs c then (gapPieces fuel rest).map (Piece.ws :: ·) else none

def pieces (l : List Char) : Option (List Piece) := gapPieces (l.length + 1) l

def validSide (k : Kind) (w : List Char) : Bool :=
  w.isEmpty ||
  match k with
  | .kw => validKw w
  | .id => validId w
  | .op => validOp w
  | .lit => (litFeatures w).isSome
  | .gap => (pieces w).isSome

/-- A present token of one side with the gap text that follows it. -/
structure TokG where
  kind : Kind
  text : List Char
  gapAfter : List Char
  deriving Repr, Inhabited

/-- Tokens of one side (`sel` picks the side), each with the gap up to the
    next present token; the first component is the gap before the first token. -/
def sideToks (sel : Seg → List Char) : List Seg → List Char × List TokG
  | [] => ([], [])
  | s :: rest =>
    let (lead, ts) := sideToks sel rest
    let w := sel s
    if s.kind = .gap then (w ++ lead, ts)
    else if w.isEmpty then (lead, ts)
    else ([], { kind := s.kind, text := w, gapAfter := lead } :: ts)

def wordlike (k : Kind) : Bool := k = .kw || k = .id || k = .lit

/-- Adjacent word-like tokens must be separated by something. -/
def separated : List TokG → Bool
  | t1 :: t2 :: rest =>
    (!(wordlike t1.kind && wordlike t2.kind) || !t1.gapAfter.isEmpty) &&
      -- `*` directly followed by a comment would read `*/`
      !(t1.text = ['*'] && t1.gapAfter.head? = some '/') && separated (t2 :: rest)
  | _ => true

def skelTok (foldId : Bool) (t : TokG) : List Char :=
  match t.kind with
  | .kw => lower t.text
  | .lit => ['?']
  | .id => if foldId then lower t.text else t.text
  | _ => t.text

def skeleton (foldId : Bool) (ts : List TokG) : List (List Char) := ts.map (skelTok foldId)

inductive Rel where
  | same | mutant | unspecified | malformed
  deriving DecidableEq, Repr

def isListKw (t : TokG) : Bool :=
  t.kind = .kw && (lower t.text = ['i', 'n'] || lower t.text = ['v', 'a', 'l', 'u', 'e', 's'] || lower t.text = ['v', 'a', 'l', 'u', 'e'])

/-- Marks of a token: after it, are we inside the parentheses of an
    `in`/`values` list; does it open such a list; does it close one. -/
structure Mark where
  insideAfter : Bool
  opens : Bool
  closes : Bool
  deriving Repr, Inhabited

/-- `stack`: for every open parenthesis whether it is a list parenthesis.
    A `(` is a list parenthesis after `in`/`values`/`value`, and after the
    comma that follows a closed list (`values (1), (2)`). -/
def listMarks : List TokG → List Bool → (prevListKw prevClosed prevCommaAfterList : Bool) → List Mark
  | [], _, _, _, _ => []
  | t :: rest, stack, plk, pcl, pcal =>
    if t.kind = .op && t.text = ['('] then
      let isList := plk || pcal
      { insideAfter := isList || stack.any id, opens := isList, closes := false } ::
        listMarks rest (isList :: stack) false false false
    else if t.kind = .op && t.text = [')'] then
      let closes := stack.head?.getD false
      { insideAfter := (stack.drop 1).any id, opens := false, closes := closes } ::
        listMarks rest (stack.drop 1) false closes false
    else
      { insideAfter := stack.any id, opens := false, closes := false } ::
        listMarks rest stack (isListKw t) false (pcl && t.kind = .op && t.text = [','] && !(stack.any id))

def marksOf (ts : List TokG) : List Mark := listMarks ts [] false false false

def styleName : Piece → String
  | .mlc _ => "mlc" | .dash => "dash" | .hash => "hash" | .ws => "ws"

/-- Features of the comments in one gap, given the token before and after it. -/
def gapFeatures (prev next : Option (TokG × Mark)) (gap : List Char) : List String :=
  match pieces gap with
  | none => []
  | some ps =>
    (List.range ps.length).flatMap fun i =>
      match ps[i]? with
      | none => []
      | some Piece.ws => []
      | some p =>
        let style := styleName p
        let slash := match p with | .mlc true => ["mlc-contains-slash"] | _ => []
        let inside := match prev with | some (_, m) => m.insideAfter | none => false
        if inside then
          slash ++ [if gap.any (fun c => c = '\'' || c = '"' || c = '(' || c = ')') then "comment-with-quote-or-paren-inside-list"
                    else style ++ "-inside-list"]
        else
          let left :=
            match prev with
            | none => []
            | some (pt, m) =>
              if i = 0 then
                if m.closes then [style ++ "-glued-after-list"]
                else match pt.kind with
                  | .kw => [style ++ "-glued-after-word"]
                  | .id => [style ++ "-glued-after-word"]
                  | .lit =>
                    -- a comment that is the only separator between a literal and the next token
                    if style = "mlc" && !ps.contains Piece.ws && next.isSome then ["mlc-glued-both-sides-after-literal"]
                    else [style ++ "-glued-after-literal"]
                  | _ => [style ++ "-glued-after-op"]
              else if m.closes then [style ++ "-after-list"] else []
          let right :=
            match next with
            | none => []
            | some (nt, m) =>
              if nt.kind = .lit then [style ++ "-before-literal"]
              else if m.opens then [style ++ "-before-list"]
              else []
          slash ++ left ++ right

/-- Features of the gaps of a variant pair (`ta`, `tb` are aligned token by
    token): a gap that holds something (white space or a comment) on one side
    only is `optional-space`; otherwise the comments of both sides are
    described by their context. -/
def pairGapFeatures (first : Bool) : List ((TokG × Mark) × (TokG × Mark)) → List String
  | [] => []
  | (x, y) :: rest =>
    let nx := rest.head?.map (·.1)
    let ny := rest.head?.map (·.2)
    let here :=
      if !rest.isEmpty && (x.1.gapAfter.isEmpty != y.1.gapAfter.isEmpty) then ["optional-space"]
      else
        let fx := gapFeatures (some x) nx x.1.gapAfter
        let fy := gapFeatures (some y) ny y.1.gapAfter
        (fx ++ fy).map fun f =>
          if first && f = "dash-glued-after-word" then "dash-glued-after-first-word" else f
    -- a hex/bit string (`x'0F'`, `b'01'`) glued to the previous token
    let gluedHex (t : TokG × Mark) (n : Option (TokG × Mark)) : List String :=
      match n with
      | some (nt, _) =>
        if t.1.gapAfter.isEmpty && nt.kind = .lit && ((litFeatures nt.text).getD []).contains "lit-prefixed-string"
        then ["lit-prefixed-string-glued"] else []
      | none => []
    here ++ gluedHex x nx ++ gluedHex y ny ++ pairGapFeatures false rest

def literalFeatures (segs : List Seg) : List String :=
  segs.flatMap fun s =>
    if s.kind = .lit then ((litFeatures s.a).getD []) ++ ((litFeatures s.b).getD []) else []

def dedup (l : List String) : List String :=
  l.foldl (fun acc x => if acc.contains x then acc else acc ++ [x]) []

def insertSorted (x : String) : List String → List String
  | [] => [x]
  | y :: ys => if x < y then x :: y :: ys else y :: insertSorted x ys

def sortStrings (l : List String) : List String := l.foldr insertSorted []

/-- The relation between the two statements of a case. -/
def relation (segs : List Seg) : Rel :=
  if !(segs.all fun s => validSide s.kind s.a && validSide s.kind s.b) then .malformed
  else
    let (_, ta) := sideToks (·.a) segs
    let (_, tb) := sideToks (·.b) segs
    if ta.isEmpty || tb.isEmpty || !separated ta || !separated tb then .malformed
    else if skeleton false ta = skeleton false tb then .same
    else if skeleton true ta = skeleton true tb then .unspecified
    else .mutant

/-- All lexical features of a variant pair. -/
def features (segs : List Seg) : List String :=
  let (la, ta) := sideToks (·.a) segs
  let (lb, tb) := sideToks (·.b) segs
  let tma := ta.zip (marksOf ta)
  let tmb := tb.zip (marksOf tb)
  sortStrings (dedup (gapFeatures none tma.head? la ++ gapFeatures none tmb.head? lb ++
    pairGapFeatures true (tma.zip tmb) ++ literalFeatures segs))

/-- Do the two sides of a mutant pair differ only in tokens that are inside
    `in`/`values` lists on both sides? -/
def mutantOnlyInsideLists (segs : List Seg) : Bool :=
  let (_, ta) := sideToks (·.a) segs
  let (_, tb) := sideToks (·.b) segs
  if ta.length ≠ tb.length then false
  else
    let inside (ts : List TokG) : List Bool :=
      -- a token is inside a list if the token before it leaves us inside one and it does not close it
      let ms := marksOf ts
      (List.range ts.length).map fun i =>
        match i, ms[i - 1]?, ms[i]? with
        | 0, _, _ => false
        | _, some mp, some m => mp.insideAfter && !m.closes
        | _, _, _ => false
    (((ta.zip tb).zip ((inside ta).zip (inside tb))).all fun ((x, y), (p, q)) =>
      skelTok false x = skelTok false y || (p && q))

end GaeaVerif.FingerprintSpec
