/-
  Model of the online-reload state machine of one Gaea proxy
  (/repo/proxy/server/manager.go: `Manager`, `ReloadNamespacePrepare`,
  `ReloadNamespaceCommit`, `DeleteNamespace`, `GetNamespace`,
  `ShallowCopyNamespaceManager`, `CloneUserManager`; /repo/util/util.go:
  `BoolIndex`), as repaired by the `fix:` commit "bind the prepared
  configuration generation to its namespace and serialise reload operations".
  The three operations run under `Manager.reloadMu`, so one model step is one
  whole operation; `…Trace` lists the states a concurrent reader can see while
  the operation runs (one entry per store to a field of `Manager`).

  A namespace configuration is abstracted to its name and a version number;
  a `NamespaceManager` (map name ↦ *Namespace) and a `UserManager` (the users
  of each namespace) are tables name ↦ version.  Core Lean only.

  `Pinned.*` is the same machine before the repair (single pending flag, no
  name, no invalidation on delete); it is kept for the regression witnesses.
-/
namespace GaeaVerif.MgrReload

abbrev Name := Nat
abbrev Ver := Nat

/-- A Go `map[string]*T` as far as the reload code uses one: lookup, insert,
    delete, copy.  (A copy of a table is the table itself.) -/
abbrev Table := Name → Option Ver

namespace Table
def empty : Table := fun _ => none
/-- `m[n] = v` -/
def set (t : Table) (n : Name) (v : Ver) : Table := fun k => if k = n then some v else t k
/-- `delete(m, n)` -/
def erase (t : Table) (n : Name) : Table := fun k => if k = n then none else t k
def ofList : List (Name × Ver) → Table
  | [] => empty
  | (n, v) :: rest => (ofList rest).set n v
end Table

/-- A two-element Go array indexed by `BoolIndex.Get()`'s `current`/`other`. -/
abbrev Pair (α : Type) := Bool → α
def Pair.put {α : Type} (a : Pair α) (i : Bool) (x : α) : Pair α := fun j => if j = i then x else a j

/-- Outcome of a configuration operation. -/
inductive Out where
  | ok
  | errNotPrepared   -- errors.ErrNamespaceNotPrepared
  | errBuild         -- NewNamespace rejected the configuration (RebuildNamespace error)
  | panic            -- nil dereference
  deriving Repr, DecidableEq

/-- `type Manager struct` (statistics left out). `none` in a slot is a nil
    `*NamespaceManager` / `*UserManager`. -/
structure Manager where
  reloadPrepared : Bool
  preparedName : Name
  switchIndex : Bool
  namespaces : Pair (Option Table)
  users : Pair (Option Table)

/-- `CreateManager`: generation 0 built from the loaded configurations, the
    other one nil, nothing prepared. -/
def CreateManager (cfgs : List (Name × Ver)) : Manager :=
  { reloadPrepared := false, preparedName := 0, switchIndex := false,
    namespaces := fun i => if i = false then some (Table.ofList cfgs) else none,
    users := fun i => if i = false then some (Table.ofList cfgs) else none }

/-- `Manager.GetNamespace`: `R`-like result, `none` = nil manager dereferenced. -/
def GetNamespace (m : Manager) (name : Name) : Option (Option Ver) :=
  (m.namespaces m.switchIndex).map (· name)

/-- `Manager.GetNamespaceByUser` for the user of `name`: the version whose
    credentials resolve to the namespace. -/
def GetNamespaceByUser (m : Manager) (name : Name) : Option (Option Ver) :=
  (m.users m.switchIndex).map (· name)

/-- States visible while `ReloadNamespacePrepare` runs, in program order; the
    last one is the result. `buildable = false`: `RebuildNamespace` fails. -/
def ReloadNamespacePrepareTrace (m : Manager) (name : Name) (v : Ver) (buildable : Bool) : List Manager × Out :=
  let current := m.switchIndex
  let other := !m.switchIndex
  match m.namespaces current with
  | none => ([], .panic)                     -- currentNamespaceManager.GetNamespace on nil
  | some curNs =>
    -- newNamespaceManager := ShallowCopyNamespaceManager(current); RebuildNamespace(config)
    if !buildable then ([], .errBuild) else
    let m1 := { m with namespaces := m.namespaces.put other (some (curNs.set name v)) }
    match m.users current with
    | none => ([m1], .panic)                 -- CloneUserManager(nil)
    | some curUs =>
      -- RebuildNamespaceUsers = ClearNamespaceUsers(name); addNamespaceUsers(config)
      let m2 := { m1 with users := m1.users.put other (some ((curUs.erase name).set name v)) }
      let m3 := { m2 with preparedName := name }
      let m4 := { m3 with reloadPrepared := true }
      ([m1, m2, m3, m4], .ok)

/-- `Manager.ReloadNamespacePrepare`. -/
def ReloadNamespacePrepare (m : Manager) (name : Name) (v : Ver) (buildable : Bool) : Manager × Out :=
  let r := ReloadNamespacePrepareTrace m name v buildable
  (r.1.getLastD m, r.2)

/-- States visible while `ReloadNamespaceCommit` runs. -/
def ReloadNamespaceCommitTrace (m : Manager) (name : Name) : List Manager × Out :=
  if !(m.reloadPrepared && m.preparedName == name) then ([], .errNotPrepared) else
  let m1 := { m with reloadPrepared := false }
  match m1.namespaces m1.switchIndex with
  | none => ([m1], .panic)                   -- m.namespaces[current].GetNamespace on nil
  | some _ =>
    -- (the replaced namespace object is closed in the background)
    let m2 := { m1 with switchIndex := !m1.switchIndex }
    -- newNamespace := m.GetNamespace(name); newNamespace.Init()
    match GetNamespace m2 name with
    | some (some _) => ([m1, m2], .ok)
    | _ => ([m1, m2], .panic)

/-- `Manager.ReloadNamespaceCommit`. -/
def ReloadNamespaceCommit (m : Manager) (name : Name) : Manager × Out :=
  let r := ReloadNamespaceCommitTrace m name
  (r.1.getLastD m, r.2)

/-- States visible while `DeleteNamespace` runs. -/
def DeleteNamespaceTrace (m : Manager) (name : Name) : List Manager × Out :=
  let current := m.switchIndex
  let other := !m.switchIndex
  match m.namespaces current with
  | none => ([], .panic)
  | some curNs =>
    match curNs name with
    | none => ([], .ok)                      -- idempotent delete
    | some _ =>
      let m1 := { m with namespaces := m.namespaces.put other (some (curNs.erase name)) }
      match m.users current with
      | none => ([m1], .panic)
      | some curUs =>
        let m2 := { m1 with users := m1.users.put other (some (curUs.erase name)) }
        let m3 := { m2 with reloadPrepared := false }
        let m4 := { m3 with switchIndex := !current }
        ([m1, m2, m3, m4], .ok)

/-- `Manager.DeleteNamespace`. -/
def DeleteNamespace (m : Manager) (name : Name) : Manager × Out :=
  let r := DeleteNamespaceTrace m name
  (r.1.getLastD m, r.2)

/-- One configuration operation issued by an administrator. -/
inductive Op where
  | prepare (name : Name) (v : Ver) (buildable : Bool)
  | commit (name : Name)
  | delete (name : Name)
  deriving Repr, DecidableEq

def Op.name : Op → Name
  | .prepare n _ _ => n
  | .commit n => n
  | .delete n => n

def trace (m : Manager) : Op → List Manager × Out
  | .prepare n v b => ReloadNamespacePrepareTrace m n v b
  | .commit n => ReloadNamespaceCommitTrace m n
  | .delete n => DeleteNamespaceTrace m n

def step (m : Manager) : Op → Manager × Out
  | .prepare n v b => ReloadNamespacePrepare m n v b
  | .commit n => ReloadNamespaceCommit m n
  | .delete n => DeleteNamespace m n

/-- A whole history: the outcome of every operation and the manager after it. -/
def run (m : Manager) : List Op → List (Out × Manager)
  | [] => []
  | op :: rest => let r := step m op; (r.2, r.1) :: run r.1 rest

/-! ### The machine before the repair (pinned tree) -/
namespace Pinned

def ReloadNamespacePrepare (m : Manager) (name : Name) (v : Ver) (buildable : Bool) : Manager × Out :=
  let current := m.switchIndex
  let other := !m.switchIndex
  match m.namespaces current with
  | none => (m, .panic)
  | some curNs =>
    if !buildable then (m, .errBuild) else
    let m1 := { m with namespaces := m.namespaces.put other (some (curNs.set name v)) }
    match m.users current with
    | none => (m1, .panic)
    | some curUs =>
      ({ m1 with users := m1.users.put other (some ((curUs.erase name).set name v)), reloadPrepared := true }, .ok)

def ReloadNamespaceCommit (m : Manager) (name : Name) : Manager × Out :=
  -- if !m.reloadPrepared.CompareAndSwap(true, false)
  if !m.reloadPrepared then (m, .errNotPrepared) else
  let m1 := { m with reloadPrepared := false }
  match m1.namespaces m1.switchIndex with
  | none => (m1, .panic)
  | some _ =>
    let m2 := { m1 with switchIndex := !m1.switchIndex }
    match GetNamespace m2 name with
    | some (some _) => (m2, .ok)
    | _ => (m2, .panic)

def DeleteNamespace (m : Manager) (name : Name) : Manager × Out :=
  let current := m.switchIndex
  let other := !m.switchIndex
  match m.namespaces current with
  | none => (m, .panic)
  | some curNs =>
    match curNs name with
    | none => (m, .ok)
    | some _ =>
      let m1 := { m with namespaces := m.namespaces.put other (some (curNs.erase name)) }
      match m.users current with
      | none => (m1, .panic)
      | some curUs =>
        ({ m1 with users := m1.users.put other (some (curUs.erase name)), switchIndex := !current }, .ok)

def step (m : Manager) : Op → Manager × Out
  | .prepare n v b => ReloadNamespacePrepare m n v b
  | .commit n => ReloadNamespaceCommit m n
  | .delete n => DeleteNamespace m n

def run (m : Manager) : List Op → List (Out × Manager)
  | [] => []
  | op :: rest => let r := step m op; (r.2, r.1) :: run r.1 rest

end Pinned

/-! ### The property's reference semantics -/

/-- What the property speaks about, per namespace: the configuration last
    committed (or `none` after a deletion / if never present) and the
    configuration last prepared. -/
structure Spec where
  active : Table
  prepared : Table

def Spec.init (cfgs : List (Name × Ver)) : Spec := { active := Table.ofList cfgs, prepared := Table.empty }

/-- Effect of an operation with the given (observed) outcome: a successful
    prepare records the version, a successful commit activates the version last
    prepared for that namespace, a successful delete removes the namespace; a
    failed operation changes nothing. -/
def Spec.step (s : Spec) : Op → Out → Spec
  | .prepare n v _, .ok => { s with prepared := s.prepared.set n v }
  | .commit n, .ok =>
    match s.prepared n with
    | some v => { s with active := s.active.set n v }
    | none => s
  | .delete n, .ok => { s with active := s.active.erase n }
  | _, _ => s

end GaeaVerif.MgrReload
