import GaeaVerif.Model.FastPathC06
/-
  C06 — a grammar of table references, as the statement text renders them and
  as the parser reports them.

  A statement is a list of segments: free text (keywords, punctuation,
  comments, literals …), the opening of an executable comment with a version
  number (`/*!50000`, `/*!M100100`), and table references.  A reference is an
  optional schema identifier, the text between schema and name (blanks and
  comments around the dot: `.`, ` . `, `./**/`), and the name identifier.  An
  identifier is bare (its characters stand in the text as they are) or
  back-quoted (any characters, a back-quote written twice).

  `renderStmt` is the text; `TabRef.parsed` is the (schema, name) pair the
  parser reports for the reference.  That the parser (/repo/parser: lexer.go
  `scan`, `scanIdentifier`, `scanQuotedIdent`, `startWithSlash` +
  `specCodeStart`) agrees with this grammar is not proved: the correspondence
  check renders every generated statement from its segments with `renderStmt`
  and compares the parser's table list with `refsOf … |>.map parsed` (output
  field `gram`).  `wfStmt` is the side condition under which a bare name is a
  token of its own: it is delimited on both sides by a character that is not an
  identifier character of the guard, or it directly follows the version number
  of an executable comment.  (`wfStmt` is what the theorems need; it is wider
  than what the parser reads as a reference in one respect, found by the `gram`
  check: the parser skips a non-ASCII white space character only before a
  token — after an identifier character it continues that identifier, so
  `from<U+3000>t` is one name and holds no reference; the generator writes
  Unicode white space only after a blank or punctuation.  Likewise a bare name
  that starts with five or six digits directly after a plain `/*!` loses them
  as a version number; the generator writes such names only after `/*! `.)

  Core Lean only (the driver evaluates `renderStmt` and `wfStmt`).
-/
namespace GaeaVerif.FastPath
open GaeaVerif GaeaVerif.Tok

inductive Quote where
  | bare
  | backquote
  deriving Repr, DecidableEq

/-- An identifier of the statement: how it is written and the name the parser
    reports for it (`CIStr.O`). -/
structure Ident where
  quote : Quote
  name : Str
  deriving Repr, DecidableEq

/-- A back-quote inside a back-quoted identifier is written twice. -/
def escapeBackquote : Str → Str
  | [] => []
  | c :: cs => if c == '`' then '`' :: '`' :: escapeBackquote cs else c :: escapeBackquote cs

def Ident.render (i : Ident) : Str :=
  match i.quote with
  | .bare => i.name
  | .backquote => '`' :: (escapeBackquote i.name ++ ['`'])

/-- A table reference: `schema gap name` (with a schema, `gap` holds the dot). -/
structure TabRef where
  schema : Option Ident
  gap : Str
  name : Ident
  deriving Repr, DecidableEq

/-- The text that precedes the name inside the reference. -/
def TabRef.lead (r : TabRef) : Str :=
  match r.schema with
  | some s => s.render ++ r.gap
  | none => []

def TabRef.render (r : TabRef) : Str := r.lead ++ r.name.render

/-- What the parser reports: `(TableName.Schema.O, TableName.Name.O)`. -/
def TabRef.parsed (r : TabRef) : Str × Str :=
  (match r.schema with
   | some s => s.name
   | none => [], r.name.name)

inductive Seg where
  /-- any text that holds no table reference -/
  | text (s : Str)
  /-- `/*!` + optional `M` + version digits, glued to what follows -/
  | version (m : Bool) (digits : Str)
  | ref (r : TabRef)
  deriving Repr, DecidableEq

/-- `M?[0-9]{5,6}` as written. -/
def versionText (m : Bool) (digits : Str) : Str := (if m then ['M'] else []) ++ digits

def Seg.render : Seg → Str
  | .text s => s
  | .version m ds => versionMark ++ versionText m ds
  | .ref r => r.render

def renderStmt : List Seg → Str
  | [] => []
  | s :: rest => s.render ++ renderStmt rest

def refsOf : List Seg → List TabRef
  | [] => []
  | .ref r :: rest => r :: refsOf rest
  | _ :: rest => refsOf rest

/-- The character before / after a bare name does not continue the word. -/
def endsWord (c : Option Char) : Bool :=
  match c with
  | none => true
  | some c => !isIdentChar c

/-- Side condition of one reference: `last` is the last character of the text
    before the name (`none`: the name starts the text), `ver` tells that this
    text ends with `/*!` + a version number, `post` is the text after the name. -/
def wfName (last : Option Char) (ver : Bool) (name : Ident) (post : Str) : Bool :=
  match name.quote with
  | .backquote => true
  | .bare => !name.name.isEmpty && name.name.all isIdentChar && (ver || endsWord last) && endsWord post.head?

def lastOf (last : Option Char) (s : Str) : Option Char :=
  match s.getLast? with
  | some c => some c
  | none => last

/-- Side condition of a statement, read from left to right. -/
def wfSegs : Option Char → Bool → List Seg → Bool
  | _, _, [] => true
  | last, ver, .text s :: rest => wfSegs (lastOf last s) (ver && s.isEmpty) rest
  | _, _, .version m ds :: rest =>
    ds.all isDigit && (ds.length == 5 || ds.length == 6) &&
      -- the parser reads six digits when it can: five digits are not followed by one more
      (ds.length == 6 || !((renderStmt rest).head?.any isDigit)) &&
      wfSegs (lastOf (some '!') (versionText m ds)) true rest
  | last, ver, .ref r :: rest =>
    wfName (lastOf last r.lead) (ver && r.lead.isEmpty) r.name (renderStmt rest) &&
      wfSegs (lastOf last r.render) false rest

def wfStmt (segs : List Seg) : Bool := wfSegs none false segs

end GaeaVerif.FastPath
