import GaeaVerif.Model.BinRow
/-
  C13 — model of the way a column definition travels from the backend to a
  prepared-statement client, and of the whole COM_STMT_EXECUTE result:

    mysql/field.go                   FieldData.Parse
    proxy/server/client_conn.go      writeColumnDefinition (writeFieldList, writeResultset)
    backend/direct_connection.go     readResultColumns, readResultRows (Parse of every
                                     definition, then ParseText of every row)
    proxy/server/session.go          writeResponse (BuildBinaryResultSet, then the
                                     definitions, then the rows)

  The definition the client receives is not the backend's packet: it is
  re-serialised from the members `Parse` extracted, and the row conversion
  reads the type and the flags from those same members.  Every index and slice
  expression of `Parse` is guarded explicitly (`panic` outcome).  Core Lean only.
-/
namespace GaeaVerif.ColDef
open GaeaVerif GaeaVerif.LenEnc GaeaVerif.BinRow

/-- `mysql.Field` (without `Data`, the copy of the packet that the result
    writers do not use). -/
structure FieldFull where
  schema : Bytes
  table : Bytes
  orgTable : Bytes
  name : Bytes
  orgName : Bytes
  charset : Nat          -- uint16
  columnLength : Nat     -- uint32
  typ : Nat              -- uint8
  flag : Nat             -- uint16
  decimal : Nat          -- uint8
  defaultValueLength : Nat       -- uint64
  defaultValue : Option Bytes    -- `nil` or a slice
  deriving Repr, DecidableEq

/-- What the row conversion looks at. -/
def FieldFull.toField (f : FieldFull) : Field := { typ := f.typ, flag := f.flag }

/-- One length-encoded string of `Parse`: `ReadLenEncStringAsBytes` with the
    NULL flag dropped. -/
def readStr (p : Bytes) (pos : Int) : Res (Bytes × Int) :=
  match readLenEncStringAsBytes p pos with
  | .ok (v, pos', _) => .ok (v, pos')
  | .fail => .err .fieldDef
  | .panic => .err .panic

/-- The fixed-length part of `Parse`, on `t = p[pos:]` where `pos` is the
    position after the sixth string (`pos ≤ len(p)`):
      pos++                                   -- the length byte 0x0c is skipped, not read
      binary.LittleEndian.Uint16(p[pos:])     -- panics unless t has 3 bytes
      binary.LittleEndian.Uint32(p[pos+2:])   -- … 7 bytes
      p[pos+6]                                -- … 8 bytes
      binary.LittleEndian.Uint16(p[pos+7:])   -- … 10 bytes
      p[pos+9]                                -- … 11 bytes
      pos += 12                               -- the two filler bytes are skipped, not read
    Result: charset, column length, type, flags, decimals. -/
def fixedPart (t : Bytes) : Option (Nat × Nat × Nat × Nat × Nat) :=
  if t.length < 11 then none
  else
    some (leNat ((t.drop 1).take 2), leNat ((t.drop 3).take 4), (t.getD 7 0).toNat, leNat ((t.drop 8).take 2),
      (t.getD 10 0).toNat)

/-- `FieldData.Parse`. -/
def fieldParse (p : Bytes) : Res FieldFull :=
  match skipLenEncString p 0 with
  | .fail => .err .fieldDef
  | .panic => .err .panic
  | .ok pos0 =>
    match readStr p pos0 with
    | .err e => .err e
    | .ok (schema, pos1) =>
    match readStr p pos1 with
    | .err e => .err e
    | .ok (table, pos2) =>
    match readStr p pos2 with
    | .err e => .err e
    | .ok (orgTable, pos3) =>
    match readStr p pos3 with
    | .err e => .err e
    | .ok (name, pos4) =>
    match readStr p pos4 with
    | .err e => .err e
    | .ok (orgName, pos5) =>
      match goSlice p pos5 p.length with
      | .fail => .err .panic
      | .panic => .err .panic
      | .ok t =>
        match fixedPart t with
        | none => .err .panic
        | some (charset, columnLength, typ, flag, decimal) =>
          let f : FieldFull := { schema, table, orgTable, name, orgName, charset, columnLength, typ, flag, decimal,
                                 defaultValueLength := 0, defaultValue := none }
          let pos := pos5 + 13
          if (p.length : Int) > pos then
            -- COM_FIELD_LIST: a default value follows; the `ok` of ReadLenEncInt is not looked at
            let r : Res (Nat × Int) :=
              match readLenEncInt p pos with
              | .ok (n, pos', _) => .ok (n, pos')
              | .fail => .ok (0, 0)
              | .panic => .err .panic
            match r with
            | .err e => .err e
            | .ok (n, pos') =>
              if pos' + u64ToInt n > p.length then .err .fieldDef      -- ErrMalformPacket
              else
                match goSlice p pos' (pos' + u64ToInt n) with
                | .ok dv => .ok { f with defaultValueLength := n, defaultValue := some dv }
                | _ => .err .panic
          else .ok f

/-- `ClientConn.writeColumnDefinition`: the payload of the packet. -/
def writeColumnDefinition (f : FieldFull) : Res Bytes :=
  let head : Bytes :=
    [3, 100, 101, 102]                                   -- WriteLenEncString("def")
      ++ writeLenEncInt f.schema.length ++ f.schema
      ++ writeLenEncInt f.table.length ++ f.table
      ++ writeLenEncInt f.orgTable.length ++ f.orgTable
      ++ writeLenEncInt f.name.length ++ f.name
      ++ writeLenEncInt f.orgName.length ++ f.orgName
      ++ [0x0c] ++ leBytes f.charset 2 ++ leBytes f.columnLength 4 ++ [UInt8.ofNat f.typ] ++ leBytes f.flag 2
      ++ [UInt8.ofNat f.decimal] ++ [0, 0]
  match f.defaultValue with
  | none => .ok head
  | some dv =>
    -- the buffer was sized with LenEncIntSize(len(DefaultValue)), the prefix written is DefaultValueLength
    let room := lenEncIntSize dv.length + dv.length
    let need := lenEncIntSize f.defaultValueLength
    if need > room then .err .panic                      -- WriteLenEncInt indexes past the buffer
    else if need ≠ lenEncIntSize dv.length then .err .defWrite   -- "packing of column definition used …"
    else .ok (head ++ writeLenEncInt f.defaultValueLength ++ dv)

/-- `readResultColumns`: `Parse` of every definition packet, in order. -/
def parseDefs : List Bytes → Res (List FieldFull)
  | [] => .ok []
  | p :: ps =>
    match fieldParse p with
    | .err e => .err e
    | .ok f =>
      match parseDefs ps with
      | .err e => .err e
      | .ok fs => .ok (f :: fs)

/-- `writeFieldList`. -/
def writeDefs : List FieldFull → Res (List Bytes)
  | [] => .ok []
  | f :: fs =>
    match writeColumnDefinition f with
    | .err e => .err e
    | .ok b =>
      match writeDefs fs with
      | .err e => .err e
      | .ok bs => .ok (b :: bs)

/-- A COM_STMT_EXECUTE result: the backend's column-definition packets and
    text rows → the column-definition packets and binary rows the client
    receives (`DirectConnection.readResultSet`, `Session.writeResponse` with
    `IsBinary`, `ClientConn.writeResultset`). -/
def stmtResult (ops : FloatOps) (defs rows : List Bytes) : Res (List Bytes × List Bytes) :=
  match parseDefs defs with
  | .err e => .err e
  | .ok fs =>
    match rowsToBinary ops (fs.map FieldFull.toField) rows with
    | .err e => .err e
    | .ok bins =>
      match writeDefs fs with
      | .err e => .err e
      | .ok outDefs => .ok (outDefs, bins)

end GaeaVerif.ColDef
