import GaeaVerif.Model.Go
/-
  Executable SHA-1 and SHA-256 (FIPS 180-4) over byte lists, core Lean only.
  Used by the C30 driver where the theorems of Props/C30.lean have the hash
  functions as parameters; validated against Go's crypto/sha1 and crypto/sha256
  by the correspondence check (`(sha1 …)`/`(sha256 …)` cases of `gvh run C30`,
  message lengths around every padding boundary).
-/
namespace GaeaVerif.AuthSha
open GaeaVerif

def be32 (w : UInt32) : Bytes :=
  [(w >>> 24).toUInt8, (w >>> 16).toUInt8, (w >>> 8).toUInt8, w.toUInt8]

/-- 8-byte big-endian encoding of `n` (mod 2^64). -/
def be64 (n : Nat) : Bytes :=
  (List.range 8).map fun i => UInt8.ofNat ((n >>> (8 * (7 - i))) % 256)

def word (a b c d : UInt8) : UInt32 :=
  (a.toUInt32 <<< 24) ||| (b.toUInt32 <<< 16) ||| (c.toUInt32 <<< 8) ||| d.toUInt32

def words : Bytes → List UInt32
  | a :: b :: c :: d :: rest => word a b c d :: words rest
  | _ => []

def rotl (x : UInt32) (n : UInt32) : UInt32 := (x <<< n) ||| (x >>> (32 - n))
def rotr (x : UInt32) (n : UInt32) : UInt32 := (x >>> n) ||| (x <<< (32 - n))

/-- Message padding: 0x80, zeros up to 56 mod 64, 64-bit big-endian bit length. -/
def pad (msg : Bytes) : Bytes :=
  let l := msg.length
  msg ++ [0x80] ++ List.replicate ((119 - l % 64) % 64) 0 ++ be64 (8 * l)

def blocks : Nat → Bytes → List Bytes
  | 0, _ => []
  | n + 1, bs => bs.take 64 :: blocks n (bs.drop 64)

/-! ### SHA-1 -/

structure S1 where
  (a b c d e : UInt32)

def sha1Schedule (blk : Bytes) : Array UInt32 :=
  (List.range 64).foldl (fun (w : Array UInt32) _ =>
    let i := w.size
    w.push (rotl (w.getD (i - 3) 0 ^^^ w.getD (i - 8) 0 ^^^ w.getD (i - 14) 0 ^^^ w.getD (i - 16) 0) 1))
    (words blk).toArray

def sha1Round (w : Array UInt32) (s : S1) (i : Nat) : S1 :=
  let (f, k) : UInt32 × UInt32 :=
    if i < 20 then ((s.b &&& s.c) ||| ((~~~ s.b) &&& s.d), 0x5A827999)
    else if i < 40 then (s.b ^^^ s.c ^^^ s.d, 0x6ED9EBA1)
    else if i < 60 then ((s.b &&& s.c) ||| (s.b &&& s.d) ||| (s.c &&& s.d), 0x8F1BBCDC)
    else (s.b ^^^ s.c ^^^ s.d, 0xCA62C1D6)
  let t := rotl s.a 5 + f + s.e + k + w.getD i 0
  { a := t, b := s.a, c := rotl s.b 30, d := s.c, e := s.d }

def sha1Block (h : S1) (blk : Bytes) : S1 :=
  let w := sha1Schedule blk
  let s := (List.range 80).foldl (sha1Round w) h
  { a := h.a + s.a, b := h.b + s.b, c := h.c + s.c, d := h.d + s.d, e := h.e + s.e }

def sha1Init : S1 :=
  { a := 0x67452301, b := 0xEFCDAB89, c := 0x98BADCFE, d := 0x10325476, e := 0xC3D2E1F0 }

def sha1Out (s : S1) : Bytes := be32 s.a ++ be32 s.b ++ be32 s.c ++ be32 s.d ++ be32 s.e

/-- SHA-1 digest (20 bytes). -/
def sha1 (msg : Bytes) : Bytes :=
  let p := pad msg
  sha1Out ((blocks (p.length / 64) p).foldl sha1Block sha1Init)

/-! ### SHA-256 -/

def k256 : Array UInt32 := #[
  0x428a2f98, 0x71374491, 0xb5c0fbcf, 0xe9b5dba5, 0x3956c25b, 0x59f111f1, 0x923f82a4, 0xab1c5ed5,
  0xd807aa98, 0x12835b01, 0x243185be, 0x550c7dc3, 0x72be5d74, 0x80deb1fe, 0x9bdc06a7, 0xc19bf174,
  0xe49b69c1, 0xefbe4786, 0x0fc19dc6, 0x240ca1cc, 0x2de92c6f, 0x4a7484aa, 0x5cb0a9dc, 0x76f988da,
  0x983e5152, 0xa831c66d, 0xb00327c8, 0xbf597fc7, 0xc6e00bf3, 0xd5a79147, 0x06ca6351, 0x14292967,
  0x27b70a85, 0x2e1b2138, 0x4d2c6dfc, 0x53380d13, 0x650a7354, 0x766a0abb, 0x81c2c92e, 0x92722c85,
  0xa2bfe8a1, 0xa81a664b, 0xc24b8b70, 0xc76c51a3, 0xd192e819, 0xd6990624, 0xf40e3585, 0x106aa070,
  0x19a4c116, 0x1e376c08, 0x2748774c, 0x34b0bcb5, 0x391c0cb3, 0x4ed8aa4a, 0x5b9cca4f, 0x682e6ff3,
  0x748f82ee, 0x78a5636f, 0x84c87814, 0x8cc70208, 0x90befffa, 0xa4506ceb, 0xbef9a3f7, 0xc67178f2]

structure S256 where
  (a b c d e f g h : UInt32)

def sha256Schedule (blk : Bytes) : Array UInt32 :=
  (List.range 48).foldl (fun (w : Array UInt32) _ =>
    let i := w.size
    let w15 := w.getD (i - 15) 0
    let w2 := w.getD (i - 2) 0
    let s0 := rotr w15 7 ^^^ rotr w15 18 ^^^ (w15 >>> 3)
    let s1 := rotr w2 17 ^^^ rotr w2 19 ^^^ (w2 >>> 10)
    w.push (w.getD (i - 16) 0 + s0 + w.getD (i - 7) 0 + s1))
    (words blk).toArray

def sha256Round (w : Array UInt32) (s : S256) (i : Nat) : S256 :=
  let s1 := rotr s.e 6 ^^^ rotr s.e 11 ^^^ rotr s.e 25
  let ch := (s.e &&& s.f) ^^^ ((~~~ s.e) &&& s.g)
  let t1 := s.h + s1 + ch + k256.getD i 0 + w.getD i 0
  let s0 := rotr s.a 2 ^^^ rotr s.a 13 ^^^ rotr s.a 22
  let maj := (s.a &&& s.b) ^^^ (s.a &&& s.c) ^^^ (s.b &&& s.c)
  let t2 := s0 + maj
  { a := t1 + t2, b := s.a, c := s.b, d := s.c, e := s.d + t1, f := s.e, g := s.f, h := s.g }

def sha256Block (h : S256) (blk : Bytes) : S256 :=
  let w := sha256Schedule blk
  let s := (List.range 64).foldl (sha256Round w) h
  { a := h.a + s.a, b := h.b + s.b, c := h.c + s.c, d := h.d + s.d,
    e := h.e + s.e, f := h.f + s.f, g := h.g + s.g, h := h.h + s.h }

def sha256Init : S256 :=
  { a := 0x6a09e667, b := 0xbb67ae85, c := 0x3c6ef372, d := 0xa54ff53a,
    e := 0x510e527f, f := 0x9b05688c, g := 0x1f83d9ab, h := 0x5be0cd19 }

def sha256Out (s : S256) : Bytes :=
  be32 s.a ++ be32 s.b ++ be32 s.c ++ be32 s.d ++ be32 s.e ++ be32 s.f ++ be32 s.g ++ be32 s.h

/-- SHA-256 digest (32 bytes). -/
def sha256 (msg : Bytes) : Bytes :=
  let p := pad msg
  sha256Out ((blocks (p.length / 64) p).foldl sha256Block sha256Init)

theorem sha1_length (msg : Bytes) : (sha1 msg).length = 20 := by
  simp [sha1, sha1Out, be32]

theorem sha256_length (msg : Bytes) : (sha256 msg).length = 32 := by
  simp [sha256, sha256Out, be32]

end GaeaVerif.AuthSha
