import GaeaVerif.Model.Merge
/-
  C02, joins: a sharded table joined with its linked child table (both placed by
  the parent's rule on their sharding keys) or with a global table (a full copy
  on every slice), `ON` the sharding key.

  proxy/plan/plan_select.go   handleTableRefs / handleJoin / rewriteTableSource /
                              rewriteOnCondition: both table names are rewritten to the
                              sub-table with the current index (a global table keeps its
                              name), so that sub-table i of the proxy answers the statement
                              on  left_i ⋈ right_i  (right_i = the global table for a global
                              right side)
  proxy/plan/plan.go          checkStmtRouteResult (a linked table shares the route result of
                              its parent), getSettedRuleFromTable
  handleFieldList / handleExtraFieldList for the qualified column references of such
  statements are modelled in Model/Merge.lean (`Query.qualified`).

  The joined rows are the rows of one wider table: the columns of the left table
  followed by those of the right one; the statement is then evaluated and merged
  as a single-table statement over that table (Model/Merge.lean).  Core Lean only.
-/
namespace GaeaVerif.Merge

inductive JoinKind where
  | inner | left
  deriving DecidableEq, Repr

/-- `ON a.k = b.k [AND a.o = b.o]` (columns 0 and 1 of both tables) -/
def joinOn (withO : Bool) (l r : Row) : Bool :=
  let eqCol (i : Nat) : Bool :=
    l.getD i .null != .null && l.getD i .null == r.getD i .null
  eqCol 0 && (!withO || eqCol 1)

/-- the rows of `L [INNER | LEFT] JOIN R ON on`; `nR`: number of columns of `R` -/
def joinRows (kind : JoinKind) (on : Row → Row → Bool) (nR : Nat) (L R : List Row) : List Row :=
  L.flatMap fun l =>
    let m := R.filter (on l)
    match kind with
    | .inner => m.map (l ++ ·)
    | .left => if m.isEmpty then [l ++ List.replicate nR Val.null] else m.map (l ++ ·)

/-- `HandleSelectStmt` + `ExecuteIn` for a statement over `a JOIN b`: sub-table `i`
    answers the rewritten statement on `left_i ⋈ right_i` -/
def executeJoin (schemaL schemaR : List Ty) (kind : JoinKind) (on : Row → Row → Bool) (q : Query)
    (shards : List (List Row × List Row)) : R Result :=
  executeIn (schemaL ++ schemaR) q (shards.map fun p => joinRows kind on schemaR.length p.1 p.2)

end GaeaVerif.Merge
