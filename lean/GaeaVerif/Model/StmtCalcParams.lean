import GaeaVerif.Model.Go
import GaeaVerif.Model.StmtLex
/-
  Model of `CalcParams` of /repo/proxy/server/executor_stmt.go (as repaired by
  the `fix:` commit "CalcParams skips the byte after a backslash, back-quoted
  identifiers and comments"): the one-pass scanner, byte by byte, with the same
  state variables (`state`, `quoteChar`, `versionComment`, `skip`) and the same
  accumulators (`count`, `offsets`, `sqlItems`, `subBeginIndex`).
  The look-ahead tests `i+1 < len(sql) && sql[i+1] == x` read the bytes that
  follow the current one (`rest`).  Core Lean only.
-/
namespace GaeaVerif.StmtCalcParams
open GaeaVerif GaeaVerif.StmtLex

/-- `scanSQL … scanBlockComment`. -/
inductive Scan where
  | sql | string | quotedIdent | lineComment | blockComment
  deriving Repr, BEq, DecidableEq

/-- The scanner variables of `CalcParams`. -/
structure ScanSt where
  state : Scan
  quoteChar : UInt8
  versionComment : Bool
  skip : Nat
  deriving Repr, BEq, DecidableEq

def ScanSt.init : ScanSt := { state := .sql, quoteChar := 0, versionComment := false, skip := 0 }

/-- `i+1 < len(sql) && sql[i+1] == c` -/
def next1Is (rest : Bytes) (c : UInt8) : Bool :=
  match rest with
  | d :: _ => d == c
  | [] => false

/-- `i+2 < len(sql) && sql[i+2] == c` -/
def next2Is (rest : Bytes) (c : UInt8) : Bool :=
  match rest with
  | _ :: e :: _ => e == c
  | _ => false

/-- `i+2 < len(sql) && sql[i+1] == '-' && isSpaceOrControl(sql[i+2])` -/
def dashDashSpace (rest : Bytes) : Bool :=
  match rest with
  | d :: e :: _ => d == cDash && (e ≤ 0x20 || e == 0x7f)
  | _ => false

/-- One iteration of the loop body as far as the scanner variables go:
    the new scanner state, and whether byte `elem` (followed by `rest`) was
    recorded as a parameter marker. -/
def scanStep (s : ScanSt) (elem : UInt8) (rest : Bytes) : ScanSt × Bool :=
  if s.skip > 0 then ({ s with skip := s.skip - 1 }, false)
  else match s.state with
  | .string =>
    if elem = cBackslash then ({ s with skip := 1 }, false)
    else if elem = s.quoteChar then ({ s with state := .sql }, false)
    else (s, false)
  | .quotedIdent =>
    if elem = cBQuote then ({ s with state := .sql }, false) else (s, false)
  | .lineComment =>
    if elem = cNewline then ({ s with state := .sql }, false) else (s, false)
  | .blockComment =>
    if elem = cStar ∧ next1Is rest cSlash = true then ({ s with skip := 1, state := .sql }, false) else (s, false)
  | .sql =>
    if elem = cDQuote ∨ elem = cSQuote then ({ s with state := .string, quoteChar := elem }, false)
    else if elem = cBQuote then ({ s with state := .quotedIdent }, false)
    else if elem = cHash then ({ s with state := .lineComment }, false)
    else if elem = cDash ∧ dashDashSpace rest = true then ({ s with state := .lineComment }, false)
    else if elem = cSlash ∧ next1Is rest cStar = true then
      if next2Is rest cBang = true then ({ s with skip := 2, versionComment := true }, false)
      else ({ s with skip := 1, state := .blockComment }, false)
    else if elem = cStar ∧ s.versionComment = true ∧ next1Is rest cSlash = true then
      ({ s with skip := 1, versionComment := false }, false)
    else if elem = cQMark then (s, true)
    else (s, false)

/-- The accumulators of `CalcParams`. -/
structure Acc where
  count : Nat
  offsets : List Nat
  sqlItems : List Bytes
  subBeginIndex : Nat
  deriving Repr, BEq, DecidableEq

def Acc.init : Acc := { count := 0, offsets := [], sqlItems := [], subBeginIndex := 0 }

/-- The `for i, elem := range []byte(sql)` loop from index `i` on
    (`rest = sql[i:]`).  `sql[subBeginIndex:i]` is a Go slice expression: it
    panics unless `subBeginIndex ≤ i ≤ len(sql)`. -/
def loop (sql : Bytes) : Nat → Bytes → ScanSt → Acc → R (ScanSt × Acc)
  | _, [], s, a => .ok (s, a)
  | i, elem :: rest, s, a =>
    let r := scanStep s elem rest
    if r.2 then do
      let piece ← goSlice sql a.subBeginIndex i
      loop sql (i + 1) rest r.1
        { count := a.count + 1, offsets := a.offsets ++ [i],
          sqlItems := a.sqlItems ++ [piece, [cQMark]], subBeginIndex := i + 1 }
    else loop sql (i + 1) rest r.1 a

/-- "unterminated literal, quoted identifier or comment" -/
def ScanSt.bad (s : ScanSt) : Bool :=
  (match s.state with
   | .string | .quotedIdent | .blockComment => true
   | _ => false) || s.versionComment

/-- `CalcParams(sql)`: `ok (count, offsets, sqlItems)`, `fail` when it returns
    an error. -/
def calcParams (sql : Bytes) : R (Nat × List Nat × List Bytes) := do
  let (s, a) ← loop sql 0 sql ScanSt.init Acc.init
  let items ←
    if a.subBeginIndex ≠ sql.length then do
      let tail ← goSlice sql a.subBeginIndex sql.length
      pure (a.sqlItems ++ [tail])
    else pure a.sqlItems
  if s.bad then .fail else .ok (a.count, a.offsets, items)

end GaeaVerif.StmtCalcParams
