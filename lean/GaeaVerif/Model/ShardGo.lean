/-
  Go strings and the pieces of Go's standard library that the placement code
  of proxy/router (shard.go, shard_mycat.go, numkey.go) and util/murmur.go
  calls: strconv.ParseInt / Atoi / FormatInt, big.Int.SetString, the
  `[]rune(string)` conversion (UTF-8 decoding with U+FFFD replacement),
  unicode/utf16.Encode, strings.Split / SplitN / Replace / TrimSpace, string
  slicing with its run-time panic, int64 wrap-around.
  Used by Model/ShardPlace.lean (C08, C09).  Core Lean only.

  A Go `string` is modelled by the list of its bytes (`Nat`s below 256); a
  `[]rune` and a `[]uint16` by lists of `Nat`s.
-/
namespace GaeaVerif.ShardGo

/-- A Go `string`: its bytes. -/
abbrev GoStr := List Nat

/-- ASCII text as a Go string (for examples and constants). -/
def ascii (s : String) : GoStr := s.toList.map Char.toNat

/-! ### integers -/

/-- `int64(x)` of a mathematical integer: two's-complement wrap-around. -/
def wrap64 (x : Int) : Int := (x + 2 ^ 63) % 2 ^ 64 - 2 ^ 63

/-- `int64(u)` for a `uint64` value. -/
def u64ToI64 (u : Nat) : Int := wrap64 (u : Int)

/-! ### strconv -/

def isDigit (b : Nat) : Bool := 48 ≤ b && b ≤ 57

/-- Value of a run of ASCII digits, most significant first, on top of `acc`. -/
def digitsVal : List Nat → Nat → Nat
  | [], acc => acc
  | b :: bs, acc => digitsVal bs (acc * 10 + (b - 48))

/-- A non-empty run of ASCII digits. -/
def parseUDec (s : GoStr) : Option Nat :=
  if s ≠ [] ∧ s.all isDigit then some (digitsVal s 0) else none

/-- `new(big.Int).SetString(s, 10)`: optional sign, then at least one digit,
    nothing else (no blanks, no underscores in base 10). -/
def parseBigDec (s : GoStr) : Option Int :=
  match s with
  | 43 :: r => (parseUDec r).map fun n => (n : Int)
  | 45 :: r => (parseUDec r).map fun n => -(n : Int)
  | _ => (parseUDec s).map fun n => (n : Int)

/-- `strconv.ParseInt(s, 10, 64)` and `strconv.Atoi(s)` (Go `int` is 64 bits):
    the same syntax, and a range error outside int64. -/
def parseInt64 (s : GoStr) : Option Int :=
  match parseBigDec s with
  | some v => if -2 ^ 63 ≤ v ∧ v < 2 ^ 63 then some v else none
  | none => none

def fmtNatAux : Nat → Nat → GoStr → GoStr
  | 0, _, acc => acc
  | fuel + 1, n, acc =>
    if n < 10 then (48 + n) :: acc else fmtNatAux fuel (n / 10) ((48 + n % 10) :: acc)

/-- `strconv.FormatUint(n, 10)`. -/
def fmtNat (n : Nat) : GoStr := fmtNatAux (n + 1) n []

/-- `strconv.FormatInt(v, 10)` / `strconv.Itoa`. -/
def fmtInt (v : Int) : GoStr := if v < 0 then 45 :: fmtNat (-v).toNat else fmtNat v.toNat

/-- Decimal digits of `n`, zero-padded on the left to `width` (time's `appendInt`
    for a non-negative value). -/
def zeroPad (width n : Nat) : GoStr :=
  let d := fmtNat n
  List.replicate (width - d.length) 48 ++ d

/-! ### strings -/

/-- `strings.Split(s, sep)` for a one-byte separator: always at least one field. -/
def splitOn (sep : Nat) : GoStr → List GoStr
  | [] => [[]]
  | b :: bs =>
    if b = sep then [] :: splitOn sep bs
    else match splitOn sep bs with
      | f :: fs => (b :: f) :: fs
      | [] => [[b]]

/-- `strings.Cut(s, sep)` for a one-byte separator: the text before and after
    its first occurrence. -/
def cutAt (sep : Nat) : GoStr → Option (GoStr × GoStr)
  | [] => none
  | b :: bs => if b = sep then some ([], bs) else (cutAt sep bs).map fun p => (b :: p.1, p.2)

/-- `strings.SplitN(s, sep, 2)` for a one-byte separator. -/
def splitFirst (sep : Nat) (s : GoStr) : List GoStr :=
  match cutAt sep s with
  | none => [s]
  | some (a, b) => [a, b]

/-- `strings.Replace(s, " ", "", -1)`. -/
def removeSpaces (s : GoStr) : GoStr := s.filter (· ≠ 32)

def isAsciiSpace (b : Nat) : Bool := b = 32 || (9 ≤ b && b ≤ 13)

/-- `strings.TrimSpace` on strings without non-ASCII white space. -/
def trimSpace (s : GoStr) : GoStr :=
  ((s.dropWhile isAsciiSpace).reverse.dropWhile isAsciiSpace).reverse

/-- Go's `a < b` on strings (bytewise lexicographic). -/
def strLt : GoStr → GoStr → Bool
  | [], [] => false
  | [], _ :: _ => true
  | _ :: _, [] => false
  | a :: as, b :: bs => if a < b then true else if b < a then false else strLt as bs

/-! ### UTF-8 and UTF-16 -/

def isCont (b : Nat) : Bool := 0x80 ≤ b && b ≤ 0xBF

/-- Second-byte range of a three-byte sequence (Go's `acceptRanges`). -/
def ok3 (b0 b1 : Nat) : Bool :=
  if b0 = 0xE0 then 0xA0 ≤ b1 && b1 ≤ 0xBF
  else if b0 = 0xED then 0x80 ≤ b1 && b1 ≤ 0x9F
  else 0xE1 ≤ b0 && b0 ≤ 0xEF && isCont b1

/-- Second-byte range of a four-byte sequence. -/
def ok4 (b0 b1 : Nat) : Bool :=
  if b0 = 0xF0 then 0x90 ≤ b1 && b1 ≤ 0xBF
  else if b0 = 0xF4 then 0x80 ≤ b1 && b1 ≤ 0x8F
  else 0xF1 ≤ b0 && b0 ≤ 0xF3 && isCont b1

/-- `utf8.DecodeRuneInString`: the first rune of a non-empty string and its
    width; a byte that does not start a well-formed sequence is U+FFFD, width 1. -/
def decodeRune : GoStr → Nat × Nat
  | [] => (0xFFFD, 0)
  | b0 :: rest =>
    if b0 < 0x80 then (b0, 1)
    else match rest with
      | [] => (0xFFFD, 1)
      | b1 :: rest1 =>
        if 0xC2 ≤ b0 && b0 ≤ 0xDF && isCont b1 then ((b0 - 0xC0) * 64 + (b1 - 0x80), 2)
        else match rest1 with
          | [] => (0xFFFD, 1)
          | b2 :: rest2 =>
            if ok3 b0 b1 && isCont b2 then
              ((b0 - 0xE0) * 4096 + (b1 - 0x80) * 64 + (b2 - 0x80), 3)
            else match rest2 with
              | [] => (0xFFFD, 1)
              | b3 :: _ =>
                if ok4 b0 b1 && isCont b2 && isCont b3 then
                  ((b0 - 0xF0) * 262144 + (b1 - 0x80) * 4096 + (b2 - 0x80) * 64 + (b3 - 0x80), 4)
                else (0xFFFD, 1)

def goRunesAux : Nat → GoStr → List Nat
  | 0, _ => []
  | fuel + 1, s =>
    match s with
    | [] => []
    | _ :: _ => (decodeRune s).1 :: goRunesAux fuel (s.drop (decodeRune s).2)

/-- `[]rune(s)`: UTF-8 decoding; every byte that does not start a well-formed
    sequence becomes U+FFFD and decoding resumes at the next byte. -/
def goRunes (s : GoStr) : List Nat := goRunesAux s.length s

/-- `utf16.Encode` of one rune. -/
def utf16OfRune (v : Nat) : List Nat :=
  if v < 0xD800 ∨ (0xE000 ≤ v ∧ v < 0x10000) then [v]
  else if 0x10000 ≤ v ∧ v ≤ 0x10FFFF then
    [0xD800 + (v - 0x10000) / 1024 % 1024, 0xDC00 + (v - 0x10000) % 1024]
  else [0xFFFD]

/-- `utf16.Encode(runes)`. -/
def utf16Encode (rs : List Nat) : List Nat := rs.flatMap utf16OfRune

/-- `utf16.Encode([]rune(s))`: what the repaired hash functions iterate over. -/
def utf16Units (s : GoStr) : List Nat := utf16Encode (goRunes s)

/-- Standard UTF-8 encoding of one Unicode scalar value. -/
def utf8OfScalar (c : Nat) : GoStr :=
  if c < 0x80 then [c]
  else if c < 0x800 then [0xC0 + c / 64, 0x80 + c % 64]
  else if c < 0x10000 then [0xE0 + c / 4096, 0x80 + c / 64 % 64, 0x80 + c % 64]
  else [0xF0 + c / 262144, 0x80 + c / 4096 % 64, 0x80 + c / 64 % 64, 0x80 + c % 64]

/-- UTF-8 text of a list of Unicode scalar values. -/
def utf8 (cs : List Nat) : GoStr := cs.flatMap utf8OfScalar

/-- Unicode scalar value: a code point that is not a surrogate. -/
def isScalar (c : Nat) : Prop := c < 0xD800 ∨ (0xE000 ≤ c ∧ c ≤ 0x10FFFF)

instance (c : Nat) : Decidable (isScalar c) := by unfold isScalar; infer_instance

end GaeaVerif.ShardGo
