import GaeaVerif.Model.Fingerprint
/-
  The token grammar of the C36 theorems (Props/C36.lean).

  A statement is a list of *items*, each followed by a *separator*.

  * A *chunk* is a maximal run of text without white space outside quoted
    values: a sequence of segments — word text (keywords, identifiers,
    operators, punctuation: everything the fingerprint copies in lower case),
    numeric literals, quoted strings and hex/bit strings — written without blanks:
    `select`, `t.id`, `a,`, `>=`, `count(*)`, `id=1`, `name>='it''s'`,
    `f(1,2)`, `(a=-1.5e+3`, `5,10`, `.5`, `a=x'0F'`.
  * A *value list* is `in`/`value`/`values`, a gap, a parenthesised list, and
    possibly further rows `, ( … )` (gaps around the comma).
  * Behind `key update` (ON DUPLICATE KEY UPDATE) there are no value lists
    (`values(col)` is word text there): `ctxOK` tracks it.
  * A separator / gap is a list of *pieces*: white-space characters and
    complete comments (`/* … */`, `-- …⏎`, `# …⏎`) in any order — a comment
    may be glued to the tokens around it.  Comments may also be written inside
    the parentheses of a value list.

  A *rendering* chooses the spelling of every segment (letter case of words,
  value of every literal, quote character) and the text of every separator.
  `Stmt.toCore` is the same statement with every comment overwritten by
  blanks — what `blankComments` makes of its text.  Core Lean only: the driver
  uses `Stmt.ok` to tell which generated statements lie inside the grammar the
  theorems quantify over.
-/
namespace GaeaVerif.FingerprintGrammar
open GaeaVerif.Fingerprint

def isOpChar (c : Char) : Bool := c = '=' || c = '<' || c = '>' || c = '!'

/-- Characters that never occur inside word text. -/
def wordBad (c : Char) : Bool :=
  isSpace c || c = '\'' || c = '"' || c = '/' || c = '+' || c = '-' || c = '#' || c = ':'

/-- After these characters a literal may be glued to word text. -/
def litAfter (a : Char) : Bool := a = ',' || a = '(' || isOpChar a

/-- May `b` follow `a` inside word text?  A digit or a dot must not follow `,`,
    `(` or an operator character (the state machine would start a number
    there), a parenthesis must not follow an operator character. -/
def okAfter (a b : Char) : Bool :=
  !wordBad b && (!isDigit b || !litAfter a) && (!(b = '.') || !litAfter a) && (!(b = '(') || !isOpChar a)

def okFirst (b : Char) : Bool := !wordBad b && !isDigit b && !(b = '.')

def chainOK : Char → List Char → Bool
  | _, [] => true
  | a, b :: r => okAfter a b && chainOK b r

/-- No `(` of the word directly follows `in`, `value` or `values`
    (that would open a value list). -/
def parenOK (w : List Char) : Bool :=
  (List.range w.length).all fun k => !(decide (w[k]? = some '(')) || !isValuesWord (w.take k)

def wordShape (w : List Char) : Bool :=
  match w with
  | [] => false
  | c :: r => okFirst c && chainOK c r && parenOK w

/-- Conditions on word text that depend on the previously copied text `prev`:
    it is none of the words the fingerprint treats specially (`use` in first
    position, `null` as a value, `asc`, `in`/`value`/`values`, a parenthesis
    after `call`). -/
def wordCtx (prev w : List Char) : Bool :=
  let lw := lower w
  !(decide (lw = kwUse) && decide (prev = [])) &&
  !(decide (lw = kwNull) && !(decide (prev = kwIs)) && !(decide (prev = kwNot))) &&
  !(decide (lw = kwNullComma)) && !isAscWord lw && !isValuesWord lw &&
  !(w.contains '(' && decide (prev = kwCall))

/-- `update` after `key`: the rest of the statement is the assignment list of
    `ON DUPLICATE KEY UPDATE`, where `values(col)` is not a value list. -/
def keyUpd (prev w : List Char) : Bool := decide (prev = kwKey) && decide (lower w = kwUpdate)

/-- The characters of a number after its first digit (`p` = the previous
    character): digits, hex digits, `.`, `x`, and a sign directly after `e`/`E`
    and before a digit. -/
def numTail : Char → List Char → Bool
  | _, [] => true
  | p, c :: rest =>
    if c = '-' ∨ c = '+' then
      (p = 'e' || p = 'E') && (match rest with | d :: _ => isDigit d | [] => false) && numTail c rest
    else isNumberChar c && numTail c rest

/-- A numeric literal: `12`, `0x1F`, `1.5e-3`, `1e+5`; with a sign `-5`, `+7`;
    with a leading dot `.5`. -/
def numShape (n : List Char) : Bool :=
  match n with
  | [] => false
  | c :: r =>
    if isDigit c then numTail c r
    else if c = '-' ∨ c = '+' ∨ c = '.' then
      match r with
      | d :: r' => isDigit d && numTail d r'
      | [] => false
    else false

/-- Does the quoted text after the opening quote `c` end exactly with its
    closing quote?  (`esc`: the previous character was an unescaped backslash
    or the first of two doubled quote characters.) -/
def closesAt (c : Char) : Bool → List Char → Bool
  | _, [] => false
  | esc, x :: rest =>
    if x ≠ c then
      if esc then closesAt c false rest
      else if x = '\\' then closesAt c true rest
      else closesAt c false rest
    else if esc then closesAt c false rest
    else
      match rest with
      | [] => true
      | y :: _ => if y = c then closesAt c true rest else false

def strShape (s : List Char) : Bool :=
  match s with
  | [] => false
  | c :: body => (c = '\'' || c = '"') && closesAt c false body

/-- Skip a quoted value inside a list (the text after the opening quote `c`):
    the rest after the closing quote. -/
def skipQuoted (c : Char) : Bool → List Char → Option (List Char)
  | _, [] => none
  | esc, x :: rest =>
    if x ≠ c then
      if esc then skipQuoted c false rest
      else if x = '\\' then skipQuoted c true rest
      else skipQuoted c false rest
    else if esc then skipQuoted c false rest
    else
      match rest with
      | y :: _ => if y = c then skipQuoted c true rest else some rest
      | [] => some rest

/-- The content of a value list between its parentheses, read at parenthesis
    depth `d` (1 = directly inside the list): quoted values are skipped, the
    parentheses are balanced, and no `)` closes the list before the end. -/
def listScan : Nat → Nat → List Char → Bool
  | 0, _, _ => false
  | _ + 1, d, [] => d == 1
  | fuel + 1, d, c :: rest =>
    if c = '\'' ∨ c = '"' then
      match skipQuoted c false rest with
      | none => false
      | some rest' => listScan fuel d rest'
    else if c = '(' then listScan fuel (d + 1) rest
    else if c = ')' then (if d ≤ 1 then false else listScan fuel (d - 1) rest)
    else listScan fuel d rest

/-- The content is followed by `)`: a quote that ends the content is not doubled. -/
def listContentOK (content : List Char) : Bool := listScan (content.length + 1) 1 content

/-! ### Separator pieces -/

/-- Body of a `/* … */` comment after the opening `/*`: its first `*/` is its end. -/
def mlcTail : List Char → Bool
  | [] => false
  | [_] => false
  | a :: b :: rest => if a = '*' ∧ b = '/' then rest.isEmpty else mlcTail (b :: rest)

/-- A one-line comment body: no newline but the final one. -/
def lineTail : List Char → Bool
  | [] => false
  | c :: rest => if c = '\n' then rest.isEmpty else lineTail rest

inductive SepPiece where
  | ws (c : Char)
  | mlc (body : List Char)      -- the text is `/*` ++ body, body ends with `*/`
  | dash (c : Char) (body : List Char)  -- `--` ++ [c] ++ body, body ends with the newline
  | hash (body : List Char)     -- `#` ++ body
  deriving Repr, DecidableEq, Inhabited

def SepPiece.text : SepPiece → List Char
  | .ws c => [c]
  | .mlc body => '/' :: '*' :: body
  | .dash c body => '-' :: '-' :: c :: body
  | .hash body => '#' :: body

def SepPiece.ok : SepPiece → Bool
  | .ws c => isSpace c
  | .mlc body => mlcTail body && !(body.head? = some '!')
  | .dash c body => isSpace c && c ≠ '\n' && lineTail body
  | .hash body => lineTail body

def SepPiece.isWs : SepPiece → Bool
  | .ws _ => true
  | _ => false

/-- What `blankComments` makes of a piece: blanks, the newline that ends a
    one-line comment stays. -/
def SepPiece.blank : SepPiece → List SepPiece
  | .ws c => [.ws c]
  | .mlc body => (List.replicate (body.length + 2) (.ws ' '))
  | .dash _ body => (List.replicate (body.length + 2) (.ws ' ')) ++ [.ws '\n']
  | .hash body => (List.replicate body.length (.ws ' ')) ++ [.ws '\n']

abbrev Gap := List SepPiece

def gapText (g : Gap) : List Char := g.flatMap SepPiece.text
def gapOK (g : Gap) : Bool := g.all SepPiece.ok
def gapIsWs (g : Gap) : Bool := g.all SepPiece.isWs
def gapBlank (g : Gap) : Gap := g.flatMap SepPiece.blank

/-! ### Items -/

/-- A segment of a chunk. -/
inductive Seg where
  | w (t : List Char)
  | n (t : List Char)
  | s (t : List Char)
  /-- a hex or bit string `x'0F'`, `b'01'`: the prefix `x` or `b` and the quoted string -/
  | p (c : Char) (t : List Char)
  deriving Repr, DecidableEq, Inhabited

def Seg.text : Seg → List Char
  | .w t => t
  | .n t => t
  | .s t => t
  | .p c t => c :: t

def Seg.norm : Seg → List Char
  | .w t => lower t
  | .n _ => ['?']
  | .s _ => ['?']
  | .p _ _ => ['?']

def segsText (l : List Seg) : List Char := l.flatMap Seg.text
def segsNorm (l : List Seg) : List Char := l.flatMap Seg.norm

/-- What precedes a segment inside its chunk. -/
inductive SegCtx where
  | start            -- the chunk begins here
  | afterW (a : Char)  -- word text ending with `a`
  | afterLit         -- a literal
  deriving Repr, DecidableEq, Inhabited

/-- May the word text `t` follow a number?  Its first character is none of
    the characters that continue a number or turn it into a word. -/
def notNumberish (c : Char) : Bool := !isNumberChar c && !isNotNumberChar c

/-- Shape and adjacency of the segments of a chunk: word text and literals
    alternate; a number follows `,`, `(` or an operator character (or begins
    the chunk); a quoted string follows any word character but `\`, `x`, `b`;
    word text after a literal begins with a character that cannot continue it. -/
def segsOK : SegCtx → List Seg → Bool
  | ctx, [] => ctx ≠ .start
  | ctx, .w t :: rest =>
    (match ctx with
      | .start => true
      | .afterLit => (match t with | c :: _ => notNumberish c | [] => false)
      | .afterW _ => false) &&
    wordShape t &&
    (match t.getLast? with
      | some a => segsOK (.afterW a) rest
      | none => false)
  | ctx, .n t :: rest =>
    (match ctx with
      | .start => true
      | .afterW a => litAfter a
      | .afterLit => false) &&
    numShape t &&
    (match rest with
      | [] => true
      | .w _ :: _ => true
      | _ => false) && segsOK .afterLit rest
  | ctx, .s t :: rest =>
    (match ctx with
      | .start => true
      | .afterW a => a ≠ '\\' && a ≠ 'x' && a ≠ 'b'
      | .afterLit => false) &&
    strShape t &&
    (match rest with
      | [] => true
      | .w _ :: _ => true
      | _ => false) && segsOK .afterLit rest
  | ctx, .p c t :: rest =>
    (match ctx with
      | .start => true
      | .afterW a => litAfter a
      | .afterLit => false) &&
    (c = 'x' || c = 'b') && strShape t &&
    (match rest with
      | [] => true
      | .w _ :: _ => true
      | _ => false) && segsOK .afterLit rest

/-- The context conditions of the word segments (`prev` = the previously copied text). -/
def segsCtx : List Char → List Seg → Bool
  | _, [] => true
  | prev, .w t :: rest => wordCtx prev t && segsCtx (lower t) rest
  | prev, _ :: rest => segsCtx prev rest

/-- Are we behind `ON DUPLICATE KEY UPDATE` after the segments?  (The state
    machine notices `update` only when white space ends it.) -/
def segsDupe : List Char → Bool → List Seg → Bool
  | _, d, [] => d
  | prev, d, [.w t] => d || keyUpd prev t
  | _, d, .w t :: rest => segsDupe (lower t) d rest
  | prev, d, _ :: rest => segsDupe prev d rest

/-- The previously copied text after the segments. -/
def segsPrev : List Char → List Seg → List Char
  | prev, [] => prev
  | _, .w t :: rest => segsPrev (lower t) rest
  | prev, _ :: rest => segsPrev prev rest

/-- A further row of a value list: `g1 , g2 ( content )`. -/
structure Row where
  g1 : Gap
  g2 : Gap
  content : List Char
  deriving Repr, DecidableEq, Inhabited

def Row.text (r : Row) : List Char := gapText r.g1 ++ ',' :: (gapText r.g2 ++ '(' :: (r.content ++ [')']))

inductive Item where
  | chunk (segs : List Seg)
  /-- `in (1, 2)`, `values('a', f(b)), (2, 3)`: the text is
      `kw ++ gap ++ "(" ++ content ++ ")" ++ rows` -/
  | vlist (kw : List Char) (gap : Gap) (content : List Char) (rows : List Row)
  deriving Repr, DecidableEq, Inhabited

def Item.text : Item → List Char
  | .chunk segs => segsText segs
  | .vlist kw gap content rows => kw ++ (gapText gap ++ '(' :: (content ++ ')' :: rows.flatMap Row.text))

/-- The normal form an item contributes to the fingerprint. -/
def Item.norm : Item → List Char
  | .chunk segs => segsNorm segs
  | .vlist kw _ content _ => lower kw ++ (if content.isEmpty then ['(', ')'] else ['(', '?', '+', ')'])

/-- The mode `blankComments` is in after a text. -/
def blankMode : BMode → List Char → BMode
  | m, [] => m
  | .mlcOpen, _ :: rest => blankMode (.mlc false) rest
  | .mlc ps, c :: rest => blankMode (if c = '/' ∧ ps = true then .code else .mlc (c = '*')) rest
  | .olc, c :: rest => blankMode (if c = '\n' then .code else .olc) rest
  | .quote qc esc, c :: rest =>
    blankMode (if esc then .quote qc false else if c = '\\' then .quote qc true
               else if c = qc then .code else .quote qc false) rest
  | .code, c :: rest =>
    if c = '\'' ∨ c = '"' then blankMode (.quote c false) rest
    else if c = '/' ∧ startsMlc rest = true then blankMode .mlcOpen rest
    else if c = '#' ∨ (c = '-' ∧ startsDash rest = true) then blankMode .olc rest
    else blankMode .code rest

/-- The content of a value list once its comments are blanked: `none` if a
    comment or a quoted value is still open at the closing parenthesis. -/
def contentBlank (content : List Char) : Option (List Char) :=
  if blankMode .code (content ++ [')']) = .code then some (blankGo .code (content ++ [')'])).dropLast else none

def contentOK (content : List Char) : Bool :=
  match contentBlank content with
  | some c' => listContentOK c'
  | none => false

def Row.ok (r : Row) : Bool := gapOK r.g1 && gapOK r.g2 && contentOK r.content

def kwShape (kw : List Char) : Bool :=
  wordShape kw && isValuesWord kw && kw.all (fun c => !isOpChar c && c ≠ '(')

def Item.shapeOK : Item → Bool
  | .chunk segs => segsOK .start segs
  | .vlist kw gap content rows => kwShape kw && gapOK gap && contentOK content && rows.all Row.ok

/-- The previously copied text after an item. -/
def Item.nextPrev (prev : List Char) : Item → List Char
  | .chunk segs => segsPrev prev segs
  | .vlist kw _ _ _ => lower kw

/-- Are we behind `ON DUPLICATE KEY UPDATE` after an item? -/
def Item.nextDupe (prev : List Char) (d : Bool) : Item → Bool
  | .chunk segs => segsDupe prev d segs
  | .vlist _ _ _ _ => d

/-- The context condition of one item (`prev` = the previously copied text,
    `d` = behind `ON DUPLICATE KEY UPDATE`, where there are no value lists). -/
def Item.ctxOK1 (prev : List Char) (d : Bool) : Item → Bool
  | .chunk segs => segsCtx prev segs
  | .vlist _ _ _ _ => !(decide (prev = kwCall)) && !d

def ctxOK : List Char → Bool → List Item → Bool
  | _, _, [] => true
  | prev, d, it :: rest => it.ctxOK1 prev d && ctxOK (it.nextPrev prev) (it.nextDupe prev d) rest

def Item.isList : Item → Bool
  | .vlist _ _ _ _ => true
  | _ => false

def Item.rows : Item → List Row
  | .vlist _ _ _ rows => rows
  | _ => []

/-- May the chunk follow a value list?  It begins with word text whose first
    character is neither an operator character, a parenthesis nor a comma
    (`and`, `or`, `)`, `order`, `on`, …). -/
def plainFirst (w : List Char) : Bool :=
  match w with
  | c :: _ => !isOpChar c && c ≠ '(' && c ≠ ','
  | [] => false

def Item.isPlain : Item → Bool
  | .chunk (.w t :: _) => plainFirst t
  | _ => false

/-- Separators: every item but a value list is followed by a non-empty
    separator; a value list of one row may be glued to the chunk that follows
    it (`(a in (1))`); what follows a value list is a chunk that begins with
    plain word text, or the end. -/
def sepsOK : List (Item × Gap) → Bool
  | [] => true
  | (it, sep) :: rest =>
    (if sep.isEmpty then it.isList && it.rows.isEmpty && !rest.isEmpty else true) &&
    (!it.isList ||
      (match rest with
       | [] => true
       | (nx, _) :: _ => nx.isPlain)) && sepsOK rest

def renderItems : List (Item × Gap) → List Char
  | [] => []
  | (it, s) :: rest => it.text ++ (gapText s ++ renderItems rest)

/-- The concatenated normal forms; one blank after each item that is followed
    by a separator. -/
def normAll : List (Item × Gap) → List Char
  | [] => []
  | (it, s) :: rest => it.norm ++ ((if s.isEmpty then [] else [' ']) ++ normAll rest)

/-- The skeleton: the blank-free tokens of the fingerprint (the normal form of
    an item, joined with that of the next item when no separator is between them). -/
def skelOf : List (Item × Gap) → List (List Char)
  | [] => []
  | (it, s) :: rest =>
    if s.isEmpty then
      match skelOf rest with
      | [] => [it.norm]
      | t :: ts => (it.norm ++ t) :: ts
    else it.norm :: skelOf rest

/-! ### Statements -/

/-- A statement: leading blanks/comments, items with their separators, the
    last item, and what follows it. -/
structure Stmt where
  lead : Gap
  init : List (Item × Gap)
  last : Item
  tail : Gap
  deriving Repr

namespace Stmt

def items (s : Stmt) : List Item := s.init.map (·.1) ++ [s.last]

/-- The text of the statement. -/
def text (s : Stmt) : List Char :=
  gapText s.lead ++ (renderItems s.init ++ (s.last.text ++ gapText s.tail))

/-- The separator after the last item once Go's `q += " "` is taken into account. -/
def lastSep (s : Stmt) : Gap := s.tail ++ [SepPiece.ws ' ']

def allItems (s : Stmt) : List (Item × Gap) := s.init ++ [(s.last, s.lastSep)]

/-- The skeleton: lower-cased word text, `?` for literals, `in(?+)` for value lists. -/
def skeleton (s : Stmt) : List (List Char) := skelOf s.allItems

/-- Every item and separator is well formed and no item is one of the words
    the fingerprint treats specially. -/
def ok (s : Stmt) : Bool :=
  gapOK s.lead && s.init.all (fun p => p.1.shapeOK && gapOK p.2) && s.last.shapeOK && gapOK s.tail &&
    ctxOK [] false s.items && sepsOK s.allItems

end Stmt

/-! ### Core statements: no comments (what the state machine reads after `blankComments`) -/

def wsGap (g : Gap) : Bool := gapOK g && gapIsWs g

def Row.core (r : Row) : Bool := wsGap r.g1 && wsGap r.g2 && listContentOK r.content

def Item.core : Item → Bool
  | .chunk segs => segsOK .start segs
  | .vlist kw gap content rows => kwShape kw && wsGap gap && listContentOK content && rows.all Row.core

def Stmt.core (s : Stmt) : Bool :=
  wsGap s.lead && s.init.all (fun p => p.1.core && wsGap p.2) && s.last.core && wsGap s.tail &&
    ctxOK [] false s.items && sepsOK s.allItems

/-! ### The statement `blankComments` makes of a statement -/

def Row.toCore (r : Row) : Row :=
  { g1 := gapBlank r.g1, g2 := gapBlank r.g2, content := (contentBlank r.content).getD r.content }

def Item.toCore : Item → Item
  | .chunk segs => .chunk segs
  | .vlist kw gap content rows =>
    .vlist kw (gapBlank gap) ((contentBlank content).getD content) (rows.map Row.toCore)

def Stmt.toCore (s : Stmt) : Stmt :=
  { lead := gapBlank s.lead
    init := s.init.map fun p => (p.1.toCore, gapBlank p.2)
    last := s.last.toCore
    tail := gapBlank s.tail }

/-- The skeleton joined by single blanks (one blank after every token). -/
def joinSkel : List (List Char) → List Char
  | [] => []
  | t :: rest => t ++ ' ' :: joinSkel rest

/-- The tokens joined by single blanks. -/
def joinSp : List (List Char) → List Char
  | [] => []
  | [t] => t
  | t :: u :: rest => t ++ ' ' :: joinSp (u :: rest)

end GaeaVerif.FingerprintGrammar
