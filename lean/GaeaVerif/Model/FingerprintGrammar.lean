import GaeaVerif.Model.Fingerprint
/-
  The token grammar of the C36 theorems (Props/C36.lean).

  A statement is a list of *items* — words (keywords, identifiers, operators,
  punctuation: everything the fingerprint copies in lower case), numeric
  literals and quoted strings — each followed by a *separator*: a non-empty
  run of white space in which complete comments (`/* … */`, `-- …⏎`, `# …⏎`)
  may be embedded after the first white-space character.  A *rendering*
  chooses the spelling of every item (letter case of words, value of every
  literal, quote character) and the text of every separator.  Core Lean only:
  the driver uses `coveredText` to tell which generated statements lie inside
  the grammar the theorems quantify over.
-/
namespace GaeaVerif.FingerprintGrammar
open GaeaVerif.Fingerprint

def isOpChar (c : Char) : Bool := c = '=' || c = '<' || c = '>' || c = '!'

/-- Characters that never occur inside a word item. -/
def wordBad (c : Char) : Bool :=
  isSpace c || c = '\'' || c = '"' || c = '/' || c = '+' || c = '-' || c = '#' || c = ':'

/-- May `b` follow `a` inside a word?  A digit must not follow `,`, `(` or an
    operator character (the state machine would start a number there), a dot
    or a parenthesis must not follow an operator character. -/
def okAfter (a b : Char) : Bool :=
  !wordBad b && (!isDigit b || !(a = ',' || a = '(' || isOpChar a)) && (!(b = '.') || !isOpChar a) &&
    (!(b = '(') || !isOpChar a)

def okFirst (b : Char) : Bool := !wordBad b && !isDigit b && !(b = '.')

def chainOK : Char → List Char → Bool
  | _, [] => true
  | a, b :: r => okAfter a b && chainOK b r

/-- No `(` of the word directly follows `in`, `value` or `values`
    (that would open a value list). -/
def parenOK (w : List Char) : Bool :=
  (List.range w.length).all fun k => !(decide (w[k]? = some '(')) || !isValuesWord (w.take k)

def wordShape (w : List Char) : Bool :=
  match w with
  | [] => false
  | c :: r => okFirst c && chainOK c r && parenOK w

/-- Conditions on a word that depend on the previously copied word `prev`:
    the word is none of the words the fingerprint treats specially
    (`use` in first position, `null` as a value, `asc`, `in`/`value`/`values`,
    a parenthesis after `call`, `update` after `key`). -/
def wordCtx (prev w : List Char) : Bool :=
  let lw := lower w
  !(decide (lw = kwUse) && decide (prev = [])) &&
  !(decide (lw = kwNull) && !(decide (prev = kwIs)) && !(decide (prev = kwNot))) &&
  !(decide (lw = kwNullComma)) && !isAscWord lw && !isValuesWord lw &&
  !(w.contains '(' && decide (prev = kwCall)) &&
  !(decide (prev = kwKey) && decide (lw = kwUpdate))

/-- A numeric literal as the state machine sees it: a digit followed by
    characters of `[0-9a-fA-F.x-]`. -/
def numShape (n : List Char) : Bool :=
  match n with
  | [] => false
  | c :: r => isDigit c && r.all isNumberChar

/-- Does the quoted text after the opening quote `c` end exactly with its
    closing quote?  (`esc`: the previous character was an unescaped backslash.) -/
def closesAt (c : Char) : Bool → List Char → Bool
  | _, [] => false
  | esc, x :: rest =>
    if x ≠ c then
      if esc then closesAt c false rest
      else if x = '\\' then closesAt c true rest
      else closesAt c false rest
    else if esc then closesAt c false rest
    else rest.isEmpty

def strShape (s : List Char) : Bool :=
  match s with
  | [] => false
  | c :: body => (c = '\'' || c = '"') && closesAt c false body

/-- Skip a quoted value inside a list (the text after the opening quote `c`):
    the rest after the closing quote. -/
def skipQuoted (c : Char) : Bool → List Char → Option (List Char)
  | _, [] => none
  | esc, x :: rest =>
    if x ≠ c then
      if esc then skipQuoted c false rest
      else if x = '\\' then skipQuoted c true rest
      else skipQuoted c false rest
    else if esc then skipQuoted c false rest
    else some rest

/-- The content of a value list between its parentheses, read at parenthesis
    depth `d` (1 = directly inside the list): quoted values are skipped, the
    parentheses are balanced, and no `)` closes the list before the end. -/
def listScan : Nat → Nat → List Char → Bool
  | 0, _, _ => false
  | _ + 1, d, [] => d == 1
  | fuel + 1, d, c :: rest =>
    if c = '\'' ∨ c = '"' then
      match skipQuoted c false rest with
      | none => false
      | some rest' => listScan fuel d rest'
    else if c = '(' then listScan fuel (d + 1) rest
    else if c = ')' then (if d ≤ 1 then false else listScan fuel (d - 1) rest)
    else listScan fuel d rest

def listContentOK (content : List Char) : Bool := listScan (content.length + 1) 1 content

/-- `IN`/`VALUE`/`VALUES`, optional white space, and a parenthesised list. -/
def listShape (kw gap content : List Char) : Bool :=
  wordShape kw && isValuesWord kw && kw.all (fun c => !isOpChar c && c ≠ '(') &&
    gap.all isSpace && listContentOK content

/-- The left part of an unspaced comparison (`id=`, `t.name>=`): a word that
    ends with an operator character. -/
def cmpShape (w : List Char) : Bool :=
  wordShape w && (match w.getLast? with | some c => isOpChar c | none => false) && !isValuesWord (lower w)

inductive Item where
  | word (w : List Char)
  | num (n : List Char)
  | str (s : List Char)
  /-- `id=1`: a word ending with an operator character, glued to a number -/
  | cmpNum (w : List Char) (n : List Char)
  /-- `name>='x'`: the same glued to a quoted string -/
  | cmpStr (w : List Char) (s : List Char)
  /-- `in (1, 2)`, `values('a', f(b))`: the text is `kw ++ gap ++ "(" ++ content ++ ")"` -/
  | vlist (kw gap content : List Char)
  deriving Repr, DecidableEq, Inhabited

def Item.text : Item → List Char
  | .word w => w
  | .num n => n
  | .str s => s
  | .cmpNum w n => w ++ n
  | .cmpStr w s => w ++ s
  | .vlist kw gap content => kw ++ gap ++ '(' :: content ++ [')']

/-- The normal form an item contributes to the fingerprint. -/
def Item.norm : Item → List Char
  | .word w => lower w
  | .num _ => ['?']
  | .str _ => ['?']
  | .cmpNum w _ => lower w ++ ['?']
  | .cmpStr w _ => lower w ++ ['?']
  | .vlist kw _ content => lower kw ++ (if content.isEmpty then ['(', ')'] else ['(', '?', '+', ')'])

def Item.shapeOK : Item → Bool
  | .word w => wordShape w
  | .num n => numShape n
  | .str s => strShape s
  | .cmpNum w n => cmpShape w && numShape n
  | .cmpStr w s => cmpShape w && strShape s
  | .vlist kw gap content => listShape kw gap content

/-- The previously copied word after an item. -/
def Item.nextPrev (prev : List Char) : Item → List Char
  | .word w => lower w
  | .cmpNum w _ => lower w
  | .cmpStr w _ => lower w
  | .vlist kw _ _ => lower kw
  | _ => prev

/-- The context condition of one item (`prev` = the previously copied word). -/
def Item.ctxOK1 (prev : List Char) : Item → Bool
  | .word w => wordCtx prev w
  | .cmpNum w _ => !(w.contains '(' && decide (prev = kwCall))
  | .cmpStr w _ => !(w.contains '(' && decide (prev = kwCall))
  | .vlist _ _ _ => !(decide (prev = kwCall))
  | _ => true

def ctxOK : List Char → List Item → Bool
  | _, [] => true
  | prev, it :: rest => it.ctxOK1 prev && ctxOK (it.nextPrev prev) rest

/-! ### Separators -/

/-- Body of a `/* … */` comment after the opening `/*`: its first `*/` is its end. -/
def mlcTail : List Char → Bool
  | [] => false
  | [_] => false
  | a :: b :: rest => if a = '*' ∧ b = '/' then rest.isEmpty else mlcTail (b :: rest)

/-- A one-line comment body: no newline but the final one. -/
def lineTail : List Char → Bool
  | [] => false
  | c :: rest => if c = '\n' then rest.isEmpty else lineTail rest

/-- One piece of a separator after its first white-space character. -/
inductive SepPiece where
  | ws (c : Char)
  | mlc (body : List Char)      -- the text is `/*` ++ body, body ends with `*/`
  | dash (c : Char) (body : List Char)  -- `--` ++ [c] ++ body, body ends with the newline
  | hash (body : List Char)     -- `#` ++ body
  deriving Repr, DecidableEq, Inhabited

def SepPiece.text : SepPiece → List Char
  | .ws c => [c]
  | .mlc body => '/' :: '*' :: body
  | .dash c body => '-' :: '-' :: c :: body
  | .hash body => '#' :: body

def SepPiece.ok : SepPiece → Bool
  | .ws c => isSpace c
  | .mlc body => mlcTail body && !(body.head? = some '!')
  | .dash c body => (c = ' ' || c = '\t' || c = '\r') && lineTail body
  | .hash body => lineTail body

/-- A separator: a white-space character, then white space and complete comments. -/
structure Sep where
  first : Char
  pieces : List SepPiece
  deriving Repr, DecidableEq, Inhabited

def Sep.text (s : Sep) : List Char := s.first :: s.pieces.flatMap SepPiece.text
def Sep.ok (s : Sep) : Bool := isSpace s.first && s.pieces.all SepPiece.ok

/-- May the word follow a value list?  Its first character is neither an
    operator character, a parenthesis nor a comma. -/
def plainFirst (w : List Char) : Bool :=
  match w with
  | c :: _ => !isOpChar c && c ≠ '(' && c ≠ ','
  | [] => false

def Item.isList : Item → Bool
  | .vlist _ _ _ => true
  | _ => false

/-- After a value list only white space may follow (no comment), and the next
    item, if any, is a word that begins with neither an operator character, a
    parenthesis nor a comma (`and`, `or`, `)`, `order`, `on`, …). -/
def listsOK : List (Item × Sep) → Bool
  | [] => true
  | (it, sep) :: rest =>
    (!it.isList ||
      (sep.pieces.all (fun p => match p with | .ws _ => true | _ => false) &&
        (match rest with
         | [] => true
         | (.word w, _) :: _ => plainFirst w
         | _ => false))) && listsOK rest

/-- The text of a rendering: leading separator pieces, then every item with its separator. -/
def renderItems : List (Item × Sep) → List Char
  | [] => []
  | (it, s) :: rest => it.text ++ s.text ++ renderItems rest

/-- The concatenated normal forms, one blank after each. -/
def normAll : List Item → List Char
  | [] => []
  | it :: rest => it.norm ++ ' ' :: normAll rest

/-! ### Statements of the grammar -/

/-- A statement: leading blanks/comments, items with their separators, the
    last item, and what follows it (nothing, or a separator). -/
structure Stmt where
  lead : List SepPiece
  init : List (Item × Sep)
  last : Item
  tail : Option Sep
  deriving Repr

namespace Stmt

def items (s : Stmt) : List Item := s.init.map (·.1) ++ [s.last]

/-- The text of the statement. -/
def text (s : Stmt) : List Char :=
  s.lead.flatMap SepPiece.text ++ renderItems s.init ++ s.last.text ++
    (match s.tail with | none => [] | some t => t.text)

/-- The skeleton: lower-cased words, `?` for literals. -/
def skeleton (s : Stmt) : List (List Char) := s.items.map Item.norm

/-- The separator after the last item once Go's `q += " "` is taken into account. -/
def lastSep (s : Stmt) : Sep :=
  match s.tail with
  | none => { first := ' ', pieces := [] }
  | some t => { first := t.first, pieces := t.pieces ++ [SepPiece.ws ' '] }

def allItems (s : Stmt) : List (Item × Sep) := s.init ++ [(s.last, s.lastSep)]

/-- Every item and separator is well formed and no item is one of the words
    the fingerprint treats specially. -/
def ok (s : Stmt) : Bool :=
  s.lead.all SepPiece.ok && s.init.all (fun p => p.1.shapeOK && p.2.ok) && s.last.shapeOK &&
    (match s.tail with | none => true | some t => t.ok) && ctxOK [] s.items &&
    listsOK s.allItems


end Stmt

/-- The skeleton joined by single blanks (one blank after every token). -/
def joinSkel : List (List Char) → List Char
  | [] => []
  | t :: rest => t ++ ' ' :: joinSkel rest

/-- The tokens joined by single blanks. -/
def joinSp : List (List Char) → List Char
  | [] => []
  | [t] => t
  | t :: u :: rest => t ++ ' ' :: joinSp (u :: rest)

end GaeaVerif.FingerprintGrammar
